/-
  C09 for declarations and whole programs: type expressions, type / parameter / variable / procedure declarations,
  and the program (declarations separated by an empty line).
-/
import SplVerif.Lemmas.FmtStmt

namespace Spl.Fmt
open Spl.Feat Spl.Parse

theorem fmtType_named (S : Slice) (id : Identifier) : fmtType S (.named id) = .ok id.value := by
  simp [fmtType]

theorem fmtType_array (S : Slice) (size : Option IntLiteral) (base : OptType) (i : AstInfo) :
    fmtType S (.array size base i) =
      match (match size with
        | some l => fmtIntLit l S
        | none => (.ok [] : R)) with
      | .error e => .error e
      | .ok s =>
        match base with
        | .none => .ok (chars "array [" ++ s ++ chars "] of")
        | .some t o =>
          match from' S o with
          | .error p => .error p
          | .ok sl => (fmtType sl t).map (fun b => chars "array [" ++ s ++ chars "] of " ++ b) := by
  rw [fmtType.eq_def]; rfl

end Spl.Fmt

namespace Spl.FmtDecl
open Spl Spl.Grammar Spl.Fmt Spl.FmtLex Spl.Feat Spl.FmtExpr Spl.FmtStmt

variable (c : Ctx)

/-! ### type expressions -/

def TGood (t : TypeExpr) (sp : Span) : Prop :=
  sp.first ≤ sp.last ∧ sp.last < c.g.all.size ∧ t.info.range.lo = sp.first ∧
  ∀ S : Slice, SOK c S → S.lo ≤ sp.first →
    ∃ s, fmtType S (relType S.lo t) = .ok s ∧ PDel s (tysOf c sp.first (sp.last + 1)) ∧ NoNL s ∧ s ≠ [] ∧
      s.getLast? ≠ some '\r'

theorem intLit_fmt (i : Nat) (tk : Token) (v : Option Nat) (htk : c.g.all[i]? = some tk)
    (hk : tk.ty.kind = .Int ∨ tk.ty.kind = .Hex ∨ tk.ty.kind = .Char) (S : Slice) (hS : SOK c S) (hlo : S.lo ≤ i) :
    fmtIntLit (relIntLit S.lo { value := v, info := mkInfo c.g i i }) S = .ok (Parse.displayToken tk.ty) := by
  obtain ⟨S', es, el⟩ := sub_one c hS i tk hlo htk
  have hfind : [tk].find? (fun t => t.kind == .Int || t.kind == .Hex || t.kind == .Char) = some tk := by
    have : (tk.kind == Kind.Int || tk.kind == Kind.Hex || tk.kind == Kind.Char) = true := by
      simp only [Token.kind]
      rcases hk with h | h | h <;> simp [h]
    simp [List.find?, this]
  simp only [relIntLit, relInfo, mkInfo_nc, fmtIntLit, es, el, hfind]

theorem intLitTok_al {ts r : Toks} {l : IntLiteral} {k st : Nat} (h : intLitTok c.g ts = some (l, k, r)) (hal : Al c st ts) :
    k = st ∧ (∃ tk v, c.g.all[st]? = some tk ∧ (tk.ty.kind = .Int ∨ tk.ty.kind = .Hex ∨ tk.ty.kind = .Char) ∧
      l = { value := v, info := mkInfo c.g st st }) ∧ Al c (st + 1) r := by
  cases ts with
  | nil => simp [intLitTok] at h
  | cons t r' =>
    obtain ⟨ti, tty⟩ := t
    obtain ⟨hidx, ⟨tk, htk, hty⟩, al1⟩ := hal
    dsimp only at hidx hty
    subst hidx
    cases tty with
    | Int iv =>
      cases iv with
      | Int v =>
        simp only [intLitTok, Option.some.injEq, Prod.mk.injEq] at h
        obtain ⟨rfl, rfl, rfl⟩ := h
        exact ⟨rfl, ⟨tk, some v, htk, Or.inl (by rw [hty]; rfl), rfl⟩, al1⟩
      | Err _ => simp [intLitTok] at h
    | Hex iv =>
      cases iv with
      | Int v =>
        simp only [intLitTok, Option.some.injEq, Prod.mk.injEq] at h
        obtain ⟨rfl, rfl, rfl⟩ := h
        exact ⟨rfl, ⟨tk, some v, htk, Or.inr (Or.inl (by rw [hty]; rfl)), rfl⟩, al1⟩
      | Err _ => simp [intLitTok] at h
    | Char ch =>
      simp only [intLitTok] at h
      by_cases hc : ch.toNat < 256
      · simp only [hc, if_true, Option.some.injEq, Prod.mk.injEq] at h
        obtain ⟨rfl, rfl, rfl⟩ := h
        exact ⟨rfl, ⟨tk, some ch.toNat, htk, Or.inr (Or.inr (by rw [hty]; rfl)), rfl⟩, al1⟩
      · simp [hc] at h
    | _ => simp [intLitTok] at h

theorem identTok_al {ts r : Toks} {s : List Char} {i st : Nat} (h : identTok ts = some (i, s, r)) (hal : Al c st ts) :
    i = st ∧ (∃ tk, c.g.all[st]? = some tk ∧ tk.ty = .Ident s) ∧ Al c (st + 1) r := by
  cases ts with
  | nil => simp [identTok] at h
  | cons t r' =>
    obtain ⟨ti, tty⟩ := t
    obtain ⟨hidx, ⟨tk, htk, hty⟩, al1⟩ := hal
    dsimp only at hidx hty
    cases tty with
    | Ident nm =>
      simp only [identTok, Option.some.injEq, Prod.mk.injEq] at h
      obtain ⟨rfl, rfl, rfl⟩ := h
      exact ⟨hidx, ⟨tk, htk, hty⟩, al1⟩
    | _ => simp [identTok] at h

/-- the printed name of an identifier token -/
theorem ident_piece (i : Nat) (s : List Char) (tk : Token) (htk : c.g.all[i]? = some tk) (hty : tk.ty = .Ident s) :
    PDel s [.Ident s] ∧ NoNL s ∧ s ≠ [] ∧ s.getLast? ≠ some '\r' := by
  obtain ⟨pd, nn, ne⟩ := p_display tk.ty (c.wf i tk htk) (Or.inl (by rw [hty]; rfl))
  rw [hty] at pd nn ne
  refine ⟨pd, nn, ne, ?_⟩
  intro e
  have hm := List.mem_of_getLast? e
  have hwf := c.wf i tk htk
  rw [hty] at hwf
  cases s with
  | nil => cases hm
  | cons ch tl =>
    simp only [tokWF, Bool.and_eq_true, List.all_eq_true] at hwf
    rcases List.mem_cons.mp hm with h | h
    · have := hwf.1.1; rw [← h] at this; revert this; decide
    · have := hwf.1.2 _ h; revert this; decide

theorem p_array : PDel (chars "array") [.Array] := p_kw _ _ 'a' ['r', 'r', 'a', 'y'] rfl (by decide) (by decide) (by decide)
theorem p_of : PDel (chars "of") [.Of] := p_kw _ _ 'o' ['f'] rfl (by decide) (by decide) (by decide)

theorem p_array_open : PAny (chars "array [") [.Array, .LBracket] := by
  have := pdel_seq (C := fun _ => True) p_array ⟨' ', _, rfl, by decide⟩ (pany_seq p_space p_lbracket)
  simpa [chars] using this

theorem p_close_of : PAny (chars "] of ") [.RBracket, .Of] := by
  have := pany_seq (C := fun _ => True) p_rbracket (pany_seq p_space (pdel_seq p_of ⟨' ', [], rfl, by decide⟩ p_space))
  simpa [chars] using this

theorem typeExpr_good : ∀ (fuel : Nat) (ts : Toks) (t : TypeExpr) (sp : Span) (rest : Toks) (st : Nat),
    typeExpr c.g fuel ts = some (t, sp, rest) → Al c st ts → TGood c t sp ∧ sp.first = st ∧ Al c (sp.last + 1) rest
  | 0, ts, t, sp, rest, st, hs, _ => by simp [Grammar.typeExpr] at hs
  | fuel + 1, ts, t, sp, rest, st, hs, hal => by
    by_cases harr : ∃ i r, ts = ⟨i, .Array⟩ :: r
    · obtain ⟨i, r, rfl⟩ := harr
      simp only [Grammar.typeExpr] at hs
      obtain ⟨hidx, ⟨tk, htk, hty⟩, al1⟩ := al_head c hal
      dsimp only at hidx hty
      subst hidx
      cases h1 : expectK .LBracket r with
      | none => simp [h1] at hs
      | some res =>
        obtain ⟨j1, r1⟩ := res
        simp only [h1] at hs
        obtain ⟨_, ⟨tk1, htk1, hty1⟩, a1⟩ := expectK_al c (p := .LBracket) rfl h1 al1
        cases h2 : intLitTok c.g r1 with
        | none => simp [h2] at hs
        | some res2 =>
          obtain ⟨sz, k, r2⟩ := res2
          simp only [h2] at hs
          obtain ⟨_, ⟨tk2, v, htk2, hk2, rfl⟩, a2⟩ := intLitTok_al c h2 a1
          cases h3 : expectK .RBracket r2 with
          | none => simp [h3] at hs
          | some res3 =>
            obtain ⟨j3, r3⟩ := res3
            simp only [h3] at hs
            obtain ⟨_, ⟨tk3, htk3, hty3⟩, a3⟩ := expectK_al c (p := .RBracket) rfl h3 a2
            cases h4 : expectK .Of r3 with
            | none => simp [h4] at hs
            | some res4 =>
              obtain ⟨j4, r4⟩ := res4
              simp only [h4] at hs
              obtain ⟨_, ⟨tk4, htk4, hty4⟩, a4⟩ := expectK_al c (p := .Of) rfl h4 a3
              cases h5 : typeExpr c.g fuel r4 with
              | none => simp [h5] at hs
              | some res5 =>
                obtain ⟨b, sb, r5⟩ := res5
                simp only [h5, Option.some.injEq, Prod.mk.injEq] at hs
                obtain ⟨rfl, rfl, rfl⟩ := hs
                obtain ⟨gb, fb, ab⟩ := typeExpr_good fuel r4 b sb r5 (i + 1 + 1 + 1 + 1 + 1) h5 a4
                refine ⟨?_, rfl, ab⟩
                obtain ⟨b1, b2, b3, b4⟩ := gb
                refine ⟨by dsimp only; omega, b2, by simp [TypeExpr.info, mkInfo_nc], ?_⟩
                intro S hS hlo
                dsimp only at hlo
                obtain ⟨pd, nn, ne⟩ := p_display tk2.ty (c.wf _ tk2 htk2) (Or.inr hk2)
                obtain ⟨S', ef, hS', hlo'⟩ := from_ok c hS (b.info.range.lo - S.lo) (by rw [b3]; omega)
                have hlo'' : S'.lo = b.info.range.lo := by rw [hlo', b3]; omega
                obtain ⟨bs, e2, p2, n2, ne2, l2⟩ := b4 S' hS' (by rw [hlo'', b3]; exact Nat.le_refl _)
                rw [hlo''] at e2
                refine ⟨chars "array [" ++ Parse.displayToken tk2.ty ++ chars "] of " ++ bs, ?_, ?_, ?_, by simp [chars], ?_⟩
                · simp only [relType, relOptType, Option.map, fmtType_array, intLit_fmt c _ tk2 v htk2 hk2 S hS (by omega), ef, e2,
                    Except.map]
                · have hty' : tysOf c i (sb.last + 1) =
                      [TokenType.Array, .LBracket] ++ ([tk2.ty] ++ ([TokenType.RBracket, .Of] ++ tysOf c sb.first (sb.last + 1))) := by
                    rw [tysOf_split c i (i + 1) (sb.last + 1) (by omega) (by omega), tysOf_one c i tk htk, hty,
                      tysOf_split c (i + 1) (i + 2) (sb.last + 1) (by omega) (by omega), tysOf_one c (i + 1) tk1 htk1, hty1,
                      tysOf_split c (i + 2) (i + 3) (sb.last + 1) (by omega) (by omega), tysOf_one c (i + 2) tk2 htk2,
                      tysOf_split c (i + 3) (i + 4) (sb.last + 1) (by omega) (by omega), tysOf_one c (i + 3) tk3 htk3, hty3,
                      tysOf_split c (i + 4) (i + 5) (sb.last + 1) (by omega) (by omega), tysOf_one c (i + 4) tk4 htk4, hty4, fb]
                    simp
                  dsimp only
                  rw [hty', List.append_assoc, List.append_assoc]
                  exact pany_seq p_array_open (pdel_seq pd ⟨']', _, rfl, by decide⟩ (pany_seq p_close_of p2))
                · exact noNL_append (noNL_append (noNL_append (noNL_of_b (by decide)) nn) (noNL_of_b (by decide))) n2
                · rw [getLast_append_ne _ _ ne2]; exact l2
    · have hs' : (match identTok ts with
          | some (i, s, r) => some (TypeExpr.named (mkIdent c.g i s), (⟨i, i⟩ : Span), r)
          | none => none) = some (t, sp, rest) := by
        cases ts with
        | nil => simp [Grammar.typeExpr, identTok] at hs
        | cons t0 r =>
          obtain ⟨i0, ty0⟩ := t0
          cases ty0 with
          | Array => exact absurd ⟨i0, r, rfl⟩ harr
          | _ => simp only [Grammar.typeExpr] at hs; exact hs
      cases h1 : identTok ts with
      | none => rw [h1] at hs'; simp at hs'
      | some res =>
        obtain ⟨i, s, r⟩ := res
        rw [h1] at hs'
        simp only [Option.some.injEq, Prod.mk.injEq] at hs'
        obtain ⟨rfl, rfl, rfl⟩ := hs'
        obtain ⟨hi, ⟨tk, htk, hty⟩, a1⟩ := identTok_al c h1 hal
        subst hi
        have hsz := (Array.getElem?_eq_some_iff.mp htk).1
        obtain ⟨pd, nn, ne, ll⟩ := ident_piece c i s tk htk hty
        refine ⟨⟨Nat.le_refl _, hsz, by simp [TypeExpr.info, mkIdent, mkInfo_nc], ?_⟩, rfl, a1⟩
        intro S hS hlo
        refine ⟨s, by simp [relType, relIdent, mkIdent, fmtType_named], ?_, nn, ne, ll⟩
        dsimp only
        rw [tysOf_one c i tk htk, hty]
        exact pd


theorem refType_fmt (t : TypeExpr) (sp : Span) (ht : TGood c t sp) (S : Slice) (hS : SOK c S) (hlo : S.lo ≤ sp.first) :
    ∃ s, fmtOptRefType S (some (relRefType S.lo (refAbs t))) = .ok s ∧ PDel s (tysOf c sp.first (sp.last + 1)) ∧ NoNL s ∧
      s ≠ [] ∧ s.getLast? ≠ some '\r' := by
  obtain ⟨b1, b2, b3, b4⟩ := ht
  obtain ⟨S', ef, hS', hlo'⟩ := from_ok c hS (t.info.range.lo - S.lo) (by rw [b3]; omega)
  have hlo'' : S'.lo = t.info.range.lo := by rw [hlo', b3]; omega
  obtain ⟨bs, e2, p2, n2, ne2, l2⟩ := b4 S' hS' (by rw [hlo'', b3]; exact Nat.le_refl _)
  rw [hlo''] at e2
  exact ⟨bs, by simp only [fmtOptRefType, relRefType, refAbs, ef, e2], p2, n2, ne2, l2⟩

/-! ### type declarations -/

theorem p_type_sp : PAny (chars "type ") [.Type] := by
  have := pdel_seq (C := fun _ => True) (p_kw (chars "type") .Type 't' ['y', 'p', 'e'] rfl (by decide) (by decide) (by decide))
    ⟨' ', [], rfl, by decide⟩ p_space
  simpa [chars] using this

theorem p_sp_eq_sp : PAny (chars " = ") [.Eq] := by
  have := pany_seq (C := fun _ => True) p_space (pany_seq p_eq p_space)
  simpa [chars] using this

/-- `type name = T;` -/
theorem typeDecl_fmt (o : Options) (i : Nat) (nm : List Char) (t : TypeExpr) (st : Span) (doc : List (List Char))
    (tk tk1 tk2 tk3 : Token)
    (htk : c.g.all[i]? = some tk) (hty : tk.ty = .Type)
    (htk1 : c.g.all[i + 1]? = some tk1) (hty1 : tk1.ty = .Ident nm)
    (htk2 : c.g.all[i + 2]? = some tk2) (hty2 : tk2.ty = .Eq)
    (ht : TGood c t st) (hst : st.first = i + 3)
    (htk3 : c.g.all[st.last + 1]? = some tk3) (hty3 : tk3.ty = .Semic)
    (S : Slice) (hS : SOK c S) (hlo : S.lo = i) :
    ∃ ls, fmtGlobalDecl o (relDecl (refAbs (.type (TypeDecl.mk doc (some (mkIdent c.g (i + 1) nm)) (some (refAbs t)) (mkInfo c.g i (st.last + 1)))))).val S = .ok (render ls) ∧
      (relDecl (refAbs (.type (TypeDecl.mk doc (some (mkIdent c.g (i + 1) nm)) (some (refAbs t)) (mkInfo c.g i (st.last + 1)))))).offset = i ∧
      (∀ l ∈ ls, LineOK l) ∧ ls ≠ [] ∧ typesOf ls = tysOf c i (st.last + 2) := by
  subst hlo
  have hst1 := ht.1
  have hsz := (Array.getElem?_eq_some_iff.mp htk3).1
  obtain ⟨te, e1, p1, n1, ne1, l1⟩ := refType_fmt c t st ht S hS (by omega)
  obtain ⟨pn, nn, nne, _⟩ := ident_piece c (S.lo + 1) nm tk1 htk1 hty1
  obtain ⟨S', es, hnc⟩ := sub_ok c hS S.lo (st.last + 1 + 1) (by omega) (by omega) (by omega)
  have hty' : tysOf c S.lo (st.last + 2) =
      [TokenType.Type] ++ ([TokenType.Ident nm] ++ ([TokenType.Eq] ++ (tysOf c st.first (st.last + 1) ++ [TokenType.Semic]))) := by
    rw [tysOf_split c S.lo (S.lo + 1) (st.last + 2) (by omega) (by omega), tysOf_one c S.lo tk htk, hty,
      tysOf_split c (S.lo + 1) (S.lo + 2) (st.last + 2) (by omega) (by omega), tysOf_one c (S.lo + 1) tk1 htk1, hty1,
      tysOf_split c (S.lo + 2) (S.lo + 3) (st.last + 2) (by omega) (by omega), tysOf_one c (S.lo + 2) tk2 htk2, hty2,
      tysOf_split c (S.lo + 3) (st.last + 1) (st.last + 2) (by omega) (by omega),
      tysOf_one c (st.last + 1) tk3 htk3, hty3, hst]
  refine ⟨[⟨chars "type " ++ (nm ++ (chars " = " ++ (te ++ [';']))), tysOf c S.lo (st.last + 2)⟩], ?_, ?_, ?_, by simp, by simp⟩
  · simp only [relDecl, refAbs, GlobalDecl.info, mkInfo_nc, Option.map, relIdent, mkIdent, relInfo, fmtGlobalDecl, fmtTypeDecl]
    simp only [refAbs] at e1
    rw [e1]
    simp only [es, Except.map, addLead_nc _ _ hnc]
    simp [chars]
  · simp [relDecl, refAbs, GlobalDecl.info, mkInfo_nc]
  · intro l hl
    simp only [List.mem_singleton] at hl; subst hl
    refine line_ok_of _ _ ';' (chars "type " ++ (nm ++ (chars " = " ++ te))) (by simp) (by decide) ?_ ?_
    · exact noNL_append (noNL_of_b (by decide)) (noNL_append nn (noNL_append (noNL_of_b (by decide))
        (noNL_append n1 (noNL_of_b (by decide)))))
    · rw [hty']
      exact pany_pdel (pany_seq p_type_sp (pdel_seq pn ⟨' ', _, rfl, by decide⟩ (pany_seq p_sp_eq_sp
        (pdel_seq p1 ⟨';', [], rfl, by decide⟩ p_semic))))


/-! ### parameters -/

/-- the text of one parameter as `fmtProcDecl` computes it -/
def paramText (S : Slice) (prm : Ref ParamDecl) : Except Panic (List Char) :=
  match from' S prm.offset with
  | .error p => .error p
  | .ok sl =>
    match fmtParamDecl prm.val sl, sliceOfInfo sl prm.val.info with
    | .ok s, .ok ts => .ok (addAllComments s ts)
    | .error p, _ => .error p
    | _, .error p => .error p

theorem p_ref_sp : PAny (chars "ref ") [.Ref] := by
  have := pdel_seq (C := fun _ => True) (p_kw (chars "ref") .Ref 'r' ['e', 'f'] rfl (by decide) (by decide) (by decide))
    ⟨' ', [], rfl, by decide⟩ p_space
  simpa [chars] using this

/-- one parameter: a line-like piece (text, types) that `paramText` prints from every enclosing slice -/
def PGood (p : ParamDecl) (a b : Nat) : Prop :=
  a ≤ b ∧ b < c.g.all.size ∧ p.info.range.lo = a ∧
  ∀ S : Slice, SOK c S → S.lo ≤ a →
    ∃ l : Line, paramText S (relParam S.lo (refAbs p)) = .ok l.text ∧ LineOK l ∧ l.text ≠ [] ∧ l.tys = tysOf c a (b + 1)

theorem param_core (isRef : Bool) (f i0 : Nat) (hrel : (isRef = true ∧ i0 = f + 1) ∨ (isRef = false ∧ i0 = f))
    (pre : List Char) (pty : List TokenType) (hpre : PAny pre pty) (hpren : NoNL pre) (hprety : tysOf c f i0 = pty)
    (hpreq : pre = (if isRef then chars "ref " else []))
    (ts1 : Toks) (hal1 : Al c i0 ts1) (i : Nat) (s : List Char) (r0 : Toks) (h1 : identTok ts1 = some (i, s, r0))
    (j2 : Nat) (r1 : Toks) (h2 : expectK .Colon r0 = some (j2, r1))
    (t : TypeExpr) (stt : Span) (r2 : Toks) (h3 : typeExpr c.g (2 * r1.length + 4) r1 = some (t, stt, r2)) :
    ∃ last, PGood c (ParamDecl.valid (docOf c.g f) isRef
        (some (if isRef then mkIdent c.g i s else { value := s, info := { range := ⟨i, i + 1⟩ } }))
        (some (refAbs t)) (mkInfo c.g f stt.last)) f last ∧ Al c (last + 1) r2 := by
  obtain ⟨hi, ⟨tk, htk, hty⟩, a1⟩ := identTok_al c h1 hal1
  subst hi
  obtain ⟨_, ⟨tk2, htk2, hty2⟩, a2⟩ := expectK_al c (p := .Colon) rfl h2 a1
  obtain ⟨gt, ft, at3⟩ := typeExpr_good c _ r1 t stt r2 _ h3 a2
  have hst1 := gt.1
  have hfi : f ≤ i ∧ i ≤ f + 1 := by rcases hrel with ⟨_, h⟩ | ⟨_, h⟩ <;> omega
  refine ⟨stt.last, ⟨by omega, gt.2.1, by simp [ParamDecl.info, mkInfo_nc], ?_⟩, at3⟩
  intro S hS hlo
  obtain ⟨S', ef, hS', hlo'⟩ := from_ok c hS (f - S.lo) (by have := gt.2.1; omega)
  have hlo'' : S'.lo = f := by omega
  obtain ⟨te, e1, p1, n1, ne1, l1⟩ := refType_fmt c t stt gt S' hS' (by omega)
  obtain ⟨pn, nn, nne, _⟩ := ident_piece c i s tk htk hty
  obtain ⟨S'', es, hnc⟩ := sub_ok c hS' f (stt.last + 1) (by omega) (by omega) (by have := gt.2.1; omega)
  have hname : optIdent (Option.map (relIdent f)
      (some (if isRef = true then mkIdent c.g i s else { value := s, info := { range := ⟨i, i + 1⟩ } }))) = s := by
    cases isRef <;> simp [optIdent, relIdent, mkIdent]
  refine ⟨⟨pre ++ (s ++ ([':', ' '] ++ te)), tysOf c f (stt.last + 1)⟩, ?_, ?_, by simp [nne], rfl⟩
  · simp only [paramText, relParam, refAbs, ParamDecl.info, mkInfo_nc, ef]
    rw [hlo''] at e1 es
    simp only [refAbs] at e1
    simp only [fmtParamDecl, sliceOfInfo, relInfo, Option.map]
    rw [e1, es]
    simp only [Except.map, addAll_nc _ _ hnc, hpreq]
    simp only [Option.map] at hname
    simp [chars, hname]
  · refine ⟨noNL_append hpren (noNL_append nn (noNL_append (noNL_of_b (by decide)) n1)), ?_, ?_⟩
    · rw [getLast_append_ne _ _ (by simp [nne]), getLast_append_ne _ _ (by simp), getLast_append_ne _ _ ne1]
      exact l1
    · have hty' : tysOf c f (stt.last + 1) = pty ++ ([TokenType.Ident s] ++ ([TokenType.Colon] ++ tysOf c stt.first (stt.last + 1))) := by
        rw [← hprety, tysOf_split c f i (stt.last + 1) (by omega) (by omega),
          tysOf_split c i (i + 1) (stt.last + 1) (by omega) (by omega), tysOf_one c i tk htk, hty,
          tysOf_split c (i + 1) (i + 1 + 1) (stt.last + 1) (by omega) (by omega), tysOf_one c (i + 1) tk2 htk2, hty2, ft]
      dsimp only
      rw [hty']
      exact pany_seq hpre (pdel_seq pn ⟨':', _, rfl, by decide⟩ (pany_seq p_colon p1))

theorem param_good (ts : Toks) (p : ParamDecl) (r : Toks) (st : Nat) (h : param c.g ts = some (p, r)) (hal : Al c st ts) :
    ∃ last, PGood c p st last ∧ Al c (last + 1) r := by
  have tail : ∀ (isRef : Bool) (first : Option Nat) (ts1 : Toks) (f i0 : Nat),
      (isRef = true ∧ i0 = f + 1 ∧ first = some f) ∨ (isRef = false ∧ i0 = f ∧ first = none) →
      ∀ (pre : List Char) (pty : List TokenType), PAny pre pty → NoNL pre → tysOf c f i0 = pty →
      pre = (if isRef then chars "ref " else []) → Al c i0 ts1 →
      (match identTok ts1 with
        | none => none
        | some (i, s, r) =>
          match expectK .Colon r with
          | none => none
          | some (_, r1) =>
            match typeExpr c.g (2 * r1.length + 4) r1 with
            | none => none
            | some (t, st, r2) =>
              let f := first.getD i
              let name : Identifier := if isRef then mkIdent c.g i s else { value := s, info := { range := ⟨i, i + 1⟩ } }
              some (ParamDecl.valid (docOf c.g f) isRef (some name) (some (refAbs t)) (mkInfo c.g f st.last), r2)) = some (p, r) →
      ∃ last, PGood c p f last ∧ Al c (last + 1) r := by
    intro isRef first ts1 f i0 hrel pre pty hpre hpren hprety hpreq hal1 hs
    cases h1 : identTok ts1 with
    | none => rw [h1] at hs; simp at hs
    | some res =>
      obtain ⟨i, s, r0⟩ := res
      rw [h1] at hs
      simp only at hs
      cases h2 : expectK .Colon r0 with
      | none => rw [h2] at hs; simp at hs
      | some res2 =>
        obtain ⟨j2, r1⟩ := res2
        rw [h2] at hs
        simp only at hs
        cases h3 : typeExpr c.g (2 * r1.length + 4) r1 with
        | none => rw [h3] at hs; simp at hs
        | some res3 =>
          obtain ⟨t, stt, r2⟩ := res3
          rw [h3] at hs
          simp only [Option.some.injEq, Prod.mk.injEq] at hs
          obtain ⟨rfl, rfl⟩ := hs
          have hi := (identTok_al c h1 hal1).1
          have hf : first.getD i = f := by
            rcases hrel with ⟨_, _, h⟩ | ⟨_, h, h'⟩
            · rw [h]; rfl
            · rw [h']; simp [hi, h]
          rw [hf]
          exact param_core c isRef f i0 (by rcases hrel with ⟨a, b, _⟩ | ⟨a, b, _⟩ <;> simp [a, b]) pre pty hpre hpren hprety hpreq
            ts1 hal1 i s r0 h1 j2 r1 h2 t stt r2 h3
  unfold Grammar.param at h
  by_cases href : ∃ i r0, ts = ⟨i, .Ref⟩ :: r0
  · obtain ⟨i, r0, rfl⟩ := href
    obtain ⟨hidx, ⟨tk, htk, hty⟩, al1⟩ := al_head c hal
    dsimp only at hidx hty
    subst hidx
    exact tail true (some i) r0 i (i + 1) (Or.inl ⟨rfl, rfl, rfl⟩) (chars "ref ") [.Ref] p_ref_sp (noNL_of_b (by decide))
      (by simp [tysOf_one c i tk htk, hty]) rfl al1 h
  · cases ts with
    | nil => simp [identTok] at h
    | cons t0 r0 =>
      obtain ⟨i0, ty0⟩ := t0
      have hi0 : i0 = st := (al_head c hal).1
      subst hi0
      cases ty0 with
      | Ref => exact absurd ⟨i0, r0, rfl⟩ href
      | _ =>
        exact tail false none _ i0 i0 (Or.inr ⟨rfl, rfl, rfl⟩) [] [] (p_nil _) (by intro x hx; cases hx) (by simp [tysOf_empty]) rfl hal h


/-! ### the procedure formatter in named parts -/

def varText (S : Slice) (v : Ref VarDecl) : R :=
  match from' S v.offset with
  | .error p => (Except.error p : R)
  | .ok sl =>
    match fmtVarDecl v.val sl, sliceOfInfo sl v.val.info with
    | .ok s, .ok ts => Except.ok (addAllComments s ts)
    | .error p, _ => Except.error p
    | _, .error p => Except.error p

def procBody (head vds ss : List Char) : List Char :=
  match vds.isEmpty, ss.isEmpty with
  | true, true => head ++ chars "}\n"
  | true, false => head ++ ['\n'] ++ ss ++ chars "}\n"
  | false, true => head ++ ['\n'] ++ vds ++ chars "}\n"
  | false, false => head ++ ['\n'] ++ vds ++ ['\n'] ++ ss ++ chars "}\n"

def paramsText (o : Options) (pv : List (List Char)) : List Char :=
  if pv.isEmpty then []
  else if pv.length > 3 || pv.any containsSlashes then ['\n'] ++ indent (joinSep (chars ",\n") pv) o
  else joinSep (chars ", ") pv

theorem fmtProcDecl_eq (o : Options) (pd : ProcDecl) (S : Slice) :
    fmtProcDecl o pd S =
      match pd.params.mapM (paramText S) with
      | .error p => .error p
      | .ok pv =>
        match (pd.vars.mapM (varText S)).map List.flatten with
        | .error p => .error p
        | .ok vds =>
          match fmtStmtList o S (StmtList.ofList pd.stmts) with
          | .error p => .error p
          | .ok ss =>
            (sliceOfInfo S pd.info).map (fun ts => addLeadingComments
              (procBody (chars "proc " ++ optIdent pd.name ++ ['('] ++ paramsText o pv ++ chars ") {") (indent vds o) (indent ss o)) ts) := by
  rfl

/-! ### parameter lists -/

def joinTys : List Line → List TokenType
  | [] => []
  | [l] => l.tys
  | l :: ls => l.tys ++ [.Comma] ++ joinTys ls

def PsGood (ps : List (Ref ParamDecl)) (a b : Nat) : Prop :=
  a ≤ b ∧ b < c.g.all.size ∧ ∀ S : Slice, SOK c S → S.lo ≤ a →
    ∃ pls : List Line, (ps.map (relParam S.lo)).mapM (paramText S) = .ok (pls.map (·.text)) ∧
      (∀ l ∈ pls, LineOK l ∧ l.text ≠ []) ∧ pls ≠ [] ∧ joinTys pls = tysOf c a (b + 1)

theorem params_good : ∀ (fuel : Nat) (ts : Toks) (ps : List (Ref ParamDecl)) (r : Toks) (st : Nat),
    params c.g fuel ts = some (ps, r) → Al c st ts → ∃ last, PsGood c ps st last ∧ Al c (last + 1) r
  | 0, ts, ps, r, st, hs, _ => by simp [Grammar.params] at hs
  | fuel + 1, ts, ps, r, st, hs, hal => by
    simp only [Grammar.params] at hs
    cases h1 : param c.g ts with
    | none => simp [h1] at hs
    | some res =>
      obtain ⟨p, r0⟩ := res
      simp only [h1] at hs
      obtain ⟨last, gp, ap⟩ := param_good c ts p r0 st h1 hal
      obtain ⟨g1, g2, g3, g4⟩ := gp
      split at hs
      · rename_i ci r1
        cases h2 : params c.g fuel r1 with
        | none => simp [h2] at hs
        | some res2 =>
          obtain ⟨ps2, r2⟩ := res2
          simp only [h2, Option.some.injEq, Prod.mk.injEq] at hs
          obtain ⟨rfl, rfl⟩ := hs
          obtain ⟨_, ⟨tk, htk, hty⟩, a1⟩ := al_head c ap
          dsimp only at hty
          obtain ⟨last2, ⟨q1, q2, q3⟩, a2⟩ := params_good fuel r1 ps2 r2 (last + 1 + 1) h2 a1
          refine ⟨last2, ⟨by omega, q2, ?_⟩, a2⟩
          intro S hS hlo
          obtain ⟨l, e1, ok1, nel, ty1⟩ := g4 S hS hlo
          obtain ⟨pls, e2, ok2, ne2, ty2⟩ := q3 S hS (by omega)
          refine ⟨l :: pls, by simp [List.mapM_cons, e1, e2, pure, Except.pure, bind, Except.bind], ?_, by simp, ?_⟩
          · intro x hx
            rcases List.mem_cons.mp hx with rfl | hx
            · exact ⟨ok1, nel⟩
            · exact ok2 x hx
          · cases pls with
            | nil => exact absurd rfl ne2
            | cons l2 rest =>
              show l.tys ++ [TokenType.Comma] ++ joinTys (l2 :: rest) = _
              rw [ty1, ty2, tysOf_split c st (last + 1) (last2 + 1) (by omega) (by omega),
                tysOf_split c (last + 1) (last + 1 + 1) (last2 + 1) (by omega) (by omega), tysOf_one c (last + 1) tk htk, hty]
              simp
      · simp only [Option.some.injEq, Prod.mk.injEq] at hs
        obtain ⟨rfl, rfl⟩ := hs
        refine ⟨last, ⟨g1, g2, ?_⟩, ap⟩
        intro S hS hlo
        obtain ⟨l, e1, ok1, nel, ty1⟩ := g4 S hS hlo
        exact ⟨[l], by simp [List.mapM_cons, e1, pure, Except.pure, bind, Except.bind], by intro x hx; simp at hx; subst hx; exact ⟨ok1, nel⟩,
          by simp, by simpa [joinTys] using ty1⟩

/-- all parameters on one line -/
theorem inline_piece : ∀ (pls : List Line), (∀ l ∈ pls, LineOK l) → pls ≠ [] →
    PDel (joinSep (chars ", ") (pls.map (·.text))) (joinTys pls) ∧ NoNL (joinSep (chars ", ") (pls.map (·.text)))
  | [], _, h => absurd rfl h
  | [l], h, _ => by
    obtain ⟨a, _, b⟩ := h l (by simp)
    exact ⟨by simpa [joinSep, joinTys] using b, by simpa [joinSep] using a⟩
  | l :: l2 :: rest, h, _ => by
    obtain ⟨a, _, b⟩ := h l (by simp)
    obtain ⟨ih1, ih2⟩ := inline_piece (l2 :: rest) (fun x hx => h x (by simp [hx])) (by simp)
    constructor
    · show PDel (l.text ++ chars ", " ++ joinSep (chars ", ") ((l2 :: rest).map (·.text))) (l.tys ++ [TokenType.Comma] ++ joinTys (l2 :: rest))
      rw [List.append_assoc, List.append_assoc]
      exact pdel_seq b ⟨',', _, rfl, by decide⟩ (pany_seq p_comma_sp ih1)
    · show NoNL (l.text ++ chars ", " ++ joinSep (chars ", ") ((l2 :: rest).map (·.text)))
      exact noNL_append (noNL_append a (noNL_of_b (by decide))) ih2


/-! ### parameters one per line -/

def commaLines : List Line → List Line
  | [] => []
  | [l] => [l]
  | l :: ls => ⟨l.text ++ [','], l.tys ++ [.Comma]⟩ :: commaLines ls

theorem commaLines_types : ∀ (pls : List Line), typesOf (commaLines pls) = joinTys pls
  | [] => rfl
  | [l] => by simp [commaLines, joinTys]
  | l :: l2 :: rest => by
    have := commaLines_types (l2 :: rest)
    simp only [commaLines, joinTys, typesOf_cons, this]

theorem commaLines_ok : ∀ (pls : List Line), (∀ l ∈ pls, LineOK l) → ∀ l ∈ commaLines pls, LineOK l
  | [], _ => by intro l hl; cases hl
  | [l], h => by intro x hx; simp [commaLines] at hx; subst hx; exact h x (by simp)
  | l :: l2 :: rest, h => by
    intro x hx
    simp only [commaLines, List.mem_cons] at hx
    rcases hx with rfl | hx
    · obtain ⟨a, _, b⟩ := h l (by simp)
      refine line_ok_of _ _ ',' l.text rfl (by decide) (noNL_append a (noNL_of_b (by decide))) ?_
      exact pany_pdel (pdel_seq b ⟨',', [], rfl, by decide⟩ p_comma)
    · exact commaLines_ok (l2 :: rest) (fun y hy => h y (by simp [hy])) x (by simpa [commaLines] using hx)

/-- `joinSep ",\n"` of the parameter texts: complete lines and a last line without terminator -/
theorem comma_join : ∀ (pls : List Line), pls ≠ [] →
    ∃ A last, commaLines pls = A ++ [last] ∧ joinSep (chars ",\n") (pls.map (·.text)) = render A ++ last.text ∧ last ∈ pls
  | [], h => absurd rfl h
  | [l], _ => ⟨[], l, rfl, by simp [joinSep], by simp⟩
  | l :: l2 :: rest, _ => by
    obtain ⟨A, last, e1, e2, hm⟩ := comma_join (l2 :: rest) (by simp)
    refine ⟨⟨l.text ++ [','], l.tys ++ [.Comma]⟩ :: A, last, by simp [commaLines, e1], ?_, by simp [hm]⟩
    show l.text ++ chars ",\n" ++ joinSep (chars ",\n") ((l2 :: rest).map (·.text)) = _
    rw [e2]
    simp [chars]

theorem lines_go_tail : ∀ (t cur : List Char), NoNL t → (cur ≠ [] ∨ t ≠ []) → Fmt.lines.go t cur = [cur.reverse ++ t]
  | [], cur, _, h => by
    have : cur ≠ [] := by rcases h with h | h; exact h; exact absurd rfl h
    simp [Fmt.lines.go, this]
  | x :: t, cur, hn, _ => by
    have hx : (x == '\n') = false := by simpa using hn x (by simp)
    simp only [Fmt.lines.go, hx, Bool.false_eq_true, if_false]
    rw [lines_go_tail t (x :: cur) (fun y hy => hn y (by simp [hy])) (Or.inl (by simp))]
    simp

theorem lines_go_render_tail : ∀ (ls : List Line) (t : List Char), (∀ l ∈ ls, NoNL l.text) → NoNL t → t ≠ [] →
    Fmt.lines.go (render ls ++ t) [] = ls.map (·.text) ++ [t]
  | [], t, _, hn, ht => by simpa using lines_go_tail t [] hn (Or.inr ht)
  | l :: ls, t, h, hn, ht => by
    rw [render_cons, List.append_assoc, List.cons_append, lines_go_line l.text (render ls ++ t) [] (h l (by simp)),
      lines_go_render_tail ls t (fun x hx => h x (by simp [hx])) hn ht]
    simp

theorem indent_render_tail (o : Options) (ls : List Line) (last : Line)
    (h : ∀ l ∈ ls ++ [last], NoNL l.text ∧ l.text.getLast? ≠ some '\r') (hne : last.text ≠ []) :
    indent (render ls ++ last.text) o = render ((ls ++ [last]).map (indentLine o)) := by
  have hl : Fmt.lines (render ls ++ last.text) = (ls ++ [last]).map (·.text) := by
    simp only [Fmt.lines]
    rw [lines_go_render_tail ls last.text (fun l hl => (h l (by simp [hl])).1) (h last (by simp)).1 hne]
    rw [← List.map_singleton (f := fun l : Line => l.text), ← List.map_append, List.map_map]
    apply List.map_congr_left
    intro l hl
    have := (h l hl).2
    simp only [Function.comp]
  rw [indent, hl]
  simp only [render, List.flatMap_map, indentLine, List.append_assoc]


/-! ### variable declarations -/

theorem p_var_sp : PAny (chars "var ") [.Var] := by
  have := pdel_seq (C := fun _ => True) (p_kw (chars "var") .Var 'v' ['a', 'r'] rfl (by decide) (by decide) (by decide))
    ⟨' ', [], rfl, by decide⟩ p_space
  simpa [chars] using this

def VsGood (vs : List (Ref VarDecl)) (a b : Nat) : Prop :=
  a ≤ b ∧ b ≤ c.g.all.size ∧ ∀ S : Slice, SOK c S → S.lo ≤ a →
    ∃ ls : List Line, (vs.map (relVarDecl S.lo)).mapM (varText S) = .ok (ls.map (fun l => l.text ++ ['\n'])) ∧
      (∀ l ∈ ls, LineOK l) ∧ typesOf ls = tysOf c a b ∧ (ls = [] ↔ vs = [])

theorem varDecls_good : ∀ (fuel : Nat) (ts : Toks) (vs : List (Ref VarDecl)) (r : Toks) (st : Nat),
    varDecls c.g fuel ts = some (vs, r) → Al c st ts → st ≤ c.g.all.size → ∃ b, VsGood c vs st b ∧ Al c b r
  | 0, ts, vs, r, st, hs, _, _ => by simp [Grammar.varDecls] at hs
  | fuel + 1, ts, vs, r, st, hs, hal, hsz => by
    by_cases hvar : ∃ i r0, ts = ⟨i, .Var⟩ :: r0
    · obtain ⟨i, r0, rfl⟩ := hvar
      simp only [Grammar.varDecls] at hs
      obtain ⟨hidx, ⟨tk, htk, hty⟩, al1⟩ := al_head c hal
      dsimp only at hidx hty
      subst hidx
      cases h1 : identTok r0 with
      | none => simp [h1] at hs
      | some res =>
        obtain ⟨j, nm, r1⟩ := res
        simp only [h1] at hs
        obtain ⟨hj, ⟨tk1, htk1, hty1⟩, a1⟩ := identTok_al c h1 al1
        subst hj
        cases h2 : expectK .Colon r1 with
        | none => simp [h2] at hs
        | some res2 =>
          obtain ⟨j2, r2⟩ := res2
          simp only [h2] at hs
          obtain ⟨_, ⟨tk2, htk2, hty2⟩, a2⟩ := expectK_al c (p := .Colon) rfl h2 a1
          cases h3 : typeExpr c.g (2 * r2.length + 4) r2 with
          | none => simp [h3] at hs
          | some res3 =>
            obtain ⟨t, stt, r3⟩ := res3
            simp only [h3] at hs
            obtain ⟨gt, ft, at3⟩ := typeExpr_good c _ r2 t stt r3 _ h3 a2
            cases h4 : expectK .Semic r3 with
            | none => simp [h4] at hs
            | some res4 =>
              obtain ⟨k, r4⟩ := res4
              simp only [h4] at hs
              obtain ⟨hk, ⟨tk3, htk3, hty3⟩, a4⟩ := expectK_al c (p := .Semic) rfl h4 at3
              subst hk
              have hsz3 := (Array.getElem?_eq_some_iff.mp htk3).1
              cases h5 : varDecls c.g fuel r4 with
              | none => simp [h5] at hs
              | some res5 =>
                obtain ⟨vs2, r5⟩ := res5
                simp only [h5, Option.some.injEq, Prod.mk.injEq] at hs
                obtain ⟨rfl, rfl⟩ := hs
                obtain ⟨b, ⟨q1, q2, q3⟩, a5⟩ := varDecls_good fuel r4 vs2 r5 (stt.last + 1 + 1) h5 a4 (by omega)
                have hst1 := gt.1
                refine ⟨b, ⟨by omega, q2, ?_⟩, a5⟩
                intro S hS hlo
                obtain ⟨ls2, e2, ok2, ty2, nil2⟩ := q3 S hS (by omega)
                obtain ⟨S', ef, hS', hlo'⟩ := from_ok c hS (i - S.lo) (by omega)
                have hlo'' : S'.lo = i := by omega
                obtain ⟨te, e1, p1, n1, ne1, l1⟩ := refType_fmt c t stt gt S' hS' (by omega)
                obtain ⟨pn, nn, nne, _⟩ := ident_piece c (i + 1) nm tk1 htk1 hty1
                obtain ⟨S'', es, hnc⟩ := sub_ok c hS' i (stt.last + 1 + 1) (by omega) (by omega) (by omega)
                have hty' : tysOf c i (stt.last + 2) =
                    [TokenType.Var] ++ ([TokenType.Ident nm] ++ ([TokenType.Colon] ++ (tysOf c stt.first (stt.last + 1) ++ [TokenType.Semic]))) := by
                  rw [tysOf_split c i (i + 1) (stt.last + 2) (by omega) (by omega), tysOf_one c i tk htk, hty,
                    tysOf_split c (i + 1) (i + 2) (stt.last + 2) (by omega) (by omega), tysOf_one c (i + 1) tk1 htk1, hty1,
                    tysOf_split c (i + 2) (i + 3) (stt.last + 2) (by omega) (by omega), tysOf_one c (i + 2) tk2 htk2, hty2,
                    tysOf_split c (i + 3) (stt.last + 1) (stt.last + 2) (by omega) (by omega),
                    tysOf_one c (stt.last + 1) tk3 htk3, hty3, ft]
                refine ⟨⟨chars "var " ++ (nm ++ ([':', ' '] ++ (te ++ [';']))), tysOf c i (stt.last + 2)⟩ :: ls2, ?_, ?_, ?_, by simp⟩
                · have hone : varText S (relVarDecl S.lo (refAbs (.valid (docOf c.g i) (some (mkIdent c.g (i + 1) nm)) (some (refAbs t))
                      (mkInfo c.g i (stt.last + 1))))) = .ok (chars "var " ++ (nm ++ ([':', ' '] ++ (te ++ [';']))) ++ ['\n']) := by
                    simp only [varText, relVarDecl, refAbs, VarDecl.info, mkInfo_nc, ef]
                    rw [hlo''] at e1 es
                    simp only [refAbs] at e1
                    simp only [fmtVarDecl, sliceOfInfo, relInfo, Option.map]
                    rw [e1, es]
                    simp only [Except.map, addAll_nc _ _ hnc]
                    simp [chars, optIdent, relIdent, mkIdent]
                  simp only [List.map_cons, List.mapM_cons, hone, e2, pure, Except.pure, bind, Except.bind]
                · intro l hl
                  rcases List.mem_cons.mp hl with rfl | hl
                  · refine line_ok_of _ _ ';' (chars "var " ++ (nm ++ ([':', ' '] ++ te))) (by simp) (by decide) ?_ ?_
                    · exact noNL_append (noNL_of_b (by decide)) (noNL_append nn (noNL_append (noNL_of_b (by decide))
                        (noNL_append n1 (noNL_of_b (by decide)))))
                    · rw [hty']
                      exact pany_pdel (pany_seq p_var_sp (pdel_seq pn ⟨':', _, rfl, by decide⟩ (pany_seq p_colon
                        (pdel_seq p1 ⟨';', [], rfl, by decide⟩ p_semic))))
                  · exact ok2 l hl
                · rw [typesOf_cons, ty2]
                  exact (tysOf_split c i (stt.last + 2) b (by omega) (by omega)).symm
    · have hs' : some (([] : List (Ref VarDecl)), ts) = some (vs, r) := by
        cases ts with
        | nil => simpa [Grammar.varDecls] using hs
        | cons t0 r0 =>
          obtain ⟨i0, ty0⟩ := t0
          cases ty0 with
          | Var => exact absurd ⟨i0, r0, rfl⟩ hvar
          | _ => simpa [Grammar.varDecls] using hs
      simp only [Option.some.injEq, Prod.mk.injEq] at hs'
      obtain ⟨rfl, rfl⟩ := hs'
      refine ⟨st, ⟨Nat.le_refl _, hsz, ?_⟩, hal⟩
      intro S hS hlo
      exact ⟨[], by simp [pure, Except.pure], (by intro l hl; cases hl), by simp [tysOf_empty], by simp⟩


/-! ### procedure declarations -/

theorem render_isEmpty (ls : List Line) : (render ls).isEmpty = ls.isEmpty := by
  cases ls with
  | nil => rfl
  | cons l t =>
    simp only [render_cons, List.isEmpty_cons]
    cases l.text <;> rfl

theorem p_proc_sp : PAny (chars "proc ") [.Proc] := by
  have := pdel_seq (C := fun _ => True) (p_kw (chars "proc") .Proc 'p' ['r', 'o', 'c'] rfl (by decide) (by decide) (by decide))
    ⟨' ', [], rfl, by decide⟩ p_space
  simpa [chars] using this

theorem p_close_open : PAny (chars ") {") [.RParen, .LCurly] := by
  have := pany_seq (C := fun _ => True) p_rparen (pany_seq p_space p_lcurly)
  simpa [chars] using this

theorem ofList_rel (b : Nat) : ∀ (ss : StmtList), StmtList.ofList (ss.toList.map (relRefStmt b)) = relStmtList b ss
  | .nil => rfl
  | .cons s off rest => by
    simp only [StmtList.toList, List.map_cons, StmtList.ofList, relRefStmt, relStmtList]
    rw [ofList_rel b rest]

theorem procBody_lines (Lh : List Line) (H0 : List Char) (h0t : List TokenType) (hLh : ∀ l ∈ Lh, LineOK l)
    (hH0 : PAny H0 h0t) (hH0n : NoNL H0) (hH0l : H0.getLast? ≠ some '\r')
    (Lv Ls : List Line) (hLv : ∀ l ∈ Lv, LineOK l) (hLs : ∀ l ∈ Ls, LineOK l) :
    ∃ ls, procBody (render Lh ++ H0) (render Lv) (render Ls) = render ls ∧ (∀ l ∈ ls, LineOK l) ∧ ls ≠ [] ∧
      typesOf ls = typesOf Lh ++ h0t ++ typesOf Lv ++ typesOf Ls ++ [TokenType.RCurly] := by
  have hrc : LineOK ⟨['}'], [.RCurly]⟩ :=
    line_ok_of _ _ '}' [] rfl (by decide) (noNL_of_b (by decide)) (pany_pdel p_rcurly)
  have hh : LineOK ⟨H0, h0t⟩ := ⟨hH0n, hH0l, pany_pdel hH0⟩
  have hempty : LineOK ⟨[], []⟩ := ⟨(by intro x hx; cases hx), (by simp), p_nil _⟩
  have mem3 : ∀ (A B C : List Line) (x : Line), (∀ l ∈ A, LineOK l) → (∀ l ∈ B, LineOK l) → (∀ l ∈ C, LineOK l) →
      x ∈ A ++ (B ++ C) → LineOK x := by
    intro A B C x ha hb hc hx
    rcases List.mem_append.mp hx with h | h
    · exact ha x h
    · rcases List.mem_append.mp h with h | h
      · exact hb x h
      · exact hc x h
  unfold procBody
  rw [render_isEmpty, render_isEmpty]
  cases Lv with
  | nil =>
    cases Ls with
    | nil =>
      refine ⟨Lh ++ [⟨H0 ++ ['}'], h0t ++ [.RCurly]⟩], by simp [chars], ?_, by simp, by simp⟩
      intro l hl
      rcases List.mem_append.mp hl with h | h
      · exact hLh l h
      · simp only [List.mem_singleton] at h; subst h
        refine line_ok_of _ _ '}' H0 rfl (by decide) (noNL_append hH0n (noNL_of_b (by decide))) ?_
        exact pany_pdel (pany_seq hH0 p_rcurly)
    | cons s0 srest =>
      refine ⟨Lh ++ ([⟨H0, h0t⟩] ++ ((s0 :: srest) ++ [⟨['}'], [.RCurly]⟩])), by simp [chars], ?_, by simp, by simp⟩
      intro l hl
      rcases List.mem_append.mp hl with h | h
      · exact hLh l h
      · exact mem3 _ _ _ l (by intro x hx; simp at hx; subst hx; exact hh) hLs (by intro x hx; simp at hx; subst hx; exact hrc) h
  | cons v0 vrest =>
    cases Ls with
    | nil =>
      refine ⟨Lh ++ ([⟨H0, h0t⟩] ++ ((v0 :: vrest) ++ [⟨['}'], [.RCurly]⟩])), by simp [chars], ?_, by simp, by simp⟩
      intro l hl
      rcases List.mem_append.mp hl with h | h
      · exact hLh l h
      · exact mem3 _ _ _ l (by intro x hx; simp at hx; subst hx; exact hh) hLv (by intro x hx; simp at hx; subst hx; exact hrc) h
    | cons s0 srest =>
      refine ⟨Lh ++ ([⟨H0, h0t⟩] ++ ((v0 :: vrest) ++ ([⟨[], []⟩] ++ ((s0 :: srest) ++ [⟨['}'], [.RCurly]⟩])))),
        by simp [chars], ?_, by simp, by simp⟩
      intro l hl
      rcases List.mem_append.mp hl with h | h
      · exact hLh l h
      · rcases List.mem_append.mp h with h | h
        · simp at h; subst h; exact hh
        · rcases List.mem_append.mp h with h | h
          · exact hLv l h
          · exact mem3 _ _ _ l (by intro x hx; simp at hx; subst hx; exact hempty) hLs
              (by intro x hx; simp at hx; subst hx; exact hrc) h


theorem head_lines (o : Options) (ho : OptOK o) (nm : List Char) (pn : PDel nm [TokenType.Ident nm]) (nn : NoNL nm)
    (pls : List Line) (hp : ∀ l ∈ pls, LineOK l ∧ l.text ≠ []) :
    ∃ Lh H0 h0t, chars "proc " ++ nm ++ ['('] ++ paramsText o (pls.map (·.text)) ++ chars ") {" = render Lh ++ H0 ∧
      (∀ l ∈ Lh, LineOK l) ∧ PAny H0 h0t ∧ NoNL H0 ∧ H0.getLast? ≠ some '\r' ∧
      typesOf Lh ++ h0t = [TokenType.Proc, .Ident nm, .LParen] ++ joinTys pls ++ [TokenType.RParen, .LCurly] := by
  have hopen : PAny (chars "proc " ++ nm ++ ['(']) [TokenType.Proc, .Ident nm, .LParen] := by
    have := pany_seq (C := fun _ => True) p_proc_sp (pdel_seq pn ⟨'(', [], rfl, by decide⟩ p_lparen)
    simpa using this
  have hopenn : NoNL (chars "proc " ++ nm ++ ['(']) :=
    noNL_append (noNL_append (noNL_of_b (by decide)) nn) (noNL_of_b (by decide))
  cases hpl : pls with
  | nil =>
    refine ⟨[], chars "proc " ++ nm ++ ['('] ++ chars ") {", [.Proc, .Ident nm, .LParen] ++ [.RParen, .LCurly],
      by simp [paramsText], (by intro l hl; cases hl), pany_seq hopen p_close_open,
      noNL_append hopenn (noNL_of_b (by decide)), ?_, by simp [joinTys]⟩
    rw [getLast_append_ne _ _ (by decide)]; decide
  | cons l0 rest =>
    rw [← hpl]
    have hne : pls ≠ [] := by rw [hpl]; simp
    have hemp : (pls.map (·.text)).isEmpty = false := by rw [hpl]; rfl
    by_cases hcond : ((pls.map (·.text)).length > 3 || (pls.map (·.text)).any containsSlashes) = true
    · -- one parameter per line
      obtain ⟨A, last, e1, e2, hm⟩ := comma_join pls hne
      have hok := commaLines_ok pls (fun l hl => (hp l hl).1)
      have hind := indent_render_tail o A last (by
        intro l hl; rw [← e1] at hl; exact ⟨(hok l hl).1, (hok l hl).2.1⟩) (hp last hm).2
      rw [← e1] at hind
      refine ⟨⟨chars "proc " ++ nm ++ ['('], [.Proc, .Ident nm, .LParen]⟩ :: (commaLines pls).map (indentLine o),
        chars ") {", [.RParen, .LCurly], ?_, ?_, p_close_open, noNL_of_b (by decide), by decide, ?_⟩
      · simp only [paramsText, hemp, hcond, Bool.false_eq_true, if_false, if_true, e2, hind]
        simp
      · intro l hl
        rcases List.mem_cons.mp hl with rfl | hl
        · exact line_ok_of _ _ '(' (chars "proc " ++ nm) rfl (by decide) hopenn (pany_pdel hopen)
        · obtain ⟨l1, hl1, rfl⟩ := List.mem_map.mp hl
          exact indentLine_ok o ho l1 (hok l1 hl1)
      · have : typesOf ((commaLines pls).map (indentLine o)) = typesOf (commaLines pls) := by
          simp [typesOf, List.flatMap_map, indentLine]
        simp [this, commaLines_types]
    · obtain ⟨pj, nj⟩ := inline_piece pls (fun l hl => (hp l hl).1) hne
      have hc : ((pls.map (·.text)).length > 3 || (pls.map (·.text)).any containsSlashes) = false := by simpa using hcond
      refine ⟨[], chars "proc " ++ nm ++ ['('] ++ joinSep (chars ", ") (pls.map (·.text)) ++ chars ") {",
        [.Proc, .Ident nm, .LParen] ++ joinTys pls ++ [.RParen, .LCurly], ?_, (by intro l hl; cases hl), ?_,
        noNL_append (noNL_append hopenn nj) (noNL_of_b (by decide)), ?_, by simp⟩
      · simp only [paramsText, hemp, hc, Bool.false_eq_true, if_false]
        simp
      · have := pany_seq (C := fun _ => True) hopen (pdel_seq (s2 := chars ") {") pj ⟨')', [' ', '{'], rfl, by decide⟩ p_close_open)
        simpa only [List.append_assoc] using this
      · rw [getLast_append_ne _ _ (by decide)]; decide


theorem flatten_lines (ls : List Line) : (ls.map (fun l => l.text ++ ['\n'])).flatten = render ls := by
  simp [render, List.flatMap_def]

theorem typesOf_indent (o : Options) (ls : List Line) : typesOf (ls.map (indentLine o)) = typesOf ls := by
  simp [typesOf, List.flatMap_map, indentLine]

theorem indent_ok (o : Options) (ho : OptOK o) (ls : List Line) (h : ∀ l ∈ ls, LineOK l) :
    indent (render ls) o = render (ls.map (indentLine o)) ∧ ∀ l ∈ ls.map (indentLine o), LineOK l := by
  refine ⟨indent_render o ls (fun l hl => ⟨(h l hl).1, (h l hl).2.1⟩), ?_⟩
  intro l hl
  obtain ⟨l1, hl1, rfl⟩ := List.mem_map.mp hl
  exact indentLine_ok o ho l1 (h l1 hl1)

theorem procDecl_fmt (o : Options) (ho : OptOK o) (i : Nat) (nm : List Char) (ps : List (Ref ParamDecl))
    (vs : List (Ref VarDecl)) (ss : StmtList) (doc : List (List Char)) (rp bv k : Nat) (tk tk1 tk2 tk3 tk4 tk5 : Token)
    (htk : c.g.all[i]? = some tk) (hty : tk.ty = .Proc)
    (htk1 : c.g.all[i + 1]? = some tk1) (hty1 : tk1.ty = .Ident nm)
    (htk2 : c.g.all[i + 2]? = some tk2) (hty2 : tk2.ty = .LParen)
    (hps : (ps = [] ∧ rp = i + 3) ∨ (∃ lastp, PsGood c ps (i + 3) lastp ∧ rp = lastp + 1))
    (htk3 : c.g.all[rp]? = some tk3) (hty3 : tk3.ty = .RParen)
    (htk4 : c.g.all[rp + 1]? = some tk4) (hty4 : tk4.ty = .LCurly)
    (hvs : VsGood c vs (rp + 2) bv) (hss : LGood c o ss bv k)
    (htk5 : c.g.all[k]? = some tk5) (hty5 : tk5.ty = .RCurly)
    (S : Slice) (hS : SOK c S) (hlo : S.lo = i) :
    ∃ ls, fmtGlobalDecl o (relDecl (refAbs (.proc (ProcDecl.mk doc (some (mkIdent c.g (i + 1) nm)) ps vs ss.toList
        (mkInfo c.g i k))))).val S = .ok (render ls) ∧
      (relDecl (refAbs (.proc (ProcDecl.mk doc (some (mkIdent c.g (i + 1) nm)) ps vs ss.toList (mkInfo c.g i k))))).offset = i ∧
      (∀ l ∈ ls, LineOK l) ∧ ls ≠ [] ∧ typesOf ls = tysOf c i (k + 1) := by
  subst hlo
  have hk := (Array.getElem?_eq_some_iff.mp htk5).1
  have hrp : S.lo + 3 ≤ rp := by rcases hps with ⟨_, h⟩ | ⟨lp, ⟨h1, _, _⟩, h⟩ <;> omega
  obtain ⟨v1, v2, v3⟩ := hvs
  obtain ⟨s1, s2, s3⟩ := hss
  obtain ⟨pn, nn, nne, _⟩ := ident_piece c (S.lo + 1) nm tk1 htk1 hty1
  -- parameters
  have hP : ∃ pls : List Line, (ps.map (relParam S.lo)).mapM (paramText S) = .ok (pls.map (·.text)) ∧
      (∀ l ∈ pls, LineOK l ∧ l.text ≠ []) ∧ joinTys pls = tysOf c (S.lo + 3) rp := by
    rcases hps with ⟨rfl, rfl⟩ | ⟨lp, ⟨_, _, h3⟩, rfl⟩
    · exact ⟨[], by simp [pure, Except.pure], (by intro l hl; cases hl), by simp [joinTys, tysOf_empty]⟩
    · obtain ⟨pls, e, ok, _, ty⟩ := h3 S hS (by omega)
      exact ⟨pls, e, ok, ty⟩
  obtain ⟨pls, ep, okp, typ⟩ := hP
  obtain ⟨lv, ev, okv, tyv, _⟩ := v3 S hS (by omega)
  obtain ⟨lss, es, oks, tys, _⟩ := s3 S hS (by omega)
  obtain ⟨Lh, H0, h0t, eh, okh, pH0, nH0, lH0, tyh⟩ := head_lines o ho nm pn nn pls okp
  obtain ⟨iv1, iv2⟩ := indent_ok o ho lv okv
  obtain ⟨is1, is2⟩ := indent_ok o ho lss oks
  obtain ⟨ls, eb, okb, neb, tyb⟩ := procBody_lines Lh H0 h0t okh pH0 nH0 lH0 _ _ iv2 is2
  obtain ⟨S', esub, hnc⟩ := sub_ok c hS S.lo (k + 1) (Nat.le_refl _) (by omega) (by omega)
  refine ⟨ls, ?_, by simp [relDecl, refAbs, GlobalDecl.info, mkInfo_nc], okb, neb, ?_⟩
  · simp only [relDecl, refAbs, GlobalDecl.info, mkInfo_nc, fmtGlobalDecl, fmtProcDecl_eq, Option.map, ep, ev, Except.map,
      flatten_lines, ofList_rel, es, sliceOfInfo, relInfo, esub, addLead_nc _ _ hnc, optIdent, relIdent, mkIdent, iv1, is1]
    rw [eh, eb]
  · rw [tyb, typesOf_indent, typesOf_indent, tyh, typ, tyv, tys,
      tysOf_split c S.lo (S.lo + 1) (k + 1) (by omega) (by omega), tysOf_one c S.lo tk htk, hty,
      tysOf_split c (S.lo + 1) (S.lo + 2) (k + 1) (by omega) (by omega), tysOf_one c (S.lo + 1) tk1 htk1, hty1,
      tysOf_split c (S.lo + 2) (S.lo + 3) (k + 1) (by omega) (by omega), tysOf_one c (S.lo + 2) tk2 htk2, hty2,
      tysOf_split c (S.lo + 3) rp (k + 1) (by omega) (by omega),
      tysOf_split c rp (rp + 1) (k + 1) (by omega) (by omega), tysOf_one c rp tk3 htk3, hty3,
      tysOf_split c (rp + 1) (rp + 2) (k + 1) (by omega) (by omega), tysOf_one c (rp + 1) tk4 htk4, hty4,
      tysOf_split c (rp + 2) bv (k + 1) (by omega) (by omega),
      tysOf_split c bv k (k + 1) (by omega) (by omega), tysOf_one c k tk5 htk5, hty5]
    simp


/-! ### the program -/

/-- the text of one global declaration as `fmtProgram` computes it -/
def declText (o : Options) (A : Array Token) (gd : Ref GlobalDecl) : R :=
  match from' (Slice.full A) gd.offset with
  | .error e => (Except.error e : R)
  | .ok sl => fmtGlobalDecl o gd.val sl

theorem fmtProgram_eq (o : Options) (p : Program) (A : Array Token) :
    fmtProgram o p A = match p.decls.mapM (declText o A) with
      | .error e => .error e
      | .ok ds => .ok (joinSep ['\n'] ds) := rfl

def joinBlocks : List (List Line) → List Line
  | [] => []
  | [b] => b
  | b :: bs => b ++ [⟨[], []⟩] ++ joinBlocks bs

theorem joinBlocks_render : ∀ (lss : List (List Line)), joinSep ['\n'] (lss.map render) = render (joinBlocks lss)
  | [] => rfl
  | [b] => by simp [joinSep, joinBlocks]
  | b :: b2 :: rest => by
    have := joinBlocks_render (b2 :: rest)
    simp only [List.map_cons] at this
    simp only [List.map_cons, joinSep, joinBlocks, this, render_append, render_cons, render_nil]
    simp

theorem joinBlocks_types : ∀ (lss : List (List Line)), typesOf (joinBlocks lss) = typesOf lss.flatten
  | [] => rfl
  | [b] => by simp [joinBlocks]
  | b :: b2 :: rest => by
    have := joinBlocks_types (b2 :: rest)
    simp only [joinBlocks, typesOf_append, this, List.flatten_cons]
    simp

theorem joinBlocks_ok : ∀ (lss : List (List Line)), (∀ ls ∈ lss, ∀ l ∈ ls, LineOK l) → ∀ l ∈ joinBlocks lss, LineOK l
  | [], _ => by intro l hl; cases hl
  | [b], h => by intro l hl; exact h b (by simp) l (by simpa [joinBlocks] using hl)
  | b :: b2 :: rest, h => by
    intro l hl
    simp only [joinBlocks, List.mem_append, List.mem_singleton] at hl
    rcases hl with (hl | hl) | hl
    · exact h b (by simp) l hl
    · subst hl; exact ⟨(by intro x hx; cases hx), (by simp), p_nil _⟩
    · exact joinBlocks_ok (b2 :: rest) (fun ls hls => h ls (by simp [hls])) l (by simpa [joinBlocks] using hl)

theorem full_ok : SOK c (Slice.full c.g.all) := ⟨rfl, rfl, by simp [Slice.full]⟩

/-- the parameters of a procedure declaration as the specification reads them -/
def procParams (g : GCtx) (r2 : Toks) : Option (List (Ref ParamDecl) × Toks) :=
  match r2 with
  | ⟨_, .RParen⟩ :: _ => some ([], r2)
  | _ => params g (r2.length + 1) r2

theorem decls_good (o : Options) (ho : OptOK o) : ∀ (fuel : Nat) (ts : Toks) (ds : List (Ref GlobalDecl)) (last : Option Nat)
    (st : Nat), decls c.g fuel ts = some (ds, last) → Al c st ts →
    ∃ (n : Nat) (lss : List (List Line)), st ≤ n ∧ (∃ tk, c.g.all[n]? = some tk ∧ tk.ty = .Eof) ∧
      (ds.map relDecl).mapM (declText o c.g.all) = .ok (lss.map render) ∧
      (∀ ls ∈ lss, ∀ l ∈ ls, LineOK l) ∧ typesOf lss.flatten = tysOf c st n
  | 0, ts, ds, last, st, hs, _ => by simp [Grammar.decls] at hs
  | fuel + 1, ts, ds, last, st, hs, hal => by
    cases ts with
    | nil => simp [Grammar.decls] at hs
    | cons t0 r =>
      obtain ⟨i, ty0⟩ := t0
      obtain ⟨hidx, ⟨tk, htk, hty⟩, al1⟩ := al_head c hal
      dsimp only at hidx hty
      subst hidx
      cases ty0 with
      | Eof =>
        cases r with
        | nil =>
          simp only [Grammar.decls, Option.some.injEq, Prod.mk.injEq] at hs
          obtain ⟨rfl, rfl⟩ := hs
          exact ⟨i, [], Nat.le_refl _, ⟨tk, htk, hty⟩, by simp [pure, Except.pure], (by intro ls hls; cases hls), by simp [tysOf_empty]⟩
        | cons t1 r1 => simp [Grammar.decls] at hs
      | «Type» =>
        simp only [Grammar.decls] at hs
        cases h1 : identTok r with
        | none => simp [h1] at hs
        | some res =>
          obtain ⟨j, nm, r1⟩ := res
          simp only [h1] at hs
          obtain ⟨hj, ⟨tk1, htk1, hty1⟩, a1⟩ := identTok_al c h1 al1
          subst hj
          cases h2 : expectK .Eq r1 with
          | none => simp [h2] at hs
          | some res2 =>
            obtain ⟨j2, r2⟩ := res2
            simp only [h2] at hs
            obtain ⟨_, ⟨tk2, htk2, hty2⟩, a2⟩ := expectK_al c (p := .Eq) rfl h2 a1
            cases h3 : typeExpr c.g (2 * r2.length + 4) r2 with
            | none => simp [h3] at hs
            | some res3 =>
              obtain ⟨t, stt, r3⟩ := res3
              simp only [h3] at hs
              obtain ⟨gt, ft, at3⟩ := typeExpr_good c _ r2 t stt r3 _ h3 a2
              cases h4 : expectK .Semic r3 with
              | none => simp [h4] at hs
              | some res4 =>
                obtain ⟨k, r4⟩ := res4
                simp only [h4] at hs
                obtain ⟨hk, ⟨tk3, htk3, hty3⟩, a4⟩ := expectK_al c (p := .Semic) rfl h4 at3
                subst hk
                cases h5 : decls c.g fuel r4 with
                | none => simp [h5] at hs
                | some res5 =>
                  obtain ⟨ds2, last2⟩ := res5
                  simp only [h5, Option.some.injEq, Prod.mk.injEq] at hs
                  obtain ⟨rfl, rfl⟩ := hs
                  obtain ⟨n, lss, hn, heof, em, okm, tym⟩ := decls_good o ho fuel r4 ds2 last2 (stt.last + 1 + 1) h5 a4
                  have hst1 := gt.1
                  have hsz3 := (Array.getElem?_eq_some_iff.mp htk3).1
                  obtain ⟨S', ef, hS', hlo'⟩ := from_ok c (full_ok c) i (by simp [Slice.full]; omega)
                  have hlo'' : S'.lo = i := by simpa [Slice.full] using hlo'
                  obtain ⟨ls, e1, eo, ok1, ne1, ty1⟩ := typeDecl_fmt c o i nm t stt (docOf c.g i) tk tk1 tk2 tk3 htk hty htk1 hty1 htk2 hty2
                    gt ft htk3 hty3 S' hS' hlo''
                  refine ⟨n, ls :: lss, by omega, heof, ?_, ?_, ?_⟩
                  · have hone : declText o c.g.all (relDecl (refAbs (.type (TypeDecl.mk (docOf c.g i) (some (mkIdent c.g (i + 1) nm))
                        (some (refAbs t)) (mkInfo c.g i (stt.last + 1)))))) = .ok (render ls) := by
                      simp only [declText, eo, ef, e1]
                    simp only [List.map_cons, List.mapM_cons, hone, em, pure, Except.pure, bind, Except.bind]
                  · intro x hx
                    rcases List.mem_cons.mp hx with rfl | hx
                    · exact ok1
                    · exact okm x hx
                  · rw [List.flatten_cons, typesOf_append, ty1, tym]
                    exact (tysOf_split c i (stt.last + 2) n (by omega) (by omega)).symm
      | Proc =>
        simp only [Grammar.decls] at hs
        cases h1 : identTok r with
        | none => simp [h1] at hs
        | some res =>
          obtain ⟨j, nm, r1⟩ := res
          simp only [h1] at hs
          obtain ⟨hj, ⟨tk1, htk1, hty1⟩, a1⟩ := identTok_al c h1 al1
          subst hj
          cases h2 : expectK .LParen r1 with
          | none => simp [h2] at hs
          | some res2 =>
            obtain ⟨j2, r2⟩ := res2
            simp only [h2] at hs
            obtain ⟨_, ⟨tk2, htk2, hty2⟩, a2⟩ := expectK_al c (p := .LParen) rfl h2 a1
            have hs' : (match procParams c.g r2 with
                | none => none
                | some (ps, r3) =>
                  match expectK .RParen r3 with
                  | none => none
                  | some (_, r4) =>
                    match expectK .LCurly r4 with
                    | none => none
                    | some (_, r5) =>
                      match varDecls c.g (r5.length + 1) r5 with
                      | none => none
                      | some (vs, r6) =>
                        match stmts c.g (2 * r6.length + 4) r6 with
                        | none => none
                        | some (ss, r7) =>
                          match expectK .RCurly r7 with
                          | none => none
                          | some (k, r8) =>
                            match decls c.g fuel r8 with
                            | none => none
                            | some (ds, last) =>
                              some (refAbs (GlobalDecl.proc (ProcDecl.mk (docOf c.g i) (some (mkIdent c.g (i + 1) nm)) ps vs ss.toList
                                (mkInfo c.g i k))) :: ds, some (last.getD k))) = some (ds, last) := hs
            clear hs
            have hparams : ∀ ps r3, procParams c.g r2 = some (ps, r3) →
                ∃ rp, ((ps = [] ∧ rp = i + 3) ∨ (∃ lastp, PsGood c ps (i + 3) lastp ∧ rp = lastp + 1)) ∧ Al c rp r3 := by
              intro ps r3 h
              unfold procParams at h
              split at h
              · cases h
                exact ⟨i + 3, Or.inl ⟨rfl, rfl⟩, a2⟩
              · obtain ⟨lastp, gp, ap⟩ := params_good c _ r2 ps r3 (i + 1 + 1 + 1) h a2
                exact ⟨lastp + 1, Or.inr ⟨lastp, gp, rfl⟩, ap⟩
            cases h3 : procParams c.g r2 with
            | none => rw [h3] at hs'; simp at hs'
            | some res3 =>
              obtain ⟨ps, r3⟩ := res3
              rw [h3] at hs'
              simp only at hs'
              obtain ⟨rp, hps, a3⟩ := hparams ps r3 h3
              cases h4 : expectK .RParen r3 with
              | none => rw [h4] at hs'; simp at hs'
              | some res4 =>
                obtain ⟨j4, r4⟩ := res4
                rw [h4] at hs'
                simp only at hs'
                obtain ⟨_, ⟨tk3, htk3, hty3⟩, a4⟩ := expectK_al c (p := .RParen) rfl h4 a3
                cases h5 : expectK .LCurly r4 with
                | none => rw [h5] at hs'; simp at hs'
                | some res5 =>
                  obtain ⟨j5, r5⟩ := res5
                  rw [h5] at hs'
                  simp only at hs'
                  obtain ⟨_, ⟨tk4, htk4, hty4⟩, a5⟩ := expectK_al c (p := .LCurly) rfl h5 a4
                  have hsz4 := (Array.getElem?_eq_some_iff.mp htk4).1
                  cases h6 : varDecls c.g (r5.length + 1) r5 with
                  | none => rw [h6] at hs'; simp at hs'
                  | some res6 =>
                    obtain ⟨vs, r6⟩ := res6
                    rw [h6] at hs'
                    simp only at hs'
                    obtain ⟨bv, gv, a6⟩ := varDecls_good c _ r5 vs r6 (rp + 1 + 1) h6 a5 (by omega)
                    cases h7 : stmts c.g (2 * r6.length + 4) r6 with
                    | none => rw [h7] at hs'; simp at hs'
                    | some res7 =>
                      obtain ⟨ss, r7⟩ := res7
                      rw [h7] at hs'
                      simp only at hs'
                      obtain ⟨b, lg, ab, r', hr'⟩ := (sconf_all c o ho _).stmts r6 ss r7 bv h7 a6
                      subst hr'
                      simp only [expectK, TokenType.kind, beq_self_eq_true, if_true] at hs'
                      obtain ⟨_, ⟨tk5, htk5, hty5⟩, a8⟩ := al_head c ab
                      dsimp only at hty5
                      cases h8 : decls c.g fuel r' with
                      | none => rw [h8] at hs'; simp at hs'
                      | some res8 =>
                        obtain ⟨ds2, last2⟩ := res8
                        rw [h8] at hs'
                        simp only [Option.some.injEq, Prod.mk.injEq] at hs'
                        obtain ⟨rfl, rfl⟩ := hs'
                        obtain ⟨n, lss, hn, heof, em, okm, tym⟩ := decls_good o ho fuel r' ds2 last2 (b + 1) h8 a8
                        have hsz5 := (Array.getElem?_eq_some_iff.mp htk5).1
                        have hszi := (Array.getElem?_eq_some_iff.mp htk).1
                        obtain ⟨S', ef, hS', hlo'⟩ := from_ok c (full_ok c) i (by simp [Slice.full]; omega)
                        have hlo'' : S'.lo = i := by simpa [Slice.full] using hlo'
                        obtain ⟨ls, e1, eo, ok1, ne1, ty1⟩ := procDecl_fmt c o ho i nm ps vs ss (docOf c.g i) rp bv b tk tk1 tk2 tk3 tk4 tk5
                          htk hty htk1 hty1 htk2 hty2 hps htk3 hty3 htk4 hty4 gv lg htk5 hty5 S' hS' hlo''
                        have hrp : i + 3 ≤ rp := by rcases hps with ⟨_, h⟩ | ⟨lp, ⟨h1, _, _⟩, h⟩ <;> omega
                        have hb : i ≤ b := by have := gv.1; have := lg.1; omega
                        refine ⟨n, ls :: lss, by omega, heof, ?_, ?_, ?_⟩
                        · have hone : declText o c.g.all (relDecl (refAbs (.proc (ProcDecl.mk (docOf c.g i) (some (mkIdent c.g (i + 1) nm))
                              ps vs ss.toList (mkInfo c.g i b))))) = .ok (render ls) := by
                            simp only [declText, eo, ef, e1]
                          simp only [List.map_cons, List.mapM_cons, hone, em, pure, Except.pure, bind, Except.bind]
                        · intro x hx
                          rcases List.mem_cons.mp hx with rfl | hx
                          · exact ok1
                          · exact okm x hx
                        · rw [List.flatten_cons, typesOf_append, ty1, tym]
                          exact (tysOf_split c i (b + 1) n (by omega) (by omega)).symm
      | _ => simp [Grammar.decls] at hs

end Spl.FmtDecl
