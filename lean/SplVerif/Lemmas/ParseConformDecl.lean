/-
  Conformance of the parser model with the grammar specification (C04), concluded: declarations,
  the declaration loop, the program — `parse_conforms`.

  Doc comments: `many0(comment)` returns the texts of the comment run, which is `docOf` of the
  specification (`docComments_run`, `docOf_eq`); behind consumed doc comments the next token parser
  sits exactly on its token (`tk_here`, `ident_here`).  Type, variable, parameter and procedure
  declarations (`typeDecl_conf`, `varDecl_conf`, `param_conf`, `procDecl_conf`) use the conformance of
  type expressions, statement lists and the comma-separated lists (`params_conf` like `args_conf`).
  Loop exits are look-ahead facts evaluated on the generated table: `la_var_dec_ok` (whatever can
  start a statement list ends the variable declarations; `stmts_start` supplies the premise),
  `globalDecl_fail_eof`.  `decls_conf` is the loop over the global declarations, `program_conf` adds
  `all_consuming(eof)`, and `parse_conforms` states the result for `parser::parse`.
-/
import SplVerif.Lemmas.ParseConformStmt

namespace Spl.ParseConform
open Spl Spl.Parse Spl.Grammar

variable (ctx : Ctx)

def cmtText (t : Token) : Option (List Char) :=
  match t.ty with
  | .Comment c => some c
  | _ => none

/-- comment texts of the tokens `p … i-1` -/
def cmtTexts (A : Array Token) (p i : Nat) : List (List Char) :=
  ((A.toList.drop p).take (i - p)).filterMap cmtText

theorem docOf_eq (A : Array Token) (p i : Nat) (h : lead ⟨A⟩ i = p) : docOf ⟨A⟩ i = cmtTexts A p i := by
  simp only [docOf, h, Array.toList_extract, List.extract, cmtTexts]
  rfl

theorem cmtTexts_step (A : Array Token) (p i : Nat) (t : Token) (c : List Char) (hp : p < i) (ht : A[p]? = some t)
    (hc : t.ty = .Comment c) : cmtTexts A p i = c :: cmtTexts A (p + 1) i := by
  have hsz : p < A.toList.length := by simpa using (Array.getElem?_eq_some_iff.mp ht).1
  have hel : A.toList[p] = t := by simpa using (Array.getElem?_eq_some_iff.mp ht).2
  simp only [cmtTexts]
  rw [List.drop_eq_getElem_cons hsz, hel]
  obtain ⟨n, hn⟩ : ∃ n, i - p = n + 1 := ⟨i - p - 1, by omega⟩
  rw [hn, List.take_succ_cons, List.filterMap_cons]
  have : i - (p + 1) = n := by omega
  simp [cmtText, hc, this]

theorem cmtTexts_nil (A : Array Token) (p : Nat) : cmtTexts A p p = [] := by simp [cmtTexts]

/-- `many0(comment)` returns the texts of the comment run -/
theorem docComments_run : ∀ (n : Nat) (s : St) (i : Nat), i - s.pos = n → Next ctx.toks s.pos i →
    docComments ctx s = .ok { s with pos := i } (cmtTexts ctx.toks s.pos i) := by
  have key : ∀ (n : Nat) (s : St) (i : Nat) (fuel : Nat), i - s.pos = n → i - s.pos < fuel → Next ctx.toks s.pos i →
      many0 (comment ctx) fuel s = .ok { s with pos := i } (cmtTexts ctx.toks s.pos i) := by
    intro n
    induction n with
    | zero =>
      intro s i fuel hn hf hN
      have hi : i = s.pos := by have := hN.le; omega
      subst hi
      obtain ⟨t, ht, hk⟩ := hN.tok
      obtain ⟨f, rfl⟩ : ∃ f, fuel = f + 1 := ⟨fuel - 1, by omega⟩
      have hc : comment ctx s = .err false s := by
        simp only [comment, take1, ht]
        cases hty : t.ty <;> simp_all [kind_not_comment t hk]
      simp only [many0, hc, cmtTexts_nil]
    | succ n ih =>
      intro s i fuel hn hf hN
      obtain ⟨f, rfl⟩ : ∃ f, fuel = f + 1 := ⟨fuel - 1, by omega⟩
      obtain ⟨t, ht, hk⟩ := hN.cmts s.pos (Nat.le_refl _) (by omega)
      obtain ⟨c, hc⟩ := kind_comment t hk
      have hcm : comment ctx s = .ok { s with pos := s.pos + 1 } c := by simp [comment, take1, ht, hc]
      have hN' : Next ctx.toks ({ s with pos := s.pos + 1 } : St).pos i :=
        ⟨by simp; omega, fun q a b => hN.cmts q (by simp at a; omega) b, hN.tok⟩
      have := ih { s with pos := s.pos + 1 } i f (by simp; omega) (by simp; omega) hN'
      have hne : ((s.pos + 1 == s.pos) = false) := by simp
      simp only [many0, hcm, hne, Bool.false_eq_true, if_false, this]
      rw [cmtTexts_step ctx.toks s.pos i t c (by omega) ht hc]
  intro n s i hn hN
  have hsz : i < ctx.toks.size := by
    obtain ⟨t, ht, _⟩ := hN.tok
    exact (Array.getElem?_eq_some_iff.mp ht).1
  exact key n s i (loopFuel ctx) hn (by simp [loopFuel]; omega) hN

/-- a token parser exactly at its token (no comments in between) -/
theorem tk_here (s : St) (t : Token) (k : Kind) (ht : ctx.toks[s.pos]? = some t) (hk : t.kind ≠ .Comment) :
    tk ctx k s = if t.ty.kind == k then .ok { s with pos := s.pos + 1 } t else .err false s :=
  tagK_next ctx s s.pos t k ⟨Nat.le_refl _, by intro q a b; omega, ⟨t, ht, hk⟩⟩ ht

/-- an identifier exactly at the current position (behind consumed doc comments) -/
theorem ident_here {s : St} {name : List Char} {t : Token} (ht : ctx.toks[s.pos]? = some t) (hty : t.ty = .Ident name)
    (href : s.refPos ≤ s.pos) :
    parseIdentifier ctx none s = .ok { s with pos := s.pos + 1 }
      { value := name, info := { range := ⟨s.pos - s.refPos, s.pos + 1 - s.refPos⟩ } } := by
  have hk : t.kind ≠ .Comment := by simp [Token.kind, hty, TokenType.kind]
  have he := tk_here ctx { s with errBuf := [] } t .Ident ht hk
  have hkk : (t.ty.kind == Kind.Ident) = true := by simp [hty, TokenType.kind]
  rw [hkk] at he; simp only [if_true] at he
  have hi := info_ok (tk ctx .Ident) s _ t he href (by simp; omega)
  simp only [parseIdentifier, affected, pmap, hi, hty, displayToken]

/-- a type expression under its own reference (`refTypeExpr`) -/
theorem refType_ok {fs : Nat} {ts rest : Toks} {t : TypeExpr} {sp : Span} {s : St}
    (hs : typeExpr (G ctx) fs ts = some (t, sp, rest)) (hat : At ctx s ts) :
    refTypeExpr ctx none s = .ok { s with pos := sp.last + 1 } (relRefType s.refPos (refAbs t)) ∧
    s.pos ≤ sp.last ∧ At ctx { s with pos := sp.last + 1 } rest := by
  have hlen := hat.length_le ctx
  obtain ⟨g1, g2, g3, g4, g5⟩ := typeExpr_conf ctx fs ts t sp rest hs (typeFuel ctx) _ (hat.reref ctx)
    (by simp only [typeFuel]; omega)
  have hr := refParse_ok (parseTypeExpr ctx (typeFuel ctx)) s _ _ g1 hat.ref
  refine ⟨?_, by have := g2.le; simp at this; omega, ⟨g5.fresh, by have := hat.ref; have := g2.le; simp at *; omega, g5.toks⟩⟩
  simp only [refTypeExpr, hr, relRefType, refAbs, g4]

theorem identTok_some (ts r : Toks) (j : Nat) (nm : List Char) (h : identTok ts = some (j, nm, r)) :
    ts = ⟨j, .Ident nm⟩ :: r := by
  cases ts with
  | nil => simp [identTok] at h
  | cons t r' =>
    obtain ⟨i, ty⟩ := t
    cases ty <;> simp_all [identTok]

/-- the specification's view of a type declaration, flattened -/
structure TypeDeclSpec (g : GCtx) (i : Nat) (r rest : Toks) (td : TypeDecl) (k : Nat) : Prop where
  ex : ∃ j nm ieq tyeq r2 t st tyk,
    r = ⟨j, .Ident nm⟩ :: ⟨ieq, tyeq⟩ :: r2 ∧ (tyeq.kind == Kind.Eq) = true ∧
    typeExpr g (2 * r2.length + 4) r2 = some (t, st, ⟨k, tyk⟩ :: rest) ∧ (tyk.kind == Kind.Semic) = true ∧
    td = { doc := docOf g i, name := some (mkIdent g j nm), typeExpr := some (refAbs t), info := mkInfo g i k }

/-- the implementation's form of a type declaration of the specification -/
def relTypeDecl (b : Nat) (t : TypeDecl) : TypeDecl :=
  { t with name := t.name.map (relIdent b), typeExpr := t.typeExpr.map (relRefType b), info := relInfo b t.info }

theorem typeDecl_conf {s : St} {i k : Nat} {r rest : Toks} {td : TypeDecl} (hsp : TypeDeclSpec (G ctx) i r rest td k)
    (hat : At ctx s (⟨i, .Type⟩ :: r)) :
    parseTypeDecl ctx none s = .ok { s with pos := k + 1 } (relTypeDecl s.refPos td) ∧
    (s.pos ≤ i ∧ i < k) ∧ At ctx { s with pos := k + 1 } rest := by
  obtain ⟨j, nm, ieq, tyeq, r2, t, st, tyk, rfl, keq, ht, kk, rfl⟩ := hsp.ex
  obtain ⟨hN, ⟨tok, htok, hty⟩, hr0, hlead⟩ := hat.head
  -- doc comments, `type`
  have hdoc := docComments_run ctx (i - s.pos) { s with errBuf := [] } i rfl hN
  have hkc : tok.kind ≠ .Comment := by simp [Token.kind, hty, TokenType.kind]
  have he0 := tk_here ctx { s with errBuf := [], pos := i } tok .Type htok hkc
  have hk0 : (tok.ty.kind == Kind.Type) = true := by simp [hty, TokenType.kind]
  rw [hk0] at he0; simp only [if_true] at he0
  -- name
  have hat1 : At ctx { s with errBuf := [], pos := i + 1 } (⟨j, .Ident nm⟩ :: ⟨ieq, tyeq⟩ :: r2) :=
    ⟨fresh_after ctx.toks i tok htok hkc, by have := hat.ref; have := hN.le; simp; omega, hr0.symm⟩
  obtain ⟨hid, hat2⟩ := ident_ok ctx hat1
  have e1 := expect_ok (parseIdentifier ctx) (.ExpectedToken (chars "identifier")) _ _ _ hid
  -- `=`
  obtain ⟨teq, _, _, heq, _, hat3⟩ := tagK_head ctx hat2 .Eq
  rw [keq] at heq; simp only [if_true] at heq
  have heq' : tk ctx .Eq _ = _ := heq
  have e2 : Spl.Parse.expect none (inc (altList [
        tk ctx .Eq,
        confusable (tk ctx .Assign) (.ConfusedToken eqS assignS),
        confusable (tk ctx .Colon) (.ConfusedToken eqS colonS)])) (.ExpectedToken eqS)
      { s with errBuf := [], pos := j + 1 } = .ok { s with errBuf := [], pos := ieq + 1 } (some teq) := by
    apply expect_ok
    exact altList_cons_ok _ _ _ _ _ heq'
  -- the type
  obtain ⟨e3, hp3, hat4⟩ := refType_ok ctx ht hat3
  have e3' := expect_ok (refTypeExpr ctx) (.ExpectedToken (chars "type expression")) _ _ _ e3
  obtain ⟨_, e4, hat5⟩ := expect_tk ctx hat4 .Semic kk .MissingTrailingSemic
  have c0 : s.pos ≤ i := hN.le
  have c1 : i + 1 ≤ j := by have := (hat1.head).1.le; simpa using this
  have c2 : j + 1 ≤ ieq := by have := (hat2.head).1.le; simpa using this
  have c3 : ieq + 1 ≤ st.last := by simpa using hp3
  have c4 : st.last + 1 ≤ k := by have := (hat4.head).1.le; simpa using this
  have inner : typeDeclInner ctx none none { s with errBuf := [] } =
      .ok { s with errBuf := [], pos := k + 1 }
        (cmtTexts ctx.toks s.pos i, some (relIdent s.refPos (mkIdent (G ctx) j nm)), some (relRefType s.refPos (refAbs t))) := by
    simp only [typeDeclInner, Parse.bind, hdoc, he0, e1, e2, e3', e4, pure']
  have hpos : s.refPos ≤ k + 1 := by have := hat.ref; omega
  have hi := info_ok _ s _ _ inner hat.ref (by simpa using hpos)
  refine ⟨?_, ⟨c0, by omega⟩, ⟨hat5.fresh, by simpa using hpos, hat5.toks⟩⟩
  simp only [parseTypeDecl, affected, Option.bind_none, pmap, hi, relTypeDecl, relInfo, mkInfo, hlead,
    docOf_eq ctx.toks s.pos i hlead, Option.map_some]

/-! ### evaluating look-ahead items on the head tokens -/

theorem voidtk_ok {s : St} {i : Nat} {ty : TokenType} {rest : Toks} (h : At ctx s (⟨i, ty⟩ :: rest)) (k : Kind)
    (hk : ty.kind = k) : void (tk ctx k) s = .ok { s with pos := i + 1 } () := by
  obtain ⟨t, _, _, he, _, _⟩ := tagK_head ctx h k
  have : (ty.kind == k) = true := by simp [hk]
  rw [this] at he; simp only [if_true] at he
  have he' : tk ctx k s = _ := he
  exact void_ok _ _ _ _ he'

theorem voidtk_err {s : St} {i : Nat} {ty : TokenType} {rest : Toks} (h : At ctx s (⟨i, ty⟩ :: rest)) (k : Kind)
    (hk : ty.kind ≠ k) : IsErr (void (tk ctx k) s) :=
  void_err _ _ (tagK_fail ctx h k (by intro i' ty' r' e'; cases e'; exact hk))

theorem identThen_ok {s : St} {i i2 : Nat} {nm : List Char} {ty2 : TokenType} {rest : Toks}
    (h : At ctx s (⟨i, .Ident nm⟩ :: ⟨i2, ty2⟩ :: rest)) (ks : List Kind) (hk : ty2.kind ∈ ks) :
    void (Parse.bind (parseIdentifier ctx none) (fun _ => altList (ks.map (tk ctx)))) s =
      .ok { s with pos := i2 + 1 } () := by
  obtain ⟨hid, hat1⟩ := ident_ok ctx h
  obtain ⟨t, _, _, hin, _⟩ := altTk_head ctx hat1 ks
  simp only [void, pmap, Parse.bind, hid, hin hk]

theorem identThen_err_head {s : St} {ts : Toks} (h : At ctx s ts) (ks : List Kind)
    (hne : ∀ i ty r, ts = ⟨i, ty⟩ :: r → ty.kind ≠ .Ident) :
    IsErr (void (Parse.bind (parseIdentifier ctx none) (fun _ => altList (ks.map (tk ctx)))) s) :=
  void_err _ _ (bind_err _ _ _ (ident_fail ctx h hne))

theorem identThen_err_second {s : St} {i i2 : Nat} {nm : List Char} {ty2 : TokenType} {rest : Toks}
    (h : At ctx s (⟨i, .Ident nm⟩ :: ⟨i2, ty2⟩ :: rest)) (ks : List Kind) (hk : ty2.kind ∉ ks) :
    IsErr (void (Parse.bind (parseIdentifier ctx none) (fun _ => altList (ks.map (tk ctx)))) s) := by
  obtain ⟨hid, hat1⟩ := ident_ok ctx h
  obtain ⟨t, _, _, _, hout⟩ := altTk_head ctx hat1 ks
  obtain ⟨k, s', he⟩ := hout hk
  exact ⟨k, s', by simp only [void, pmap, Parse.bind, hid, he]⟩

/-- what can follow the variable declarations of a valid procedure: `}` or the start of a statement -/
inductive StmtStart : Toks → Prop where
  | tok (i : Nat) (ty : TokenType) (r : Toks) (h : ty.kind = .LCurly ∨ ty.kind = .RCurly ∨ ty.kind = .Semic ∨
      ty.kind = .If ∨ ty.kind = .While) : StmtStart (⟨i, ty⟩ :: r)
  | ident (i i2 : Nat) (nm : List Char) (ty2 : TokenType) (r : Toks)
      (h : ty2.kind = .Assign ∨ ty2.kind = .LParen ∨ ty2.kind = .LBracket) : StmtStart (⟨i, .Ident nm⟩ :: ⟨i2, ty2⟩ :: r)

/-- `look_ahead::var_dec` accepts whatever can follow the variable declarations -/
theorem la_var_dec_ok {s : St} {ts : Toks} (h : At ctx s ts) (hs : StmtStart ts) :
    ∃ s', la ctx .var_dec s = .ok s' () := by
  show ∃ s', lookAhead ctx 0 (7 + 1) .var_dec s = .ok s' ()
  rw [lookAhead_succ]
  simp only [Gen.lookAheadSet, List.map_cons, List.map_nil]
  cases hs with
  | tok i ty r hk =>
    have hv : ty.kind ≠ .Var := by rcases hk with h | h | h | h | h <;> rw [h] <;> decide
    rw [altList_cons_err _ _ _ (by simp) (voidtk_err ctx h .Var hv)]
    -- the statement set
    have hst : ∃ s', lookAhead ctx 0 (6 + 1) .stmt s = .ok s' () := by
      rw [lookAhead_succ]
      simp only [Gen.lookAheadSet, List.map_cons, List.map_nil]
      rcases hk with hk | hk | hk | hk | hk
      · exact ⟨_, altList_cons_ok _ _ _ _ _ (voidtk_ok ctx h .LCurly hk)⟩
      · rw [altList_cons_err _ _ _ (by simp) (voidtk_err ctx h .LCurly (by rw [hk]; decide))]
        exact ⟨_, altList_cons_ok _ _ _ _ _ (voidtk_ok ctx h .RCurly hk)⟩
      · rw [altList_cons_err _ _ _ (by simp) (voidtk_err ctx h .LCurly (by rw [hk]; decide))]
        rw [altList_cons_err _ _ _ (by simp) (voidtk_err ctx h .RCurly (by rw [hk]; decide))]
        exact ⟨_, altList_cons_ok _ _ _ _ _ (voidtk_ok ctx h .Semic hk)⟩
      · rw [altList_cons_err _ _ _ (by simp) (voidtk_err ctx h .LCurly (by rw [hk]; decide))]
        rw [altList_cons_err _ _ _ (by simp) (voidtk_err ctx h .RCurly (by rw [hk]; decide))]
        rw [altList_cons_err _ _ _ (by simp) (voidtk_err ctx h .Semic (by rw [hk]; decide))]
        exact ⟨_, altList_cons_ok _ _ _ _ _ (voidtk_ok ctx h .If hk)⟩
      · rw [altList_cons_err _ _ _ (by simp) (voidtk_err ctx h .LCurly (by rw [hk]; decide))]
        rw [altList_cons_err _ _ _ (by simp) (voidtk_err ctx h .RCurly (by rw [hk]; decide))]
        rw [altList_cons_err _ _ _ (by simp) (voidtk_err ctx h .Semic (by rw [hk]; decide))]
        rw [altList_cons_err _ _ _ (by simp) (voidtk_err ctx h .If (by rw [hk]; decide))]
        exact ⟨_, altList_cons_ok _ _ _ _ _ (voidtk_ok ctx h .While hk)⟩
    obtain ⟨s', hs'⟩ := hst
    exact ⟨s', altList_cons_ok _ _ _ _ _ hs'⟩
  | ident i i2 nm ty2 r hk =>
    have hv : (TokenType.Ident nm).kind ≠ .Var := by simp [TokenType.kind]
    rw [altList_cons_err _ _ _ (by simp) (voidtk_err ctx h .Var hv)]
    have hid : ∀ k, k ≠ Kind.Ident → (TokenType.Ident nm).kind ≠ k := by intro k hk e; exact hk e.symm
    rcases hk with hk | hk | hk
    · -- `x :=` / `x (`: the statement set accepts
      have hst : ∃ s', lookAhead ctx 0 (6 + 1) .stmt s = .ok s' () := by
        rw [lookAhead_succ]
        simp only [Gen.lookAheadSet, List.map_cons, List.map_nil]
        rw [altList_cons_err _ _ _ (by simp) (voidtk_err ctx h .LCurly (hid _ (by decide)))]
        rw [altList_cons_err _ _ _ (by simp) (voidtk_err ctx h .RCurly (hid _ (by decide)))]
        rw [altList_cons_err _ _ _ (by simp) (voidtk_err ctx h .Semic (hid _ (by decide)))]
        rw [altList_cons_err _ _ _ (by simp) (voidtk_err ctx h .If (hid _ (by decide)))]
        rw [altList_cons_err _ _ _ (by simp) (voidtk_err ctx h .While (hid _ (by decide)))]
        have e := identThen_ok ctx h [.Assign, .LParen] (by simp [hk])
        simp only [List.map_cons, List.map_nil] at e
        exact ⟨_, altList_cons_ok _ _ _ _ _ e⟩
      obtain ⟨s', hs'⟩ := hst
      exact ⟨s', altList_cons_ok _ _ _ _ _ hs'⟩
    · have hst : ∃ s', lookAhead ctx 0 (6 + 1) .stmt s = .ok s' () := by
        rw [lookAhead_succ]
        simp only [Gen.lookAheadSet, List.map_cons, List.map_nil]
        rw [altList_cons_err _ _ _ (by simp) (voidtk_err ctx h .LCurly (hid _ (by decide)))]
        rw [altList_cons_err _ _ _ (by simp) (voidtk_err ctx h .RCurly (hid _ (by decide)))]
        rw [altList_cons_err _ _ _ (by simp) (voidtk_err ctx h .Semic (hid _ (by decide)))]
        rw [altList_cons_err _ _ _ (by simp) (voidtk_err ctx h .If (hid _ (by decide)))]
        rw [altList_cons_err _ _ _ (by simp) (voidtk_err ctx h .While (hid _ (by decide)))]
        have e := identThen_ok ctx h [.Assign, .LParen] (by simp [hk])
        simp only [List.map_cons, List.map_nil] at e
        exact ⟨_, altList_cons_ok _ _ _ _ _ e⟩
      obtain ⟨s', hs'⟩ := hst
      exact ⟨s', altList_cons_ok _ _ _ _ _ hs'⟩
    · -- `x [`: the statement set fails, the third item accepts
      have hst : IsErr (lookAhead ctx 0 (6 + 1) .stmt s) := by
        rw [lookAhead_succ]
        simp only [Gen.lookAheadSet, List.map_cons, List.map_nil]
        rw [altList_cons_err _ _ _ (by simp) (voidtk_err ctx h .LCurly (hid _ (by decide)))]
        rw [altList_cons_err _ _ _ (by simp) (voidtk_err ctx h .RCurly (hid _ (by decide)))]
        rw [altList_cons_err _ _ _ (by simp) (voidtk_err ctx h .Semic (hid _ (by decide)))]
        rw [altList_cons_err _ _ _ (by simp) (voidtk_err ctx h .If (hid _ (by decide)))]
        rw [altList_cons_err _ _ _ (by simp) (voidtk_err ctx h .While (hid _ (by decide)))]
        have e := identThen_err_second ctx h [.Assign, .LParen] (by simp [hk])
        simp only [List.map_cons, List.map_nil] at e
        rw [altList_cons_err _ _ _ (by simp) e]
        show IsErr (lookAhead ctx 0 (5 + 1) .global_dec s)
        rw [lookAhead_succ]
        simp only [Gen.lookAheadSet, List.map_cons, List.map_nil]
        rw [altList_cons_err _ _ _ (by simp) (voidtk_err ctx h .Proc (hid _ (by decide)))]
        rw [altList_cons_err _ _ _ (by simp) (voidtk_err ctx h .Type (hid _ (by decide)))]
        exact voidtk_err ctx h .Eof (hid _ (by decide))
      rw [altList_cons_err _ _ _ (by simp) hst]
      have e := identThen_ok ctx h [.LBracket, .Eq, .Colon] (by simp [hk])
      simp only [List.map_cons, List.map_nil] at e
      exact ⟨_, e⟩

theorem parseVarDecl_none (s : St) : parseVarDecl ctx none s =
    alt2 (pmap (fun (p : (List (List Char) × Option Identifier × Option (Ref TypeExpr)) × AstInfo) =>
          VarDecl.valid p.1.1 p.1.2.1 p.1.2.2 p.2) (info (varDeclInner ctx none none)))
      (pmap (fun (p : List Token × AstInfo) =>
          VarDecl.error { p.2 with errors := p.2.errors ++ [⟨p.2.range, .ExpectedToken (chars "variable declaration")⟩] })
        (info (ignoreUntil1 ctx (peek (la ctx .var_dec)) (loopFuel ctx)))) s := rfl

theorem varDecls_var_flat (g : GCtx) (fv i : Nat) (r rest : Toks) (vs : List (Ref VarDecl))
    (h : varDecls g (fv + 1) (⟨i, .Var⟩ :: r) = some (vs, rest)) :
    ∃ j nm icol tycol r2 t st k tyk r4 vs',
      r = ⟨j, .Ident nm⟩ :: ⟨icol, tycol⟩ :: r2 ∧ (tycol.kind == Kind.Colon) = true ∧
      typeExpr g (2 * r2.length + 4) r2 = some (t, st, ⟨k, tyk⟩ :: r4) ∧ (tyk.kind == Kind.Semic) = true ∧
      varDecls g fv r4 = some (vs', rest) ∧
      vs = refAbs (.valid (docOf g i) (some (mkIdent g j nm)) (some (refAbs t)) (mkInfo g i k)) :: vs' := by
  simp only [Grammar.varDecls] at h
  split at h
  · cases h
  · rename_i j nm r1 h1
    have e1 := identTok_some _ _ _ _ h1
    split at h
    · cases h
    · rename_i x2 r2 h2
      obtain ⟨ty2, e2, k2⟩ := expectK_some _ _ _ _ h2
      split at h
      · cases h
      · rename_i t st r3 h3
        split at h
        · cases h
        · rename_i k r4 h4
          obtain ⟨ty4, e4, k4⟩ := expectK_some _ _ _ _ h4
          subst e4
          split at h
          · cases h
          · rename_i vs' r5 h5
            simp only [Option.some.injEq, Prod.mk.injEq] at h
            obtain ⟨rfl, rfl⟩ := h
            exact ⟨j, nm, x2, ty2, r2, t, st, k, ty4, r4, vs', by rw [e1, e2], k2, h3, k4, h5, rfl⟩

theorem varDecls_other (g : GCtx) (fv : Nat) (ts : Toks) (h : ∀ i r, ts ≠ ⟨i, .Var⟩ :: r) :
    varDecls g (fv + 1) ts = some ([], ts) := by
  cases ts with
  | nil => rfl
  | cons t r =>
    obtain ⟨i, ty⟩ := t
    cases ty <;> first | rfl | exact absurd rfl (h i r)

/-- the implementation's form of a variable declaration under the reference that starts at `b` -/
def relVarDeclVal (b : Nat) : VarDecl → VarDecl
  | .valid d n t i => .valid d (n.map (relIdent b)) (t.map (relRefType b)) (relInfo b i)
  | .error i => .error (relInfo b i)

theorem relVarDecl_eq (base : Nat) (r : Ref VarDecl) :
    relVarDecl base r = ⟨relVarDeclVal r.val.info.range.lo r.val, r.val.info.range.lo - base⟩ := by
  obtain ⟨v, o⟩ := r
  cases v <;> rfl

theorem varDecl_conf {s : St} {i j icol k : Nat} {nm : List Char} {tycol tyk : TokenType} {r2 rest : Toks}
    {t : TypeExpr} {st : Span}
    (hat : At ctx s (⟨i, .Var⟩ :: ⟨j, .Ident nm⟩ :: ⟨icol, tycol⟩ :: r2)) (kcol : (tycol.kind == Kind.Colon) = true)
    (ht : typeExpr (G ctx) (2 * r2.length + 4) r2 = some (t, st, ⟨k, tyk⟩ :: rest)) (kk : (tyk.kind == Kind.Semic) = true) :
    parseVarDecl ctx none s = .ok { s with pos := k + 1 }
      (relVarDeclVal s.refPos (.valid (docOf (G ctx) i) (some (mkIdent (G ctx) j nm)) (some (refAbs t)) (mkInfo (G ctx) i k))) ∧
    (s.pos ≤ i ∧ i < k) ∧ lead (G ctx) i = s.pos ∧ At ctx { s with pos := k + 1 } rest := by
  obtain ⟨hN, ⟨tok, htok, hty⟩, hr0, hlead⟩ := hat.head
  have hdoc := docComments_run ctx (i - s.pos) { s with errBuf := [] } i rfl hN
  have hkc : tok.kind ≠ .Comment := by simp [Token.kind, hty, TokenType.kind]
  have he0 := tk_here ctx { s with errBuf := [], pos := i } tok .Var htok hkc
  have hk0 : (tok.ty.kind == Kind.Var) = true := by simp [hty, TokenType.kind]
  rw [hk0] at he0; simp only [if_true] at he0
  have hat1 : At ctx { s with errBuf := [], pos := i + 1 } (⟨j, .Ident nm⟩ :: ⟨icol, tycol⟩ :: r2) :=
    ⟨fresh_after ctx.toks i tok htok hkc, by have := hat.ref; have := hN.le; simp; omega, hr0.symm⟩
  obtain ⟨hid, hat2⟩ := ident_ok ctx hat1
  have e1 := expect_ok (parseIdentifier ctx) (.ExpectedToken (chars "identifier")) _ _ _ hid
  obtain ⟨tcol, _, _, hcol, _, hat3⟩ := tagK_head ctx hat2 .Colon
  rw [kcol] at hcol; simp only [if_true] at hcol
  have hcol' : tk ctx .Colon _ = _ := hcol
  have e2 : Spl.Parse.expect none (inc (altList [
        tk ctx .Colon,
        confusable (tk ctx .Assign) (.ConfusedToken colonS assignS),
        confusable (tk ctx .Eq) (.ConfusedToken colonS eqS)])) (.ExpectedToken colonS)
      { s with errBuf := [], pos := j + 1 } = .ok { s with errBuf := [], pos := icol + 1 } (some tcol) := by
    apply expect_ok
    exact altList_cons_ok _ _ _ _ _ hcol'
  obtain ⟨e3, hp3, hat4⟩ := refType_ok ctx ht hat3
  have e3' := expect_ok (refTypeExpr ctx) (.ExpectedToken (chars "type expression")) _ _ _ e3
  obtain ⟨_, e4, hat5⟩ := expect_tk ctx hat4 .Semic kk .MissingTrailingSemic
  have c0 : s.pos ≤ i := hN.le
  have c1 : i + 1 ≤ j := by have := (hat1.head).1.le; simpa using this
  have c2 : j + 1 ≤ icol := by have := (hat2.head).1.le; simpa using this
  have c3 : icol + 1 ≤ st.last := by simpa using hp3
  have c4 : st.last + 1 ≤ k := by have := (hat4.head).1.le; simpa using this
  have inner : varDeclInner ctx none none { s with errBuf := [] } =
      .ok { s with errBuf := [], pos := k + 1 }
        (cmtTexts ctx.toks s.pos i, some (relIdent s.refPos (mkIdent (G ctx) j nm)), some (relRefType s.refPos (refAbs t))) := by
    simp only [varDeclInner, Parse.bind, hdoc, he0, e1, e2, e3', e4, pure']
  have hpos : s.refPos ≤ k + 1 := by have := hat.ref; omega
  have hi := info_ok _ s _ _ inner hat.ref (by simpa using hpos)
  refine ⟨?_, ⟨c0, by omega⟩, hlead, ⟨hat5.fresh, by simpa using hpos, hat5.toks⟩⟩
  rw [parseVarDecl_none]
  apply alt2_ok_left
  simp only [pmap, hi, relVarDeclVal, relInfo, mkInfo, hlead, docOf_eq ctx.toks s.pos i hlead, Option.map_some]

/-- a variable declaration cannot start here: both alternatives of `VariableDeclaration::parse` fail -/
theorem varDecl_fail {s : St} {ts : Toks} (hat : At ctx s ts) (hs : StmtStart ts) (hnv : ∀ i r, ts ≠ ⟨i, .Var⟩ :: r) :
    IsErr (parseVarDecl ctx none s) := by
  have hvalid : IsErr (pmap (fun (p : (List (List Char) × Option Identifier × Option (Ref TypeExpr)) × AstInfo) =>
      VarDecl.valid p.1.1 p.1.2.1 p.1.2.2 p.2) (info (varDeclInner ctx none none)) s) := by
    apply pmap_err
    apply info_err _ _ _ hat.ref
    cases ts with
    | nil => cases hs
    | cons t0 r =>
      obtain ⟨i, ty⟩ := t0
      obtain ⟨hN, ⟨tok, htok, hty⟩, _, _⟩ := hat.head
      have hdoc := docComments_run ctx (i - s.pos) { s with errBuf := [] } i rfl hN
      have hkc : tok.kind ≠ .Comment := by
        obtain ⟨t', ht', hk'⟩ := hN.tok
        rw [htok] at ht'; cases ht'; exact hk'
      have he0 := tk_here ctx { s with errBuf := [], pos := i } tok .Var htok hkc
      have hk0 : (tok.ty.kind == Kind.Var) = false := by
        rw [hty]
        cases ty <;> first | rfl | exact absurd rfl (hnv i r)
      rw [hk0] at he0; simp only [Bool.false_eq_true, if_false] at he0
      exact ⟨false, { s with errBuf := [], pos := i }, by simp only [varDeclInner, Parse.bind, hdoc, he0]⟩
  obtain ⟨s', hla⟩ := la_var_dec_ok ctx hat.clearErr hs
  have hpk := peek_ok _ _ _ _ hla
  have herr : IsErr (pmap (fun (p : List Token × AstInfo) =>
      VarDecl.error { p.2 with errors := p.2.errors ++ [⟨p.2.range, .ExpectedToken (chars "variable declaration")⟩] })
      (info (ignoreUntil1 ctx (peek (la ctx .var_dec)) (loopFuel ctx))) s) := by
    apply pmap_err
    apply info_err _ _ _ hat.ref
    exact ⟨false, { s with errBuf := [] }, by simp only [ignoreUntil1, hpk]⟩
  rw [parseVarDecl_none, alt2_err_left _ _ _ hvalid]
  exact herr

theorem varDecls_conf : ∀ (fv : Nat) (ts : Toks) (vs : List (Ref VarDecl)) (rest : Toks),
    varDecls (G ctx) fv ts = some (vs, rest) → StmtStart rest →
    ∀ (lf : Nat) (s : St), At ctx s ts → ts.length < lf →
    ∃ j, many0 (refParse (parseVarDecl ctx) none) lf s = .ok { s with pos := j } (vs.map (relVarDecl s.refPos)) ∧
      s.pos ≤ j ∧ At ctx { s with pos := j } rest
  | 0, ts, vs, rest, hs, _, _, _, _, _ => by simp [Grammar.varDecls] at hs
  | fv + 1, ts, vs, rest, hs, hst, lf, s, hat, hlf => by
    obtain ⟨lf', rfl⟩ : ∃ f, lf = f + 1 := ⟨lf - 1, by omega⟩
    by_cases hv : ∃ i r, ts = ⟨i, .Var⟩ :: r
    · obtain ⟨i, r, rfl⟩ := hv
      obtain ⟨j, nm, icol, tycol, r2, t, st, k, tyk, r4, vs', rfl, kcol, ht, kk, hrec, rfl⟩ := varDecls_var_flat _ _ _ _ _ _ hs
      obtain ⟨e1, hp1, hlead, hat1⟩ := varDecl_conf ctx (hat.reref ctx) kcol ht kk
      have hr := refParse_ok (parseVarDecl ctx) s _ _ e1 hat.ref
      have hp1a : s.pos ≤ i := by simpa using hp1.1
      have hp1b : i < k := hp1.2
      have hat1' : At ctx { s with pos := k + 1 } r4 := ⟨hat1.fresh, by have := hat.ref; simp; omega, hat1.toks⟩
      have hlen : r4.length + 1 ≤ (⟨i, .Var⟩ :: ⟨j, .Ident nm⟩ :: ⟨icol, tycol⟩ :: r2 : Toks).length := by
        have hr0 := (hat.head).2.2.1
        have b := tsFrom_length_mono ctx.toks _ (i + 1) (k + 1) rfl (by omega)
        rw [← hr0, hat1'.toks] at b
        simp only [List.length_cons] at b ⊢
        omega
      obtain ⟨p, g1, g2, g3⟩ := varDecls_conf fv r4 vs' rest hrec hst lf' _ hat1'
        (by simp only [List.length_cons] at hlf hlen; omega)
      refine ⟨p, ?_, by simp at g2; omega, g3⟩
      have hne : ((k + 1 == s.pos) = false) := by simp; omega
      simp only [many0, hr, hne, Bool.false_eq_true, if_false, g1, List.map_cons, relVarDecl_eq, refAbs, VarDecl.info, mkInfo,
        hlead]
    · rw [varDecls_other _ _ _ (fun i r e => hv ⟨i, r, e⟩)] at hs
      simp only [Option.some.injEq, Prod.mk.injEq] at hs
      obtain ⟨rfl, rfl⟩ := hs
      have hfail := varDecl_fail ctx (hat.reref ctx) hst (fun i r e => hv ⟨i, r, e⟩)
      obtain ⟨k, s', hr⟩ := refParse_err _ s hfail hat.ref
      refine ⟨s.pos, ?_, Nat.le_refl _, by rw [st_eta s _ rfl]; exact hat⟩
      rw [st_eta s _ rfl]
      simp only [many0, hr, List.map_nil]

theorem parseParamDecl_none (s : St) : parseParamDecl ctx none s =
    alt2 (pmap (fun (p : (List (List Char) × (Bool × Option Identifier) × Option (Ref TypeExpr)) × AstInfo) =>
          ParamDecl.valid p.1.1 p.1.2.1.1 p.1.2.1.2 p.1.2.2 p.2) (info (paramDeclInner ctx none none)))
      (pmap (fun (p : List Token × AstInfo) =>
          ParamDecl.error { p.2 with errors := p.2.errors ++ [⟨p.2.range, .ExpectedToken (chars "parameter declaration")⟩] })
        (info (fun s => ignoreUntil0 ctx (peek (la ctx .param_dec)) (loopFuel ctx) s.pos s))) s := rfl

theorem param_ref (g : GCtx) (f : Nat) (r : Toks) :
    param g (⟨f, .Ref⟩ :: r) = match identTok r with
      | none => none
      | some (i, s, r0) =>
        match expectK .Colon r0 with
        | none => none
        | some (_, r1) =>
          match typeExpr g (2 * r1.length + 4) r1 with
          | none => none
          | some (t, st, r2) =>
            some (.valid (docOf g f) true (some (mkIdent g i s)) (some (refAbs t)) (mkInfo g f st.last), r2) := rfl

theorem param_other (g : GCtx) (ts : Toks) (h : ∀ f r, ts ≠ ⟨f, .Ref⟩ :: r) :
    param g ts = match identTok ts with
      | none => none
      | some (i, s, r0) =>
        match expectK .Colon r0 with
        | none => none
        | some (_, r1) =>
          match typeExpr g (2 * r1.length + 4) r1 with
          | none => none
          | some (t, st, r2) =>
            some (.valid (docOf g i) false (some { value := s, info := { range := ⟨i, i + 1⟩ } }) (some (refAbs t))
              (mkInfo g i st.last), r2) := by
  cases ts with
  | nil => rfl
  | cons t r =>
    obtain ⟨i, ty⟩ := t
    cases ty <;> first | rfl | exact absurd rfl (h i r)

theorem param_flat (g : GCtx) (ts r2 : Toks) (p : ParamDecl) (h : param g ts = some (p, r2)) :
    (∃ f i nm icol tycol r1 t st, ts = ⟨f, .Ref⟩ :: ⟨i, .Ident nm⟩ :: ⟨icol, tycol⟩ :: r1 ∧
        (tycol.kind == Kind.Colon) = true ∧ typeExpr g (2 * r1.length + 4) r1 = some (t, st, r2) ∧
        p = .valid (docOf g f) true (some (mkIdent g i nm)) (some (refAbs t)) (mkInfo g f st.last)) ∨
    (∃ i nm icol tycol r1 t st, ts = ⟨i, .Ident nm⟩ :: ⟨icol, tycol⟩ :: r1 ∧
        (tycol.kind == Kind.Colon) = true ∧ typeExpr g (2 * r1.length + 4) r1 = some (t, st, r2) ∧
        p = .valid (docOf g i) false (some { value := nm, info := { range := ⟨i, i + 1⟩ } }) (some (refAbs t))
          (mkInfo g i st.last)) := by
  by_cases hr : ∃ f r, ts = ⟨f, .Ref⟩ :: r
  · obtain ⟨f, r, rfl⟩ := hr
    rw [param_ref] at h
    split at h
    · cases h
    · rename_i i nm r0 h1
      have e1 := identTok_some _ _ _ _ h1
      split at h
      · cases h
      · rename_i x2 r1 h2
        obtain ⟨ty2, e2, k2⟩ := expectK_some _ _ _ _ h2
        split at h
        · cases h
        · rename_i t st r3 h3
          simp only [Option.some.injEq, Prod.mk.injEq] at h
          obtain ⟨rfl, rfl⟩ := h
          exact Or.inl ⟨f, i, nm, x2, ty2, r1, t, st, by rw [e1, e2], k2, h3, rfl⟩
  · rw [param_other _ _ (fun f r e => hr ⟨f, r, e⟩)] at h
    split at h
    · cases h
    · rename_i i nm r0 h1
      have e1 := identTok_some _ _ _ _ h1
      split at h
      · cases h
      · rename_i x2 r1 h2
        obtain ⟨ty2, e2, k2⟩ := expectK_some _ _ _ _ h2
        split at h
        · cases h
        · rename_i t st r3 h3
          simp only [Option.some.injEq, Prod.mk.injEq] at h
          obtain ⟨rfl, rfl⟩ := h
          exact Or.inr ⟨i, nm, x2, ty2, r1, t, st, by rw [e1, e2], k2, h3, rfl⟩

/-- the implementation's form of a parameter declaration under the reference that starts at `b` -/
def relParamVal (b : Nat) : ParamDecl → ParamDecl
  | .valid d rf n t i => .valid d rf (n.map (relIdent b)) (t.map (relRefType b)) (relInfo b i)
  | .error i => .error (relInfo b i)

theorem relParam_eq (base : Nat) (r : Ref ParamDecl) :
    relParam base r = ⟨relParamVal r.val.info.range.lo r.val, r.val.info.range.lo - base⟩ := by
  obtain ⟨v, o⟩ := r
  cases v <;> rfl

def CommaOrRParen (ts : Toks) : Prop := ∃ i ty r, ts = ⟨i, ty⟩ :: r ∧ (ty.kind = .RParen ∨ ty.kind = .Comma)

theorem param_conf {s : St} {ts r2 : Toks} {p : ParamDecl} (hs : param (G ctx) ts = some (p, r2)) (hat : At ctx s ts)
    (hnext : CommaOrRParen r2) :
    ∃ j, parseParamDecl ctx none s = .ok { s with pos := j } (relParamVal s.refPos p) ∧ s.pos < j ∧
      p.info.range.lo = s.pos ∧ At ctx { s with pos := j } r2 := by
  rcases param_flat _ _ _ _ hs with ⟨f, i, nm, icol, tycol, r1, t, st, rfl, kcol, ht, rfl⟩ |
      ⟨i, nm, icol, tycol, r1, t, st, rfl, kcol, ht, rfl⟩
  · -- `ref name : type`
    obtain ⟨hN, ⟨tok, htok, hty⟩, hr0, hlead⟩ := hat.head
    have hdoc := docComments_run ctx (f - s.pos) { s with errBuf := [] } f rfl hN
    have hkc : tok.kind ≠ .Comment := by simp [Token.kind, hty, TokenType.kind]
    have he0 := tk_here ctx { s with errBuf := [], pos := f } tok .Ref htok hkc
    have hk0 : (tok.ty.kind == Kind.Ref) = true := by simp [hty, TokenType.kind]
    rw [hk0] at he0; simp only [if_true] at he0
    have hat1 : At ctx { s with errBuf := [], pos := f + 1 } (⟨i, .Ident nm⟩ :: ⟨icol, tycol⟩ :: r1) :=
      ⟨fresh_after ctx.toks f tok htok hkc, by have := hat.ref; have := hN.le; simp; omega, hr0.symm⟩
    obtain ⟨hid, hat2⟩ := ident_ok ctx hat1
    have e1 := expect_ok (parseIdentifier ctx) (.ExpectedToken (chars "identifier")) _ _ _ hid
    obtain ⟨_, e2, hat3⟩ := expect_tk ctx hat2 .Colon kcol (.ExpectedToken colonS)
    obtain ⟨e3, hp3, hat4⟩ := refType_ok ctx ht hat3
    have e3' := expect_ok (refTypeExpr ctx) (.ExpectedToken (chars "type expression")) _ _ _ e3
    obtain ⟨ix, tyx, rx, rfl, hkx⟩ := hnext
    obtain ⟨hla, _⟩ := la_param_ok ctx hat4 hkx
    have c0 : s.pos ≤ f := hN.le
    have c1 : f + 1 ≤ i := by have := (hat1.head).1.le; simpa using this
    have c2 : i + 1 ≤ icol := by have := (hat2.head).1.le; simpa using this
    have c3 : icol + 1 ≤ st.last := by simpa using hp3
    have halt : Parse.alt2
        (Parse.bind (tk ctx .Ref) (fun _ =>
          pmap (fun n => (true, n)) (Spl.Parse.expect none (parseIdentifier ctx) (.ExpectedToken (chars "identifier")))))
        (pmap (fun n => (false, some n)) (parseIdentifier ctx none)) { s with errBuf := [], pos := f } =
        .ok { s with errBuf := [], pos := i + 1 } (true, some (relIdent s.refPos (mkIdent (G ctx) i nm))) := by
      apply alt2_ok_left
      simp only [Parse.bind, he0, pmap, e1]
    have inner : paramDeclInner ctx none none { s with errBuf := [] } =
        .ok { s with errBuf := [], pos := st.last + 1 }
          (cmtTexts ctx.toks s.pos f, (true, some (relIdent s.refPos (mkIdent (G ctx) i nm))),
            some (relRefType s.refPos (refAbs t))) := by
      simp only [paramDeclInner, Parse.bind, hdoc, halt, e2, e3', hla, pure']
    have hpos : s.refPos ≤ st.last + 1 := by have := hat.ref; omega
    have hi := info_ok _ s _ _ inner hat.ref (by simpa using hpos)
    refine ⟨st.last + 1, ?_, by omega, by simp [ParamDecl.info, mkInfo, hlead], ⟨hat4.fresh, by simpa using hpos, hat4.toks⟩⟩
    rw [parseParamDecl_none]
    apply alt2_ok_left
    simp only [pmap, hi, relParamVal, relInfo, mkInfo, hlead, docOf_eq ctx.toks s.pos f hlead, Option.map_some]
  · -- `name : type`
    obtain ⟨hN, ⟨tok, htok, hty⟩, hr0, hlead⟩ := hat.head
    have hdoc := docComments_run ctx (i - s.pos) { s with errBuf := [] } i rfl hN
    have hkc : tok.kind ≠ .Comment := by simp [Token.kind, hty, TokenType.kind]
    have he0 := tk_here ctx { s with errBuf := [], pos := i } tok .Ref htok hkc
    have hk0 : (tok.ty.kind == Kind.Ref) = false := by simp [hty, TokenType.kind]
    rw [hk0] at he0; simp only [Bool.false_eq_true, if_false] at he0
    have hidh := ident_here ctx (s := { s with errBuf := [], pos := i }) htok hty (by have := hat.ref; have := hN.le; simp; omega)
    have hat2 : At ctx { s with errBuf := [], pos := i + 1 } (⟨icol, tycol⟩ :: r1) :=
      ⟨fresh_after ctx.toks i tok htok hkc, by have := hat.ref; have := hN.le; simp; omega, hr0.symm⟩
    obtain ⟨_, e2, hat3⟩ := expect_tk ctx hat2 .Colon kcol (.ExpectedToken colonS)
    obtain ⟨e3, hp3, hat4⟩ := refType_ok ctx ht hat3
    have e3' := expect_ok (refTypeExpr ctx) (.ExpectedToken (chars "type expression")) _ _ _ e3
    obtain ⟨ix, tyx, rx, rfl, hkx⟩ := hnext
    obtain ⟨hla, _⟩ := la_param_ok ctx hat4 hkx
    have c0 : s.pos ≤ i := hN.le
    have c2 : i + 1 ≤ icol := by have := (hat2.head).1.le; simpa using this
    have c3 : icol + 1 ≤ st.last := by simpa using hp3
    have halt : Parse.alt2
        (Parse.bind (tk ctx .Ref) (fun _ =>
          pmap (fun n => (true, n)) (Spl.Parse.expect none (parseIdentifier ctx) (.ExpectedToken (chars "identifier")))))
        (pmap (fun n => (false, some n)) (parseIdentifier ctx none)) { s with errBuf := [], pos := i } =
        .ok { s with errBuf := [], pos := i + 1 }
          (false, some { value := nm, info := { range := ⟨i - s.refPos, i + 1 - s.refPos⟩ } }) := by
      rw [alt2_err_left _ _ _ (bind_err _ _ _ ⟨false, _, he0⟩)]
      simp only [pmap, hidh]
    have inner : paramDeclInner ctx none none { s with errBuf := [] } =
        .ok { s with errBuf := [], pos := st.last + 1 }
          (cmtTexts ctx.toks s.pos i, (false, some { value := nm, info := { range := ⟨i - s.refPos, i + 1 - s.refPos⟩ } }),
            some (relRefType s.refPos (refAbs t))) := by
      simp only [paramDeclInner, Parse.bind, hdoc, halt, e2, e3', hla, pure']
    have hpos : s.refPos ≤ st.last + 1 := by have := hat.ref; omega
    have hi := info_ok _ s _ _ inner hat.ref (by simpa using hpos)
    refine ⟨st.last + 1, ?_, by omega, by simp [ParamDecl.info, mkInfo, hlead], ⟨hat4.fresh, by simpa using hpos, hat4.toks⟩⟩
    rw [parseParamDecl_none]
    apply alt2_ok_left
    simp only [pmap, hi, relParamVal, relIdent, relInfo, mkInfo, hlead, docOf_eq ctx.toks s.pos i hlead, Option.map_some]

/-- one parameter under its own reference -/
theorem param_ok {s : St} {ts r2 : Toks} {p : ParamDecl} (hs : param (G ctx) ts = some (p, r2)) (hat : At ctx s ts)
    (hnext : CommaOrRParen r2) :
    ∃ j, refParse (parseParamDecl ctx) none s = .ok { s with pos := j } (relParam s.refPos (refAbs p)) ∧ s.pos < j ∧
      At ctx { s with pos := j } r2 := by
  obtain ⟨j, g1, g2, g3, g4⟩ := param_conf ctx hs (hat.reref ctx) hnext
  have hr := refParse_ok (parseParamDecl ctx) s _ _ g1 hat.ref
  refine ⟨j, ?_, by simpa using g2, ⟨g4.fresh, by have := hat.ref; simp at g2 ⊢; omega, g4.toks⟩⟩
  simp only at g3
  simp only [hr, relParam_eq, refAbs, g3]

def cpParseP (fuel : Nat) (this : Option (Ref ParamDecl)) : P (Ref ParamDecl) :=
  Parse.bind (tagK ctx fuel .Comma) (fun _ => refParse (parseParamDecl ctx) this)

def cpConvP (r : Ref (Ref ParamDecl)) : Ref ParamDecl := ⟨r.val.val, r.offset + r.val.offset⟩

def paramsTail (g : GCtx) (fp : Nat) (ts : Toks) : Option (List (Ref ParamDecl) × Toks) :=
  match ts with
  | ⟨_, .Comma⟩ :: r1 => params g fp r1
  | _ => some ([], ts)

theorem params_succ (g : GCtx) (fp : Nat) (ts : Toks) :
    params g (fp + 1) ts = match param g ts with
      | none => none
      | some (p, r) => (paramsTail g fp r).map (fun (q : List (Ref ParamDecl) × Toks) => (refAbs p :: q.1, q.2)) := by
  cases he : param g ts with
  | none => simp only [Grammar.params, he]
  | some res =>
    obtain ⟨p, r⟩ := res
    simp only [Grammar.params, he]
    cases r with
    | nil => rfl
    | cons t r1 =>
      obtain ⟨ic, ty⟩ := t
      cases ty <;> first
        | rfl
        | (simp only [paramsTail]; cases params g fp r1 <;> rfl)

theorem paramsTail_other (g : GCtx) (fp i : Nat) (ty : TokenType) (r : Toks) (h : ty ≠ .Comma) :
    paramsTail g fp (⟨i, ty⟩ :: r) = some ([], ⟨i, ty⟩ :: r) := by
  cases ty <;> first | rfl | exact absurd rfl h

theorem next_of_tail {g : GCtx} {fp : Nat} {r' r2 : Toks} {ps : List (Ref ParamDecl)}
    (htl : paramsTail g fp r' = some (ps, r2)) (hr2 : RParenHead r2) : CommaOrRParen r' := by
  cases r' with
  | nil =>
    simp only [paramsTail, Option.some.injEq, Prod.mk.injEq] at htl
    obtain ⟨i, ty, r, e2, _⟩ := hr2
    rw [← htl.2] at e2; cases e2
  | cons t' r'' =>
    obtain ⟨i', ty'⟩ := t'
    by_cases hc : ty' = .Comma
    · exact ⟨i', ty', r'', rfl, Or.inr (by rw [hc]; rfl)⟩
    · rw [paramsTail_other _ _ _ _ _ hc] at htl
      simp only [Option.some.injEq, Prod.mk.injEq] at htl
      obtain ⟨i, ty, r, e2, hk2⟩ := hr2
      rw [← htl.2] at e2
      simp only [List.cons.injEq, ITok.mk.injEq] at e2
      obtain ⟨⟨rfl, rfl⟩, rfl⟩ := e2
      exact ⟨i', ty', r'', rfl, Or.inl hk2⟩

theorem paramsTail_conf : ∀ (fp : Nat) (ts : Toks) (ps : List (Ref ParamDecl)) (r2 : Toks),
    paramsTail (G ctx) fp ts = some (ps, r2) → RParenHead r2 →
    ∀ (lf : Nat) (s : St), At ctx s ts → ts.length < lf →
    ∃ j tail, many0 (refParse (cpParseP ctx (loopFuel ctx)) none) lf s = .ok { s with pos := j } tail ∧
      tail.map cpConvP = ps.map (relParam s.refPos) ∧ s.pos ≤ j ∧ At ctx { s with pos := j } r2
  | fp, ts, ps, r2, hs, hr2, lf, s, hat, hlf => by
    obtain ⟨lf', rfl⟩ : ∃ f, lf = f + 1 := ⟨lf - 1, by omega⟩
    have stop : IsErr (tagK ctx (loopFuel ctx) .Comma { s with refPos := s.pos }) → ps = [] → r2 = ts →
        ∃ j tail, many0 (refParse (cpParseP ctx (loopFuel ctx)) none) (lf' + 1) s = .ok { s with pos := j } tail ∧
          tail.map cpConvP = ps.map (relParam s.refPos) ∧ s.pos ≤ j ∧ At ctx { s with pos := j } r2 := by
      intro he h1 h2
      subst h1 h2
      have hc : IsErr (cpParseP ctx (loopFuel ctx) none { s with refPos := s.pos }) := bind_err _ _ _ he
      obtain ⟨k, s', hr⟩ := refParse_err _ s hc hat.ref
      refine ⟨s.pos, [], ?_, rfl, Nat.le_refl _, by rw [st_eta s _ rfl]; exact hat⟩
      rw [st_eta s _ rfl]
      simp only [many0, hr]
    cases ts with
    | nil =>
      simp only [paramsTail, Option.some.injEq, Prod.mk.injEq] at hs
      exact stop (tagK_fail ctx (hat.reref ctx) .Comma (by intro i ty r e; cases e)) hs.1.symm hs.2.symm
    | cons t0 r1 =>
      obtain ⟨ic, ty⟩ := t0
      by_cases hty : ty = .Comma
      · subst hty
        simp only [paramsTail] at hs
        cases fp with
        | zero => simp [Grammar.params] at hs
        | succ fp' =>
          rw [params_succ] at hs
          cases he : param (G ctx) r1 with
          | none => simp [he] at hs
          | some res =>
            obtain ⟨p, r'⟩ := res
            simp only [he, Option.map_eq_some_iff] at hs
            obtain ⟨⟨ps', r2'⟩, htl, hpair⟩ := hs
            simp only [Prod.mk.injEq] at hpair
            obtain ⟨rfl, rfl⟩ := hpair
            obtain ⟨_, _, _, hcm, _, hat1⟩ := tagK_head ctx (hat.reref ctx) .Comma
            have hk : ((TokenType.Comma).kind == Kind.Comma) = true := rfl
            rw [hk] at hcm; simp only [if_true] at hcm
            obtain ⟨jp, ha, hpa, hat2⟩ := param_ok ctx he hat1 (next_of_tail htl hr2)
            have hic : s.pos ≤ ic := (hat.head).1.le
            have hlo : p.info.range.lo = ic + 1 := by
              have := (param_conf ctx he (hat1.reref ctx) (next_of_tail htl hr2))
              obtain ⟨_, _, _, g3, _⟩ := this
              simpa using g3
            have hcp : cpParseP ctx (loopFuel ctx) none { s with refPos := s.pos } =
                .ok { s with refPos := s.pos, pos := jp } ⟨relParamVal (ic + 1) p, ic + 1 - s.pos⟩ := by
              simp only [cpParseP, Parse.bind, hcm, ha, relParam_eq, refAbs, hlo]
            have hround := refParse_ok (cpParseP ctx (loopFuel ctx)) s _ _ hcp hat.ref
            have hjp : ic + 1 < jp := by simpa using hpa
            have hat3 : At ctx { s with pos := jp } r' := ⟨hat2.fresh, by have := hat.ref; simp; omega, hat2.toks⟩
            have hlen : r'.length ≤ r1.length := hat1.length_mono ctx hat2 (by simp; omega)
            obtain ⟨j, tail, g1, g2, g3, g4⟩ := paramsTail_conf fp' r' ps' r2' htl hr2 lf' _ hat3
              (by simp only [List.length_cons] at hlf; omega)
            refine ⟨j, ⟨⟨relParamVal (ic + 1) p, ic + 1 - s.pos⟩, s.pos - s.refPos⟩ :: tail, ?_, ?_, by simp at g3; omega, g4⟩
            · have hne : ((jp == s.pos) = false) := by simp; omega
              simp only [many0, hround, hne, Bool.false_eq_true, if_false, g1]
            · simp only [List.map_cons, g2, cpConvP, relParam_eq, refAbs, hlo]
              have : s.pos - s.refPos + (ic + 1 - s.pos) = ic + 1 - s.refPos := by have := hat.ref; omega
              simp [this]
      · rw [paramsTail_other _ _ _ _ _ hty] at hs
        simp only [Option.some.injEq, Prod.mk.injEq] at hs
        exact stop (tagK_fail ctx (hat.reref ctx) .Comma (by
          intro i' ty' r' e'; cases e'
          intro hk; apply hty; cases ty <;> simp_all [TokenType.kind])) hs.1.symm hs.2.symm

theorem parseListP_none_ok (s s1 s2 : St) (head : Ref ParamDecl) (tail : List (Ref (Ref ParamDecl)))
    (h1 : refParse (parseParamDecl ctx) none s = .ok s1 head)
    (h2 : many0 (refParse (cpParseP ctx (loopFuel ctx)) none) (loopFuel ctx) s1 = .ok s2 tail) :
    parseList ctx (fun (p : ParamDecl) => p.info.range) (parseParamDecl ctx) (loopFuel ctx) none s =
      .ok s2 (head :: tail.map cpConvP) := by
  have h2' : many ctx (fun (inner : Ref ParamDecl) => let r := inner.val.info.range; (⟨r.lo, r.hi + 1⟩ : Range))
      (fun this => Parse.bind (tagK ctx (loopFuel ctx) .Comma) (fun _ => refParse (parseParamDecl ctx) this))
      (loopFuel ctx) none s1 = .ok s2 tail := by
    rw [many_none]; exact h2
  simp only [parseList, h1, Option.getD, List.any_nil, Bool.false_eq_true, if_false, Option.map_none, h2']
  rfl

theorem params_conf {fp : Nat} {ts r2 : Toks} {ps : List (Ref ParamDecl)} {s : St}
    (hs : params (G ctx) fp ts = some (ps, r2)) (hr2 : RParenHead r2) (hat : At ctx s ts) :
    ∃ j, parseList ctx (fun (p : ParamDecl) => p.info.range) (parseParamDecl ctx) (loopFuel ctx) none s =
        .ok { s with pos := j } (ps.map (relParam s.refPos)) ∧ s.pos ≤ j ∧ At ctx { s with pos := j } r2 := by
  cases fp with
  | zero => simp [Grammar.params] at hs
  | succ fp' =>
    rw [params_succ] at hs
    cases he : param (G ctx) ts with
    | none => simp [he] at hs
    | some res =>
      obtain ⟨p, r'⟩ := res
      simp only [he, Option.map_eq_some_iff] at hs
      obtain ⟨⟨ps', r2'⟩, htl, hpair⟩ := hs
      simp only [Prod.mk.injEq] at hpair
      obtain ⟨rfl, rfl⟩ := hpair
      obtain ⟨jp, ha, hpa, hat2⟩ := param_ok ctx he hat (next_of_tail htl hr2)
      obtain ⟨j, tail, g1, g2, g3, g4⟩ := paramsTail_conf ctx fp' r' ps' r2' htl hr2 (loopFuel ctx) _ hat2 (loopFuel_gt ctx hat2)
      refine ⟨j, ?_, by simp at g3; omega, g4⟩
      rw [parseListP_none_ok ctx s _ _ _ _ ha g1, g2]
      rfl

/-! ### what a statement list starts with -/

theorem varAccess_second (g : GCtx) (f i : Nat) (nm : List Char) (r rest : Toks) (v : Var) (sv : Span)
    (h : varAccess g f (⟨i, .Ident nm⟩ :: r) = some (v, sv, rest)) :
    (∃ k r', r = ⟨k, .LBracket⟩ :: r') ∨ rest = r := by
  cases f with
  | zero => simp [Grammar.varAccess] at h
  | succ f' =>
    simp only [Grammar.varAccess, identTok] at h
    cases f' with
    | zero => simp [Grammar.accesses] at h
    | succ f'' =>
      cases r with
      | nil =>
        simp only [Grammar.accesses, Option.some.injEq, Prod.mk.injEq] at h
        exact Or.inr h.2.2.symm
      | cons t r' =>
        obtain ⟨k, ty⟩ := t
        by_cases hty : ty = .LBracket
        · subst hty; exact Or.inl ⟨k, r', rfl⟩
        · rw [accesses_other _ _ _ _ _ _ _ hty] at h
          simp only [Option.some.injEq, Prod.mk.injEq] at h
          exact Or.inr h.2.2.symm

theorem stmt_start (g : GCtx) (f : Nat) (ts rest : Toks) (t : Stmt) (sp : Span)
    (h : Grammar.stmt g f ts = some (t, sp, rest)) : StmtStart ts := by
  cases f with
  | zero => simp [Grammar.stmt] at h
  | succ f' =>
    cases ts with
    | nil => simp [Grammar.stmt] at h
    | cons t0 r =>
      obtain ⟨i, ty⟩ := t0
      by_cases h1 : ty = .Semic
      · subst h1; exact .tok _ _ _ (by simp [TokenType.kind])
      · by_cases h2 : ty = .If
        · subst h2; exact .tok _ _ _ (by simp [TokenType.kind])
        · by_cases h3 : ty = .While
          · subst h3; exact .tok _ _ _ (by simp [TokenType.kind])
          · by_cases h4 : ty = .LCurly
            · subst h4; exact .tok _ _ _ (by simp [TokenType.kind])
            · by_cases h5 : ∃ n, ty = .Ident n
              · obtain ⟨nm, rfl⟩ := h5
                by_cases hc : ∃ k r', r = ⟨k, .LParen⟩ :: r'
                · obtain ⟨k, r', rfl⟩ := hc
                  exact .ident _ _ _ _ _ (by simp [TokenType.kind])
                · obtain ⟨v, sv, ias, tyas, r1, e, se, j, tyj, hv, kas, _, _, _, _⟩ :=
                    stmt_assign_flat _ _ _ _ _ _ _ _ (fun k r' e => hc ⟨k, r', e⟩) h
                  rcases varAccess_second _ _ _ _ _ _ _ _ hv with ⟨k, r', rfl⟩ | hr
                  · exact .ident _ _ _ _ _ (by simp [TokenType.kind])
                  · rw [← hr]
                    exact .ident _ _ _ _ _ (Or.inl (by simpa using kas))
              · rw [stmt_other _ _ _ _ _ h1 h2 h3 h4 (fun n e => h5 ⟨n, e⟩)] at h
                cases h

theorem stmts_start (g : GCtx) (f : Nat) (ts rest : Toks) (ss : StmtList)
    (h : Grammar.stmts g f ts = some (ss, rest)) : StmtStart ts := by
  cases f with
  | zero => simp [Grammar.stmts] at h
  | succ f' =>
    by_cases hr : ∃ i r, ts = ⟨i, .RCurly⟩ :: r
    · obtain ⟨i, r, rfl⟩ := hr
      exact .tok _ _ _ (by simp [TokenType.kind])
    · rw [stmts_other _ _ _ (fun i r e => hr ⟨i, r, e⟩)] at h
      cases h1 : Grammar.stmt g f' ts with
      | none => rw [h1] at h; cases h
      | some res =>
        obtain ⟨t, sp, r⟩ := res
        exact stmt_start _ _ _ _ _ _ h1

/-! ### the specification's view of a procedure declaration, flattened -/

theorem decls_proc_flat (g : GCtx) (fd i : Nat) (r : Toks) (ds : List (Ref GlobalDecl)) (last : Option Nat)
    (h : decls g (fd + 1) (⟨i, .Proc⟩ :: r) = some (ds, last)) :
    ∃ j nm ilp tylp r2 ps irp tyrp ilc tylc r5 vs r6 ss k tyk r8 ds' last',
      r = ⟨j, .Ident nm⟩ :: ⟨ilp, tylp⟩ :: r2 ∧ (tylp.kind == Kind.LParen) = true ∧
      ((∃ x r', r2 = ⟨x, .RParen⟩ :: r' ∧ ps = [] ∧ r2 = ⟨irp, tyrp⟩ :: ⟨ilc, tylc⟩ :: r5) ∨
       ((∀ x r', r2 ≠ ⟨x, .RParen⟩ :: r') ∧ params g (r2.length + 1) r2 = some (ps, ⟨irp, tyrp⟩ :: ⟨ilc, tylc⟩ :: r5))) ∧
      (tyrp.kind == Kind.RParen) = true ∧ (tylc.kind == Kind.LCurly) = true ∧
      varDecls g (r5.length + 1) r5 = some (vs, r6) ∧
      Grammar.stmts g (2 * r6.length + 4) r6 = some (ss, ⟨k, tyk⟩ :: r8) ∧ (tyk.kind == Kind.RCurly) = true ∧
      decls g fd r8 = some (ds', last') ∧
      ds = refAbs (.proc { doc := docOf g i, name := some (mkIdent g j nm), params := ps, vars := vs,
                           stmts := ss.toList, info := mkInfo g i k }) :: ds' ∧
      last = some (last'.getD k) := by
  simp only [Grammar.decls] at h
  split at h
  · cases h
  · rename_i j nm r1 h1
    have e1 := identTok_some _ _ _ _ h1
    split at h
    · cases h
    · rename_i x2 r2 h2
      obtain ⟨ty2, e2, k2⟩ := expectK_some _ _ _ _ h2
      split at h
      · cases h
      · rename_i ps r3 h3
        split at h
        · cases h
        · rename_i x4 r4 h4
          obtain ⟨ty4, e4, k4⟩ := expectK_some _ _ _ _ h4
          split at h
          · cases h
          · rename_i x5 r5 h5
            obtain ⟨ty5, e5, k5⟩ := expectK_some _ _ _ _ h5
            split at h
            · cases h
            · rename_i vs r6 h6
              split at h
              · cases h
              · rename_i ss r7 h7
                split at h
                · cases h
                · rename_i k r8 h8
                  obtain ⟨ty8, e8, k8⟩ := expectK_some _ _ _ _ h8
                  split at h
                  · cases h
                  · rename_i ds' last' h9
                    simp only [Option.some.injEq, Prod.mk.injEq] at h
                    obtain ⟨rfl, rfl⟩ := h
                    subst e4 e5 e8
                    refine ⟨j, nm, x2, ty2, r2, ps, x4, ty4, x5, ty5, r5, vs, r6, ss, k, ty8, r8, ds', last',
                      by rw [e1, e2], k2, ?_, k4, k5, h6, h7, k8, h9, rfl, rfl⟩
                    split at h3
                    · rename_i x r'
                      simp only [Option.some.injEq, Prod.mk.injEq] at h3
                      obtain ⟨rfl, e⟩ := h3
                      exact Or.inl ⟨x, r', rfl, rfl, e⟩
                    · rename_i hne
                      exact Or.inr ⟨fun x r' e => hne x r' e, h3⟩

theorem relRefs_eq (b : Nat) : ∀ ss : StmtList, relRefs b ss = ss.toList.map (relRefStmt b)
  | .nil => rfl
  | .cons t o r => by simp [relRefs, StmtList.toList, relRefStmt, relRefs_eq b r]

/-- the implementation's form of a procedure declaration of the specification -/
def relProcDecl (b : Nat) (p : ProcDecl) : ProcDecl :=
  { p with name := p.name.map (relIdent b), params := p.params.map (relParam b),
           vars := p.vars.map (relVarDecl b), stmts := p.stmts.map (relRefStmt b), info := relInfo b p.info }

theorem noparams_fail {s : St} {ts : Toks} (h : At ctx s ts)
    (hne : ∀ i ty r, ts = ⟨i, ty⟩ :: r → ty.kind ≠ .RParen ∧ ty.kind ≠ .LCurly ∧ ty.kind ≠ .Eof) :
    IsErr (pmap (fun _ => ([] : List (Ref ParamDecl)))
      (peek (altList [void (tk ctx .RParen), void (tk ctx .LCurly), void (tk ctx .Eof)])) s) := by
  have f1 : IsErr (tk ctx .RParen s) := tagK_fail ctx h .RParen (fun i ty r e => (hne i ty r e).1)
  have f2 : IsErr (tk ctx .LCurly s) := tagK_fail ctx h .LCurly (fun i ty r e => (hne i ty r e).2.1)
  have f3 : IsErr (tk ctx .Eof s) := tagK_fail ctx h .Eof (fun i ty r e => (hne i ty r e).2.2)
  apply pmap_err
  apply peek_err
  rw [altList_cons_err _ _ _ (by simp) (void_err _ _ f1)]
  rw [altList_cons_err _ _ _ (by simp) (void_err _ _ f2)]
  exact void_err _ _ f3

theorem procDecl_conf {s : St} {i j ilp irp ilc k : Nat} {nm : List Char} {tylp tyrp tylc tyk : TokenType}
    {r2 r5 r6 r8 : Toks} {ps : List (Ref ParamDecl)} {vs : List (Ref VarDecl)} {ss : StmtList}
    (hat : At ctx s (⟨i, .Proc⟩ :: ⟨j, .Ident nm⟩ :: ⟨ilp, tylp⟩ :: r2)) (klp : (tylp.kind == Kind.LParen) = true)
    (hps : (∃ x r', r2 = ⟨x, .RParen⟩ :: r' ∧ ps = [] ∧ r2 = ⟨irp, tyrp⟩ :: ⟨ilc, tylc⟩ :: r5) ∨
       ((∀ x r', r2 ≠ ⟨x, .RParen⟩ :: r') ∧
         params (G ctx) (r2.length + 1) r2 = some (ps, ⟨irp, tyrp⟩ :: ⟨ilc, tylc⟩ :: r5)))
    (krp : (tyrp.kind == Kind.RParen) = true) (klc : (tylc.kind == Kind.LCurly) = true)
    (hvs : varDecls (G ctx) (r5.length + 1) r5 = some (vs, r6))
    (hss : Grammar.stmts (G ctx) (2 * r6.length + 4) r6 = some (ss, ⟨k, tyk⟩ :: r8)) (kk : (tyk.kind == Kind.RCurly) = true) :
    parseProcDecl ctx none s = .ok { s with pos := k + 1 }
      (relProcDecl s.refPos { doc := docOf (G ctx) i, name := some (mkIdent (G ctx) j nm), params := ps, vars := vs,
                               stmts := ss.toList, info := mkInfo (G ctx) i k }) ∧
    (s.pos ≤ i ∧ i < k) ∧ lead (G ctx) i = s.pos ∧ At ctx { s with pos := k + 1 } r8 ∧
    (∃ t, ctx.toks[k]? = some t ∧ t.ty = tyk) := by
  obtain ⟨hN, ⟨tok, htok, hty⟩, hr0, hlead⟩ := hat.head
  -- doc comments, `proc`, name, `(`
  have hdoc := docComments_run ctx (i - s.pos) { s with errBuf := [] } i rfl hN
  have hkc : tok.kind ≠ .Comment := by simp [Token.kind, hty, TokenType.kind]
  have he0 := tk_here ctx { s with errBuf := [], pos := i } tok .Proc htok hkc
  have hk0 : (tok.ty.kind == Kind.Proc) = true := by simp [hty, TokenType.kind]
  rw [hk0] at he0; simp only [if_true] at he0
  have hat1 : At ctx { s with errBuf := [], pos := i + 1 } (⟨j, .Ident nm⟩ :: ⟨ilp, tylp⟩ :: r2) :=
    ⟨fresh_after ctx.toks i tok htok hkc, by have := hat.ref; have := hN.le; simp; omega, hr0.symm⟩
  obtain ⟨hid, hat2⟩ := ident_ok ctx hat1
  have e1 := expect_ok (parseIdentifier ctx) (.ExpectedToken (chars "identifier")) _ _ _ hid
  obtain ⟨_, e2, hat3⟩ := expect_tk ctx hat2 .LParen klp (.MissingOpening '(')
  -- parameters
  have hP : ∃ p, Parse.alt2 (pmap (fun _ => ([] : List (Ref ParamDecl)))
        (peek (altList [void (tk ctx .RParen), void (tk ctx .LCurly), void (tk ctx .Eof)])))
        (parseList ctx (fun (p : ParamDecl) => p.info.range) (parseParamDecl ctx) (loopFuel ctx) none)
        { s with errBuf := [], pos := ilp + 1 } =
        .ok { s with errBuf := [], pos := p } (ps.map (relParam s.refPos)) ∧ ilp + 1 ≤ p ∧
        At ctx { s with errBuf := [], pos := p } (⟨irp, tyrp⟩ :: ⟨ilc, tylc⟩ :: r5) := by
    rcases hps with ⟨x, r', rfl, rfl, hr⟩ | ⟨hnr, hl⟩
    · simp only [List.cons.injEq, ITok.mk.injEq] at hr
      obtain ⟨⟨rfl, rfl⟩, rfl⟩ := hr
      have he := voidtk_ok ctx hat3 .RParen rfl
      refine ⟨ilp + 1, ?_, Nat.le_refl _, ⟨hat3.fresh, hat3.ref, hat3.toks⟩⟩
      apply alt2_ok_left
      have hp := peek_ok _ _ _ _ (altList_cons_ok (void (tk ctx .RParen)) [void (tk ctx .LCurly), void (tk ctx .Eof)] _ _ _ he)
      simp only [pmap, hp, List.map_nil]
    · have hr2 : RParenHead (⟨irp, tyrp⟩ :: ⟨ilc, tylc⟩ :: r5) := ⟨irp, tyrp, _, rfl, by simpa using krp⟩
      obtain ⟨p, g1, g2, g3⟩ := params_conf ctx hl hr2 hat3
      refine ⟨p, ?_, by simpa using g2, ⟨g3.fresh, g3.ref, g3.toks⟩⟩
      have hfail : IsErr (pmap (fun _ => ([] : List (Ref ParamDecl)))
          (peek (altList [void (tk ctx .RParen), void (tk ctx .LCurly), void (tk ctx .Eof)]))
          { s with errBuf := [], pos := ilp + 1 }) := by
        apply noparams_fail ctx hat3
        intro x ty r' e'
        subst e'
        rw [params_succ] at hl
        cases he : param (G ctx) (⟨x, ty⟩ :: r') with
        | none => rw [he] at hl; cases hl
        | some res =>
          obtain ⟨p0, rr⟩ := res
          rcases param_flat _ _ _ _ he with ⟨f, i', nm', icol, tycol, r1, t, st, e0, _⟩ | ⟨i', nm', icol, tycol, r1, t, st, e0, _⟩
          · simp only [List.cons.injEq, ITok.mk.injEq] at e0
            obtain ⟨⟨_, rfl⟩, _⟩ := e0
            simp [TokenType.kind]
          · simp only [List.cons.injEq, ITok.mk.injEq] at e0
            obtain ⟨⟨_, rfl⟩, _⟩ := e0
            simp [TokenType.kind]
      rw [alt2_err_left _ _ _ hfail]
      exact g1
  obtain ⟨p, eP, hp, hatP⟩ := hP
  -- `)` and `{`
  obtain ⟨_, e3, hat4⟩ := expect_tk ctx hatP .RParen krp (.MissingClosing ')')
  obtain ⟨_, e4, hat5⟩ := expect_tk ctx hat4 .LCurly klc (.MissingOpening '{')
  -- variable declarations
  obtain ⟨pv, eV, hpv, hat6⟩ := varDecls_conf ctx _ r5 vs r6 hvs (stmts_start _ _ _ _ _ hss) (loopFuel ctx) _ hat5
    (loopFuel_gt ctx hat5)
  have eV' := (many_none ctx (fun (v : VarDecl) => v.info.range) (parseVarDecl ctx) (loopFuel ctx) _).trans eV
  -- statements
  have hlen6 := hat6.length_le ctx
  obtain ⟨pz, eS, hpz, hat7, _⟩ := (sconf_all ctx _).stmts r6 ss _ hss (stmtFuel ctx) (loopFuel ctx) _ hat6
    (by simp only [stmtFuel]; omega) (loopFuel_gt ctx hat6)
  have eS' := (many_none ctx (fun (s : Stmt) => s.info.range) (parseStmt ctx (stmtFuel ctx)) (loopFuel ctx) _).trans eS
  obtain ⟨_, e5, hat8⟩ := expect_tk ctx hat7 .RCurly kk (.MissingClosing '}')
  have c0 : s.pos ≤ i := hN.le
  have c1 : i + 1 ≤ j := by have := (hat1.head).1.le; simpa using this
  have c2 : j + 1 ≤ ilp := by have := (hat2.head).1.le; simpa using this
  have c3 : p ≤ irp := by have := (hatP.head).1.le; simpa using this
  have c4 : irp + 1 ≤ ilc := by have := (hat4.head).1.le; simpa using this
  have c5 : ilc + 1 ≤ pv := by simpa using hpv
  have c6 : pv ≤ pz := by simpa using hpz
  have c7 : pz ≤ k := by have := (hat7.head).1.le; simpa using this
  have inner : procDeclInner ctx none { s with errBuf := [] } =
      .ok { s with errBuf := [], pos := k + 1 }
        (cmtTexts ctx.toks s.pos i, some (relIdent s.refPos (mkIdent (G ctx) j nm)), ps.map (relParam s.refPos),
          vs.map (relVarDecl s.refPos), relRefs s.refPos ss) := by
    simp only [procDeclInner, Option.bind_none, Option.map_none, Parse.bind, hdoc, he0, e1, e2, eP, e3, e4, eV', eS', e5, pure']
  have hpos : s.refPos ≤ k + 1 := by have := hat.ref; omega
  have hi := info_ok _ s _ _ inner hat.ref (by simpa using hpos)
  refine ⟨?_, ⟨c0, by omega⟩, hlead, ⟨hat8.fresh, by simpa using hpos, hat8.toks⟩, (hat7.head).2.1⟩
  simp only [parseProcDecl, affected, pmap, hi, relProcDecl, relInfo, mkInfo, hlead, docOf_eq ctx.toks s.pos i hlead,
    Option.map_some, relRefs_eq]

theorem parseGlobalDecl_none (s : St) : parseGlobalDecl ctx none s =
    altList [pmap GlobalDecl.type (parseTypeDecl ctx none),
             pmap GlobalDecl.proc (parseProcDecl ctx none),
             pmap (fun (p : List Token × AstInfo) =>
                GlobalDecl.error { p.2 with errors := p.2.errors ++
                  [⟨p.2.range, .UnexpectedCharacters (p.1.flatMap (fun t => displayToken t.ty))⟩] })
              (info (ignoreUntil1 ctx (peek (la ctx .global_dec)) (loopFuel ctx)))] s := rfl

/-- a declaration keyword is not here: the declaration parser fails (behind its doc comments) -/
theorem typeDecl_fail {s : St} {i : Nat} {ty : TokenType} {r : Toks} (hat : At ctx s (⟨i, ty⟩ :: r)) (hne : ty.kind ≠ .Type) :
    IsErr (parseTypeDecl ctx none s) := by
  obtain ⟨hN, ⟨tok, htok, hty⟩, _, _⟩ := hat.head
  have hdoc := docComments_run ctx (i - s.pos) { s with errBuf := [] } i rfl hN
  have hkc : tok.kind ≠ .Comment := by
    obtain ⟨t', ht', hk'⟩ := hN.tok
    rw [htok] at ht'; cases ht'; exact hk'
  have he0 := tk_here ctx { s with errBuf := [], pos := i } tok .Type htok hkc
  have hk0 : (tok.ty.kind == Kind.Type) = false := by rw [hty]; simpa using hne
  rw [hk0] at he0; simp only [Bool.false_eq_true, if_false] at he0
  have hb : IsErr (typeDeclInner ctx none none { s with errBuf := [] }) :=
    ⟨false, { s with errBuf := [], pos := i }, by simp only [typeDeclInner, Parse.bind, hdoc, he0]⟩
  simp only [parseTypeDecl, affected, Option.bind_none]
  exact pmap_err _ _ _ (info_err _ s hb hat.ref)

theorem procDecl_fail {s : St} {i : Nat} {ty : TokenType} {r : Toks} (hat : At ctx s (⟨i, ty⟩ :: r)) (hne : ty.kind ≠ .Proc) :
    IsErr (parseProcDecl ctx none s) := by
  obtain ⟨hN, ⟨tok, htok, hty⟩, _, _⟩ := hat.head
  have hdoc := docComments_run ctx (i - s.pos) { s with errBuf := [] } i rfl hN
  have hkc : tok.kind ≠ .Comment := by
    obtain ⟨t', ht', hk'⟩ := hN.tok
    rw [htok] at ht'; cases ht'; exact hk'
  have he0 := tk_here ctx { s with errBuf := [], pos := i } tok .Proc htok hkc
  have hk0 : (tok.ty.kind == Kind.Proc) = false := by rw [hty]; simpa using hne
  rw [hk0] at he0; simp only [Bool.false_eq_true, if_false] at he0
  have hb : IsErr (procDeclInner ctx none { s with errBuf := [] }) :=
    ⟨false, { s with errBuf := [], pos := i }, by simp only [procDeclInner, Parse.bind, hdoc, he0]⟩
  simp only [parseProcDecl, affected]
  exact pmap_err _ _ _ (info_err _ s hb hat.ref)

/-- at the end of the declarations (`Eof`) no global declaration starts -/
theorem globalDecl_fail_eof {s : St} {i : Nat} {r : Toks} (hat : At ctx s (⟨i, .Eof⟩ :: r)) :
    IsErr (parseGlobalDecl ctx none s) := by
  have h1 := typeDecl_fail ctx hat (by simp [TokenType.kind])
  have h2 := procDecl_fail ctx hat (by simp [TokenType.kind])
  have hla : ∃ s', la ctx .global_dec { s with errBuf := [] } = .ok s' () := by
    show ∃ s', lookAhead ctx 0 (7 + 1) .global_dec { s with errBuf := [] } = .ok s' ()
    rw [lookAhead_succ]
    simp only [Gen.lookAheadSet, List.map_cons, List.map_nil]
    rw [altList_cons_err _ _ _ (by simp) (voidtk_err ctx hat.clearErr .Proc (by simp [TokenType.kind]))]
    rw [altList_cons_err _ _ _ (by simp) (voidtk_err ctx hat.clearErr .Type (by simp [TokenType.kind]))]
    exact ⟨_, voidtk_ok ctx hat.clearErr .Eof rfl⟩
  obtain ⟨s', hla⟩ := hla
  have hpk := peek_ok _ _ _ _ hla
  have h3 : IsErr (pmap (fun (p : List Token × AstInfo) =>
      GlobalDecl.error { p.2 with errors := p.2.errors ++
        [⟨p.2.range, .UnexpectedCharacters (p.1.flatMap (fun t => displayToken t.ty))⟩] })
      (info (ignoreUntil1 ctx (peek (la ctx .global_dec)) (loopFuel ctx))) s) := by
    apply pmap_err
    apply info_err _ _ _ hat.ref
    exact ⟨false, { s with errBuf := [] }, by simp only [ignoreUntil1, hpk]⟩
  rw [parseGlobalDecl_none]
  rw [altList_cons_err _ _ _ (by simp) (pmap_err _ _ _ h1)]
  rw [altList_cons_err _ _ _ (by simp) (pmap_err _ _ _ h2)]
  exact h3

theorem decls_type_flat (g : GCtx) (fd i : Nat) (r : Toks) (ds : List (Ref GlobalDecl)) (last : Option Nat)
    (h : decls g (fd + 1) (⟨i, .Type⟩ :: r) = some (ds, last)) :
    ∃ td k r4 ds' last', TypeDeclSpec g i r r4 td k ∧ decls g fd r4 = some (ds', last') ∧
      ds = refAbs (.type td) :: ds' ∧ last = some (last'.getD k) := by
  simp only [Grammar.decls] at h
  split at h
  · cases h
  · rename_i j nm r1 h1
    have e1 := identTok_some _ _ _ _ h1
    split at h
    · cases h
    · rename_i x2 r2 h2
      obtain ⟨ty2, e2, k2⟩ := expectK_some _ _ _ _ h2
      split at h
      · cases h
      · rename_i t st r3 h3
        split at h
        · cases h
        · rename_i k r4 h4
          obtain ⟨ty4, e4, k4⟩ := expectK_some _ _ _ _ h4
          subst e4
          split at h
          · cases h
          · rename_i ds' last' h5
            simp only [Option.some.injEq, Prod.mk.injEq] at h
            obtain ⟨rfl, rfl⟩ := h
            exact ⟨_, k, r4, ds', last', ⟨⟨j, nm, x2, ty2, r2, t, st, ty4, by rw [e1, e2], k2, h3, k4, rfl⟩⟩, h5, rfl, rfl⟩

theorem decls_other (g : GCtx) (fd : Nat) (ts : Toks) (ds : List (Ref GlobalDecl)) (last : Option Nat)
    (h : decls g (fd + 1) ts = some (ds, last)) :
    (∃ i, ts = [⟨i, .Eof⟩] ∧ ds = [] ∧ last = none) ∨ (∃ i r, ts = ⟨i, .Type⟩ :: r) ∨ (∃ i r, ts = ⟨i, .Proc⟩ :: r) := by
  cases ts with
  | nil => simp [Grammar.decls] at h
  | cons t r =>
    obtain ⟨i, ty⟩ := t
    by_cases h1 : ty = .Type
    · subst h1; exact Or.inr (Or.inl ⟨i, r, rfl⟩)
    · by_cases h2 : ty = .Proc
      · subst h2; exact Or.inr (Or.inr ⟨i, r, rfl⟩)
      · left
        cases r with
        | nil =>
          cases ty <;> first
            | exact absurd rfl h1
            | exact absurd rfl h2
            | (simp only [Grammar.decls, Option.some.injEq, Prod.mk.injEq] at h; exact ⟨i, rfl, h.1.symm, h.2.symm⟩)
            | (simp [Grammar.decls] at h)
        | cons t2 r2 =>
          cases ty <;> first
            | exact absurd rfl h1
            | exact absurd rfl h2
            | (simp [Grammar.decls] at h)

theorem relDecl_type (td : TypeDecl) :
    relDecl (refAbs (.type td)) = ⟨.type (relTypeDecl td.info.range.lo td), td.info.range.lo⟩ := rfl

theorem relDecl_proc (pd : ProcDecl) :
    relDecl (refAbs (.proc pd)) = ⟨.proc (relProcDecl pd.info.range.lo pd), pd.info.range.lo⟩ := rfl

theorem typeDeclSpec_info {g : GCtx} {i k : Nat} {r rest : Toks} {td : TypeDecl} (h : TypeDeclSpec g i r rest td k) :
    td.info = mkInfo g i k := by
  obtain ⟨j, nm, ieq, tyeq, r2, t, st, tyk, _, _, _, _, rfl⟩ := h.ex
  rfl

theorem typeDeclSpec_len {g : GCtx} {i k : Nat} {r rest : Toks} {td : TypeDecl} (h : TypeDeclSpec g i r rest td k) :
    ∃ j nm ieq tyeq r2, r = ⟨j, .Ident nm⟩ :: ⟨ieq, tyeq⟩ :: r2 := by
  obtain ⟨j, nm, ieq, tyeq, r2, t, st, tyk, e, _⟩ := h.ex
  exact ⟨j, nm, ieq, tyeq, r2, e⟩

/-- where the declarations end: behind the last token of the last declaration -/
def endPos (last : Option Nat) (d : Nat) : Nat :=
  match last with
  | some l => l + 1
  | none => d

theorem endPos_cons (last' : Option Nat) (k d : Nat) : endPos (some (last'.getD k)) d = endPos last' (k + 1) := by
  cases last' <;> rfl

/-- the loop over the global declarations follows `decls` of the specification -/
theorem decls_conf : ∀ (fd : Nat) (ts : Toks) (ds : List (Ref GlobalDecl)) (last : Option Nat),
    decls (G ctx) fd ts = some (ds, last) →
    ∀ (lf : Nat) (s : St), At ctx s ts → s.refPos = 0 → ts.length < lf →
    ∃ ieof, many0 (refParse (parseGlobalDecl ctx) none) lf s =
        .ok { s with pos := endPos last s.pos } (ds.map relDecl) ∧
      s.pos ≤ endPos last s.pos ∧
      At ctx { s with pos := endPos last s.pos } [⟨ieof, .Eof⟩]
  | 0, ts, ds, last, hs, _, _, _, _, _ => by simp [Grammar.decls] at hs
  | fd + 1, ts, ds, last, hs, lf, s, hat, href, hlf => by
    obtain ⟨lf', rfl⟩ : ∃ f, lf = f + 1 := ⟨lf - 1, by omega⟩
    rcases decls_other _ _ _ _ _ hs with ⟨i, rfl, rfl, rfl⟩ | ⟨i, r, rfl⟩ | ⟨i, r, rfl⟩
    · -- end of the declarations
      have hfail := globalDecl_fail_eof ctx (hat.reref ctx)
      obtain ⟨k, s', hr⟩ := refParse_err _ s hfail hat.ref
      refine ⟨i, ?_, Nat.le_refl _, by simp only [endPos]; rw [st_eta s _ rfl]; exact hat⟩
      simp only [endPos]
      rw [st_eta s _ rfl]
      simp only [many0, hr, List.map_nil]
    · -- a type declaration
      obtain ⟨td, k, r4, ds', last', hsp, hrec, rfl, rfl⟩ := decls_type_flat _ _ _ _ _ _ hs
      obtain ⟨e1, hp1, hat1⟩ := typeDecl_conf ctx hsp (hat.reref ctx)
      have hlo : td.info.range.lo = s.pos := by
        rw [typeDeclSpec_info hsp]; simp [mkInfo, (hat.head).2.2.2]
      have hg : parseGlobalDecl ctx none { s with refPos := s.pos } =
          .ok { s with refPos := s.pos, pos := k + 1 } (.type (relTypeDecl s.pos td)) := by
        rw [parseGlobalDecl_none]
        apply altList_cons_ok
        simp only [pmap, e1]
      have hr := refParse_ok (parseGlobalDecl ctx) s _ _ hg hat.ref
      have hpi : s.pos ≤ i := by simpa using hp1.1
      have hik : i < k := hp1.2
      have hat1' : At ctx { s with pos := k + 1 } r4 := ⟨hat1.fresh, by simp [href], hat1.toks⟩
      have hlen : r4.length + 1 ≤ (⟨i, .Type⟩ :: r : Toks).length := by
        have b := tsFrom_length_mono ctx.toks _ (i + 1) (k + 1) rfl (by omega)
        rw [← (hat.head).2.2.1, hat1'.toks] at b
        simp only [List.length_cons] at b ⊢
        omega
      obtain ⟨ieof, g1, g2, g3⟩ := decls_conf fd r4 ds' last' hrec lf' _ hat1' href (by simp only [List.length_cons] at hlf hlen; omega)
      have hne : ((k + 1 == s.pos) = false) := by simp; omega
      have hlast : endPos (some (last'.getD k)) s.pos = endPos last' ({ s with pos := k + 1 } : St).pos :=
        endPos_cons last' k s.pos
      refine ⟨ieof, ?_, ?_, ?_⟩
      · rw [hlast]
        have hoff : s.pos - s.refPos = s.pos := by omega
        rw [hoff] at hr
        simp only [many0, hr, hne, Bool.false_eq_true, if_false, g1, List.map_cons, relDecl_type, hlo]
      · rw [hlast]
        have : k + 1 ≤ endPos last' (k + 1) := g2
        show s.pos ≤ endPos last' (k + 1)
        omega
      · rw [hlast]; exact g3
    · -- a procedure declaration
      obtain ⟨j, nm, ilp, tylp, r2, ps, irp, tyrp, ilc, tylc, r5, vs, r6, ss, k, tyk, r8, ds', last',
        rfl, klp, hps, krp, klc, hvs, hss, kk, hrec, rfl, rfl⟩ := decls_proc_flat _ _ _ _ _ _ hs
      obtain ⟨e1, hp1, hlead, hat1, _⟩ := procDecl_conf ctx (hat.reref ctx) klp hps krp klc hvs hss kk
      obtain ⟨pd, hpd⟩ : ∃ pd : ProcDecl, pd = ProcDecl.mk (docOf (G ctx) i) (some (mkIdent (G ctx) j nm)) ps vs ss.toList (mkInfo (G ctx) i k) := ⟨_, rfl⟩
      rw [← hpd] at e1
      have hg : parseGlobalDecl ctx none { s with refPos := s.pos } =
          .ok { s with refPos := s.pos, pos := k + 1 } (.proc (relProcDecl s.pos pd)) := by
        rw [parseGlobalDecl_none]
        rw [altList_cons_err _ _ _ (by simp) (pmap_err _ _ _ (typeDecl_fail ctx (hat.reref ctx) (by simp [TokenType.kind])))]
        apply altList_cons_ok
        simp only [pmap, e1]
      have hr := refParse_ok (parseGlobalDecl ctx) s _ _ hg hat.ref
      have hpi : s.pos ≤ i := by simpa using hp1.1
      have hik : i < k := hp1.2
      have hat1' : At ctx { s with pos := k + 1 } r8 := ⟨hat1.fresh, by simp [href], hat1.toks⟩
      have hlen : r8.length + 1 ≤ (⟨i, .Proc⟩ :: ⟨j, .Ident nm⟩ :: ⟨ilp, tylp⟩ :: r2 : Toks).length := by
        have b := tsFrom_length_mono ctx.toks _ (i + 1) (k + 1) rfl (by omega)
        rw [← (hat.head).2.2.1, hat1'.toks] at b
        simp only [List.length_cons] at b ⊢
        omega
      obtain ⟨ieof, g1, g2, g3⟩ := decls_conf fd r8 ds' last' hrec lf' _ hat1' href (by simp only [List.length_cons] at hlf hlen; omega)
      have hne : ((k + 1 == s.pos) = false) := by simp; omega
      have hlast : endPos (some (last'.getD k)) s.pos = endPos last' ({ s with pos := k + 1 } : St).pos :=
        endPos_cons last' k s.pos
      have hlo : lead (G ctx) i = s.pos := by simpa using hlead
      refine ⟨ieof, ?_, ?_, ?_⟩
      · rw [hlast]
        have hpdlo : pd.info.range.lo = s.pos := by rw [hpd]; simp [mkInfo, hlo]
        rw [show (ProcDecl.mk (docOf (G ctx) i) (some (mkIdent (G ctx) j nm)) ps vs ss.toList (mkInfo (G ctx) i k)) = pd from hpd.symm]
        have hoff : s.pos - s.refPos = s.pos := by omega
        rw [hoff] at hr
        simp only [many0, hr, hne, Bool.false_eq_true, if_false, g1, List.map_cons, relDecl_proc, hpdlo]
      · rw [hlast]
        have : k + 1 ≤ endPos last' (k + 1) := g2
        show s.pos ≤ endPos last' (k + 1)
        omega
      · rw [hlast]; exact g3

theorem parseProgram_none (s : St) : parseProgram ctx none s =
    pmap (fun (p : List (Ref GlobalDecl) × AstInfo) => ({ decls := p.1, info := p.2 } : Program))
      (Parse.bind (info (many ctx (fun (g : GlobalDecl) => g.info.range) (parseGlobalDecl ctx) (loopFuel ctx) none))
        (fun r => Parse.bind (allConsuming ctx (tk ctx .Eof)) (fun _ => pure' r))) s := rfl

/-- the last token of the array is not a comment (a lexer output ends with `Eof`) -/
def EndsWithToken (A : Array Token) : Prop := ∃ t, A[A.size - 1]? = some t ∧ t.kind ≠ .Comment

theorem program_conf {fd : Nat} {ds : List (Ref GlobalDecl)} {last : Option Nat}
    (hs : decls (G ctx) fd (tsFrom ctx.toks 0) = some (ds, last)) (hend : EndsWithToken ctx.toks) :
    ∃ s', parseProgram ctx none { pos := 0 } =
      .ok s' { decls := ds.map relDecl, info := { range := ⟨0, endPos last 0⟩ } } := by
  have hat : At ctx ({ pos := 0 } : St) (tsFrom ctx.toks 0) := ⟨Or.inl rfl, Nat.le_refl _, rfl⟩
  obtain ⟨ieof, g1, g2, g3⟩ := decls_conf ctx fd _ ds last hs (loopFuel ctx) { pos := 0 } hat rfl (loopFuel_gt ctx hat)
  have g1' := (many_none ctx (fun (g : GlobalDecl) => g.info.range) (parseGlobalDecl ctx) (loopFuel ctx) _).trans g1
  have hi := info_ok _ ({ pos := 0 } : St) _ _ g1' (Nat.le_refl _) (Nat.zero_le _)
  -- the end of file
  obtain ⟨teof, hteof, _, heof, _, hat2⟩ := tagK_head ctx g3 .Eof
  have hk : ((TokenType.Eof).kind == Kind.Eof) = true := rfl
  rw [hk] at heof; simp only [if_true] at heof
  have heof' : tk ctx .Eof _ = _ := heof
  have hsize : ieof + 1 = ctx.toks.size := by
    have hlt : ieof < ctx.toks.size := (Array.getElem?_eq_some_iff.mp hteof).1
    obtain ⟨t, ht, hk⟩ := hend
    by_cases hlast : ieof = ctx.toks.size - 1
    · omega
    · exfalso
      have hall := tsFrom_nil ctx.toks _ (ieof + 1) (Nat.le_refl _) hat2.toks (ctx.toks.size - 1) (by omega) (by omega)
      obtain ⟨t', ht', hk'⟩ := hall
      rw [ht] at ht'; cases ht'
      exact hk hk'
  refine ⟨{ pos := ieof + 1 }, ?_⟩
  rw [parseProgram_none]
  have hb : (ieof + 1 == ctx.toks.size) = true := by simp [hsize]
  simp only [pmap, Parse.bind, hi, allConsuming, heof', hb, if_true, pure', Nat.sub_zero]




theorem tsFrom_zero (toks : List Token) :
    tsFrom toks.toArray 0 = (toks.zipIdx.filter (fun (t, _) => t.kind != .Comment)).map (fun (t, i) => ⟨i, t.ty⟩) := by
  simp [tsFrom]

/-- **The parser builds the derivation the grammar mandates.**  For every token sequence that ends
    with a non-comment token (as every output of the lexer does): if the grammar specification
    derives the program `p` from it, `parser::parse` of the model returns exactly `p` (in the
    implementation's range convention) — every declaration, statement and expression node with its
    range and `Reference` offset, the doc comments, and no diagnostic anywhere. -/
theorem parse_conforms (toks : List Token) (p : Program) (h : Grammar.parse toks = some p)
    (hend : EndsWithToken toks.toArray) : Parse.parse toks = .ok p := by
  simp only [Grammar.parse, Option.map_eq_some_iff] at h
  obtain ⟨pa, hpa, rfl⟩ := h
  simp only [parseAbs] at hpa
  split at hpa
  · cases hpa
  · rw [← tsFrom_zero] at hpa
    cases hd : decls ⟨toks.toArray⟩ ((tsFrom toks.toArray 0).length + 1) (tsFrom toks.toArray 0) with
    | none => simp [hd] at hpa
    | some res =>
      obtain ⟨ds, last⟩ := res
      simp only [hd, Option.some.injEq] at hpa
      subst hpa
      obtain ⟨s', hs'⟩ := program_conf { toks := toks.toArray, change := ⟨0, 0, toks.length⟩ } hd hend
      have hparse : Parse.parse toks = match parseProgram { toks := toks.toArray, change := ⟨0, 0, toks.length⟩ } none { pos := 0 } with
          | .ok _ p => .ok p
          | .err _ _ => .error ⟨"expect:Parser cannot fail"⟩
          | .panic e => .error e := rfl
      rw [hparse, hs']
      simp only [relativize]
      cases last <;> rfl

end Spl.ParseConform
