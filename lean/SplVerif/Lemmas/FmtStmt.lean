/-
  C09 for statements: printed statements are sequences of complete lines; `indent` only puts white space in front
  of each line; every line tokenises into the types of the tokens it was printed from.
-/
import SplVerif.Lemmas.FmtExpr

namespace Spl.Fmt
open Spl.Feat Spl.Parse

/-! ### unfolding equations of the statement formatter (definitional) -/

theorem fmtStmt_empty (o : Options) (S : Slice) (i : AstInfo) :
    fmtStmt o S (.empty i) = (sub S i.range).map (fun sl => addAllComments (chars ";\n") sl.toList) := rfl

theorem fmtStmt_assign (o : Options) (S : Slice) (a : Assignment) :
    fmtStmt o S (.assign a) =
      match fmtAssignment a S, sub S a.info.range with
      | .ok s, .ok sl => .ok (addAllComments s sl.toList)
      | .error e, _ => .error e
      | _, .error e => .error e := rfl

theorem fmtStmt_call (o : Options) (S : Slice) (cs : CallStmt) :
    fmtStmt o S (.call cs) =
      match fmtCall cs S, sub S cs.info.range with
      | .ok s, .ok sl => .ok (addAllComments s sl.toList)
      | .error e, _ => .error e
      | _, .error e => .error e := rfl

theorem fmtStmt_block (o : Options) (S : Slice) (ss : StmtList) (i : AstInfo) :
    fmtStmt o S (.block ss i) =
      match sub S i.range with
      | .error e => .error e
      | .ok sl =>
        match ss with
        | .nil => .ok (addLeadingComments (chars "{}\n") sl.toList)
        | _ =>
          match fmtStmtList o S ss with
          | .error e => .error e
          | .ok body => .ok (addLeadingComments (chars "{\n" ++ indent body o ++ chars "}\n") sl.toList) := by
  cases ss <;> rfl

theorem fmtStmt_while (o : Options) (S : Slice) (cnd : Option (Ref Expr)) (b : OptStmt) (i : AstInfo) :
    fmtStmt o S (.whileS cnd b i) =
      match fmtOptRefExpr S cnd with
      | .error p => .error p
      | .ok cond =>
        match fmtBranch o S b '\n', sub S i.range with
        | .ok br, .ok sl => .ok (addLeadingComments (chars "while (" ++ cond ++ [')'] ++ br) sl.toList)
        | .error p, _ => .error p
        | _, .error p => .error p := rfl

theorem fmtStmtList_nil (o : Options) (S : Slice) : fmtStmtList o S .nil = .ok [] := rfl
theorem fmtStmtList_cons (o : Options) (S : Slice) (s : Stmt) (off : Nat) (rest : StmtList) :
    fmtStmtList o S (.cons s off rest) =
      match from' S off with
      | .error p => .error p
      | .ok sl =>
        match fmtStmt o sl s with
        | .error p => .error p
        | .ok a => (fmtStmtList o S rest).map (fun b => a ++ b) := rfl

/-- the `else` part of an `if` statement as the formatter computes it: `(true, text)` for `else if`, `(false, branch)`
    for any other statement -/
def elseOf (o : Options) (S : Slice) (e : OptStmt) : Option (Bool × R) :=
  match e with
  | .none => none
  | .some (.ifS c2 t2 e2 i2) off =>
    some (true, match from' S off with
      | .error p => .error p
      | .ok sl => fmtStmt o sl (.ifS c2 t2 e2 i2))
  | .some s off => some (false, fmtBranch o S (.some s off) '\n')

theorem fmtStmt_if (o : Options) (S : Slice) (cnd : Option (Ref Expr)) (t e : OptStmt) (i : AstInfo) :
    fmtStmt o S (.ifS cnd t e i) =
      ifAssemble (fmtOptRefExpr S cnd) (fmtBranch o S t '\n') (fmtBranch o S t ' ') (elseOf o S e) (sub S i.range) := by
  cases e with
  | none => rfl
  | some s off => cases s <;> rfl

theorem fmtBranch_some (o : Options) (S : Slice) (s : Stmt) (off : Nat) (ending : Char) :
    fmtBranch o S (.some s off) ending =
      match from' S off with
      | .error p => .error p
      | .ok sl =>
        match s with
        | .block .nil _ => .ok (chars " {}\n")
        | .block ss _ => (fmtStmtList o sl ss).map (fun body => chars " {\n" ++ indent body o ++ ['}', ending])
        | other => (fmtStmt o sl other).map (fun st => ['\n'] ++ indent st o) := by
  cases s with
  | block ss i => cases ss <;> rfl
  | _ => rfl
end Spl.Fmt

namespace Spl.FmtStmt
open Spl Spl.Grammar Spl.Fmt Spl.FmtLex Spl.Feat Spl.FmtExpr

/-! ### lines -/

/-- a printed line (without its terminator) and the token types it contributes -/
structure Line where
  text : List Char
  tys : List TokenType

def LineOK (l : Line) : Prop := NoNL l.text ∧ l.text.getLast? ≠ some '\r' ∧ PDel l.text l.tys

def render (ls : List Line) : List Char := ls.flatMap (fun l => l.text ++ ['\n'])
def typesOf (ls : List Line) : List TokenType := ls.flatMap (·.tys)

@[simp] theorem render_nil : render [] = [] := rfl
@[simp] theorem render_cons (l : Line) (ls : List Line) : render (l :: ls) = l.text ++ '\n' :: render ls := by
  simp [render]
@[simp] theorem render_append (a b : List Line) : render (a ++ b) = render a ++ render b := by simp [render]
@[simp] theorem typesOf_nil : typesOf [] = [] := rfl
@[simp] theorem typesOf_cons (l : Line) (ls : List Line) : typesOf (l :: ls) = l.tys ++ typesOf ls := by simp [typesOf]
@[simp] theorem typesOf_append (a b : List Line) : typesOf (a ++ b) = typesOf a ++ typesOf b := by simp [typesOf]

theorem delim_newline (r : List Char) : Delim ('\n' :: r) := Or.inr ⟨'\n', r, rfl, by decide⟩

/-- complete lines tokenise line by line -/
theorem render_pany : ∀ (ls : List Line), (∀ l ∈ ls, LineOK l) → PAny (render ls) (typesOf ls)
  | [], _ => p_nil _
  | l :: ls, h => by
    have ih := render_pany ls (fun x hx => h x (by simp [hx]))
    obtain ⟨_, _, hp⟩ := h l (by simp)
    intro rest rt _ hl
    have h2 : Lx ('\n' :: (render ls ++ rest)) (typesOf ls ++ rt) := Lx.ws '\n' _ _ (by decide) (ih rest rt trivial hl)
    have := hp ('\n' :: (render ls ++ rest)) (typesOf ls ++ rt) (delim_newline _) h2
    simpa using this

/-! ### `str::lines` and `indent` on complete lines -/

theorem lines_go_line : ∀ (t rest cur : List Char), NoNL t →
    Fmt.lines.go (t ++ '\n' :: rest) cur = (cur.reverse ++ t) :: Fmt.lines.go rest []
  | [], rest, cur, _ => by simp [Fmt.lines.go]
  | x :: t, rest, cur, h => by
    have hx : (x == '\n') = false := by simpa using h x (by simp)
    simp only [List.cons_append, Fmt.lines.go, hx, Bool.false_eq_true, if_false]
    rw [lines_go_line t rest (x :: cur) (fun y hy => h y (by simp [hy]))]
    simp

theorem lines_go_render : ∀ (ls : List Line), (∀ l ∈ ls, NoNL l.text) →
    Fmt.lines.go (render ls) [] = ls.map (·.text)
  | [], _ => by simp [Fmt.lines.go]
  | l :: ls, h => by
    rw [render_cons, lines_go_line l.text (render ls) [] (h l (by simp)),
      lines_go_render ls (fun x hx => h x (by simp [hx]))]
    simp

theorem lines_render (ls : List Line) (h : ∀ l ∈ ls, NoNL l.text ∧ l.text.getLast? ≠ some '\r') :
    Fmt.lines (render ls) = ls.map (·.text) := by
  simp only [Fmt.lines]
  rw [lines_go_render ls (fun l hl => (h l hl).1), List.map_map]
  apply List.map_congr_left
  intro l hl
  have := (h l hl).2
  simp only [Function.comp]

theorem getLast_append_ne {α} (a b : List α) (hb : b ≠ []) : (a ++ b).getLast? = b.getLast? := by
  rw [List.getLast?_append]
  cases hbl : b.getLast? with
  | none => exact absurd (List.getLast?_eq_none_iff.mp hbl) hb
  | some x => rfl

def indentLine (o : Options) (l : Line) : Line := ⟨o.indentation ++ l.text, l.tys⟩

theorem indent_render (o : Options) (ls : List Line) (h : ∀ l ∈ ls, NoNL l.text ∧ l.text.getLast? ≠ some '\r') :
    indent (render ls) o = render (ls.map (indentLine o)) := by
  rw [indent, lines_render ls h]
  simp only [render, List.flatMap_map, indentLine, List.append_assoc]

/-- the indentation unit is a blank or a tab -/
def OptOK (o : Options) : Prop := o.indentSymbol = ' ' ∨ o.indentSymbol = '\t'

theorem indentLine_ok (o : Options) (ho : OptOK o) (l : Line) (h : LineOK l) : LineOK (indentLine o l) := by
  obtain ⟨h1, h2, h3⟩ := h
  have hsym : ∀ x ∈ o.indentation, x = o.indentSymbol := by
    intro x hx; simp only [Options.indentation, List.mem_replicate] at hx; exact hx.2
  have hws : ∀ x ∈ o.indentation, LexSpec.ws x = true := by
    intro x hx; rw [hsym x hx]; rcases ho with e | e <;> rw [e] <;> decide
  refine ⟨?_, ?_, ?_⟩
  · apply noNL_append _ h1
    intro x hx; rw [hsym x hx]; rcases ho with e | e <;> rw [e] <;> decide
  · simp only [indentLine]
    cases ht : l.text with
    | nil =>
      simp only [List.append_nil]
      intro e
      have hm := List.mem_of_getLast? e
      have := hsym _ hm
      rcases ho with e' | e' <;> rw [e'] at this <;> revert this <;> decide
    | cons x t =>
      rw [getLast_append_ne _ _ (by simp)]
      rw [← ht]; exact h2
  · have := pany_seq (C := Delim) (pany_wsrun o.indentation hws) h3
    simpa [indentLine] using this


/-! ### comment-free slices -/

variable (c : Ctx)

theorem sub_ok {S : Slice} (hS : SOK c S) (a b : Nat) (ha : S.lo ≤ a) (hab : a ≤ b) (hb : b ≤ c.g.all.size) :
    ∃ S', sub S ⟨a - S.lo, b - S.lo⟩ = .ok S' ∧ ∀ t ∈ S'.toList, t.kind ≠ Kind.Comment := by
  have h1 : a - S.lo ≤ b - S.lo := by omega
  have h2 : S.lo + (b - S.lo) ≤ S.hi := by rw [hS.hi]; omega
  refine ⟨⟨S.toks, S.lo + (a - S.lo), S.lo + (b - S.lo)⟩, by simp [sub, Slice.sub, h1, h2], ?_⟩
  intro t ht
  simp only [Slice.toList, hS.toks] at ht
  have hm : t ∈ c.g.all.toList := by
    have h' : t ∈ List.take (S.lo + (b - S.lo) - (S.lo + (a - S.lo))) (List.drop (S.lo + (a - S.lo)) c.g.all.toList) := by
      simpa [Array.toList_extract] using ht
    exact List.mem_of_mem_drop (List.mem_of_mem_take h')
  obtain ⟨i, hi, e⟩ := List.mem_iff_getElem.mp hm
  exact c.nc i t (by simp [Array.getElem?_eq_some_iff]; exact ⟨by simpa using hi, by simpa using e⟩)

theorem addAll_nc (text : List Char) (toks : List Token) (h : ∀ t ∈ toks, t.kind ≠ Kind.Comment) :
    addAllComments text toks = text := by
  have : toks.filterMap commentStr = [] := by
    rw [List.filterMap_eq_nil_iff]
    intro t ht
    have := h t ht
    simp [commentStr, this]
  simp [addAllComments, this]

theorem addLead_nc (text : List Char) (toks : List Token) (h : ∀ t ∈ toks, t.kind ≠ Kind.Comment) :
    addLeadingComments text toks = text := by
  have : toks.takeWhile (fun t => t.kind == .Comment) = [] := by
    cases toks with
    | nil => rfl
    | cons t r =>
      have := h t (by simp)
      have hk : (t.kind == Kind.Comment) = false := by simpa using this
      simp [List.takeWhile, hk]
  simp [addLeadingComments, this]


/-! ### referenced expressions, argument lists -/

theorem refExpr_fmt (e : Expr) (se : Span) (he : EGood c e se) (S : Slice) (hS : SOK c S) (hlo : S.lo ≤ se.first) :
    ∃ s, fmtRefExpr S (relRefExpr S.lo (refAbs e)) = .ok s ∧ PDel s (tysOf c se.first (se.last + 1)) ∧ NoNL s ∧ s ≠ [] := by
  obtain ⟨r1, r2, r3, r4⟩ := he
  obtain ⟨S', ef, hS', hlo'⟩ := from_ok c hS (e.info.range.lo - S.lo) (by rw [r3]; omega)
  have hlo'' : S'.lo = e.info.range.lo := by rw [hlo', r3]; omega
  obtain ⟨is, e2, p2, n2, ne2⟩ := r4 S' hS' (by rw [hlo'', r3]; exact Nat.le_refl _)
  rw [hlo''] at e2
  exact ⟨is, by simp only [fmtRefExpr, relRefExpr, refAbs, ef, e2], p2, n2, ne2⟩

/-- a non-empty argument list: printed with `, ` between the arguments -/
def AGood (es : List (Ref Expr)) (a b : Nat) : Prop :=
  a ≤ b ∧ b < c.g.all.size ∧ ∀ S : Slice, SOK c S → S.lo ≤ a →
    ∃ strs, (es.map (relRefExpr S.lo)).mapM (fmtRefExpr S) = .ok strs ∧
      PDel (joinSep (chars ", ") strs) (tysOf c a (b + 1)) ∧ NoNL (joinSep (chars ", ") strs) ∧
      joinSep (chars ", ") strs ≠ []

theorem p_comma_sp : PAny [',', ' '] [.Comma] := by
  have := pany_seq (C := fun _ => True) p_comma p_space
  simpa using this

theorem exprList_good : ∀ (fuel : Nat) (ts : Toks) (es : List (Ref Expr)) (r : Toks) (st : Nat),
    exprList c.g fuel ts = some (es, r) → Al c st ts → ∃ last, AGood c es st last ∧ Al c (last + 1) r
  | 0, ts, es, r, st, hs, _ => by simp [exprList] at hs
  | fuel + 1, ts, es, r, st, hs, hal => by
    simp only [exprList] at hs
    cases he : expr c.g (8 * ts.length + 16) ts with
    | none => simp [he] at hs
    | some res =>
      obtain ⟨e, se, r0⟩ := res
      simp only [he] at hs
      obtain ⟨ge, fe, ae⟩ := expression_format_lexes c he hal
      have single : ∀ r', Al c (se.last + 1) r' → AGood c [refAbs e] st se.last := by
        intro r' _
        refine ⟨by have := ge.1; omega, ge.2.1, ?_⟩
        intro S hS hlo
        obtain ⟨s1, e1, p1, n1, ne1⟩ := refExpr_fmt c e se ge S hS (by omega)
        refine ⟨[s1], by simp [List.mapM_cons, e1, pure, Except.pure, bind, Except.bind], ?_, ?_, ?_⟩
        · simpa [joinSep, ← fe] using p1
        · simpa [joinSep] using n1
        · simpa [joinSep] using ne1
      split at hs
      · rename_i ci r1
        cases hr : exprList c.g fuel r1 with
        | none => simp [hr] at hs
        | some res2 =>
          obtain ⟨es2, r2⟩ := res2
          simp only [hr, Option.some.injEq, Prod.mk.injEq] at hs
          obtain ⟨rfl, rfl⟩ := hs
          obtain ⟨hidx, ⟨tk, htk, hty⟩, al1⟩ := ae
          dsimp only at hidx hty
          obtain ⟨last, ga, aa⟩ := exprList_good fuel r1 es2 r2 (se.last + 1 + 1) hr al1
          refine ⟨last, ?_, aa⟩
          obtain ⟨a1, a2, a3⟩ := ga
          refine ⟨by have := ge.1; omega, a2, ?_⟩
          intro S hS hlo
          obtain ⟨s1, e1, p1, n1, ne1⟩ := refExpr_fmt c e se ge S hS (by omega)
          obtain ⟨strs, e2, p2, n2, ne2⟩ := a3 S hS (by have := ge.1; omega)
          refine ⟨s1 :: strs, by simp [List.mapM_cons, e1, e2, pure, Except.pure, bind, Except.bind], ?_, ?_, ?_⟩
          · cases strs with
            | nil => simp [joinSep] at ne2
            | cons s2 rest =>
              have hty' : tysOf c st (last + 1) =
                  tysOf c se.first (se.last + 1) ++ ([TokenType.Comma] ++ tysOf c (se.last + 1 + 1) (last + 1)) := by
                rw [← fe, tysOf_split c se.first (se.last + 1) (last + 1) (by have := ge.1; omega) (by omega),
                  tysOf_split c (se.last + 1) (se.last + 1 + 1) (last + 1) (by omega) (by omega),
                  tysOf_one c (se.last + 1) tk htk, hty]
              rw [hty']
              show PDel (s1 ++ chars ", " ++ joinSep (chars ", ") (s2 :: rest)) _
              rw [List.append_assoc]
              exact pdel_seq p1 ⟨',', _, rfl, by decide⟩ (pany_seq p_comma_sp p2)
          · cases strs with
            | nil => simp [joinSep] at ne2
            | cons s2 rest =>
              show NoNL (s1 ++ chars ", " ++ joinSep (chars ", ") (s2 :: rest))
              exact noNL_append (noNL_append n1 (by intro x hx; simp [chars] at hx; rcases hx with rfl | rfl <;> decide)) n2
          · cases strs with
            | nil => simp [joinSep] at ne2
            | cons s2 rest => simp [joinSep, ne1]
      · simp only [Option.some.injEq, Prod.mk.injEq] at hs
        obtain ⟨rfl, rfl⟩ := hs
        exact ⟨se.last, single r0 ae, ae⟩


/-! ### statements -/

variable (o : Options)

/-- a statement list printed from any enclosing slice: complete lines for the tokens `a … b-1` -/
def LGood (ss : StmtList) (a b : Nat) : Prop :=
  a ≤ b ∧ b ≤ c.g.all.size ∧ ∀ S : Slice, SOK c S → S.lo ≤ a →
    ∃ ls, fmtStmtList o S (relStmtList S.lo ss) = .ok (render ls) ∧ (∀ l ∈ ls, LineOK l) ∧
      typesOf ls = tysOf c a b ∧ (ls = [] ↔ ss = .nil)

def SGood (s : Stmt) (sp : Span) : Prop :=
  sp.first ≤ sp.last ∧ sp.last < c.g.all.size ∧ s.info.range.lo = sp.first ∧
  (∀ S : Slice, SOK c S → S.lo ≤ sp.first →
    ∃ ls, fmtStmt o S (relStmt S.lo s) = .ok (render ls) ∧ (∀ l ∈ ls, LineOK l) ∧ ls ≠ [] ∧
      typesOf ls = tysOf c sp.first (sp.last + 1)) ∧
  (∀ ss i, s = .block ss i → LGood c o ss (sp.first + 1) sp.last ∧ sp.first < sp.last ∧
    (∃ tk, c.g.all[sp.first]? = some tk ∧ tk.ty = .LCurly) ∧ (∃ tk, c.g.all[sp.last]? = some tk ∧ tk.ty = .RCurly))

theorem line_ok_of (text : List Char) (tys : List TokenType) (x : Char) (t : List Char) (ht : text = t ++ [x])
    (hx : x ≠ '\r') (hn : NoNL text) (hp : PDel text tys) : LineOK ⟨text, tys⟩ :=
  ⟨hn, by subst ht; rw [List.getLast?_concat]; intro e; exact hx (Option.some.inj e), hp⟩

theorem empty_good (i : Nat) (tk : Token) (htk : c.g.all[i]? = some tk) (hty : tk.ty = .Semic) :
    SGood c o (.empty (mkInfo c.g i i)) ⟨i, i⟩ := by
  have hsz := (Array.getElem?_eq_some_iff.mp htk).1
  refine ⟨Nat.le_refl _, hsz, by simp [Stmt.info, mkInfo_nc], ?_, by intro ss j h; cases h⟩
  intro S hS hlo
  dsimp only at hlo
  obtain ⟨S', es, hnc⟩ := sub_ok c hS i (i + 1) hlo (by omega) (by omega)
  refine ⟨[⟨[';'], [.Semic]⟩], ?_, ?_, by simp, ?_⟩
  · simp only [relStmt, relInfo, mkInfo_nc, fmtStmt_empty, es, Except.map, addAll_nc _ _ hnc]
    simp [chars]
  · intro l hl
    simp only [List.mem_singleton] at hl
    subst hl
    exact line_ok_of _ _ ';' [] rfl (by decide) (by intro x hx; simp at hx; subst hx; decide) (pany_pdel p_semic)
  · simp [tysOf_one c i tk htk, hty]

theorem p_assign_sp : PAny [' ', ':', '=', ' '] [.Assign] := by
  have := pany_seq (C := fun _ => True) p_space p_assign
  simpa using this

theorem assign_good (v : Var) (sv : Span) (e : Expr) (se : Span) (tk tk2 : Token)
    (hv : VGood c v sv) (htk : c.g.all[sv.last + 1]? = some tk) (hty : tk.ty = .Assign)
    (he : EGood c e se) (hse : se.first = sv.last + 2)
    (htk2 : c.g.all[se.last + 1]? = some tk2) (hty2 : tk2.ty = .Semic) :
    SGood c o (.assign { target := v, expr := some (refAbs e), info := mkInfo c.g sv.first (se.last + 1) })
      ⟨sv.first, se.last + 1⟩ := by
  have hv0 := hv
  have he0 := he
  obtain ⟨l1, l2, l3, l4⟩ := hv
  obtain ⟨r1, r2, r3, r4⟩ := he
  have hsz := (Array.getElem?_eq_some_iff.mp htk2).1
  refine ⟨by dsimp only; omega, hsz, by simp [Stmt.info, mkInfo_nc], ?_, by intro ss j h; cases h⟩
  intro S hS hlo
  dsimp only at hlo
  obtain ⟨vs, e1, p1, n1, ne1⟩ := l4 S hS hlo
  obtain ⟨xs, e2, p2, n2, ne2⟩ := refExpr_fmt c e se he0 S hS (by omega)
  obtain ⟨S', es, hnc⟩ := sub_ok c hS sv.first (se.last + 1 + 1) hlo (by omega) (by omega)
  have hty' : tysOf c sv.first (se.last + 1 + 1) =
      tysOf c sv.first (sv.last + 1) ++ ([TokenType.Assign] ++ (tysOf c se.first (se.last + 1) ++ [TokenType.Semic])) := by
    rw [tysOf_split c sv.first (sv.last + 1) (se.last + 1 + 1) (by omega) (by omega),
      tysOf_split c (sv.last + 1) (sv.last + 2) (se.last + 1 + 1) (by omega) (by omega),
      tysOf_one c (sv.last + 1) tk htk, hty,
      tysOf_split c (sv.last + 2) (se.last + 1) (se.last + 1 + 1) (by omega) (by omega),
      tysOf_one c (se.last + 1) tk2 htk2, hty2, hse]
  refine ⟨[⟨vs ++ ([' ', ':', '=', ' '] ++ (xs ++ [';'])), tysOf c sv.first (se.last + 1 + 1)⟩], ?_, ?_, by simp, by simp⟩
  · simp only [relStmt, relInfo, mkInfo_nc, fmtStmt_assign, fmtAssignment, fmtOptRefExpr, Option.map, e2, e1, Except.map, es,
      addAll_nc _ _ hnc]
    simp [chars]
  · intro l hl
    simp only [List.mem_singleton] at hl
    subst hl
    refine line_ok_of _ _ ';' (vs ++ ([' ', ':', '=', ' '] ++ xs)) (by simp) (by decide) ?_ ?_
    · exact noNL_append n1 (noNL_append (by intro x hx; simp at hx; rcases hx with rfl | rfl | rfl | rfl <;> decide)
        (noNL_append n2 (by intro x hx; simp at hx; subst hx; decide)))
    · rw [hty']
      exact pany_pdel (pdel_seq p1 ⟨' ', _, rfl, by decide⟩ (pany_seq p_assign_sp (pdel_seq p2 ⟨';', [], rfl, by decide⟩ p_semic)))


theorem call_good (i : Nat) (s : List Char) (es : List (Ref Expr)) (rp : Nat) (tk tk1 tk2 tk3 : Token)
    (htk : c.g.all[i]? = some tk) (hty : tk.ty = .Ident s)
    (htk1 : c.g.all[i + 1]? = some tk1) (hty1 : tk1.ty = .LParen)
    (hargs : (es = [] ∧ rp = i + 2) ∨ (∃ last, AGood c es (i + 2) last ∧ rp = last + 1))
    (htk2 : c.g.all[rp]? = some tk2) (hty2 : tk2.ty = .RParen)
    (htk3 : c.g.all[rp + 1]? = some tk3) (hty3 : tk3.ty = .Semic) :
    SGood c o (.call { name := mkIdent c.g i s, args := es, info := mkInfo c.g i (rp + 1) }) ⟨i, rp + 1⟩ := by
  have hsz := (Array.getElem?_eq_some_iff.mp htk3).1
  have hrp : i + 2 ≤ rp := by
    rcases hargs with ⟨_, h⟩ | ⟨last, ⟨h1, _, _⟩, h⟩ <;> omega
  refine ⟨by dsimp only; omega, hsz, by simp [Stmt.info, mkInfo_nc], ?_, by intro ss j h; cases h⟩
  intro S hS hlo
  dsimp only at hlo
  obtain ⟨pd, nn, ne⟩ := p_display tk.ty (c.wf i tk htk) (Or.inl (by rw [hty]; rfl))
  rw [hty] at pd nn ne
  have hpd : PDel s [TokenType.Ident s] := pd
  have hnn : NoNL s := nn
  obtain ⟨S', es', hnc⟩ := sub_ok c hS i (rp + 1 + 1) hlo (by omega) (by omega)
  -- the argument text
  have hA : ∃ as, (es.map (relRefExpr S.lo)).mapM (fmtRefExpr S) = .ok as ∧ NoNL (joinSep (chars ", ") as) ∧
      P (fun _ => True) (joinSep (chars ", ") as ++ [')', ';']) (tysOf c (i + 2) rp ++ [TokenType.RParen, TokenType.Semic]) := by
    have hend : PAny [')', ';'] [TokenType.RParen, TokenType.Semic] := by
      have := pany_seq (C := fun _ => True) p_rparen p_semic
      simpa using this
    rcases hargs with ⟨rfl, rfl⟩ | ⟨last, ⟨_, _, h3⟩, rfl⟩
    · refine ⟨[], rfl, by intro x hx; simp [joinSep] at hx, ?_⟩
      simpa [joinSep, tysOf_empty] using hend
    · obtain ⟨strs, e2, p2, n2, ne2⟩ := h3 S hS (by omega)
      exact ⟨strs, e2, n2, pdel_seq p2 ⟨')', _, rfl, by decide⟩ hend⟩
  obtain ⟨as, ea, na, pa⟩ := hA
  have hty' : tysOf c i (rp + 1 + 1) =
      [TokenType.Ident s] ++ ([TokenType.LParen] ++ (tysOf c (i + 2) rp ++ [TokenType.RParen, TokenType.Semic])) := by
    rw [tysOf_split c i (i + 1) (rp + 1 + 1) (by omega) (by omega), tysOf_one c i tk htk, hty,
      tysOf_split c (i + 1) (i + 2) (rp + 1 + 1) (by omega) (by omega), tysOf_one c (i + 1) tk1 htk1, hty1,
      tysOf_split c (i + 2) rp (rp + 1 + 1) (by omega) (by omega),
      tysOf_split c rp (rp + 1) (rp + 1 + 1) (by omega) (by omega), tysOf_one c rp tk2 htk2, hty2,
      tysOf_one c (rp + 1) tk3 htk3, hty3]
    simp
  refine ⟨[⟨s ++ (['('] ++ (joinSep (chars ", ") as ++ [')', ';'])), tysOf c i (rp + 1 + 1)⟩], ?_, ?_, by simp, by simp⟩
  · simp only [relStmt, relIdent, mkIdent, relInfo, mkInfo_nc, fmtStmt_call, fmtCall, ea, es', addAll_nc _ _ hnc]
    simp [chars]
  · intro l hl
    simp only [List.mem_singleton] at hl
    subst hl
    refine line_ok_of _ _ ';' (s ++ (['('] ++ (joinSep (chars ", ") as ++ [')']))) (by simp) (by decide) ?_ ?_
    · exact noNL_append hnn (noNL_append (by intro x hx; simp at hx; subst hx; decide)
        (noNL_append na (by intro x hx; simp at hx; rcases hx with rfl | rfl <;> decide)))
    · rw [hty']
      exact pany_pdel (pdel_seq hpd ⟨'(', _, rfl, by decide⟩ (pany_seq p_lparen pa))


def noNLb (s : List Char) : Bool := s.all (fun x => x != '\n')
theorem noNL_of_b {s : List Char} (h : noNLb s = true) : NoNL s := by
  intro x hx e
  simp only [noNLb, List.all_eq_true] at h
  have := h x hx
  subst e
  simp at this

/-! ### keywords -/

theorem p_kw (w : List Char) (ty : TokenType) (ch : Char) (tl : List Char) (hw : w = ch :: tl)
    (hl : LexSpec.letter ch = true) (hall : ∀ x ∈ tl, LexSpec.wordChar x = true) (hty : wordTy w = ty) : PDel w [ty] := by
  subst hw; rw [← hty]; exact p_word ch tl hl hall

theorem p_if : PDel (chars "if") [.If] := p_kw _ _ 'i' ['f'] rfl (by decide) (by decide) (by decide)
theorem p_else : PDel (chars "else") [.Else] := p_kw _ _ 'e' ['l', 's', 'e'] rfl (by decide) (by decide) (by decide)
theorem p_while : PDel (chars "while") [.While] := p_kw _ _ 'w' ['h', 'i', 'l', 'e'] rfl (by decide) (by decide) (by decide)

theorem p_sp_lparen : PAny [' ', '('] [.LParen] := by
  have := pany_seq (C := fun _ => True) p_space p_lparen
  simpa using this

/-- `kw (` ++ condition ++ `)` -/
theorem head_piece (kw : List Char) (kty : TokenType) (hk : PDel kw [kty]) (hkn : NoNL kw) (cond : List Char) (ctys : List TokenType)
    (hc : PDel cond ctys) (hcn : NoNL cond) :
    PAny (kw ++ [' ', '('] ++ cond ++ [')']) ([kty, .LParen] ++ ctys ++ [.RParen]) ∧ NoNL (kw ++ [' ', '('] ++ cond ++ [')']) := by
  constructor
  · have := pdel_seq (C := fun _ => True) hk ⟨' ', _, rfl, by decide⟩
      (pany_seq p_sp_lparen (pdel_seq hc ⟨')', [], rfl, by decide⟩ p_rparen))
    simpa using this
  · exact noNL_append (noNL_append (noNL_append hkn (by intro x hx; simp at hx; rcases hx with rfl | rfl <;> decide)) hcn)
      (by intro x hx; simp at hx; subst hx; decide)

/-! ### branches -/

theorem p_sp_lcurly : PAny [' ', '{'] [.LCurly] := by
  have := pany_seq (C := fun _ => True) p_space p_lcurly
  simpa using this

theorem branch_shape (ho : OptOK o) (t : Stmt) (st : Span) (ht : SGood c o t st) (E : Char) (hE : E = '\n' ∨ E = ' ')
    (S : Slice) (hS : SOK c S) (hlo : S.lo ≤ st.first) :
    ∃ hx hxt mid pfx pfxt,
      fmtBranch o S (relOptStmt S.lo (.some t 0)) E = .ok (hx ++ '\n' :: (render mid ++ pfx)) ∧
      PAny hx hxt ∧ NoNL hx ∧ (hx = [] ∨ StartsDelim hx) ∧ hx.getLast? ≠ some '\r' ∧
      (∀ l ∈ mid, LineOK l) ∧ PAny pfx pfxt ∧ NoNL pfx ∧ (E = '\n' → pfx = [] ∧ pfxt = []) ∧
      hxt ++ typesOf mid ++ pfxt = tysOf c st.first (st.last + 1) := by
  obtain ⟨s1, s2, s3, s4, s5⟩ := ht
  obtain ⟨S', ef, hS', hlo'⟩ := from_ok c hS (t.info.range.lo - S.lo) (by rw [s3]; omega)
  have hlo'' : S'.lo = t.info.range.lo := by rw [hlo', s3]; omega
  have hfirst : S'.lo = st.first := by rw [hlo'', s3]
  have other : (∀ ss i, t ≠ .block ss i) →
      (match relStmt t.info.range.lo t with
        | .block .nil _ => (Except.ok (chars " {}\n") : R)
        | .block ss _ => (fmtStmtList o S' ss).map (fun body => chars " {\n" ++ indent body o ++ ['}', E])
        | other => (fmtStmt o S' other).map (fun st => ['\n'] ++ indent st o)) =
      (fmtStmt o S' (relStmt t.info.range.lo t)).map (fun st => ['\n'] ++ indent st o) := by
    intro hnb
    cases t with
    | block ss i => exact absurd rfl (hnb ss i)
    | _ => rfl
  by_cases hb : ∃ ss i, t = .block ss i
  · obtain ⟨ss, i, rfl⟩ := hb
    obtain ⟨lg, hlt, ⟨tk, htk, hty⟩, ⟨tk2, htk2, hty2⟩⟩ := s5 ss i rfl
    have hinfo : (Stmt.block ss i).info = i := rfl
    rw [hinfo] at ef hlo'' s3
    clear other
    cases ss with
    | nil =>
      refine ⟨chars " {}", [.LCurly, .RCurly], [], [], [], ?_, ?_, noNL_of_b (by decide), Or.inr ⟨' ', _, rfl, by decide⟩, by decide,
        (by intro l hl; cases hl), p_nil _, (by intro x hx; cases hx), fun _ => ⟨rfl, rfl⟩, ?_⟩
      · simp only [relOptStmt, hinfo, fmtBranch_some, ef, relStmt, relStmtList]
        rfl
      · have := pany_seq (C := fun _ => True) p_sp_lcurly p_rcurly
        simpa [chars] using this
      · obtain ⟨_, _, h3⟩ := lg
        obtain ⟨ls, e, _, hty3, hnil⟩ := h3 S' hS' (by omega)
        have hls : ls = [] := hnil.mpr rfl
        subst hls
        have : tysOf c (st.first + 1) st.last = [] := by simpa using hty3.symm
        rw [tysOf_split c st.first (st.first + 1) (st.last + 1) (by omega) (by omega), tysOf_one c st.first tk htk, hty,
          tysOf_split c (st.first + 1) st.last (st.last + 1) (by omega) (by omega), this, tysOf_one c st.last tk2 htk2, hty2]
        rfl
    | cons s0 off0 rest0 =>
      obtain ⟨_, _, h3⟩ := lg
      obtain ⟨ls, e, hok, hty3, hnil⟩ := h3 S' hS' (by omega)
      rw [hlo''] at e
      have hind := indent_render o ls (fun l hl => ⟨(hok l hl).1, (hok l hl).2.1⟩)
      have hmid : ∀ l ∈ ls.map (indentLine o), LineOK l := by
        intro l hl
        obtain ⟨l0, hl0, rfl⟩ := List.mem_map.mp hl
        exact indentLine_ok o ho l0 (hok l0 hl0)
      have htym : typesOf (ls.map (indentLine o)) = typesOf ls := by
        simp [typesOf, List.flatMap_map, indentLine]
      have hsplit : tysOf c st.first (st.last + 1) = [TokenType.LCurly] ++ tysOf c (st.first + 1) st.last ++ [TokenType.RCurly] := by
        rw [tysOf_split c st.first (st.first + 1) (st.last + 1) (by omega) (by omega), tysOf_one c st.first tk htk, hty,
          tysOf_split c (st.first + 1) st.last (st.last + 1) (by omega) (by omega), tysOf_one c st.last tk2 htk2, hty2]
        simp
      have hfmt : fmtBranch o S (relOptStmt S.lo (.some (.block (.cons s0 off0 rest0) i) 0)) E =
          .ok (chars " {\n" ++ render (ls.map (indentLine o)) ++ ['}', E]) := by
        have hr : relStmtList i.range.lo (.cons s0 off0 rest0) =
            .cons (relStmt s0.info.range.lo s0) (s0.info.range.lo - i.range.lo) (relStmtList i.range.lo rest0) := by
          simp [relStmtList]
        simp only [relOptStmt, hinfo, fmtBranch_some, ef, relStmt]
        rw [hr] at e ⊢
        dsimp only
        rw [e, ← hind]
        rfl
      rcases hE with rfl | rfl
      · refine ⟨chars " {", [.LCurly], ls.map (indentLine o) ++ [⟨['}'], [.RCurly]⟩], [], [], ?_, ?_, noNL_of_b (by decide),
          Or.inr ⟨' ', _, rfl, by decide⟩, by decide, ?_, p_nil _, (by intro x hx; cases hx), fun _ => ⟨rfl, rfl⟩, ?_⟩
        · rw [hfmt]; simp [chars]
        · simpa [chars] using p_sp_lcurly
        · intro l hl
          rcases List.mem_append.mp hl with h | h
          · exact hmid l h
          · simp only [List.mem_singleton] at h; subst h
            exact line_ok_of _ _ '}' [] rfl (by decide) (by intro x hx; simp at hx; subst hx; decide) (pany_pdel p_rcurly)
        · rw [hsplit, typesOf_append, htym, hty3]; simp
      · refine ⟨chars " {", [.LCurly], ls.map (indentLine o), ['}', ' '], [.RCurly], ?_, ?_, noNL_of_b (by decide),
          Or.inr ⟨' ', _, rfl, by decide⟩, by decide, hmid, ?_, noNL_of_b (by decide), (by intro h; cases h), ?_⟩
        · rw [hfmt]; simp [chars]
        · simpa [chars] using p_sp_lcurly
        · have := pany_seq (C := fun _ => True) p_rcurly p_space
          simpa using this
        · rw [hsplit, htym, hty3]
  · have hnb : ∀ ss i, t ≠ .block ss i := fun ss i h => hb ⟨ss, i, h⟩
    obtain ⟨ls, e, hok, hne, hty3⟩ := s4 S' hS' (by rw [hfirst]; exact Nat.le_refl _)
    rw [hlo''] at e
    have hind := indent_render o ls (fun l hl => ⟨(hok l hl).1, (hok l hl).2.1⟩)
    have hmid : ∀ l ∈ ls.map (indentLine o), LineOK l := by
      intro l hl
      obtain ⟨l0, hl0, rfl⟩ := List.mem_map.mp hl
      exact indentLine_ok o ho l0 (hok l0 hl0)
    have htym : typesOf (ls.map (indentLine o)) = typesOf ls := by
      simp [typesOf, List.flatMap_map, indentLine]
    refine ⟨[], [], ls.map (indentLine o), [], [], ?_, p_nil _, (by intro x hx; cases hx), Or.inl rfl, by simp, hmid, p_nil _,
      (by intro x hx; cases hx), fun _ => ⟨rfl, rfl⟩, ?_⟩
    · simp only [relOptStmt, fmtBranch_some, ef]
      rw [other hnb, e, ← hind]
      simp [Except.map]
    · simp [htym, hty3]


theorem pdel_opt {s1 t1 s2 t2} (h1 : PDel s1 t1) (hs : s2 = [] ∨ StartsDelim s2) (h2 : PAny s2 t2) :
    PDel (s1 ++ s2) (t1 ++ t2) := by
  rcases hs with rfl | hs
  · intro rest rt hd hl
    have := h1 rest (t2 ++ rt) hd (by simpa using h2 rest rt trivial hl)
    simpa using this
  · exact pdel_seq h1 hs (pany_pdel h2)

theorem getLast_opt (a b : List Char) (x : Char) (ha : a.getLast? ≠ some x) (hb : b.getLast? ≠ some x) :
    (a ++ b).getLast? ≠ some x := by
  cases b with
  | nil => simpa using ha
  | cons y t => rw [getLast_append_ne _ _ (by simp)]; exact hb

theorem block_good (i j : Nat) (ss : StmtList) (tk tk2 : Token) (hij : i < j)
    (htk : c.g.all[i]? = some tk) (hty : tk.ty = .LCurly) (htk2 : c.g.all[j]? = some tk2) (hty2 : tk2.ty = .RCurly)
    (ho : OptOK o) (hl : LGood c o ss (i + 1) j) : SGood c o (.block ss (mkInfo c.g i j)) ⟨i, j⟩ := by
  have hsz := (Array.getElem?_eq_some_iff.mp htk2).1
  refine ⟨by dsimp only; omega, hsz, by simp [Stmt.info, mkInfo_nc], ?_, ?_⟩
  · intro S hS hlo
    dsimp only at hlo
    obtain ⟨S', es, hnc⟩ := sub_ok c hS i (j + 1) hlo (by omega) (by omega)
    obtain ⟨_, _, h3⟩ := hl
    obtain ⟨ls, e, hok, hty3, hnil⟩ := h3 S hS (by omega)
    have hsplit : tysOf c i (j + 1) = [TokenType.LCurly] ++ tysOf c (i + 1) j ++ [TokenType.RCurly] := by
      rw [tysOf_split c i (i + 1) (j + 1) (by omega) (by omega), tysOf_one c i tk htk, hty,
        tysOf_split c (i + 1) j (j + 1) (by omega) (by omega), tysOf_one c j tk2 htk2, hty2]
      simp
    cases ss with
    | nil =>
      refine ⟨[⟨['{', '}'], [.LCurly, .RCurly]⟩], ?_, ?_, by simp, ?_⟩
      · simp only [relStmt, relStmtList, relInfo, mkInfo_nc, fmtStmt_block, es, addLead_nc _ _ hnc]
        simp [chars]
      · intro l hl
        simp only [List.mem_singleton] at hl; subst hl
        refine line_ok_of _ _ '}' ['{'] rfl (by decide) (noNL_of_b (by decide)) ?_
        have := pany_seq (C := fun _ => True) p_lcurly p_rcurly
        exact pany_pdel (by simpa using this)
      · have hls : ls = [] := hnil.mpr rfl
        subst hls
        have : tysOf c (i + 1) j = [] := by simpa using hty3.symm
        simp [hsplit, this]
    | cons s0 off0 rest0 =>
      have hind := indent_render o ls (fun l hl => ⟨(hok l hl).1, (hok l hl).2.1⟩)
      have hmid : ∀ l ∈ ls.map (indentLine o), LineOK l := by
        intro l hl
        obtain ⟨l0, hl0, rfl⟩ := List.mem_map.mp hl
        exact indentLine_ok o ho l0 (hok l0 hl0)
      have htym : typesOf (ls.map (indentLine o)) = typesOf ls := by
        simp [typesOf, List.flatMap_map, indentLine]
      have hr : relStmtList S.lo (.cons s0 off0 rest0) =
          .cons (relStmt s0.info.range.lo s0) (s0.info.range.lo - S.lo) (relStmtList S.lo rest0) := by
        simp [relStmtList]
      refine ⟨⟨['{'], [.LCurly]⟩ :: (ls.map (indentLine o) ++ [⟨['}'], [.RCurly]⟩]), ?_, ?_, by simp, ?_⟩
      · simp only [relStmt, relInfo, mkInfo_nc, fmtStmt_block, es, addLead_nc _ _ hnc]
        rw [hr] at e ⊢
        dsimp only
        rw [e]
        simp [chars, hind]
      · intro l hl
        rcases List.mem_cons.mp hl with rfl | hl
        · exact line_ok_of _ _ '{' [] rfl (by decide) (noNL_of_b (by decide)) (pany_pdel p_lcurly)
        · rcases List.mem_append.mp hl with h | h
          · exact hmid l h
          · simp only [List.mem_singleton] at h; subst h
            exact line_ok_of _ _ '}' [] rfl (by decide) (noNL_of_b (by decide)) (pany_pdel p_rcurly)
      · simp [hsplit, htym, hty3]
  · intro ss' i' h
    simp only [Stmt.block.injEq] at h
    obtain ⟨rfl, _⟩ := h
    exact ⟨hl, hij, ⟨tk, htk, hty⟩, ⟨tk2, htk2, hty2⟩⟩


theorem first_line_ok (H : List Char) (Hty : List TokenType) (hH : PAny H Hty) (hHn : NoNL H) (hHl : H.getLast? ≠ some '\r')
    (hx : List Char) (hxt : List TokenType) (hp : PAny hx hxt) (hn : NoNL hx) (hl : hx.getLast? ≠ some '\r') :
    LineOK ⟨H ++ hx, Hty ++ hxt⟩ :=
  ⟨noNL_append hHn hn, getLast_opt H hx '\r' hHl hl, pany_pdel (pany_seq hH hp)⟩

theorem getLast_rparen (s : List Char) : (s ++ [')']).getLast? ≠ some '\r' := by
  rw [List.getLast?_concat]; decide

/-- `while (cond) body` and `if (cond) body` without `else` -/
theorem head_branch (ho : OptOK o) (kw : List Char) (kty : TokenType) (hk : PDel kw [kty]) (hkn : NoNL kw)
    (i : Nat) (e : Expr) (se : Span) (b : Stmt) (sb : Span) (tk tk1 tk2 : Token)
    (htk : c.g.all[i]? = some tk) (hty : tk.ty = kty)
    (htk1 : c.g.all[i + 1]? = some tk1) (hty1 : tk1.ty = .LParen)
    (he : EGood c e se) (hse : se.first = i + 2)
    (htk2 : c.g.all[se.last + 1]? = some tk2) (hty2 : tk2.ty = .RParen)
    (hb : SGood c o b sb) (hsb : sb.first = se.last + 2)
    (S : Slice) (hS : SOK c S) (hlo : S.lo ≤ i) :
    ∃ cond br ls, fmtOptRefExpr S (some (relRefExpr S.lo (refAbs e))) = .ok cond ∧
      fmtBranch o S (relOptStmt S.lo (.some b 0)) '\n' = .ok br ∧
      kw ++ [' ', '('] ++ cond ++ [')'] ++ br = render ls ∧ (∀ l ∈ ls, LineOK l) ∧ ls ≠ [] ∧
      typesOf ls = tysOf c i (sb.last + 1) := by
  obtain ⟨cond, e1, p1, n1, ne1⟩ := refExpr_fmt c e se he S hS (by omega)
  obtain ⟨hx, hxt, mid, pfx, pfxt, eb, q1, q2, q3, q4, q5, q6, q7, q8, q9⟩ :=
    branch_shape c o ho b sb hb '\n' (Or.inl rfl) S hS (by have := he.1; omega)
  obtain ⟨hpfx, hpt⟩ := q8 rfl
  subst hpfx hpt
  obtain ⟨hH, hHn⟩ := head_piece kw kty hk hkn cond _ p1 n1
  have hse1 := he.1
  have hsb1 := hb.1
  refine ⟨cond, _, ⟨kw ++ [' ', '('] ++ cond ++ [')'] ++ hx, [kty, .LParen] ++ tysOf c se.first (se.last + 1) ++ [.RParen] ++ hxt⟩ :: mid,
    by simpa [fmtOptRefExpr] using e1, eb, by simp, ?_, by simp, ?_⟩
  · intro l hl
    rcases List.mem_cons.mp hl with rfl | hl
    · exact first_line_ok _ _ hH hHn (getLast_rparen _) hx hxt q1 q2 q4
    · exact q5 l hl
  · have hq : hxt ++ typesOf mid = tysOf c sb.first (sb.last + 1) := by simpa using q9
    rw [typesOf_cons]
    dsimp only
    rw [List.append_assoc, hq,
      tysOf_split c i (i + 1) (sb.last + 1) (by omega) (by omega), tysOf_one c i tk htk, hty,
      tysOf_split c (i + 1) (i + 2) (sb.last + 1) (by omega) (by omega), tysOf_one c (i + 1) tk1 htk1, hty1,
      tysOf_split c (i + 2) (se.last + 1) (sb.last + 1) (by omega) (by omega),
      tysOf_split c (se.last + 1) (se.last + 2) (sb.last + 1) (by omega) (by omega),
      tysOf_one c (se.last + 1) tk2 htk2, hty2, hse, hsb]
    simp


theorem while_good (ho : OptOK o) (i : Nat) (e : Expr) (se : Span) (b : Stmt) (sb : Span) (tk tk1 tk2 : Token)
    (htk : c.g.all[i]? = some tk) (hty : tk.ty = .While)
    (htk1 : c.g.all[i + 1]? = some tk1) (hty1 : tk1.ty = .LParen)
    (he : EGood c e se) (hse : se.first = i + 2)
    (htk2 : c.g.all[se.last + 1]? = some tk2) (hty2 : tk2.ty = .RParen)
    (hb : SGood c o b sb) (hsb : sb.first = se.last + 2) :
    SGood c o (.whileS (some (refAbs e)) (.some b 0) (mkInfo c.g i sb.last)) ⟨i, sb.last⟩ := by
  have hse1 := he.1
  have hsb1 := hb.1
  refine ⟨by dsimp only; omega, hb.2.1, by simp [Stmt.info, mkInfo_nc], ?_, by intro ss j h; cases h⟩
  intro S hS hlo
  dsimp only at hlo
  obtain ⟨cond, br, ls, e1, e2, e3, h4, h5, h6⟩ := head_branch c o ho (chars "while") .While p_while (noNL_of_b (by decide))
    i e se b sb tk tk1 tk2 htk hty htk1 hty1 he hse htk2 hty2 hb hsb S hS hlo
  obtain ⟨S', es, hnc⟩ := sub_ok c hS i (sb.last + 1) hlo (by omega) (by have := hb.2.1; omega)
  refine ⟨ls, ?_, h4, h5, h6⟩
  have e3' : chars "while (" ++ cond ++ [')'] ++ br = render ls := by rw [← e3]; simp [chars]
  simp only [relStmt, Option.map, relInfo, mkInfo_nc, fmtStmt_while, e1, e2, es, addLead_nc _ _ hnc, e3']

theorem if_good (ho : OptOK o) (i : Nat) (e : Expr) (se : Span) (b : Stmt) (sb : Span) (tk tk1 tk2 : Token)
    (htk : c.g.all[i]? = some tk) (hty : tk.ty = .If)
    (htk1 : c.g.all[i + 1]? = some tk1) (hty1 : tk1.ty = .LParen)
    (he : EGood c e se) (hse : se.first = i + 2)
    (htk2 : c.g.all[se.last + 1]? = some tk2) (hty2 : tk2.ty = .RParen)
    (hb : SGood c o b sb) (hsb : sb.first = se.last + 2) :
    SGood c o (.ifS (some (refAbs e)) (.some b 0) .none (mkInfo c.g i sb.last)) ⟨i, sb.last⟩ := by
  have hse1 := he.1
  have hsb1 := hb.1
  refine ⟨by dsimp only; omega, hb.2.1, by simp [Stmt.info, mkInfo_nc], ?_, by intro ss j h; cases h⟩
  intro S hS hlo
  dsimp only at hlo
  obtain ⟨cond, br, ls, e1, e2, e3, h4, h5, h6⟩ := head_branch c o ho (chars "if") .If p_if (noNL_of_b (by decide))
    i e se b sb tk tk1 tk2 htk hty htk1 hty1 he hse htk2 hty2 hb hsb S hS hlo
  obtain ⟨S', es, hnc⟩ := sub_ok c hS i (sb.last + 1) hlo (by omega) (by have := hb.2.1; omega)
  refine ⟨ls, ?_, h4, h5, h6⟩
  have e3' : chars "if (" ++ cond ++ [')'] ++ br = render ls := by rw [← e3]; simp [chars]
  simp only [relStmt, Option.map, relOptStmt, relInfo, mkInfo_nc, fmtStmt_if, elseOf, ifAssemble, e1, es]
  simp only [relOptStmt] at e2
  simp only [e2, Except.map, e3', addLead_nc _ _ hnc]


theorem p_else_sp : PAny (chars "else ") [.Else] := by
  have := pdel_seq (C := fun _ => True) p_else ⟨' ', [], rfl, by decide⟩ p_space
  simpa [chars] using this

/-- the `else` part: either the lines of an `else if` (to be joined to `else `) or a branch (to be joined to `else`) -/
theorem else_el (ho : OptOK o) (x : Stmt) (sx : Span) (hx : SGood c o x sx) (S : Slice) (hS : SOK c S) (hlo : S.lo ≤ sx.first) :
    (∃ l0 ls', elseOf o S (relOptStmt S.lo (.some x 0)) = some (true, .ok (render (l0 :: ls'))) ∧
      (∀ l ∈ l0 :: ls', LineOK l) ∧ typesOf (l0 :: ls') = tysOf c sx.first (sx.last + 1)) ∨
    (∃ hxs hxt mid, elseOf o S (relOptStmt S.lo (.some x 0)) = some (false, .ok (hxs ++ '\n' :: render mid)) ∧
      PAny hxs hxt ∧ NoNL hxs ∧ (hxs = [] ∨ StartsDelim hxs) ∧ hxs.getLast? ≠ some '\r' ∧
      (∀ l ∈ mid, LineOK l) ∧ hxt ++ typesOf mid = tysOf c sx.first (sx.last + 1)) := by
  by_cases hif : ∃ c2 t2 e2 i2, x = .ifS c2 t2 e2 i2
  · left
    obtain ⟨c2, t2, e2, i2, rfl⟩ := hif
    obtain ⟨s1, s2, s3, s4, s5⟩ := hx
    obtain ⟨S', ef, hS', hlo'⟩ := from_ok c hS ((Stmt.ifS c2 t2 e2 i2).info.range.lo - S.lo) (by rw [s3]; omega)
    have hlo'' : S'.lo = (Stmt.ifS c2 t2 e2 i2).info.range.lo := by rw [hlo', s3]; omega
    obtain ⟨ls, e, hok, hne, hty⟩ := s4 S' hS' (by rw [hlo'', s3]; exact Nat.le_refl _)
    rw [hlo''] at e
    cases ls with
    | nil => exact absurd rfl hne
    | cons l0 ls' =>
      refine ⟨l0, ls', ?_, hok, hty⟩
      simp only [relOptStmt, relStmt] at e ⊢
      simp only [elseOf, ef, e]
  · right
    have hnif : ∀ c2 t2 e2 i2, x ≠ .ifS c2 t2 e2 i2 := fun c2 t2 e2 i2 h => hif ⟨c2, t2, e2, i2, h⟩
    obtain ⟨hxs, hxt, mid, pfx, pfxt, eb, q1, q2, q3, q4, q5, q6, q7, q8, q9⟩ :=
      branch_shape c o ho x sx hx '\n' (Or.inl rfl) S hS hlo
    obtain ⟨hpfx, hpt⟩ := q8 rfl
    subst hpfx hpt
    refine ⟨hxs, hxt, mid, ?_, q1, q2, q3, q4, q5, by simpa using q9⟩
    have hel : elseOf o S (relOptStmt S.lo (.some x 0)) =
        some (false, fmtBranch o S (relOptStmt S.lo (.some x 0)) '\n') := by
      simp only [relOptStmt]
      cases x with
      | ifS c2 t2 e2 i2 => exact absurd rfl (hnif c2 t2 e2 i2)
      | _ => rfl
    rw [hel, eb]
    simp

theorem ifelse_good (ho : OptOK o) (i : Nat) (e : Expr) (se : Span) (t : Stmt) (st : Span) (x : Stmt) (sx : Span)
    (tk tk1 tk2 tk3 : Token)
    (htk : c.g.all[i]? = some tk) (hty : tk.ty = .If)
    (htk1 : c.g.all[i + 1]? = some tk1) (hty1 : tk1.ty = .LParen)
    (he : EGood c e se) (hse : se.first = i + 2)
    (htk2 : c.g.all[se.last + 1]? = some tk2) (hty2 : tk2.ty = .RParen)
    (ht : SGood c o t st) (hst : st.first = se.last + 2)
    (htk3 : c.g.all[st.last + 1]? = some tk3) (hty3 : tk3.ty = .Else)
    (hx : SGood c o x sx) (hsx : sx.first = st.last + 2) :
    SGood c o (.ifS (some (refAbs e)) (.some t 0) (.some x 0) (mkInfo c.g i sx.last)) ⟨i, sx.last⟩ := by
  have hse1 := he.1
  have hst1 := ht.1
  have hsx1 := hx.1
  refine ⟨by dsimp only; omega, hx.2.1, by simp [Stmt.info, mkInfo_nc], ?_, by intro ss j h; cases h⟩
  intro S hS hlo
  dsimp only at hlo
  obtain ⟨cond, e1, p1, n1, ne1⟩ := refExpr_fmt c e se he S hS (by omega)
  obtain ⟨hH, hHn⟩ := head_piece (chars "if") .If p_if (noNL_of_b (by decide)) cond _ p1 n1
  obtain ⟨hxs, hxt, mid, pfx, pfxt, eb, q1, q2, q3, q4, q5, q6, q7, q8, q9⟩ :=
    branch_shape c o ho t st ht ' ' (Or.inr rfl) S hS (by omega)
  obtain ⟨S', es, hnc⟩ := sub_ok c hS i (sx.last + 1) hlo (by omega) (by have := hx.2.1; omega)
  have hfirst := first_line_ok _ _ hH hHn (getLast_rparen _) hxs hxt q1 q2 q4
  have hpre : tysOf c i (sx.last + 1) =
      ([TokenType.If, .LParen] ++ tysOf c se.first (se.last + 1) ++ [.RParen]) ++
        (tysOf c st.first (st.last + 1) ++ ([TokenType.Else] ++ tysOf c sx.first (sx.last + 1))) := by
    rw [tysOf_split c i (i + 1) (sx.last + 1) (by omega) (by omega), tysOf_one c i tk htk, hty,
      tysOf_split c (i + 1) (i + 2) (sx.last + 1) (by omega) (by omega), tysOf_one c (i + 1) tk1 htk1, hty1,
      tysOf_split c (i + 2) (se.last + 1) (sx.last + 1) (by omega) (by omega),
      tysOf_split c (se.last + 1) (se.last + 2) (sx.last + 1) (by omega) (by omega),
      tysOf_one c (se.last + 1) tk2 htk2, hty2,
      tysOf_split c (se.last + 2) (st.last + 1) (sx.last + 1) (by omega) (by omega),
      tysOf_split c (st.last + 1) (st.last + 2) (sx.last + 1) (by omega) (by omega),
      tysOf_one c (st.last + 1) tk3 htk3, hty3, hse, hst, hsx]
    simp
  have hcommon : ∀ body, ifAssemble (Except.ok cond) (fmtBranch o S (relOptStmt S.lo (.some t 0)) '\n')
      (Except.ok (hxs ++ '\n' :: (render mid ++ pfx))) (some body) (Except.ok S') =
      match (match body with
        | (true, ei) => ei.map (fun ei => chars "if (" ++ cond ++ [')'] ++ (hxs ++ '\n' :: (render mid ++ pfx)) ++ chars "else " ++ ei)
        | (false, eb) => eb.map (fun eb => chars "if (" ++ cond ++ [')'] ++ (hxs ++ '\n' :: (render mid ++ pfx)) ++ chars "else" ++ eb) : R) with
      | .ok s => .ok (addLeadingComments s S'.toList)
      | .error p => .error p := by
    intro body
    obtain ⟨b, r⟩ := body
    cases b <;> cases r <;> rfl
  rcases else_el c o ho x sx hx S hS (by omega) with ⟨l0, ls', eel, hok, htyx⟩ | ⟨hys, hyt, midx, eel, r1, r2, r3, r4, r5, r6⟩
  · refine ⟨⟨chars "if" ++ [' ', '('] ++ cond ++ [')'] ++ hxs, [TokenType.If, .LParen] ++ tysOf c se.first (se.last + 1) ++ [.RParen] ++ hxt⟩ :: (mid ++
      (⟨pfx ++ chars "else " ++ l0.text, pfxt ++ [.Else] ++ l0.tys⟩ :: ls')), ?_, ?_, by simp, ?_⟩
    · simp only [relStmt, Option.map, relInfo, mkInfo_nc, fmtStmt_if, eel, es]
      have e1' : fmtOptRefExpr S (some (relRefExpr S.lo (refAbs e))) = .ok cond := by simpa [fmtOptRefExpr] using e1
      rw [e1', eb, hcommon]
      simp [Except.map, addLead_nc _ _ hnc, chars]
    · intro l hl
      rcases List.mem_cons.mp hl with rfl | hl
      · exact hfirst
      · rcases List.mem_append.mp hl with h | h
        · exact q5 l h
        · rcases List.mem_cons.mp h with rfl | h
          · obtain ⟨a1, a2, a3⟩ := hok l0 (by simp)
            refine ⟨noNL_append (noNL_append q7 (noNL_of_b (by decide))) a1, ?_, ?_⟩
            · apply getLast_opt _ _ _ _ a2
              rw [getLast_append_ne _ _ (by decide)]; decide
            · have := pany_seq (C := Delim) (pany_seq q6 p_else_sp) a3
              simpa using this
          · exact hok l (by simp [h])
    · simp only [typesOf_cons, typesOf_append] at htyx ⊢
      rw [hpre, ← q9, ← htyx]
      simp
  · refine ⟨⟨chars "if" ++ [' ', '('] ++ cond ++ [')'] ++ hxs, [TokenType.If, .LParen] ++ tysOf c se.first (se.last + 1) ++ [.RParen] ++ hxt⟩ :: (mid ++
      (⟨pfx ++ chars "else" ++ hys, pfxt ++ [.Else] ++ hyt⟩ :: midx)), ?_, ?_, by simp, ?_⟩
    · simp only [relStmt, Option.map, relInfo, mkInfo_nc, fmtStmt_if, eel, es]
      have e1' : fmtOptRefExpr S (some (relRefExpr S.lo (refAbs e))) = .ok cond := by simpa [fmtOptRefExpr] using e1
      rw [e1', eb, hcommon]
      simp [Except.map, addLead_nc _ _ hnc, chars]
    · intro l hl
      rcases List.mem_cons.mp hl with rfl | hl
      · exact hfirst
      · rcases List.mem_append.mp hl with h | h
        · exact q5 l h
        · rcases List.mem_cons.mp h with rfl | h
          · refine ⟨noNL_append (noNL_append q7 (noNL_of_b (by decide))) r2, ?_, ?_⟩
            · apply getLast_opt _ _ _ _ r4
              rw [getLast_append_ne _ _ (by decide)]; decide
            · have := pany_seq (C := Delim) q6 (pdel_opt p_else r3 r1)
              simpa using this
          · exact r5 l h
    · simp only [typesOf_cons, typesOf_append]
      rw [hpre, ← q9, ← r6]
      simp


/-! ### all statements -/

structure SConf (fs : Nat) : Prop where
  stmt : ∀ ts s sp rest st, stmt c.g fs ts = some (s, sp, rest) → Al c st ts →
    SGood c o s sp ∧ sp.first = st ∧ Al c (sp.last + 1) rest
  stmts : ∀ ts ss rest st, stmts c.g fs ts = some (ss, rest) → Al c st ts →
    ∃ b, LGood c o ss st b ∧ Al c b rest ∧ ∃ r', rest = ⟨b, .RCurly⟩ :: r'

theorem al_head {st : Nat} {t : ITok} {r : Toks} (h : Al c st (t :: r)) :
    t.idx = st ∧ (∃ tk, c.g.all[st]? = some tk ∧ tk.ty = t.ty) ∧ Al c (st + 1) r := h

theorem stmts_conf {fs : Nat} (ih : SConf c o fs) :
    ∀ ts ss rest st, stmts c.g (fs + 1) ts = some (ss, rest) → Al c st ts →
    ∃ b, LGood c o ss st b ∧ Al c b rest ∧ ∃ r', rest = ⟨b, .RCurly⟩ :: r' := by
  intro ts ss rest st hs hal
  simp only [Grammar.stmts] at hs
  split at hs
  · rename_i i r
    simp only [Option.some.injEq, Prod.mk.injEq] at hs
    obtain ⟨rfl, rfl⟩ := hs
    obtain ⟨hidx, ⟨tk, htk, hty⟩, al1⟩ := al_head c hal
    dsimp only at hidx
    have hsz := (Array.getElem?_eq_some_iff.mp htk).1
    refine ⟨st, ⟨Nat.le_refl _, by omega, ?_⟩, hal, r, by rw [← hidx]⟩
    intro S hS hlo
    exact ⟨[], by simp [relStmtList, fmtStmtList_nil], (by intro l hl; cases hl), by simp [tysOf_empty], by simp⟩
  · cases h1 : stmt c.g fs ts with
    | none => simp [h1] at hs
    | some res =>
      obtain ⟨s, sp, r⟩ := res
      simp only [h1] at hs
      obtain ⟨gs, fsp, as⟩ := ih.stmt ts s sp r st h1 hal
      cases h2 : stmts c.g fs r with
      | none => simp [h2] at hs
      | some res2 =>
        obtain ⟨ss2, r1⟩ := res2
        simp only [h2, Option.some.injEq, Prod.mk.injEq] at hs
        obtain ⟨rfl, rfl⟩ := hs
        obtain ⟨b, lg, ab, hr'⟩ := ih.stmts r ss2 r1 (sp.last + 1) h2 as
        refine ⟨b, ?_, ab, hr'⟩
        obtain ⟨l1, l2, l3⟩ := lg
        obtain ⟨g1, g2, g3, g4, g5⟩ := gs
        refine ⟨by omega, l2, ?_⟩
        intro S hS hlo
        obtain ⟨S', ef, hS', hlo'⟩ := from_ok c hS (s.info.range.lo - S.lo) (by rw [g3]; omega)
        have hlo'' : S'.lo = s.info.range.lo := by rw [hlo', g3]; omega
        obtain ⟨ls1, e1, ok1, ne1, ty1⟩ := g4 S' hS' (by rw [hlo'', g3]; exact Nat.le_refl _)
        rw [hlo''] at e1
        obtain ⟨ls2, e2, ok2, ty2, _⟩ := l3 S hS (by omega)
        refine ⟨ls1 ++ ls2, ?_, ?_, ?_, ?_⟩
        · simp only [relStmtList, fmtStmtList_cons, ef, e1, e2, Except.map, render_append]
        · intro l hl
          rcases List.mem_append.mp hl with h | h
          · exact ok1 l h
          · exact ok2 l h
        · rw [typesOf_append, ty1, ty2, ← fsp]
          exact (tysOf_split c sp.first (sp.last + 1) b (by omega) (by omega)).symm
        · constructor
          · intro h; simp at h; exact absurd h.1 ne1
          · intro h; cases h


/-- the arguments of a call statement as the specification reads them -/
def callArgs (g : GCtx) (r : Toks) : Option (List (Ref Expr) × Toks) :=
  match r with
  | ⟨_, .RParen⟩ :: _ => some ([], r)
  | _ => exprList g (r.length + 1) r

theorem stmt_conf (ho : OptOK o) {fs : Nat} (ih : SConf c o fs) :
    ∀ ts s sp rest st, stmt c.g (fs + 1) ts = some (s, sp, rest) → Al c st ts →
    SGood c o s sp ∧ sp.first = st ∧ Al c (sp.last + 1) rest := by
  intro ts s sp rest st hs hal
  cases ts with
  | nil => simp [Grammar.stmt] at hs
  | cons t r =>
    obtain ⟨i, tty⟩ := t
    have hal0 := hal
    obtain ⟨hidx, ⟨tk, htk, hty⟩, al1⟩ := hal
    dsimp only at hidx hty
    subst hidx
    cases tty with
    | Semic =>
      simp only [Grammar.stmt, Option.some.injEq, Prod.mk.injEq] at hs
      obtain ⟨rfl, rfl, rfl⟩ := hs
      exact ⟨empty_good c o i tk htk hty, rfl, al1⟩
    | If =>
      simp only [Grammar.stmt] at hs
      cases h1 : expectK .LParen r with
      | none => simp [h1] at hs
      | some res =>
        obtain ⟨j1, r1⟩ := res
        simp only [h1] at hs
        obtain ⟨_, ⟨tk1, htk1, hty1⟩, a1⟩ := expectK_al c (p := .LParen) rfl h1 al1
        cases h2 : expr c.g (8 * r1.length + 16) r1 with
        | none => simp [h2] at hs
        | some res2 =>
          obtain ⟨e, se, r2⟩ := res2
          simp only [h2] at hs
          obtain ⟨ge, fe, ae⟩ := expression_format_lexes c h2 a1
          cases h3 : expectK .RParen r2 with
          | none => simp [h3] at hs
          | some res3 =>
            obtain ⟨j3, r3⟩ := res3
            simp only [h3] at hs
            obtain ⟨_, ⟨tk2, htk2, hty2⟩, a3⟩ := expectK_al c (p := .RParen) rfl h3 ae
            cases h4 : stmt c.g fs r3 with
            | none => simp [h4] at hs
            | some res4 =>
              obtain ⟨t, stt, r4⟩ := res4
              simp only [h4] at hs
              obtain ⟨gt, ft, at4⟩ := ih.stmt r3 t stt r4 (se.last + 1 + 1) h4 a3
              split at hs
              · rename_i ei r5
                cases h5 : stmt c.g fs r5 with
                | none => simp [h5] at hs
                | some res5 =>
                  obtain ⟨x, sx, r6⟩ := res5
                  simp only [h5, Option.some.injEq, Prod.mk.injEq] at hs
                  obtain ⟨rfl, rfl, rfl⟩ := hs
                  obtain ⟨hei, ⟨tk3, htk3, hty3⟩, a5⟩ := al_head c at4
                  dsimp only at hty3
                  obtain ⟨gx, fx, ax⟩ := ih.stmt r5 x sx r6 (stt.last + 1 + 1) h5 a5
                  exact ⟨ifelse_good c o ho i e se t stt x sx tk tk1 tk2 tk3 htk hty htk1 hty1 ge fe htk2 hty2 gt ft htk3 hty3 gx fx,
                    rfl, ax⟩
              · simp only [Option.some.injEq, Prod.mk.injEq] at hs
                obtain ⟨rfl, rfl, rfl⟩ := hs
                exact ⟨if_good c o ho i e se t stt tk tk1 tk2 htk hty htk1 hty1 ge fe htk2 hty2 gt ft, rfl, at4⟩
    | While =>
      simp only [Grammar.stmt] at hs
      cases h1 : expectK .LParen r with
      | none => simp [h1] at hs
      | some res =>
        obtain ⟨j1, r1⟩ := res
        simp only [h1] at hs
        obtain ⟨_, ⟨tk1, htk1, hty1⟩, a1⟩ := expectK_al c (p := .LParen) rfl h1 al1
        cases h2 : expr c.g (8 * r1.length + 16) r1 with
        | none => simp [h2] at hs
        | some res2 =>
          obtain ⟨e, se, r2⟩ := res2
          simp only [h2] at hs
          obtain ⟨ge, fe, ae⟩ := expression_format_lexes c h2 a1
          cases h3 : expectK .RParen r2 with
          | none => simp [h3] at hs
          | some res3 =>
            obtain ⟨j3, r3⟩ := res3
            simp only [h3] at hs
            obtain ⟨_, ⟨tk2, htk2, hty2⟩, a3⟩ := expectK_al c (p := .RParen) rfl h3 ae
            cases h4 : stmt c.g fs r3 with
            | none => simp [h4] at hs
            | some res4 =>
              obtain ⟨b, sb, r4⟩ := res4
              simp only [h4, Option.some.injEq, Prod.mk.injEq] at hs
              obtain ⟨rfl, rfl, rfl⟩ := hs
              obtain ⟨gb, fb, ab⟩ := ih.stmt r3 b sb r4 (se.last + 1 + 1) h4 a3
              exact ⟨while_good c o ho i e se b sb tk tk1 tk2 htk hty htk1 hty1 ge fe htk2 hty2 gb fb, rfl, ab⟩
    | LCurly =>
      simp only [Grammar.stmt] at hs
      cases h1 : stmts c.g fs r with
      | none => simp [h1] at hs
      | some res =>
        obtain ⟨ss, r1⟩ := res
        simp only [h1] at hs
        obtain ⟨b, lg, ab, r', hr'⟩ := ih.stmts r ss r1 (i + 1) h1 al1
        subst hr'
        simp only [expectK, TokenType.kind, beq_self_eq_true, if_true, Option.some.injEq, Prod.mk.injEq] at hs
        obtain ⟨rfl, rfl, rfl⟩ := hs
        obtain ⟨_, ⟨tk2, htk2, hty2⟩, a2⟩ := al_head c ab
        dsimp only at hty2
        exact ⟨block_good c o i b ss tk tk2 (by have := lg.1; omega) htk hty htk2 hty2 ho lg, rfl, a2⟩
    | Ident nm =>
      by_cases hcall : ∃ i1 r1, r = ⟨i1, .LParen⟩ :: r1
      · obtain ⟨i1, r1, rfl⟩ := hcall
        simp only [Grammar.stmt] at hs
        obtain ⟨hi1, ⟨tk1, htk1, hty1⟩, a1⟩ := al_head c al1
        dsimp only at hi1 hty1
        -- the arguments
        have hargs : ∀ as r2, callArgs c.g r1 = some (as, r2) →
            ∃ rp, ((as = [] ∧ rp = i + 2) ∨ (∃ last, AGood c as (i + 2) last ∧ rp = last + 1)) ∧ Al c rp r2 := by
          intro as r2 h
          unfold callArgs at h
          split at h
          · cases h
            exact ⟨i + 2, Or.inl ⟨rfl, rfl⟩, a1⟩
          · obtain ⟨last, ga, aa⟩ := exprList_good c _ r1 as r2 (i + 1 + 1) h a1
            exact ⟨last + 1, Or.inr ⟨last, ga, rfl⟩, aa⟩
        have hs' : (match callArgs c.g r1 with
            | none => none
            | some (as, r1') =>
              match expectK .RParen r1' with
              | none => none
              | some (_, r2) =>
                match expectK .Semic r2 with
                | some (j, r3) =>
                  some (Stmt.call { name := mkIdent c.g i nm, args := as, info := mkInfo c.g i j }, (⟨i, j⟩ : Span), r3)
                | none => none) = some (s, sp, rest) := hs
        clear hs
        cases h1 : callArgs c.g r1 with
        | none => rw [h1] at hs'; simp at hs'
        | some res =>
          obtain ⟨as, r2⟩ := res
          rw [h1] at hs'
          simp only at hs'
          have hs := hs'
          obtain ⟨rp, hA, a2⟩ := hargs as r2 h1
          cases h2 : expectK .RParen r2 with
          | none => simp [h2] at hs
          | some res2 =>
            obtain ⟨j2, r3⟩ := res2
            simp only [h2] at hs
            obtain ⟨_, ⟨tk2, htk2, hty2⟩, a3⟩ := expectK_al c (p := .RParen) rfl h2 a2
            cases h3 : expectK .Semic r3 with
            | none => simp [h3] at hs
            | some res3 =>
              obtain ⟨j3, r4⟩ := res3
              simp only [h3, Option.some.injEq, Prod.mk.injEq] at hs
              obtain ⟨rfl, rfl, rfl⟩ := hs
              obtain ⟨hj3, ⟨tk3, htk3, hty3⟩, a4⟩ := expectK_al c (p := .Semic) rfl h3 a3
              subst hj3
              exact ⟨call_good c o i nm as rp tk tk1 tk2 tk3 htk hty htk1 hty1 hA htk2 hty2 htk3 hty3, rfl, a4⟩
      · have hs' : (match varAccess c.g (8 * ((⟨i, .Ident nm⟩ : ITok) :: r).length + 16) (⟨i, .Ident nm⟩ :: r) with
            | none => none
            | some (v, _, r0) =>
              match expectK .Assign r0 with
              | none => none
              | some (_, r1) =>
                match expr c.g (8 * r1.length + 16) r1 with
                | none => none
                | some (e, _, r2) =>
                  match expectK .Semic r2 with
                  | some (j, r3) => some (Stmt.assign { target := v, expr := some (refAbs e), info := mkInfo c.g i j }, (⟨i, j⟩ : Span), r3)
                  | none => none) = some (s, sp, rest) := by
          cases r with
          | nil => simp only [Grammar.stmt] at hs; exact hs
          | cons t1 r1 =>
            obtain ⟨i1, ty1⟩ := t1
            cases ty1 with
            | LParen => exact absurd ⟨i1, r1, rfl⟩ hcall
            | _ => simp only [Grammar.stmt] at hs; exact hs
        cases h1 : varAccess c.g (8 * ((⟨i, .Ident nm⟩ : ITok) :: r).length + 16) (⟨i, .Ident nm⟩ :: r) with
        | none => rw [h1] at hs'; simp at hs'
        | some res =>
          obtain ⟨v, sv, r0⟩ := res
          rw [h1] at hs'
          simp only at hs'
          obtain ⟨gv, fv, av⟩ := (FmtExpr.conf_all c _).varAccess _ v sv r0 i h1 hal0
          cases h2 : expectK .Assign r0 with
          | none => simp [h2] at hs'
          | some res2 =>
            obtain ⟨j2, r1⟩ := res2
            simp only [h2] at hs'
            obtain ⟨_, ⟨tk1, htk1, hty1⟩, a1⟩ := expectK_al c (p := .Assign) rfl h2 av
            cases h3 : expr c.g (8 * r1.length + 16) r1 with
            | none => simp [h3] at hs'
            | some res3 =>
              obtain ⟨e, se, r2⟩ := res3
              simp only [h3] at hs'
              obtain ⟨ge, fe, ae⟩ := expression_format_lexes c h3 a1
              cases h4 : expectK .Semic r2 with
              | none => simp [h4] at hs'
              | some res4 =>
                obtain ⟨j4, r3⟩ := res4
                simp only [h4, Option.some.injEq, Prod.mk.injEq] at hs'
                obtain ⟨rfl, rfl, rfl⟩ := hs'
                obtain ⟨hj4, ⟨tk2, htk2, hty2⟩, a4⟩ := expectK_al c (p := .Semic) rfl h4 ae
                subst hj4
                have := assign_good c o v sv e se tk1 tk2 gv htk1 hty1 ge fe htk2 hty2
                rw [fv] at this
                exact ⟨this, rfl, a4⟩
    | _ => simp [Grammar.stmt] at hs

theorem sconf_all (ho : OptOK o) : ∀ fs, SConf c o fs
  | 0 => ⟨by intro ts s sp rest st hs; simp [Grammar.stmt] at hs, by intro ts ss rest st hs; simp [Grammar.stmts] at hs⟩
  | fs + 1 => ⟨stmt_conf c o ho (sconf_all ho fs), stmts_conf c o (sconf_all ho fs)⟩

end Spl.FmtStmt
