/-
  `EnvOK` for the concrete header-parser model (`parseHeadersModel`): once the header block is
  complete or rejected, bytes that arrive later do not change the outcome.  With this the C19
  theorems hold for the model that is differentially tested against `httparse`, without the
  hypothesis.
-/
import SplVerif.Lemmas.Codec

namespace Spl.Codec

theorem dropWhile_append_ne_nil {α} (p : α → Bool) : ∀ (l x : List α), l.dropWhile p ≠ [] →
    (l ++ x).dropWhile p = l.dropWhile p ++ x ∧ (l ++ x).takeWhile p = l.takeWhile p
  | [], x, h => by simp at h
  | a :: as, x, h => by
    cases hp : p a with
    | false => simp [List.dropWhile, List.takeWhile, hp]
    | true =>
      simp only [List.dropWhile, hp] at h
      have ih := dropWhile_append_ne_nil p as x h
      simp only [List.cons_append, List.dropWhile, List.takeWhile, hp, ih.1, ih.2, and_self]

def LineRes.ext (x : Bytes) : LineRes → LineRes
  | .done rest => .done (rest ++ x)
  | .header n v rest => .header n v (rest ++ x)
  | .incomplete => .incomplete
  | .error => .error

def LineRes.isIncomplete : LineRes → Bool
  | .incomplete => true
  | _ => false

theorem afterCr_append (r x : Bytes) (k : Bytes → LineRes) (k' : Bytes → LineRes)
    (hk : ∀ r', k' (r' ++ x) = (k r').ext x) (h : (afterCr r k).isIncomplete = false)
    (hki : ∀ r', (k r').isIncomplete = false) :
    afterCr (r ++ x) k' = (afterCr r k).ext x := by
  cases r with
  | nil => simp [afterCr, LineRes.isIncomplete] at h
  | cons b r' =>
    simp only [afterCr, List.cons_append]
    split
    · exact hk r'
    · rfl

theorem parseLine_append (bs x : Bytes) (h : (parseLine bs).isIncomplete = false) :
    parseLine (bs ++ x) = (parseLine bs).ext x := by
  cases bs with
  | nil => simp [parseLine, LineRes.isIncomplete] at h
  | cons b r =>
    simp only [parseLine, List.cons_append] at h ⊢
    by_cases h13 : (b == 13) = true
    · simp only [h13, if_true] at h ⊢
      exact afterCr_append r x .done .done (fun _ => rfl) h (fun _ => rfl)
    · simp only [h13, Bool.false_eq_true, if_false] at h ⊢
      by_cases h10 : (b == 10) = true
      · simp only [h10, if_true, LineRes.ext]
      · simp only [h10, Bool.false_eq_true, if_false] at h ⊢
        by_cases hn : isNameTok b = true
        · simp only [hn, Bool.not_true, Bool.false_eq_true, if_false] at h ⊢
          -- name
          cases hd : (b :: r).dropWhile isNameTok with
          | nil => simp [hd, LineRes.isIncomplete] at h
          | cons c r2 =>
            have hne : (b :: r).dropWhile isNameTok ≠ [] := by rw [hd]; simp
            obtain ⟨e1, e2⟩ := dropWhile_append_ne_nil isNameTok (b :: r) x hne
            simp only [List.cons_append] at e1 e2
            rw [e1, e2, hd]
            simp only [hd, List.cons_append] at h ⊢
            by_cases hc : (c != 58) = true
            · simp only [hc, if_true, LineRes.ext]
            · simp only [hc, Bool.false_eq_true, if_false] at h ⊢
              cases hd2 : r2.dropWhile isSpTab with
              | nil => simp [hd2, LineRes.isIncomplete] at h
              | cons v r4 =>
                have hne2 : r2.dropWhile isSpTab ≠ [] := by rw [hd2]; simp
                obtain ⟨e3, _⟩ := dropWhile_append_ne_nil isSpTab r2 x hne2
                rw [e3, hd2]
                simp only [hd2, List.cons_append] at h ⊢
                by_cases hv : isValueTok v = true
                · simp only [hv, if_true] at h ⊢
                  cases hd3 : (v :: r4).dropWhile isValueTok with
                  | nil => simp [hd3, LineRes.isIncomplete] at h
                  | cons e r6 =>
                    have hne3 : (v :: r4).dropWhile isValueTok ≠ [] := by rw [hd3]; simp
                    obtain ⟨e5, e6⟩ := dropWhile_append_ne_nil isValueTok (v :: r4) x hne3
                    simp only [List.cons_append] at e5 e6
                    rw [e5, e6, hd3]
                    simp only [hd3, List.cons_append] at h ⊢
                    by_cases he13 : (e == 13) = true
                    · simp only [he13, if_true] at h ⊢
                      exact afterCr_append r6 x _ _ (fun _ => rfl) h (fun _ => rfl)
                    · simp only [he13, Bool.false_eq_true, if_false] at h ⊢
                      by_cases he10 : (e == 10) = true
                      · simp only [he10, if_true, LineRes.ext]
                      · simp only [he10, Bool.false_eq_true, if_false, LineRes.ext]
                · simp only [hv, Bool.false_eq_true, if_false] at h ⊢
                  by_cases hv13 : (v == 13) = true
                  · simp only [hv13, if_true] at h ⊢
                    exact afterCr_append r4 x _ _ (fun _ => rfl) h (fun _ => rfl)
                  · simp only [hv13, Bool.false_eq_true, if_false] at h ⊢
                    by_cases hv10 : (v == 10) = true
                    · simp only [hv10, if_true, LineRes.ext]
                    · simp only [hv10, Bool.false_eq_true, if_false, LineRes.ext]
        · simp only [hn, Bool.not_false, if_true, LineRes.ext]

theorem parseHeadersGo_append (x : Bytes) : ∀ (fuel : Nat) (bs : Bytes) (total : Nat) (hs : List (Bytes × Bytes))
    (fuel' : Nat), fuel ≤ fuel' → parseHeadersGo fuel bs total hs ≠ .incomplete →
    parseHeadersGo fuel' (bs ++ x) (total + x.length) hs = parseHeadersGo fuel bs total hs
  | 0, bs, total, hs, fuel', _, h => by simp [parseHeadersGo] at h
  | fuel + 1, bs, total, hs, fuel', hle, h => by
    obtain ⟨f', hf'⟩ : ∃ f', fuel' = f' + 1 := ⟨fuel' - 1, by omega⟩
    subst hf'
    simp only [parseHeadersGo] at h ⊢
    cases hl : parseLine bs with
    | incomplete => simp [hl] at h
    | error =>
      have := parseLine_append bs x (by simp [hl, LineRes.isIncomplete])
      rw [this, hl]; simp [LineRes.ext]
    | done rest =>
      have := parseLine_append bs x (by simp [hl, LineRes.isIncomplete])
      rw [this, hl]
      simp only [LineRes.ext, List.length_append]
      congr 1
      omega
    | header n v rest =>
      have := parseLine_append bs x (by simp [hl, LineRes.isIncomplete])
      rw [this, hl]
      simp only [LineRes.ext, hl] at h ⊢
      split
      · rfl
      · rename_i hlen
        simp only [hlen, if_false] at h
        exact parseHeadersGo_append x fuel rest total ((n, v) :: hs) f' (by omega) h

/-- **`EnvOK` holds for the concrete header-parser model**, whatever the body parser. -/
theorem envOK_model {Msg} (parseBody : Bytes → Option Msg) :
    EnvOK ({ parseHeaders := parseHeadersModel, parseBody := parseBody } : Env Msg) := by
  constructor
  · intro b x s hs h
    simp only [parseHeadersModel] at h ⊢
    have := parseHeadersGo_append x (b.length + 1) b b.length [] (b.length + x.length + 1)
      (by omega) (by rw [h]; simp)
    rw [List.length_append]
    rw [this, h]
  · intro b x h
    simp only [parseHeadersModel] at h ⊢
    have := parseHeadersGo_append x (b.length + 1) b b.length [] (b.length + x.length + 1)
      (by omega) (by rw [h]; simp)
    rw [List.length_append]
    rw [this, h]

end Spl.Codec
