/-
  Helper lemmas for the property theorems of C05 (kept out of Props/C05.lean, which holds property statements only).
-/
import SplVerif.Lemmas.Total
import SplVerif.Lemmas.Prefix
import SplVerif.Lemmas.Shift
import SplVerif.Lemmas.FreshEnd
import SplVerif.Lemmas.ParseClean
import SplVerif.Lemmas.Resync

namespace Spl.Contain
open Spl Spl.Parse Spl.ParseConform Spl.FreshEnd

/-- a declaration that starts with doc comments and a keyword fails in front of the end-of-file token -/
theorem doctk_fails_at_eof {α} (ctx : Ctx) (k : Kind) (hk : (Kind.Eof == k) = false) (rest : List (List Char) → P α)
    (s : St) (i : Nat) (t : Token) (hN : Next ctx.toks s.pos i) (ht : ctx.toks[i]? = some t) (hty : t.ty = .Eof) :
    IsErr (Parse.bind (docComments ctx) (fun doc => Parse.bind (tk ctx k) (fun _ => rest doc)) s) := by
  have hdoc := docComments_run ctx (i - s.pos) s i rfl hN
  have hkc : t.kind ≠ .Comment := by simp [Token.kind, hty, TokenType.kind]
  have he := tk_here ctx { s with pos := i } t k ht hkc
  have hkk : (t.ty.kind == k) = false := by simpa [hty, TokenType.kind] using hk
  rw [hkk] at he
  simp only [Bool.false_eq_true, if_false] at he
  exact ⟨false, { s with pos := i }, by simp [Parse.bind, hdoc, he]⟩

/-- at the end-of-file token the declaration loop stops: no further declaration -/
theorem loop_at_eof (ctx : Ctx) (s : St) (i : Nat) (hat : At ctx s [⟨i, .Eof⟩]) (f : Nat) :
    many0 (refParse (parseGlobalDecl ctx) none) (f + 1) s = .ok s [] := by
  obtain ⟨hN, ⟨t, ht, hty⟩, _, _⟩ := hat.head
  have href := hat.ref
  -- the state the declaration parser runs in
  let s1 : St := { s with refPos := s.pos }
  have hN1 : Next ctx.toks ({ s1 with errBuf := [] } : St).pos i := hN
  have e1 : IsErr (pmap GlobalDecl.type (parseTypeDecl ctx none) s1) := by
    apply pmap_err
    show IsErr (pmap _ (info (typeDeclInner ctx none none)) s1)
    apply pmap_err
    apply info_err _ _ _ (Nat.le_refl _)
    unfold typeDeclInner
    exact doctk_fails_at_eof ctx .Type (by decide) _ _ i t hN1 ht hty
  have e2 : IsErr (pmap GlobalDecl.proc (parseProcDecl ctx none) s1) := by
    apply pmap_err
    show IsErr (pmap _ (info (procDeclInner ctx none)) s1)
    apply pmap_err
    apply info_err _ _ _ (Nat.le_refl _)
    rw [Total.procDeclInner_eq]
    exact doctk_fails_at_eof ctx .Proc (by decide) _ _ i t hN1 ht hty
  have e3 : IsErr (info (ignoreUntil1 ctx (peek (la ctx .global_dec)) (loopFuel ctx)) s1) := by
    apply info_err _ _ _ (Nat.le_refl _)
    have hla := (la_global_next ctx { s1 with errBuf := [] } i t hN1 ht).1 (by simp [isSync, hty, TokenType.kind])
    exact ⟨false, { s1 with errBuf := [] }, by simp [ignoreUntil1, peek, hla]⟩
  have hall : IsErr (parseGlobalDecl ctx none s1) := by
    show IsErr (altList [pmap GlobalDecl.type (parseTypeDecl ctx none), pmap GlobalDecl.proc (parseProcDecl ctx none), pmap _ _] s1)
    rw [altList_cons_err _ _ _ (by simp) e1, altList_cons_err _ _ _ (by simp) e2]
    simp only [altList]
    exact pmap_err _ _ _ e3
  obtain ⟨k, x, hx⟩ := hall
  have hr : refParse (parseGlobalDecl ctx) none s = .err k { x with refPos := s.refPos, incRefs := x.incRefs.dropLast } := by
    have a1 : ¬ s.pos < s.refPos := by omega
    simp only [refParse, Option.map_none, a1, if_false]
    have : parseGlobalDecl ctx none { s with refPos := s.pos } = .err k x := hx
    rw [this]
  rw [many0_succ, hr]

/-- the first token of a derived declaration list, behind its documentation comments, is a declaration keyword -/
theorem decls_head_keyword (ctx : Ctx) (fd : Nat) (ts : Grammar.Toks) (d : Ref GlobalDecl) (ds : List (Ref GlobalDecl))
    (last : Option Nat) (hs : Grammar.decls (G ctx) fd ts = some (d :: ds, last)) (s : St) (hat : At ctx s ts) :
    ∃ i t, Next ctx.toks s.pos i ∧ ctx.toks[i]? = some t ∧ (t.kind = Kind.Proc ∨ t.kind = Kind.Type) := by
  cases fd with
  | zero => simp [Grammar.decls] at hs
  | succ fd =>
    rcases decls_other _ _ _ _ _ hs with ⟨i, _, h0, _⟩ | ⟨i, r, rfl⟩ | ⟨i, r, rfl⟩
    · cases h0
    · obtain ⟨hN, ⟨t, ht, hty⟩, _, _⟩ := hat.head
      exact ⟨i, t, hN, ht, Or.inr (by simp [Token.kind, hty, TokenType.kind])⟩
    · obtain ⟨hN, ⟨t, ht, hty⟩, _, _⟩ := hat.head
      exact ⟨i, t, hN, ht, Or.inl (by simp [Token.kind, hty, TokenType.kind])⟩

theorem refErrors_nil {α} (errs : α → List SplError) (r : Ref α) (h : refErrors errs r = []) : errs r.val = [] := by
  simpa [refErrors] using h

theorem relDecl_offset (d : Ref GlobalDecl) : (Grammar.relDecl d).offset = d.val.info.range.lo := by
  obtain ⟨v, o⟩ := d
  cases v <;> rfl

theorem drop_stretch {α} (X M Y : List α) (n : Nat) : (X ++ M ++ Y).drop (X.length + M.length + n) = Y.drop n := by
  have : X.length + M.length + n = (X ++ M).length + n := by simp
  rw [this, List.drop_append]
  simp

theorem get_stretch {α} (X M Y : List α) (n : Nat) : (X ++ M ++ Y)[X.length + M.length + n]? = Y[n]? := by
  have : X.length + M.length + n = (X ++ M).length + n := by simp
  rw [this, List.getElem?_append_right (by omega)]
  simp

end Spl.Contain
