/-
  Helper lemmas for C19: stability of `decode` under buffer extension and its consequences
  for the `FramedRead` loop.
-/
import SplVerif.Model.Codec

namespace Spl.Codec

/-- What the chunking theorem assumes about the header parser: its verdict on a buffer is
    final once it is `complete` or `error` (more bytes do not change it).  This holds for any
    parser that reads its input left to right and stops at the first decisive byte; it is an
    assumption about `httparse::parse_headers` (trusted base), probed by the correspondence. -/
structure EnvOK {Msg} (env : Env Msg) : Prop where
  completeStable : ∀ b x s hs, env.parseHeaders b = .complete s hs →
    env.parseHeaders (b ++ x) = .complete s hs
  errorStable : ∀ b x, env.parseHeaders b = .error → env.parseHeaders (b ++ x) = .error

theorem take_drop_append {α} (b x : List α) (s n : Nat) (h : s + n ≤ b.length) :
    ((b ++ x).drop s).take n = (b.drop s).take n := by
  rw [List.drop_append_of_le_length (by omega)]
  rw [List.take_append_of_le_length (by simp [List.length_drop]; omega)]

theorem decode_append {Msg} (env : Env Msg) (hok : EnvOK env) (b x : Bytes)
    (h : decode env b ≠ .needMore) : decode env (b ++ x) = decode env b := by
  unfold decode at h ⊢
  by_cases hlen : b.length < Gen.codecMinLen
  · simp [hlen] at h
  · have hlen' : ¬ (b ++ x).length < Gen.codecMinLen := by simp; omega
    simp only [hlen, hlen', if_false] at h ⊢
    cases hp : env.parseHeaders b with
    | error => simp [hok.errorStable b x hp]
    | incomplete => simp [hp] at h
    | complete s hs =>
      rw [hok.completeStable b x s hs hp]
      simp only [hp] at h
      cases hf : hs.find? (fun h => h.1 == headerNameBytes) with
      | none => simp [hf]
      | some hd =>
        simp only [hf] at h ⊢
        cases hn : parseUsize hd.2 with
        | none => simp
        | some n =>
          simp only [hn] at h ⊢
          by_cases hb : b.length < s + n
          · simp [hb] at h
          · have hb' : ¬ (b ++ x).length < s + n := by simp; omega
            simp only [hb, hb', if_false]
            rw [take_drop_append b x s n (by omega)]

theorem decode_frame_le {Msg} (env : Env Msg) (b : Bytes) (m : Msg) (k : Nat)
    (hd : decode env b = .frame m k) : k ≤ b.length := by
  unfold decode at hd
  split at hd
  · simp at hd
  · split at hd
    · simp at hd
    · simp at hd
    · split at hd
      · simp at hd
      · split at hd
        · simp at hd
        · split at hd
          · simp at hd
          · split at hd
            · simp at hd
            · simp at hd; omega

/-- One unfolding of `drain`. -/
theorem drain_unfold {Msg} (env : Env Msg) (b : Bytes) :
    drain env b =
      match decode env b with
      | .needMore => ([], b, none)
      | .errHeaders => ([], b, some .errHeaders)
      | .errContent => ([], b, some .errContent)
      | .frame m k =>
        if 0 < k ∧ k ≤ b.length then
          (m :: (drain env (b.drop k)).1, (drain env (b.drop k)).2.1, (drain env (b.drop k)).2.2)
        else ([], b, some .stuck) := by
  rw [drain]
  cases decode env b <;> simp

/-- Draining an extended buffer: an error is reproduced with the same messages; otherwise the
    messages so far are followed by those of the remainder extended by the new bytes. -/
theorem drain_append {Msg} (env : Env Msg) (hok : EnvOK env) (x : Bytes) :
    ∀ (n : Nat) (b : Bytes), b.length < n →
    (∀ ms r t, drain env b = (ms, r, some t) → ∃ r', drain env (b ++ x) = (ms, r', some t)) ∧
    (∀ ms r, drain env b = (ms, r, none) →
      drain env (b ++ x) =
        (ms ++ (drain env (r ++ x)).1, (drain env (r ++ x)).2.1, (drain env (r ++ x)).2.2)) := by
  intro n
  induction n with
  | zero => intro b hb; omega
  | succ n ih =>
    intro b hb
    rw [drain_unfold env b, drain_unfold env (b ++ x)]
    cases hd : decode env b with
    | needMore =>
      constructor
      · intro ms r t h; simp at h
      · intro ms r h
        simp only [Prod.mk.injEq] at h
        obtain ⟨rfl, rfl, _⟩ := h
        rw [← drain_unfold env (b ++ x)]
        simp
    | errHeaders =>
      have hdx := decode_append env hok b x (by simp [hd])
      rw [hdx, hd]
      constructor
      · intro ms r t h
        simp only [Prod.mk.injEq] at h
        obtain ⟨rfl, _, h3⟩ := h
        cases h3
        exact ⟨b ++ x, rfl⟩
      · intro ms r h; simp at h
    | errContent =>
      have hdx := decode_append env hok b x (by simp [hd])
      rw [hdx, hd]
      constructor
      · intro ms r t h
        simp only [Prod.mk.injEq] at h
        obtain ⟨rfl, _, h3⟩ := h
        cases h3
        exact ⟨b ++ x, rfl⟩
      · intro ms r h; simp at h
    | frame m k =>
      have hdx := decode_append env hok b x (by simp [hd])
      have hkle := decode_frame_le env b m k hd
      rw [hdx, hd]
      by_cases hk : 0 < k
      · have c1 : 0 < k ∧ k ≤ b.length := ⟨hk, hkle⟩
        have c2 : 0 < k ∧ k ≤ (b ++ x).length := ⟨hk, by simp; omega⟩
        simp only [c1, c2, and_self, if_true]
        rw [List.drop_append_of_le_length hkle]
        have ih' := ih (b.drop k) (by simp [List.length_drop]; omega)
        rcases hdr : drain env (b.drop k) with ⟨a, c, d⟩
        constructor
        · intro ms r t h
          simp only [Prod.mk.injEq] at h
          obtain ⟨rfl, rfl, rfl⟩ := h
          obtain ⟨r', hr'⟩ := ih'.1 a c t hdr
          exact ⟨r', by rw [hr']⟩
        · intro ms r h
          simp only [Prod.mk.injEq] at h
          obtain ⟨rfl, rfl, rfl⟩ := h
          rw [ih'.2 a c hdr]
          simp
      · have c1 : ¬ (0 < k ∧ k ≤ b.length) := fun h => hk h.1
        have c2 : ¬ (0 < k ∧ k ≤ (b ++ x).length) := fun h => hk h.1
        simp only [c1, c2, if_false]
        constructor
        · intro ms r t h
          simp only [Prod.mk.injEq] at h
          obtain ⟨rfl, _, h3⟩ := h
          cases h3
          exact ⟨b ++ x, rfl⟩
        · intro ms r h; simp at h

/-- The whole `FramedRead` run equals draining the concatenation of all reads. -/
theorem feed_eq_finish {Msg} (env : Env Msg) (hok : EnvOK env) (cs : List Bytes) :
    ∀ buf, feed env cs buf = finish (drain env (buf ++ cs.flatten)) := by
  induction cs with
  | nil => intro buf; simp [feed]
  | cons c cs ih =>
    intro buf
    simp only [feed, List.flatten_cons]
    have e : buf ++ (c ++ cs.flatten) = (buf ++ c) ++ cs.flatten := by simp
    rw [e]
    rcases hdr : drain env (buf ++ c) with ⟨ms, r, t⟩
    cases t with
    | some t =>
      obtain ⟨r', hr'⟩ := (drain_append env hok cs.flatten _ (buf ++ c) (Nat.lt_succ_self _)).1 ms r t hdr
      rw [hr']; simp [finish]
    | none =>
      have := (drain_append env hok cs.flatten _ (buf ++ c) (Nat.lt_succ_self _)).2 ms r hdr
      rw [this]
      simp only [ih r, finish]
      rcases drain env (r ++ cs.flatten) with ⟨a, c', d⟩
      cases d <;> simp

end Spl.Codec
