/-
  Error recovery of a damaged global declaration resynchronises at the next declaration (C05).
-/
import SplVerif.Lemmas.ParseClean

namespace Spl.ParseConform
open Spl Spl.Parse Spl.Grammar

variable (ctx : Ctx)

def isSync (k : Kind) : Bool := k == .Proc || k == .Type || k == .Eof

/-- `look_ahead::global_dec` decides on the next non-comment token -/
theorem la_global_next (s : St) (i : Nat) (t : Token) (hN : Next ctx.toks s.pos i) (ht : ctx.toks[i]? = some t) :
    (isSync t.ty.kind = true → la ctx .global_dec s = .ok { s with pos := i + 1 } ()) ∧
    (isSync t.ty.kind = false → IsErr (la ctx .global_dec s)) := by
  have e1 := tagK_next ctx s i t .Proc hN ht
  have e2 := tagK_next ctx s i t .Type hN ht
  have e3 := tagK_next ctx s i t .Eof hN ht
  have e1' : tk ctx .Proc s = _ := e1
  have e2' : tk ctx .Type s = _ := e2
  have e3' : tk ctx .Eof s = _ := e3
  have hun : la ctx .global_dec s = altList [void (tk ctx .Proc), void (tk ctx .Type), void (tk ctx .Eof)] s := by
    show lookAhead ctx 0 (7 + 1) .global_dec s = _
    rw [lookAhead_succ]
    simp only [Gen.lookAheadSet, List.map_cons, List.map_nil]
  rw [hun]
  constructor
  · intro hs
    simp only [isSync, Bool.or_eq_true, beq_iff_eq] at hs
    by_cases h1 : t.ty.kind = .Proc
    · have : (t.ty.kind == Kind.Proc) = true := by simp [h1]
      rw [this] at e1'; simp only [if_true] at e1'
      exact altList_cons_ok _ _ _ _ _ (void_ok _ _ _ _ e1')
    · have b1 : (t.ty.kind == Kind.Proc) = false := by simp [h1]
      rw [b1] at e1'; simp only [Bool.false_eq_true, if_false] at e1'
      rw [altList_cons_err _ _ _ (by simp) (void_err _ _ ⟨false, s, e1'⟩)]
      by_cases h2 : t.ty.kind = .Type
      · have : (t.ty.kind == Kind.Type) = true := by simp [h2]
        rw [this] at e2'; simp only [if_true] at e2'
        exact altList_cons_ok _ _ _ _ _ (void_ok _ _ _ _ e2')
      · have b2 : (t.ty.kind == Kind.Type) = false := by simp [h2]
        rw [b2] at e2'; simp only [Bool.false_eq_true, if_false] at e2'
        rw [altList_cons_err _ _ _ (by simp) (void_err _ _ ⟨false, s, e2'⟩)]
        have h3 : t.ty.kind = .Eof := by
          rcases hs with (h | h) | h
          · exact absurd h h1
          · exact absurd h h2
          · exact h
        have : (t.ty.kind == Kind.Eof) = true := by simp [h3]
        rw [this] at e3'; simp only [if_true] at e3'
        exact void_ok _ _ _ _ e3'
  · intro hs
    simp only [isSync, Bool.or_eq_false_iff, beq_eq_false_iff_ne] at hs
    have b1 : (t.ty.kind == Kind.Proc) = false := by simpa using hs.1.1
    have b2 : (t.ty.kind == Kind.Type) = false := by simpa using hs.1.2
    have b3 : (t.ty.kind == Kind.Eof) = false := by simpa using hs.2
    rw [b1] at e1'; rw [b2] at e2'; rw [b3] at e3'
    simp only [Bool.false_eq_true, if_false] at e1' e2' e3'
    rw [altList_cons_err _ _ _ (by simp) (void_err _ _ ⟨false, s, e1'⟩)]
    rw [altList_cons_err _ _ _ (by simp) (void_err _ _ ⟨false, s, e2'⟩)]
    exact void_err _ _ ⟨false, s, e3'⟩

theorem tagK_fail_nil (s : St) (h : tsFrom ctx.toks s.pos = []) (k : Kind) : IsErr (tagK ctx (loopFuel ctx) k s) := by
  have hall := tsFrom_nil ctx.toks _ s.pos (Nat.le_refl _) h
  obtain ⟨cs, s', h1, h2⟩ := many0_comment_end ctx _ s (loopFuel ctx) rfl (by simp [loopFuel]; omega) hall
  have : ctx.toks[s'.pos]? = none := by simp; omega
  exact ⟨false, s', by simp [tagK, tag, h1, take1, this]⟩

theorem la_global_ok_next (s s1 : St) (h : la ctx .global_dec s = .ok s1 ()) :
    ∃ i t, Next ctx.toks s.pos i ∧ ctx.toks[i]? = some t ∧ isSync t.ty.kind = true := by
  cases hts : tsFrom ctx.toks s.pos with
  | nil =>
    exfalso
    have f1 : IsErr (tk ctx .Proc s) := tagK_fail_nil ctx s hts .Proc
    have f2 : IsErr (tk ctx .Type s) := tagK_fail_nil ctx s hts .Type
    have f3 : IsErr (tk ctx .Eof s) := tagK_fail_nil ctx s hts .Eof
    have hun : la ctx .global_dec s = altList [void (tk ctx .Proc), void (tk ctx .Type), void (tk ctx .Eof)] s := by
      show lookAhead ctx 0 (7 + 1) .global_dec s = _
      rw [lookAhead_succ]
      simp only [Gen.lookAheadSet, List.map_cons, List.map_nil]
    rw [hun, altList_cons_err _ _ _ (by simp) (void_err _ _ f1), altList_cons_err _ _ _ (by simp) (void_err _ _ f2)] at h
    obtain ⟨k, s', he⟩ := void_err _ _ f3
    simp only [altList] at h
    rw [he] at h; cases h
  | cons t0 r =>
    obtain ⟨i, ty⟩ := t0
    obtain ⟨hN, ⟨t, ht, hty⟩, _⟩ := tsFrom_cons ctx.toks _ s.pos i ty r (Nat.le_refl _) hts
    refine ⟨i, t, hN, ht, ?_⟩
    by_cases hsy : isSync t.ty.kind = true
    · exact hsy
    · exfalso
      obtain ⟨k, s', he⟩ := (la_global_next ctx s i t hN ht).2 (by simpa using hsy)
      rw [he] at h; cases h

/-- **Error recovery resynchronises at the next declaration.**  Skipping the tokens of a damaged
    global declaration (`ignore_until(look_ahead::global_dec)`) stops exactly where the next
    non-comment token is `proc`, `type` or the end of the file, and it skips no position from which
    such a token is the next one: the tokens of the following declaration are never swallowed. -/
theorem global_resync : ∀ (fuel : Nat) (s s' : St) (start : Nat) (skipped : List Token),
    ignoreUntil0 ctx (peek (la ctx .global_dec)) fuel start s = .ok s' skipped →
    s.pos ≤ s'.pos ∧
    (∃ i t, Next ctx.toks s'.pos i ∧ ctx.toks[i]? = some t ∧ isSync t.ty.kind = true) ∧
    (∀ q, s.pos ≤ q → q < s'.pos → ∀ i t, Next ctx.toks q i → ctx.toks[i]? = some t → isSync t.ty.kind = false)
  | 0, s, s', start, skipped, h => by simp [ignoreUntil0] at h
  | fuel + 1, s, s', start, skipped, h => by
    simp only [ignoreUntil0] at h
    cases hp : peek (la ctx .global_dec) s with
    | ok s1 u =>
      simp only [hp, Res.ok.injEq] at h
      obtain ⟨rfl, _⟩ := h
      -- the pattern matched here: `peek` restored the position
      have hs1 : s1 = s := by
        simp only [peek] at hp
        split at hp
        · simp only [Res.ok.injEq] at hp; exact hp.1.symm
        · rename_i hne; cases hla : la ctx .global_dec s <;> simp_all
      subst hs1
      refine ⟨Nat.le_refl _, ?_, by intro q a b; omega⟩
      -- there is a next token and it is a synchronisation token
      have hla : ∃ s2, la ctx .global_dec s1 = .ok s2 () := by
        simp only [peek] at hp
        cases hla : la ctx .global_dec s1 with
        | ok s2 u => exact ⟨s2, rfl⟩
        | err k s2 => simp [hla] at hp
        | panic e => simp [hla] at hp
      obtain ⟨s2, hla⟩ := hla
      exact la_global_ok_next ctx s1 s2 hla
    | panic e => simp [hp] at h
    | err k se =>
      simp only [hp] at h
      cases ht : take1 ctx s with
      | err k2 s2 => simp [ht] at h
      | panic e => simp [ht] at h
      | ok s1 tk1 =>
        simp only [ht] at h
        have hpos : s1.pos = s.pos + 1 := by
          simp only [take1] at ht
          split at ht
          · simp only [Res.ok.injEq] at ht; rw [← ht.1]
          · cases ht
        obtain ⟨g1, g2, g3⟩ := global_resync fuel s1 s' start skipped h
        refine ⟨by omega, g2, ?_⟩
        intro q hq1 hq2 i t hN hti
        by_cases hqs : q = s.pos
        · subst hqs
          -- the pattern failed at `s`
          by_cases hsy : isSync t.ty.kind = true
          · exfalso
            have := (la_global_next ctx s i t hN hti).1 hsy
            simp [peek, this] at hp
          · simpa using hsy
        · exact g3 q (by omega) hq2 i t hN hti

end Spl.ParseConform
