/-
  Look-ahead locality of `Token::lex` (`LexLocal`, used by C07): the token recognised at the start
  of a text is determined by the token's characters plus `Gen.lookAhead` more characters.

  Structure: for every alternative `a` of the lexer's `alt`
    * `det a`  — a success is reproduced on every text that agrees on `n + lookAhead` characters;
    * `fail a` — a failure is reproduced on every text that agrees on `ext a s` characters, the
                 number of characters the alternative examined;
    * `bound`  — whenever `a` fails and some alternative wins with `o`, `ext a s ≤ o.n + lookAhead`.
-/
import SplVerif.Lemmas.IncLex

namespace Spl

/-! ### agreement on a prefix -/

theorem take_le_of_take {s s' : List Char} {N M : Nat} (h : s.take N = s'.take N) (hM : M ≤ N) :
    s.take M = s'.take M := by
  have := congrArg (List.take M) h
  simpa [List.take_take, Nat.min_eq_left hM] using this

theorem take_cons_agree {c : Char} {cs s' : List Char} {N : Nat}
    (h : (c :: cs).take (N + 1) = s'.take (N + 1)) : ∃ cs', s' = c :: cs' ∧ cs.take N = cs'.take N := by
  cases s' with
  | nil => simp at h
  | cons c' cs' =>
    simp only [List.take_succ_cons, List.cons.injEq] at h
    exact ⟨cs', by rw [h.1], h.2⟩

theorem take_nil_agree {s' : List Char} {N : Nat} (h : ([] : List Char).take (N + 1) = s'.take (N + 1)) :
    s' = [] := by
  cases s' with
  | nil => rfl
  | cons c cs => simp at h

theorem takeWhile_local (f : Char → Bool) : ∀ (s s' : List Char),
    s.take ((s.takeWhile f).length + 1) = s'.take ((s.takeWhile f).length + 1) →
    s'.takeWhile f = s.takeWhile f
  | [], s', h => by
    have := take_nil_agree (N := 0) (by simpa using h)
    subst this; rfl
  | c :: cs, s', h => by
    cases hf : f c with
    | false =>
      simp only [List.takeWhile, hf, List.length_nil] at h ⊢
      obtain ⟨cs', e, _⟩ := take_cons_agree (N := 0) h
      subst e
      simp [List.takeWhile, hf]
    | true =>
      simp only [List.takeWhile, hf, List.length_cons] at h ⊢
      obtain ⟨cs', e, h2⟩ := take_cons_agree h
      subst e
      simp only [List.takeWhile, hf]
      rw [takeWhile_local f cs cs' h2]

/-- with the run, the information whether the text ends right after it is reproduced too -/
theorem takeWhile_local_len (f : Char → Bool) (s s' : List Char)
    (h : s.take ((s.takeWhile f).length + 1) = s'.take ((s.takeWhile f).length + 1)) :
    (s.length ≤ (s.takeWhile f).length ↔ s'.length ≤ (s.takeWhile f).length) := by
  have := congrArg List.length h
  simp only [List.length_take] at this
  omega

/-! ### `tag` -/

theorem stripPrefix_some_iff {p s r : List Char} : stripPrefix p s = some r ↔ s = p ++ r := by
  induction p generalizing s with
  | nil => simp [stripPrefix, eq_comm]
  | cons a as ih =>
    cases s with
    | nil => simp [stripPrefix]
    | cons c cs =>
      simp only [stripPrefix, List.cons_append, List.cons.injEq]
      by_cases hac : a = c
      · subst hac; simp [ih]
      · have : (a == c) = false := by simpa using hac
        simp [this, Ne.symm hac]

/-- the number of characters `tag p` examines on `s` before it fails or completes -/
def mismatchExt : List Char → List Char → Nat
  | [], _ => 0
  | _ :: _, [] => 1
  | p :: ps, c :: cs => if p == c then 1 + mismatchExt ps cs else 1

theorem stripPrefix_none_local : ∀ (p s s' : List Char), stripPrefix p s = none →
    s.take (mismatchExt p s) = s'.take (mismatchExt p s) → stripPrefix p s' = none
  | [], s, s', h, _ => by simp [stripPrefix] at h
  | a :: as, [], s', _, h2 => by
    have := take_nil_agree (N := 0) (by simpa [mismatchExt] using h2)
    subst this; rfl
  | a :: as, c :: cs, s', h, h2 => by
    by_cases hac : (a == c) = true
    · simp only [stripPrefix, hac, if_true] at h
      simp only [mismatchExt, hac, if_true, Nat.add_comm 1] at h2
      obtain ⟨cs', e, h3⟩ := take_cons_agree h2
      subst e
      simp only [stripPrefix, hac, if_true]
      exact stripPrefix_none_local as cs cs' h h3
    · have hac' : (a == c) = false := by simpa using hac
      simp only [mismatchExt, hac', Bool.false_eq_true, if_false] at h2
      obtain ⟨cs', e, _⟩ := take_cons_agree (N := 0) h2
      subst e
      simp [stripPrefix, hac']

theorem mismatchExt_le (p s : List Char) : mismatchExt p s ≤ p.length := by
  induction p generalizing s with
  | nil => simp [mismatchExt]
  | cons a as ih =>
    cases s with
    | nil => simp [mismatchExt]
    | cons c cs =>
      simp only [mismatchExt, List.length_cons]
      split
      · have := ih cs; omega
      · omega

theorem stripPrefix_some_local {p s s' r : List Char} (h : stripPrefix p s = some r)
    (h2 : s.take p.length = s'.take p.length) : stripPrefix p s' = some (s'.drop p.length) := by
  rw [stripPrefix_some_iff] at h ⊢
  have : s.take p.length = p := by rw [h]; simp
  rw [this] at h2
  conv => lhs; rw [← List.take_append_drop p.length s']
  rw [← h2]

/-! ### what a failing alternative examined -/

/-- 2 if the text starts with `c0`, else 1 -/
def extFirst (c0 : Char) : List Char → Nat
  | c :: _ => if c = c0 then 2 else 1
  | [] => 1

def extSymbol (k : Kind) (s : List Char) : Nat :=
  match Gen.spelling k with
  | some p => mismatchExt p s
  | none => 0

def extKeyword (k : Kind) (s : List Char) : Nat :=
  match Gen.spelling k with
  | some p => (match stripPrefix p s with
    | some _ => p.length + 1
    | none => mismatchExt p s)
  | none => 0

def ext : AltItem → List Char → Nat
  | .comment, s => extFirst '/' s
  | .symbol k, s => extSymbol k s
  | .keyword k, s => extKeyword k s
  | .char, s => extFirst '\'' s
  | .hex, s => extFirst '0' s
  | .int, _ => 1
  | .ident, _ => 1
  | .unknown, _ => 1

theorem extFirst_eq (c0 c : Char) (cs : List Char) : extFirst c0 (c0 :: cs) = 2 := by simp [extFirst]
theorem extFirst_ne {c0 c : Char} (h : c ≠ c0) (cs : List Char) : extFirst c0 (c :: cs) = 1 := by
  simp [extFirst, h]

theorem fail_comment (s s' : List Char) (h : lexComment s = none)
    (h2 : s.take (ext .comment s) = s'.take (ext .comment s)) : lexComment s' = none := by
  cases s with
  | nil =>
    have := take_nil_agree (N := 0) (by simpa [ext, extFirst] using h2)
    subst this; rfl
  | cons c cs =>
    by_cases hc : c = '/'
    · subst hc
      simp only [ext, extFirst, if_true] at h2
      obtain ⟨cs', e, h3⟩ := take_cons_agree (N := 1) h2
      subst e
      cases cs with
      | nil =>
        have := take_nil_agree (N := 0) h3
        subst this; simp [lexComment]
      | cons d ds =>
        obtain ⟨ds', e, _⟩ := take_cons_agree (N := 0) h3
        subst e
        by_cases hd : d = '/'
        · subst hd; simp [lexComment] at h
          split at h <;> simp at h
        · unfold lexComment
          split
          · rename_i heq; simp [hd] at heq
          · rfl
    · have h2' : (c :: cs).take 1 = s'.take 1 := by
        have : ext .comment (c :: cs) = 1 := extFirst_ne hc cs
        rw [this] at h2; exact h2
      obtain ⟨cs', e, _⟩ := take_cons_agree (N := 0) h2'
      subst e
      unfold lexComment
      split
      · rename_i heq; simp [hc] at heq
      · rfl

theorem fail_symbol (k : Kind) (s s' : List Char) (h : lexSymbol k s = none)
    (h2 : s.take (ext (.symbol k) s) = s'.take (ext (.symbol k) s)) : lexSymbol k s' = none := by
  unfold lexSymbol at h ⊢
  simp only [ext, extSymbol] at h2
  cases hp : Gen.spelling k with
  | none => simp
  | some p =>
    cases hty : k.plain with
    | none => simp
    | some ty =>
      simp only [hp, hty] at h h2 ⊢
      cases hsp : stripPrefix p s with
      | some r => simp [hsp] at h
      | none =>
        have := stripPrefix_none_local p s s' hsp h2
        simp [this]

theorem fail_keyword (k : Kind) (s s' : List Char) (h : lexKeyword k s = none)
    (h2 : s.take (ext (.keyword k) s) = s'.take (ext (.keyword k) s)) : lexKeyword k s' = none := by
  unfold lexKeyword at h ⊢
  simp only [ext, extKeyword] at h2
  cases hp : Gen.spelling k with
  | none => simp
  | some p =>
    cases hty : k.plain with
    | none => simp
    | some ty =>
      simp only [hp, hty] at h h2 ⊢
      cases hsp : stripPrefix p s with
      | none =>
        simp only [hsp] at h2
        have := stripPrefix_none_local p s s' hsp h2
        simp [this]
      | some r =>
        simp only [hsp] at h h2
        have h3 := stripPrefix_some_local hsp (take_le_of_take h2 (by omega))
        rw [h3]
        have hs := stripPrefix_some_iff.mp hsp
        cases r with
        | nil => simp at h
        | cons c r' =>
          have hal : isAlnumTrunc c = true := by simpa using h
          -- the boundary character is reproduced
          have hd : s'.drop p.length = c :: (s'.drop p.length).tail := by
            have e1 : (s.take (p.length + 1)).drop p.length = [c] := by
              have : s.drop p.length = c :: r' := by rw [hs]; simp
              rw [List.drop_take, this]; simp
            rw [h2] at e1
            have : (s'.take (p.length + 1)).drop p.length = (s'.drop p.length).take 1 := by
              rw [List.drop_take]; simp
            rw [this] at e1
            cases hdd : s'.drop p.length with
            | nil => simp [hdd] at e1
            | cons x xs => simp [hdd] at e1; simp [e1]
          rw [hd]
          simp [hal]

theorem fail_char (s s' : List Char) (h : lexChar s = none)
    (h2 : s.take (ext .char s) = s'.take (ext .char s)) : lexChar s' = none := by
  cases s with
  | nil =>
    have := take_nil_agree (N := 0) (by simpa [ext, extFirst] using h2)
    subst this; rfl
  | cons c cs =>
    by_cases hc : c = '\''
    · subst hc
      simp only [ext, extFirst, if_true] at h2
      obtain ⟨cs', e, h3⟩ := take_cons_agree (N := 1) h2
      subst e
      cases cs with
      | nil =>
        have := take_nil_agree (N := 0) h3
        subst this; simp [lexChar]
      | cons d ds =>
        exfalso
        unfold lexChar at h
        split at h
        · split at h <;> simp at h
        · split at h <;> simp at h
        · rename_i h5 h6
          exact h6 d ds rfl
    · have h2' : (c :: cs).take 1 = s'.take 1 := by
        have : ext .char (c :: cs) = 1 := extFirst_ne hc cs
        rw [this] at h2; exact h2
      obtain ⟨cs', e, _⟩ := take_cons_agree (N := 0) h2'
      subst e
      unfold lexChar
      split
      · rename_i heq; simp [hc] at heq
      · rename_i heq; simp [hc] at heq
      · rfl

theorem fail_hex (s s' : List Char) (h : lexHex s = none)
    (h2 : s.take (ext .hex s) = s'.take (ext .hex s)) : lexHex s' = none := by
  cases s with
  | nil =>
    have := take_nil_agree (N := 0) (by simpa [ext, extFirst] using h2)
    subst this; rfl
  | cons c cs =>
    by_cases hc : c = '0'
    · subst hc
      simp only [ext, extFirst, if_true] at h2
      obtain ⟨cs', e, h3⟩ := take_cons_agree (N := 1) h2
      subst e
      cases cs with
      | nil =>
        have := take_nil_agree (N := 0) h3
        subst this; simp [lexHex]
      | cons d ds =>
        obtain ⟨ds', e, _⟩ := take_cons_agree (N := 0) h3
        subst e
        by_cases hd : d = 'x'
        · subst hd
          unfold lexHex at h
          simp only at h
          split at h
          · simp at h
          · split at h <;> simp at h
        · unfold lexHex
          split
          · rename_i heq; simp [hd] at heq
          · rfl
    · have h2' : (c :: cs).take 1 = s'.take 1 := by
        have : ext .hex (c :: cs) = 1 := extFirst_ne hc cs
        rw [this] at h2; exact h2
      obtain ⟨cs', e, _⟩ := take_cons_agree (N := 0) h2'
      subst e
      unfold lexHex
      split
      · rename_i heq; simp [hc] at heq
      · rfl

theorem fail_int (s s' : List Char) (h : lexInt s = none)
    (h2 : s.take 1 = s'.take 1) : lexInt s' = none := by
  unfold lexInt at h ⊢
  simp only at h ⊢
  split at h
  · rename_i hemp
    have hemp' : s.takeWhile isDigit = [] := by simpa using hemp
    have := takeWhile_local isDigit s s' (by rw [hemp']; simpa using h2)
    rw [this, hemp']; simp
  · split at h <;> simp at h

theorem fail_ident (s s' : List Char) (h : lexIdent s = none)
    (h2 : s.take 1 = s'.take 1) : lexIdent s' = none := by
  cases s with
  | nil =>
    have := take_nil_agree (N := 0) h2
    subst this; rfl
  | cons c cs =>
    obtain ⟨cs', e, _⟩ := take_cons_agree (N := 0) h2
    subst e
    unfold lexIdent at h ⊢
    simp only at h ⊢
    split at h
    · simp at h
    · rename_i hc; simp [hc]

theorem fail_unknown (s s' : List Char) (h : lexUnknown s = none)
    (h2 : s.take 1 = s'.take 1) : lexUnknown s' = none := by
  cases s with
  | nil =>
    have := take_nil_agree (N := 0) h2
    subst this; rfl
  | cons c cs => simp [lexUnknown] at h

theorem fail_item (a : AltItem) (s s' : List Char) (h : lexItem a s = none)
    (h2 : s.take (ext a s) = s'.take (ext a s)) : lexItem a s' = none := by
  cases a with
  | comment => exact fail_comment s s' h h2
  | symbol k => exact fail_symbol k s s' h h2
  | keyword k => exact fail_keyword k s s' h h2
  | char => exact fail_char s s' h h2
  | hex => exact fail_hex s s' h h2
  | int => exact fail_int s s' h h2
  | ident => exact fail_ident s s' h h2
  | unknown => exact fail_unknown s s' h h2

/-! ### a success is reproduced -/

theorem dropWhile_nil_iff {α} (f : α → Bool) (l : List α) :
    l.dropWhile f = [] ↔ l.length ≤ (l.takeWhile f).length := by
  have h := congrArg List.length (List.takeWhile_append_dropWhile (p := f) (l := l))
  rw [List.length_append] at h
  constructor
  · intro hd; rw [hd] at h; simp at h; omega
  · intro hl
    have : (l.dropWhile f).length = 0 := by omega
    exact List.length_eq_zero_iff.mp this

theorem lexComment_cons (rest : List Char) :
    lexComment ('/' :: '/' :: rest) =
      match rest.dropWhile (· != '\n') with
      | [] => some { ty := .Comment (rest.takeWhile (· != '\n')), n := 2 + (rest.takeWhile (· != '\n')).length }
      | _ :: _ => some { ty := .Comment (rest.takeWhile (· != '\n')), n := 2 + (rest.takeWhile (· != '\n')).length + 1 } := by
  rfl

theorem det_comment (s s' : List Char) (o : LexOut) (h : lexComment s = some o)
    (h2 : s.take (o.n + 1) = s'.take (o.n + 1)) : lexComment s' = some o := by
  unfold lexComment at h
  split at h
  · rename_i rest
    have hn : 2 + (rest.takeWhile (· != '\n')).length ≤ o.n := by
      dsimp only at h
      split at h <;> cases h <;> dsimp only <;> omega
    obtain ⟨m, hm⟩ : ∃ m, o.n = 2 + (rest.takeWhile (· != '\n')).length + m :=
      ⟨o.n - (2 + (rest.takeWhile (· != '\n')).length), by omega⟩
    have h2' : ('/' :: '/' :: rest).take (((rest.takeWhile (· != '\n')).length + 1 + m) + 1 + 1) =
        s'.take (((rest.takeWhile (· != '\n')).length + 1 + m) + 1 + 1) := by
      have : o.n + 1 = ((rest.takeWhile (· != '\n')).length + 1 + m) + 1 + 1 := by omega
      rw [← this]; exact h2
    obtain ⟨t1, e1, h3⟩ := take_cons_agree h2'
    obtain ⟨rest', e2, h4⟩ := take_cons_agree h3
    subst e1 e2
    have h5 := take_le_of_take h4 (M := (rest.takeWhile (· != '\n')).length + 1) (by omega)
    have hb := takeWhile_local (· != '\n') rest rest' h5
    have hlen := takeWhile_local_len (· != '\n') rest rest' h5
    rw [lexComment_cons]
    dsimp only at h
    rw [hb]
    split at h
    · rename_i hafter
      have : rest'.dropWhile (· != '\n') = [] := by
        rw [dropWhile_nil_iff, hb]
        exact hlen.mp ((dropWhile_nil_iff _ _).mp hafter)
      rw [this]; exact h
    · rename_i x xs hafter
      have hne : rest'.dropWhile (· != '\n') ≠ [] := by
        intro hnil
        rw [dropWhile_nil_iff, hb] at hnil
        have := (dropWhile_nil_iff _ _).mpr (hlen.mpr hnil)
        rw [hafter] at this; cases this
      cases hd : rest'.dropWhile (· != '\n') with
      | nil => exact absurd hd hne
      | cons y ys => exact h
  · simp at h

theorem det_symbol (k : Kind) (s s' : List Char) (o : LexOut) (h : lexSymbol k s = some o)
    (h2 : s.take o.n = s'.take o.n) : lexSymbol k s' = some o := by
  unfold lexSymbol at h ⊢
  cases hp : Gen.spelling k with
  | none => simp [hp] at h
  | some p =>
    cases hty : k.plain with
    | none => simp [hp, hty] at h
    | some ty =>
      simp only [hp, hty] at h ⊢
      cases hsp : stripPrefix p s with
      | none => simp [hsp] at h
      | some r =>
        simp only [hsp, Option.some.injEq] at h
        subst h
        rw [stripPrefix_some_local hsp h2]

theorem det_keyword (k : Kind) (s s' : List Char) (o : LexOut) (h : lexKeyword k s = some o)
    (h2 : s.take (o.n + 1) = s'.take (o.n + 1)) : lexKeyword k s' = some o := by
  unfold lexKeyword at h ⊢
  cases hp : Gen.spelling k with
  | none => simp [hp] at h
  | some p =>
    cases hty : k.plain with
    | none => simp [hp, hty] at h
    | some ty =>
      simp only [hp, hty] at h ⊢
      cases hsp : stripPrefix p s with
      | none => simp [hsp] at h
      | some r =>
        simp only [hsp] at h
        have hs := stripPrefix_some_iff.mp hsp
        have hon : o.n = p.length := by
          cases r with
          | nil => simp at h; rw [← h]
          | cons c r' =>
            simp only at h
            split at h
            · simp at h
            · simp at h; rw [← h]
        rw [hon] at h2
        rw [stripPrefix_some_local hsp (take_le_of_take h2 (by omega))]
        -- the boundary (one character or the end of the text) is reproduced
        have hdrop : (s'.drop p.length).take 1 = r.take 1 := by
          have e1 : (s.take (p.length + 1)).drop p.length = r.take 1 := by
            have : s.drop p.length = r := by rw [hs]; simp
            rw [List.drop_take, this]; simp
          rw [h2, List.drop_take] at e1
          simpa using e1
        cases r with
        | nil =>
          have : s'.drop p.length = [] := by
            cases hd : s'.drop p.length with
            | nil => rfl
            | cons x xs => simp [hd] at hdrop
          rw [this]; exact h
        | cons c r' =>
          cases hd : s'.drop p.length with
          | nil => simp [hd] at hdrop
          | cons x xs =>
            simp [hd] at hdrop
            subst hdrop
            exact h

theorem head_of_take1 {r r' : List Char} (h : r.take 1 = r'.take 1) : r.head? = r'.head? := by
  cases r <;> cases r' <;> simp_all

def charEscOut (rest : List Char) : Option LexOut :=
  match rest with
  | '\'' :: _ => some { ty := .Char '\n', n := 4 }
  | _ => some { ty := .Char '\n', n := 3, errs := [⟨⟨3, 3⟩, .MissingClosingTick⟩] }

def charPlainOut (c : Char) (rest : List Char) : Option LexOut :=
  match rest with
  | '\'' :: _ => some { ty := .Char c, n := 3 }
  | _ => some { ty := .Char c, n := 2,
                errs := [⟨⟨1 + c.utf8Size, 1 + c.utf8Size⟩, .MissingClosingTick⟩] }

theorem lexChar_esc (rest : List Char) :
    lexChar ('\'' :: '\\' :: 'n' :: rest) = charEscOut rest := by
  rfl

theorem lexChar_plain (c : Char) (rest : List Char)
    (hnesc : ∀ r, c = '\\' → rest = 'n' :: r → False) :
    lexChar ('\'' :: c :: rest) = charPlainOut c rest := by
  unfold lexChar
  split
  · rename_i rest' heq
    simp only [List.cons.injEq, true_and] at heq
    exact absurd heq.2 (fun h => hnesc rest' heq.1 h)
  · rename_i c' rest' _ heq
    simp only [List.cons.injEq, true_and] at heq
    obtain ⟨hc, hr⟩ := heq
    subst hc hr
    rfl
  · rename_i hne
    exact absurd rfl (hne _ _)

theorem det_char (s s' : List Char) (o : LexOut) (h : lexChar s = some o)
    (h2 : s.take (o.n + 1) = s'.take (o.n + 1)) : lexChar s' = some o := by
  unfold lexChar at h
  split at h
  · -- escape
    rename_i rest
    split at h
    · rename_i r
      cases h
      obtain ⟨t1, e1, h3⟩ := take_cons_agree (N := 4) h2
      obtain ⟨t2, e2, h4⟩ := take_cons_agree (N := 3) h3
      obtain ⟨t3, e3, h5⟩ := take_cons_agree (N := 2) h4
      obtain ⟨t4, e4, _⟩ := take_cons_agree (N := 1) h5
      subst e1 e2 e3 e4
      rfl
    · rename_i hnot
      cases h
      obtain ⟨t1, e1, h3⟩ := take_cons_agree (N := 3) h2
      obtain ⟨t2, e2, h4⟩ := take_cons_agree (N := 2) h3
      obtain ⟨t3, e3, h5⟩ := take_cons_agree (N := 1) h4
      subst e1 e2 e3
      have hh := head_of_take1 h5
      rw [lexChar_esc]
      unfold charEscOut
      split
      · rename_i r'
        exfalso
        cases rest with
        | nil => simp at hh
        | cons x xs =>
          simp at hh
          exact hnot xs (by rw [hh])
      · rfl
  · -- plain character
    rename_i c rest hnesc
    split at h
    · rename_i r
      cases h
      obtain ⟨t1, e1, h3⟩ := take_cons_agree (N := 3) h2
      obtain ⟨t2, e2, h4⟩ := take_cons_agree (N := 2) h3
      obtain ⟨t3, e3, _⟩ := take_cons_agree (N := 1) h4
      subst e1 e2 e3
      rw [lexChar_plain c _ (by intro r _ hr; simp at hr)]
      rfl
    · rename_i hnot
      cases h
      obtain ⟨t1, e1, h3⟩ := take_cons_agree (N := 2) h2
      obtain ⟨t2, e2, h4⟩ := take_cons_agree (N := 1) h3
      subst e1 e2
      have hh := head_of_take1 h4
      rw [lexChar_plain c t2 (by
        intro r hc hr
        subst hr
        cases rest with
        | nil => simp at hh
        | cons x xs =>
          simp at hh
          exact hnesc xs hc (by rw [hh]))]
      unfold charPlainOut
      split
      · rename_i r'
        exfalso
        cases rest with
        | nil => simp at hh
        | cons x xs =>
          simp at hh
          exact hnot xs (by rw [hh])
      · rfl
  · simp at h

def hexOut (ds : List Char) : Option LexOut :=
  if ds.isEmpty then
    some { ty := .Hex (.Err []), n := 2, errs := [⟨⟨2, 2⟩, .ExpectedHexNumber⟩] }
  else
    if numVal 16 ds ≤ u32Max then some { ty := .Hex (.Int (numVal 16 ds)), n := 2 + ds.length }
    else some { ty := .Hex (.Err ds), n := 2 + ds.length,
                errs := [⟨⟨2, 2 + ds.length⟩, .InvalidIntLit ('0' :: 'x' :: ds)⟩] }

theorem lexHex_cons (rest : List Char) :
    lexHex ('0' :: 'x' :: rest) = hexOut (rest.takeWhile isHexDigit) := by
  rfl

theorem hexOut_n {ds : List Char} {o : LexOut} (h : hexOut ds = some o) : o.n = 2 + ds.length := by
  unfold hexOut at h
  split at h
  · rename_i he
    cases h
    have : ds = [] := by simpa using he
    simp [this]
  · split at h <;> cases h <;> rfl

theorem det_hex (s s' : List Char) (o : LexOut) (h : lexHex s = some o)
    (h2 : s.take (o.n + 1) = s'.take (o.n + 1)) : lexHex s' = some o := by
  unfold lexHex at h
  split at h
  · rename_i rest
    have h' : hexOut (rest.takeWhile isHexDigit) = some o := h
    have hn := hexOut_n h'
    rw [hn] at h2
    have h2' : ('0' :: 'x' :: rest).take (((rest.takeWhile isHexDigit).length + 1) + 1 + 1) =
        s'.take (((rest.takeWhile isHexDigit).length + 1) + 1 + 1) := by
      have : 2 + (rest.takeWhile isHexDigit).length + 1 = ((rest.takeWhile isHexDigit).length + 1) + 1 + 1 := by omega
      rw [← this]; exact h2
    obtain ⟨t1, e1, h3⟩ := take_cons_agree h2'
    obtain ⟨rest', e2, h4⟩ := take_cons_agree h3
    subst e1 e2
    rw [lexHex_cons, takeWhile_local isHexDigit rest rest' h4]
    exact h'
  · simp at h

theorem det_int (s s' : List Char) (o : LexOut) (h : lexInt s = some o)
    (h2 : s.take (o.n + 1) = s'.take (o.n + 1)) : lexInt s' = some o := by
  have hn : o.n = (s.takeWhile isDigit).length := by
    unfold lexInt at h
    simp only at h
    split at h
    · simp at h
    · split at h <;> cases h <;> rfl
  rw [hn] at h2
  have := takeWhile_local isDigit s s' h2
  unfold lexInt at h ⊢
  simp only at h ⊢
  rw [this]
  exact h

theorem det_ident (s s' : List Char) (o : LexOut) (h : lexIdent s = some o)
    (h2 : s.take (o.n + 1) = s'.take (o.n + 1)) : lexIdent s' = some o := by
  cases s with
  | nil => simp [lexIdent] at h
  | cons c rest =>
    unfold lexIdent at h
    simp only at h
    split at h
    · rename_i hc
      cases h
      simp only at h2
      have h2' : (c :: rest).take (((rest.takeWhile isAlnumTrunc).length + 1) + 1) =
          s'.take (((rest.takeWhile isAlnumTrunc).length + 1) + 1) := by
        have : 1 + (rest.takeWhile isAlnumTrunc).length + 1 = ((rest.takeWhile isAlnumTrunc).length + 1) + 1 := by omega
        rw [← this]; exact h2
      obtain ⟨rest', e, h3⟩ := take_cons_agree h2'
      subst e
      unfold lexIdent
      simp only [hc, if_true]
      rw [takeWhile_local isAlnumTrunc rest rest' h3]
    · simp at h

theorem det_unknown (s s' : List Char) (o : LexOut) (h : lexUnknown s = some o)
    (h2 : s.take (o.n + 1) = s'.take (o.n + 1)) : lexUnknown s' = some o := by
  cases s with
  | nil => simp [lexUnknown] at h
  | cons c rest =>
    simp only [lexUnknown, Option.some.injEq] at h
    subst h
    obtain ⟨rest', e, _⟩ := take_cons_agree (N := 1) h2
    subst e
    rfl

/-! ### combination over the alternatives -/

/-- table condition: a keyword alternative yields a kind with look-ahead 1 -/
def altLaOK : AltItem → Bool
  | .keyword k => match k.plain with
    | some ty => Gen.lookAhead ty.kind == 1
    | none => true
  | _ => true

theorem altLaOK_all : Gen.altOrder.all altLaOK = true := by decide

theorem kind_comment {s o} (h : lexComment s = some o) : o.ty.kind = .Comment := by
  unfold lexComment at h
  split at h
  · dsimp only at h; split at h <;> cases h <;> rfl
  · simp at h

theorem kind_char {s o} (h : lexChar s = some o) : o.ty.kind = .Char := by
  unfold lexChar at h
  split at h
  · split at h <;> cases h <;> rfl
  · split at h <;> cases h <;> rfl
  · simp at h

theorem kind_hex {s o} (h : lexHex s = some o) : o.ty.kind = .Hex := by
  unfold lexHex at h
  split at h
  · simp only at h
    split at h
    · cases h; rfl
    · split at h <;> cases h <;> rfl
  · simp at h

theorem kind_int {s o} (h : lexInt s = some o) : o.ty.kind = .Int := by
  unfold lexInt at h
  simp only at h
  split at h
  · simp at h
  · split at h <;> cases h <;> rfl

theorem kind_ident {s o} (h : lexIdent s = some o) : o.ty.kind = .Ident := by
  cases s with
  | nil => simp [lexIdent] at h
  | cons c rest =>
    unfold lexIdent at h
    simp only at h
    split at h
    · cases h; rfl
    · simp at h

theorem kind_unknown {s o} (h : lexUnknown s = some o) : o.ty.kind = .Unknown := by
  cases s with
  | nil => simp [lexUnknown] at h
  | cons c rest => simp only [lexUnknown, Option.some.injEq] at h; subst h; rfl

theorem det_item (a : AltItem) (ha : altLaOK a = true) (s s' : List Char) (o : LexOut)
    (h : lexItem a s = some o)
    (h2 : s.take (o.n + Gen.lookAhead o.ty.kind) = s'.take (o.n + Gen.lookAhead o.ty.kind)) :
    lexItem a s' = some o := by
  cases a with
  | comment =>
    have hk := kind_comment h
    rw [hk] at h2
    exact det_comment s s' o h h2
  | symbol k => exact det_symbol k s s' o h (take_le_of_take h2 (by omega))
  | keyword k =>
    have hla : Gen.lookAhead o.ty.kind = 1 := by
      simp only [lexItem, lexKeyword] at h
      simp only [altLaOK] at ha
      cases hp : Gen.spelling k with
      | none => simp [hp] at h
      | some p =>
        cases hty : k.plain with
        | none => simp [hp, hty] at h
        | some ty =>
          simp only [hp, hty] at h ha
          have : o.ty = ty := by
            split at h
            · cases h; rfl
            · split at h
              · simp at h
              · cases h; rfl
            · simp at h
          rw [this]; simpa using ha
    rw [hla] at h2
    exact det_keyword k s s' o h h2
  | char =>
    have hk := kind_char h
    rw [hk] at h2
    exact det_char s s' o h h2
  | hex =>
    have hk := kind_hex h
    rw [hk] at h2
    exact det_hex s s' o h h2
  | int =>
    have hk := kind_int h
    rw [hk] at h2
    exact det_int s s' o h h2
  | ident =>
    have hk := kind_ident h
    rw [hk] at h2
    exact det_ident s s' o h h2
  | unknown =>
    have hk := kind_unknown h
    rw [hk] at h2
    have h1 : Gen.lookAhead Kind.Unknown = 1 := by decide
    rw [h1] at h2
    exact det_unknown s s' o h h2

theorem local_firstMatch (s s' : List Char) (o : LexOut) :
    ∀ (as : List AltItem), as.all altLaOK = true → firstMatch as s = some o →
      s.take (o.n + Gen.lookAhead o.ty.kind) = s'.take (o.n + Gen.lookAhead o.ty.kind) →
      (∀ a ∈ as, lexItem a s = none → ext a s ≤ o.n + Gen.lookAhead o.ty.kind) →
      firstMatch as s' = some o
  | [], _, h, _, _ => by simp [firstMatch] at h
  | a :: as, hall, h, h2, hb => by
    simp only [List.all_cons, Bool.and_eq_true] at hall
    simp only [firstMatch] at h ⊢
    cases ha : lexItem a s with
    | some o1 =>
      simp only [ha, Option.some.injEq] at h
      subst h
      rw [det_item a hall.1 s s' o1 ha h2]
    | none =>
      simp only [ha] at h
      have hf := fail_item a s s' ha (take_le_of_take h2 (hb a (by simp) ha))
      rw [hf]
      exact local_firstMatch s s' o as hall.2 h h2 (fun b hb' => hb b (by simp [hb']))

/-! ### the bound: what a failing alternative examined lies within the winner's look-ahead -/

theorem mismatchExt_le_run (f : Char → Bool) : ∀ (p s : List Char), (∀ x ∈ p, f x = true) →
    mismatchExt p s ≤ (s.takeWhile f).length + 1
  | [], _, _ => by simp [mismatchExt]
  | _ :: _, [], _ => by simp [mismatchExt]
  | a :: as, c :: cs, hp => by
    simp only [mismatchExt]
    split
    · rename_i hac
      have hac' : a = c := by simpa using hac
      have hfc : f c = true := by rw [← hac']; exact hp a (by simp)
      have := mismatchExt_le_run f as cs (fun x hx => hp x (by simp [hx]))
      simp only [List.takeWhile, hfc, List.length_cons]
      omega
    · omega

theorem prefix_le_run (f : Char → Bool) {p s r : List Char} (h : stripPrefix p s = some r)
    (hp : ∀ x ∈ p, f x = true) : p.length ≤ (s.takeWhile f).length := by
  rw [stripPrefix_some_iff] at h
  subst h
  induction p with
  | nil => simp
  | cons a as ih =>
    have hfa := hp a (by simp)
    simp only [List.cons_append, List.takeWhile, hfa, List.length_cons]
    have := ih (fun x hx => hp x (by simp [hx]))
    omega

theorem extKeyword_le_run (k : Kind) (p0 : Char) (ps rest : List Char)
    (hsp : Gen.spelling k = some (p0 :: ps)) (hps : ∀ x ∈ ps, isAlnumTrunc x = true) :
    extKeyword k (p0 :: rest) ≤ (rest.takeWhile isAlnumTrunc).length + 2 := by
  simp only [extKeyword, hsp, stripPrefix, mismatchExt, beq_self_eq_true, if_true, List.length_cons]
  cases h : stripPrefix ps rest with
  | some r =>
    have := prefix_le_run isAlnumTrunc h hps
    simp only; omega
  | none =>
    have := mismatchExt_le_run isAlnumTrunc ps rest hps
    simp only; omega

set_option maxRecDepth 4000

macro "eval_sym" : tactic => `(tactic|
  simp [lexOne, Gen.altOrder, firstMatch, lexItem, lexComment, lexSymbol, lexKeyword, Gen.spelling, Kind.plain,
    stripPrefix])

/-- the alternatives after the fixed spellings -/
def tailAlts : List AltItem := [.char, .hex, .int, .ident, .unknown]

theorem lexChar_ne {c : Char} {rest : List Char} (h : c ≠ '\'') : lexChar (c :: rest) = none := by
  unfold lexChar
  split
  · rename_i heq; simp [h] at heq
  · rename_i heq; simp [h] at heq
  · rfl

theorem lexHex_ne {c : Char} {rest : List Char} (h : c ≠ '0') : lexHex (c :: rest) = none := by
  unfold lexHex
  split
  · rename_i heq; simp [h] at heq
  · rfl

theorem lexInt_ne {c : Char} {rest : List Char} (h : isDigit c = false) : lexInt (c :: rest) = none := by
  simp [lexInt, List.takeWhile, h]

theorem lexInt_digit {c : Char} {rest : List Char} (h : isDigit c = true) :
    ∃ o, lexInt (c :: rest) = some o := by
  simp only [lexInt, List.takeWhile, h]
  simp only [List.isEmpty_cons, Bool.false_eq_true, if_false]
  split <;> exact ⟨_, rfl⟩

theorem tail_alpha {c : Char} {rest : List Char} (h1 : c ≠ '\'') (h2 : c ≠ '0') (h3 : isDigit c = false)
    (h4 : (isAlpha c || c == '_') = true) :
    firstMatch tailAlts (c :: rest) =
      some { ty := .Ident (c :: rest.takeWhile isAlnumTrunc), n := 1 + (rest.takeWhile isAlnumTrunc).length } := by
  simp only [tailAlts, firstMatch, lexItem, lexChar_ne h1, lexHex_ne h2, lexInt_ne h3, lexIdent, h4, if_true]

/-- a failing keyword alternative that matched its first letter: the identifier wins and covers
    everything the keyword examined -/
theorem bound_keyword (k : Kind) (p0 : Char) (ps rest : List Char) (o : LexOut)
    (hsp : Gen.spelling k = some (p0 :: ps)) (hps : ∀ x ∈ ps, isAlnumTrunc x = true)
    (heval : lexOne (p0 :: rest) = firstMatch (.keyword k :: tailAlts) (p0 :: rest))
    (h1 : p0 ≠ '\'') (h2 : p0 ≠ '0') (h3 : isDigit p0 = false) (h4 : (isAlpha p0 || p0 == '_') = true)
    (h : lexOne (p0 :: rest) = some o) (hf : lexKeyword k (p0 :: rest) = none) :
    extKeyword k (p0 :: rest) ≤ o.n + Gen.lookAhead o.ty.kind := by
  rw [heval] at h
  simp only [firstMatch, lexItem, hf] at h
  rw [tail_alpha h1 h2 h3 h4] at h
  cases h
  have := extKeyword_le_run k p0 ps rest hsp hps
  show extKeyword k (p0 :: rest) ≤ 1 + (rest.takeWhile isAlnumTrunc).length + 1
  omega

theorem extSymbol_le (k : Kind) (p s : List Char) (hsp : Gen.spelling k = some p) :
    extSymbol k s ≤ p.length := by
  simp only [extSymbol, hsp]; exact mismatchExt_le p s

/-- a failing two-character symbol whose first character matched: the one-character symbol
    wins, and it has look-ahead 1 -/
theorem bound_sym2 (k k1 : Kind) (p0 p1 : Char) (ty1 : TokenType) (rest : List Char) (o : LexOut)
    (hsp : Gen.spelling k = some [p0, p1])
    (heval : lexOne (p0 :: rest) = firstMatch [.symbol k, .symbol k1] (p0 :: rest))
    (hsp1 : Gen.spelling k1 = some [p0]) (hpl : k1.plain = some ty1) (hla : Gen.lookAhead ty1.kind = 1)
    (h : lexOne (p0 :: rest) = some o) (hf : lexSymbol k (p0 :: rest) = none) :
    extSymbol k (p0 :: rest) ≤ o.n + Gen.lookAhead o.ty.kind := by
  rw [heval] at h
  simp only [firstMatch, lexItem] at h
  rw [hf] at h
  simp only [lexSymbol, hsp1, hpl, stripPrefix, beq_self_eq_true, if_true] at h
  cases h
  have := extSymbol_le k [p0, p1] (p0 :: rest) hsp
  simp only [List.length_cons, List.length_nil] at this
  show extSymbol k (p0 :: rest) ≤ 1 + Gen.lookAhead ty1.kind
  omega

theorem lexOne_i (rest : List Char) :
    lexOne ('i' :: rest) = firstMatch (.keyword .If :: tailAlts) ('i' :: rest) := by
  unfold tailAlts; eval_sym
theorem lexOne_e (rest : List Char) :
    lexOne ('e' :: rest) = firstMatch (.keyword .Else :: tailAlts) ('e' :: rest) := by
  unfold tailAlts; eval_sym
theorem lexOne_w (rest : List Char) :
    lexOne ('w' :: rest) = firstMatch (.keyword .While :: tailAlts) ('w' :: rest) := by
  unfold tailAlts; eval_sym
theorem lexOne_a (rest : List Char) :
    lexOne ('a' :: rest) = firstMatch (.keyword .Array :: tailAlts) ('a' :: rest) := by
  unfold tailAlts; eval_sym
theorem lexOne_o (rest : List Char) :
    lexOne ('o' :: rest) = firstMatch (.keyword .Of :: tailAlts) ('o' :: rest) := by
  unfold tailAlts; eval_sym
theorem lexOne_p (rest : List Char) :
    lexOne ('p' :: rest) = firstMatch (.keyword .Proc :: tailAlts) ('p' :: rest) := by
  unfold tailAlts; eval_sym
theorem lexOne_r (rest : List Char) :
    lexOne ('r' :: rest) = firstMatch (.keyword .Ref :: tailAlts) ('r' :: rest) := by
  unfold tailAlts; eval_sym
theorem lexOne_t (rest : List Char) :
    lexOne ('t' :: rest) = firstMatch (.keyword .Type :: tailAlts) ('t' :: rest) := by
  unfold tailAlts; eval_sym
theorem lexOne_v (rest : List Char) :
    lexOne ('v' :: rest) = firstMatch (.keyword .Var :: tailAlts) ('v' :: rest) := by
  unfold tailAlts; eval_sym
theorem lexOne_lt (rest : List Char) :
    lexOne ('<' :: rest) = firstMatch [.symbol .Le, .symbol .Lt] ('<' :: rest) := by eval_sym
theorem lexOne_gt (rest : List Char) :
    lexOne ('>' :: rest) = firstMatch [.symbol .Ge, .symbol .Gt] ('>' :: rest) := by eval_sym
theorem lexOne_colon (rest : List Char) :
    lexOne (':' :: rest) = firstMatch [.symbol .Assign, .symbol .Colon] (':' :: rest) := by eval_sym
theorem lexOne_slash (rest : List Char) :
    lexOne ('/' :: rest) = firstMatch [.comment, .symbol .Divide] ('/' :: rest) := by eval_sym
theorem lexOne_zero (rest : List Char) :
    lexOne ('0' :: rest) = firstMatch tailAlts ('0' :: rest) := by unfold tailAlts; eval_sym
theorem lexOne_tick (rest : List Char) :
    lexOne ('\'' :: rest) = firstMatch tailAlts ('\'' :: rest) := by unfold tailAlts; eval_sym

theorem mismatchExt_first_ne {p0 c : Char} {ps rest : List Char} (h : ¬ mismatchExt (p0 :: ps) (c :: rest) ≤ 1) :
    c = p0 := by
  simp only [mismatchExt] at h
  split at h
  · rename_i hc; exact (eq_of_beq hc).symm
  · omega

theorem take_len_add (pre rest : List Char) (k : Nat) :
    (pre ++ rest).take (pre.length + k) = pre ++ rest.take k := by
  induction pre with
  | nil => simp
  | cons x xs ih =>
    simp only [List.cons_append, List.length_cons]
    rw [show xs.length + 1 + k = (xs.length + k) + 1 by omega, List.take_succ_cons, ih]

/-- **Bound**: whatever a failing alternative examined lies within the winner's characters plus
    its look-ahead. -/
theorem bound (s : List Char) (o : LexOut) (h : lexOne s = some o) :
    ∀ a ∈ Gen.altOrder, lexItem a s = none → ext a s ≤ o.n + Gen.lookAhead o.ty.kind := by
  intro a ha hf
  have hpos := (lexOne_ok h).pos
  by_cases hle : ext a s ≤ 1
  · omega
  cases s with
  | nil => have := (lexOne_ok h).le; simp at this; omega
  | cons c rest =>
  simp only [Gen.altOrder, List.mem_cons, List.not_mem_nil, or_false] at ha
  rcases ha with rfl | rfl | rfl | rfl | rfl | rfl | rfl | rfl | rfl | rfl | rfl | rfl | rfl | rfl | rfl | rfl | rfl | rfl | rfl | rfl | rfl | rfl | rfl | rfl | rfl | rfl | rfl | rfl | rfl | rfl | rfl | rfl | rfl | rfl | rfl
  · -- comment: the text starts with '/', Divide wins (look-ahead 1)
    have hc : c = '/' := by
      apply Classical.byContradiction; intro hne
      exact hle (by simp [ext, extFirst, hne])
    subst hc
    rw [lexOne_slash] at h
    simp only [firstMatch, lexItem] at h
    rw [show lexComment ('/' :: rest) = none from hf] at h
    simp only [lexSymbol, Gen.spelling, Kind.plain, stripPrefix, beq_self_eq_true, if_true] at h
    cases h
    simp [ext, extFirst]; decide
  · exact absurd (extSymbol_le .LParen _ (c :: rest) rfl) (by simpa [ext] using hle)
  · exact absurd (extSymbol_le .RParen _ (c :: rest) rfl) (by simpa [ext] using hle)
  · exact absurd (extSymbol_le .LBracket _ (c :: rest) rfl) (by simpa [ext] using hle)
  · exact absurd (extSymbol_le .RBracket _ (c :: rest) rfl) (by simpa [ext] using hle)
  · exact absurd (extSymbol_le .LCurly _ (c :: rest) rfl) (by simpa [ext] using hle)
  · exact absurd (extSymbol_le .RCurly _ (c :: rest) rfl) (by simpa [ext] using hle)
  · exact absurd (extSymbol_le .Eq _ (c :: rest) rfl) (by simpa [ext] using hle)
  · exact absurd (extSymbol_le .Neq _ (c :: rest) rfl) (by simpa [ext] using hle)
  · have hc : c = _ := mismatchExt_first_ne (p0 := _) (ps := _) (by simpa [ext, extSymbol, Gen.spelling] using hle)
    subst hc
    exact bound_sym2 .Le .Lt _ _ _ rest o rfl (lexOne_lt rest) rfl rfl (by decide) h hf
  · exact absurd (extSymbol_le .Lt _ (c :: rest) rfl) (by simpa [ext] using hle)
  · have hc : c = _ := mismatchExt_first_ne (p0 := _) (ps := _) (by simpa [ext, extSymbol, Gen.spelling] using hle)
    subst hc
    exact bound_sym2 .Ge .Gt _ _ _ rest o rfl (lexOne_gt rest) rfl rfl (by decide) h hf
  · exact absurd (extSymbol_le .Gt _ (c :: rest) rfl) (by simpa [ext] using hle)
  · have hc : c = _ := mismatchExt_first_ne (p0 := _) (ps := _) (by simpa [ext, extSymbol, Gen.spelling] using hle)
    subst hc
    exact bound_sym2 .Assign .Colon _ _ _ rest o rfl (lexOne_colon rest) rfl rfl (by decide) h hf
  · exact absurd (extSymbol_le .Colon _ (c :: rest) rfl) (by simpa [ext] using hle)
  · exact absurd (extSymbol_le .Comma _ (c :: rest) rfl) (by simpa [ext] using hle)
  · exact absurd (extSymbol_le .Semic _ (c :: rest) rfl) (by simpa [ext] using hle)
  · exact absurd (extSymbol_le .Plus _ (c :: rest) rfl) (by simpa [ext] using hle)
  · exact absurd (extSymbol_le .Minus _ (c :: rest) rfl) (by simpa [ext] using hle)
  · exact absurd (extSymbol_le .Times _ (c :: rest) rfl) (by simpa [ext] using hle)
  · exact absurd (extSymbol_le .Divide _ (c :: rest) rfl) (by simpa [ext] using hle)
  · have hc : c = 'i' := by
      apply Classical.byContradiction; intro hne
      apply hle
      have : ('i' == c) = false := by simpa using Ne.symm hne
      simp [ext, extKeyword, Gen.spelling, stripPrefix, mismatchExt, this]
    subst hc
    exact bound_keyword .If _ _ rest o rfl (by decide) (lexOne_i rest) (by decide) (by decide) (by decide) (by decide) h hf
  · have hc : c = 'e' := by
      apply Classical.byContradiction; intro hne
      apply hle
      have : ('e' == c) = false := by simpa using Ne.symm hne
      simp [ext, extKeyword, Gen.spelling, stripPrefix, mismatchExt, this]
    subst hc
    exact bound_keyword .Else _ _ rest o rfl (by decide) (lexOne_e rest) (by decide) (by decide) (by decide) (by decide) h hf
  · have hc : c = 'w' := by
      apply Classical.byContradiction; intro hne
      apply hle
      have : ('w' == c) = false := by simpa using Ne.symm hne
      simp [ext, extKeyword, Gen.spelling, stripPrefix, mismatchExt, this]
    subst hc
    exact bound_keyword .While _ _ rest o rfl (by decide) (lexOne_w rest) (by decide) (by decide) (by decide) (by decide) h hf
  · have hc : c = 'a' := by
      apply Classical.byContradiction; intro hne
      apply hle
      have : ('a' == c) = false := by simpa using Ne.symm hne
      simp [ext, extKeyword, Gen.spelling, stripPrefix, mismatchExt, this]
    subst hc
    exact bound_keyword .Array _ _ rest o rfl (by decide) (lexOne_a rest) (by decide) (by decide) (by decide) (by decide) h hf
  · have hc : c = 'o' := by
      apply Classical.byContradiction; intro hne
      apply hle
      have : ('o' == c) = false := by simpa using Ne.symm hne
      simp [ext, extKeyword, Gen.spelling, stripPrefix, mismatchExt, this]
    subst hc
    exact bound_keyword .Of _ _ rest o rfl (by decide) (lexOne_o rest) (by decide) (by decide) (by decide) (by decide) h hf
  · have hc : c = 'p' := by
      apply Classical.byContradiction; intro hne
      apply hle
      have : ('p' == c) = false := by simpa using Ne.symm hne
      simp [ext, extKeyword, Gen.spelling, stripPrefix, mismatchExt, this]
    subst hc
    exact bound_keyword .Proc _ _ rest o rfl (by decide) (lexOne_p rest) (by decide) (by decide) (by decide) (by decide) h hf
  · have hc : c = 'r' := by
      apply Classical.byContradiction; intro hne
      apply hle
      have : ('r' == c) = false := by simpa using Ne.symm hne
      simp [ext, extKeyword, Gen.spelling, stripPrefix, mismatchExt, this]
    subst hc
    exact bound_keyword .Ref _ _ rest o rfl (by decide) (lexOne_r rest) (by decide) (by decide) (by decide) (by decide) h hf
  · have hc : c = 't' := by
      apply Classical.byContradiction; intro hne
      apply hle
      have : ('t' == c) = false := by simpa using Ne.symm hne
      simp [ext, extKeyword, Gen.spelling, stripPrefix, mismatchExt, this]
    subst hc
    exact bound_keyword .Type _ _ rest o rfl (by decide) (lexOne_t rest) (by decide) (by decide) (by decide) (by decide) h hf
  · have hc : c = 'v' := by
      apply Classical.byContradiction; intro hne
      apply hle
      have : ('v' == c) = false := by simpa using Ne.symm hne
      simp [ext, extKeyword, Gen.spelling, stripPrefix, mismatchExt, this]
    subst hc
    exact bound_keyword .Var _ _ rest o rfl (by decide) (lexOne_v rest) (by decide) (by decide) (by decide) (by decide) h hf
  · -- char: a lone tick at the end of the text; Unknown wins (look-ahead 1)
    have hc : c = '\'' := by
      apply Classical.byContradiction; intro hne
      exact hle (by simp [ext, extFirst, hne])
    subst hc
    have hrest : rest = [] := by
      cases rest with
      | nil => rfl
      | cons d ds =>
        exfalso
        have hf' : lexChar ('\'' :: d :: ds) = none := hf
        unfold lexChar at hf'
        split at hf'
        · split at hf' <;> simp at hf'
        · split at hf' <;> simp at hf'
        · rename_i hne; exact hne d ds rfl
    subst hrest
    rw [lexOne_tick] at h
    simp [tailAlts, firstMatch, lexItem, lexChar, lexHex, lexInt, lexIdent, lexUnknown, isDigit, isAsciiDigitN, isAlpha, isAsciiAlphaN] at h
    subst h
    simp [ext, extFirst]; decide
  · -- hex: the text starts with '0' but not "0x"; Int wins (look-ahead 1)
    have hc : c = '0' := by
      apply Classical.byContradiction; intro hne
      exact hle (by simp [ext, extFirst, hne])
    subst hc
    rw [lexOne_zero] at h
    obtain ⟨o', ho'⟩ := lexInt_digit (c := '0') (rest := rest) (by decide)
    have hch : lexChar ('0' :: rest) = none := lexChar_ne (by decide)
    simp only [tailAlts, firstMatch, lexItem, hch] at h
    rw [show lexHex ('0' :: rest) = none from hf, ho'] at h
    cases h
    have hk := kind_int ho'
    have hp := (lexInt_ok ho').pos
    rw [hk]
    have : ext .hex ('0' :: rest) = 2 := by simp [ext, extFirst]
    rw [this]
    have : Gen.lookAhead Kind.Int = 1 := by decide
    omega
  · exact absurd (by simp [ext]) hle
  · exact absurd (by simp [ext]) hle
  · exact absurd (by simp [ext]) hle

/-- **Look-ahead locality of `Token::lex`.** -/
theorem lexLocal : LexLocal := by
  intro pre rest rest' o h hn hla
  have hall := altLaOK_all
  apply local_firstMatch (pre ++ rest) (pre ++ rest') o Gen.altOrder hall h
  · -- agreement on o.n + lookAhead characters
    have hle := lookAhead_le_one o.ty.kind
    rcases hla with h0 | hh
    · rw [h0, hn, take_len_add, take_len_add]; simp
    · by_cases h0 : Gen.lookAhead o.ty.kind = 0
      · rw [h0, hn, take_len_add, take_len_add]; simp
      · have h1 : Gen.lookAhead o.ty.kind = 1 := by omega
        rw [h1, hn, take_len_add, take_len_add]
        congr 1
        cases rest <;> cases rest' <;> simp_all
  · exact bound (pre ++ rest) o h

end Spl
