/-
  C11: the grammar specification's derivation and the formatter's output depend on the tokens only through their
  types (not on their text ranges): `strip` forgets everything else.
-/
import SplVerif.Lemmas.FmtProgram

namespace Spl.FmtCanon
open Spl Spl.Grammar Spl.Fmt Spl.Feat Spl.FmtDecl

/-- a token reduced to its type -/
def strip (t : Token) : Token := { ty := t.ty, range := ⟨0, 0⟩, errors := [] }

@[simp] theorem strip_ty (t : Token) : (strip t).ty = t.ty := rfl
@[simp] theorem strip_kind (t : Token) : (strip t).kind = t.kind := rfl

/-- two token arrays with the same token types, position by position -/
def SameTy (A B : Array Token) : Prop := A.size = B.size ∧ ∀ i : Nat, (A[i]?).map Token.ty = (B[i]?).map Token.ty

theorem sameTy_strip (A : Array Token) : SameTy A (A.map strip) := by
  refine ⟨by simp, ?_⟩
  intro i
  simp only [Array.getElem?_map, Option.map_map]
  cases A[i]? <;> simp [strip]

variable {g g' : GCtx}

theorem leadStart_congr (h : SameTy g.all g'.all) : ∀ (fuel i : Nat), leadStart g fuel i = leadStart g' fuel i
  | 0, i => rfl
  | fuel + 1, i => by
    simp only [leadStart]
    by_cases h0 : (i == 0) = true
    · simp [h0]
    · simp only [h0, Bool.false_eq_true, if_false]
      have := h.2 (i - 1)
      cases ha : g.all[i - 1]? with
      | none =>
        rw [ha] at this
        cases hb : g'.all[i - 1]? with
        | none => rfl
        | some b => rw [hb] at this; cases this
      | some a =>
        rw [ha] at this
        cases hb : g'.all[i - 1]? with
        | none => rw [hb] at this; cases this
        | some b =>
          rw [hb] at this
          simp only [Option.map_some, Option.some.injEq] at this
          have hk : a.kind = b.kind := by simp [Token.kind, this]
          simp only [hk]
          rw [leadStart_congr h fuel (i - 1)]

theorem lead_congr (h : SameTy g.all g'.all) (i : Nat) : lead g i = lead g' i := leadStart_congr h _ _

theorem mkInfo_congr (h : SameTy g.all g'.all) (a b : Nat) : mkInfo g a b = mkInfo g' a b := by simp [mkInfo, lead_congr h]

theorem extract_sameTy (h : SameTy g.all g'.all) (a b : Nat) : ((g.all.extract a b).toList).map Token.ty = ((g'.all.extract a b).toList).map Token.ty := by
  apply List.ext_getElem?
  intro k
  simp only [List.getElem?_map, Array.getElem?_toList, Array.getElem?_extract]
  by_cases hk : k < min b g.all.size - a
  · have hk' : k < min b g'.all.size - a := by rw [← h.1]; exact hk
    simp only [hk, hk', if_true]
    exact h.2 (a + k)
  · have hk' : ¬ k < min b g'.all.size - a := by rw [← h.1]; exact hk
    simp [hk, hk']

theorem docOf_congr (h : SameTy g.all g'.all) (i : Nat) : docOf g i = docOf g' i := by
  simp only [docOf, lead_congr h]
  have := extract_sameTy h (lead g' i) i
  generalize (g.all.extract (lead g' i) i).toList = l1 at this
  generalize (g'.all.extract (lead g' i) i).toList = l2 at this
  induction l1 generalizing l2 with
  | nil =>
    cases l2 with
    | nil => rfl
    | cons b l2 => simp at this
  | cons a l1 ih =>
    cases l2 with
    | nil => simp at this
    | cons b l2 =>
      simp only [List.map_cons, List.cons.injEq] at this
      simp only [List.filterMap_cons, this.1]
      rw [ih l2 this.2]


theorem mkIdent_congr (h : SameTy g.all g'.all) (i : Nat) (s : List Char) : mkIdent g i s = mkIdent g' i s := by
  simp [mkIdent, mkInfo_congr h]

theorem intLitTok_congr (h : SameTy g.all g'.all) (ts : Toks) : intLitTok g ts = intLitTok g' ts := by
  unfold intLitTok
  simp only [mkInfo_congr h]

/-- the expression functions of the specification read the context only through `mkInfo` -/
theorem expr_congr (h : SameTy g.all g'.all) : ∀ fuel,
    (∀ ts, expr g fuel ts = expr g' fuel ts) ∧ (∀ ts, add g fuel ts = add g' fuel ts) ∧
    (∀ l sl ts, addRest g fuel l sl ts = addRest g' fuel l sl ts) ∧ (∀ ts, mul g fuel ts = mul g' fuel ts) ∧
    (∀ l sl ts, mulRest g fuel l sl ts = mulRest g' fuel l sl ts) ∧ (∀ ts, factor g fuel ts = factor g' fuel ts) ∧
    (∀ ts, varAccess g fuel ts = varAccess g' fuel ts) ∧ (∀ v sv ts, accesses g fuel v sv ts = accesses g' fuel v sv ts)
  | 0 => by simp [Grammar.expr, Grammar.add, Grammar.addRest, Grammar.mul, Grammar.mulRest, Grammar.factor,
      Grammar.varAccess, Grammar.accesses]
  | fuel + 1 => by
    obtain ⟨i1, i2, i3, i4, i5, i6, i7, i8⟩ := expr_congr h fuel
    refine ⟨?_, ?_, ?_, ?_, ?_, ?_, ?_, ?_⟩
    · intro ts; simp only [Grammar.expr, i2, mkInfo_congr h]
    · intro ts; simp only [Grammar.add, i4, i3]
    · intro l sl ts; simp only [Grammar.addRest, i4, i3, mkInfo_congr h]
    · intro ts; simp only [Grammar.mul, i6, i5]
    · intro l sl ts; simp only [Grammar.mulRest, i6, i5, mkInfo_congr h]
    · intro ts; simp only [Grammar.factor, i6, i1, i7, mkInfo_congr h, intLitTok_congr h]
    · intro ts; simp only [Grammar.varAccess, i8, mkIdent_congr h]
    · intro v sv ts; simp only [Grammar.accesses, i1, i8, mkInfo_congr h]


theorem typeExpr_congr (h : SameTy g.all g'.all) : ∀ fuel ts, typeExpr g fuel ts = typeExpr g' fuel ts
  | 0, ts => by simp [Grammar.typeExpr]
  | fuel + 1, ts => by
    simp only [Grammar.typeExpr, typeExpr_congr h fuel, mkInfo_congr h, intLitTok_congr h, mkIdent_congr h]

theorem exprList_congr (h : SameTy g.all g'.all) : ∀ fuel ts, exprList g fuel ts = exprList g' fuel ts
  | 0, ts => by simp [Grammar.exprList]
  | fuel + 1, ts => by
    simp only [Grammar.exprList, exprList_congr h fuel, (expr_congr h _).1]

theorem stmt_congr (h : SameTy g.all g'.all) : ∀ fuel,
    (∀ ts, stmt g fuel ts = stmt g' fuel ts) ∧ (∀ ts, stmts g fuel ts = stmts g' fuel ts)
  | 0 => by simp [Grammar.stmt, Grammar.stmts]
  | fuel + 1 => by
    obtain ⟨i1, i2⟩ := stmt_congr h fuel
    constructor
    · intro ts
      simp only [Grammar.stmt, i1, i2, mkInfo_congr h, mkIdent_congr h, (expr_congr h _).1, (expr_congr h _).2.2.2.2.2.2.1,
        exprList_congr h]
    · intro ts
      simp only [Grammar.stmts, i1, i2]

theorem param_congr (h : SameTy g.all g'.all) (ts : Toks) : param g ts = param g' ts := by
  simp only [Grammar.param, typeExpr_congr h, mkInfo_congr h, mkIdent_congr h, docOf_congr h]

theorem params_congr (h : SameTy g.all g'.all) : ∀ fuel ts, params g fuel ts = params g' fuel ts
  | 0, ts => by simp [Grammar.params]
  | fuel + 1, ts => by simp only [Grammar.params, params_congr h fuel, param_congr h]

theorem varDecls_congr (h : SameTy g.all g'.all) : ∀ fuel ts, varDecls g fuel ts = varDecls g' fuel ts
  | 0, ts => by simp [Grammar.varDecls]
  | fuel + 1, ts => by
    simp only [Grammar.varDecls, varDecls_congr h fuel, typeExpr_congr h, mkInfo_congr h, mkIdent_congr h, docOf_congr h]

theorem decls_congr (h : SameTy g.all g'.all) : ∀ fuel ts, decls g fuel ts = decls g' fuel ts
  | 0, ts => by simp [Grammar.decls]
  | fuel + 1, ts => by
    simp only [Grammar.decls, decls_congr h fuel, typeExpr_congr h, mkInfo_congr h, mkIdent_congr h, docOf_congr h,
      params_congr h, varDecls_congr h, (stmt_congr h _).2]


/-! ### the formatter reads tokens only through their types -/

/-- two views of the same positions of arrays with the same token types -/
structure SSame (S S' : Slice) : Prop where
  lo : S.lo = S'.lo
  hi : S.hi = S'.hi
  toks : SameTy S.toks S'.toks

theorem from_same {S S' : Slice} (h : SSame S S') (a : Nat) :
    (∃ p, from' S a = .error p ∧ from' S' a = .error p) ∨ (∃ T T', from' S a = .ok T ∧ from' S' a = .ok T' ∧ SSame T T') := by
  simp only [from', Slice.from, h.lo, h.hi]
  by_cases hc : S'.lo + a ≤ S'.hi
  · right; exact ⟨⟨S.toks, S'.lo + a, S'.hi⟩, ⟨S'.toks, S'.lo + a, S'.hi⟩, by simp [hc], by simp [hc], ⟨rfl, rfl, h.toks⟩⟩
  · left; exact ⟨⟨"slice"⟩, by simp [hc], by simp [hc]⟩

theorem sub_same {S S' : Slice} (h : SSame S S') (r : Range) :
    (∃ p, sub S r = .error p ∧ sub S' r = .error p) ∨ (∃ T T', sub S r = .ok T ∧ sub S' r = .ok T' ∧ SSame T T') := by
  simp only [sub, Slice.sub, h.lo, h.hi]
  by_cases hc : r.lo ≤ r.hi ∧ S'.lo + r.hi ≤ S'.hi
  · right; exact ⟨⟨S.toks, S'.lo + r.lo, S'.lo + r.hi⟩, ⟨S'.toks, S'.lo + r.lo, S'.lo + r.hi⟩, by simp [hc], by simp [hc], ⟨rfl, rfl, h.toks⟩⟩
  · left; exact ⟨⟨"slice"⟩, by simp [hc], by simp [hc]⟩

theorem toList_same {S S' : Slice} (h : SSame S S') : S.toList.map Token.ty = S'.toList.map Token.ty := by
  simp only [Slice.toList, h.lo, h.hi]
  exact extract_sameTy (g := ⟨S.toks⟩) (g' := ⟨S'.toks⟩) h.toks _ _

/-- functions of a token list that only look at the types -/
theorem display_map_same {l l' : List Token} (h : l.map Token.ty = l'.map Token.ty) :
    l.map (fun t => Parse.displayToken t.ty) = l'.map (fun t => Parse.displayToken t.ty) := by
  have := congrArg (List.map Parse.displayToken) h
  simp only [List.map_map] at this
  exact this

theorem find_lit_same : ∀ {l l' : List Token}, l.map Token.ty = l'.map Token.ty →
    (l.find? (fun t => t.kind == .Int || t.kind == .Hex || t.kind == .Char)).map Token.ty =
      (l'.find? (fun t => t.kind == .Int || t.kind == .Hex || t.kind == .Char)).map Token.ty
  | [], [], _ => rfl
  | [], _ :: _, h => by simp at h
  | _ :: _, [], h => by simp at h
  | a :: l, b :: l', h => by
    simp only [List.map_cons, List.cons.injEq] at h
    have hk : a.kind = b.kind := by simp [Token.kind, h.1]
    simp only [List.find?_cons, hk]
    split
    · simp [h.1]
    · exact find_lit_same h.2

theorem comments_same : ∀ {l l' : List Token}, l.map Token.ty = l'.map Token.ty →
    l.filterMap commentStr = l'.filterMap commentStr
  | [], [], _ => rfl
  | [], _ :: _, h => by simp at h
  | _ :: _, [], h => by simp at h
  | a :: l, b :: l', h => by
    simp only [List.map_cons, List.cons.injEq] at h
    have hk : a.kind = b.kind := by simp [Token.kind, h.1]
    simp only [List.filterMap_cons, commentStr, hk, h.1]
    rw [comments_same h.2]

theorem leading_same : ∀ {l l' : List Token}, l.map Token.ty = l'.map Token.ty →
    (l.takeWhile (fun t => t.kind == .Comment)).flatMap (fun t => Parse.displayToken t.ty) =
      (l'.takeWhile (fun t => t.kind == .Comment)).flatMap (fun t => Parse.displayToken t.ty)
  | [], [], _ => rfl
  | [], _ :: _, h => by simp at h
  | _ :: _, [], h => by simp at h
  | a :: l, b :: l', h => by
    simp only [List.map_cons, List.cons.injEq] at h
    have hk : a.kind = b.kind := by simp [Token.kind, h.1]
    simp only [List.takeWhile_cons, hk]
    split
    · simp only [List.flatMap_cons, h.1]
      rw [leading_same h.2]
    · rfl

theorem addLead_same (text : List Char) {l l' : List Token} (h : l.map Token.ty = l'.map Token.ty) :
    addLeadingComments text l = addLeadingComments text l' := by
  simp only [addLeadingComments, leading_same h]

theorem addAll_same (text : List Char) {l l' : List Token} (h : l.map Token.ty = l'.map Token.ty) :
    addAllComments text l = addAllComments text l' := by
  simp only [addAllComments, comments_same h]

theorem fmtInfo_same {S S' : Slice} (h : SSame S S') (i : AstInfo) : fmtInfo i S = fmtInfo i S' := by
  simp only [fmtInfo]
  rcases sub_same h i.range with ⟨p, e1, e2⟩ | ⟨T, T', e1, e2, hT⟩
  · rw [e1, e2]
  · rw [e1, e2]
    simp only [display_map_same (toList_same hT)]

theorem fmtIntLit_same {S S' : Slice} (h : SSame S S') (l : IntLiteral) : fmtIntLit l S = fmtIntLit l S' := by
  simp only [fmtIntLit]
  rcases sub_same h l.info.range with ⟨p, e1, e2⟩ | ⟨T, T', e1, e2, hT⟩
  · rw [e1, e2]
  · rw [e1, e2]
    have := find_lit_same (toList_same hT)
    simp only
    cases h1 : T.toList.find? (fun t => t.kind == .Int || t.kind == .Hex || t.kind == .Char) with
    | none =>
      rw [h1] at this
      cases h2 : T'.toList.find? (fun t => t.kind == .Int || t.kind == .Hex || t.kind == .Char) with
      | none => rfl
      | some b => rw [h2] at this; cases this
    | some a =>
      rw [h1] at this
      cases h2 : T'.toList.find? (fun t => t.kind == .Int || t.kind == .Hex || t.kind == .Char) with
      | none => rw [h2] at this; cases this
      | some b =>
        rw [h2] at this
        simp only [Option.map_some, Option.some.injEq] at this
        simp only [this]

mutual
  theorem fmtVar_same : ∀ (v : Var) {S S' : Slice}, SSame S S' → fmtVar S v = fmtVar S' v
    | .named id, S, S', h => by simp [fmtVar]
    | .access a idx i, S, S', h => by
      simp only [fmtVar, fmtOptExpr_same idx h, fmtVar_same a h]
  theorem fmtExpr_same : ∀ (e : Expr) {S S' : Slice}, SSame S S' → fmtExpr S e = fmtExpr S' e
    | .binary op l r i, S, S', h => by simp only [fmtExpr, fmtExpr_same l h, fmtExpr_same r h]
    | .bracketed e i, S, S', h => by simp only [fmtExpr, fmtExpr_same e h]
    | .intLit l, S, S', h => by simp only [fmtExpr, fmtIntLit_same h]
    | .unary op e i, S, S', h => by simp only [fmtExpr, fmtExpr_same e h]
    | .var v, S, S', h => by simp only [fmtExpr, fmtVar_same v h]
    | .error i, S, S', h => by simp only [fmtExpr, fmtInfo_same h]
  theorem fmtOptExpr_same : ∀ (e : OptExpr) {S S' : Slice}, SSame S S' → fmtOptExpr S e = fmtOptExpr S' e
    | .none, S, S', h => by simp [fmtOptExpr]
    | .some e o, S, S', h => by
      simp only [fmtOptExpr]
      rcases from_same h o with ⟨p, e1, e2⟩ | ⟨T, T', e1, e2, hT⟩
      · rw [e1, e2]
      · rw [e1, e2]; exact fmtExpr_same e hT
end


theorem fmtRefExpr_same {S S' : Slice} (h : SSame S S') (r : Ref Expr) : fmtRefExpr S r = fmtRefExpr S' r := by
  simp only [fmtRefExpr]
  rcases from_same h r.offset with ⟨p, e1, e2⟩ | ⟨T, T', e1, e2, hT⟩
  · rw [e1, e2]
  · rw [e1, e2]; exact fmtExpr_same r.val hT

theorem fmtOptRefExpr_same {S S' : Slice} (h : SSame S S') (r : Option (Ref Expr)) :
    fmtOptRefExpr S r = fmtOptRefExpr S' r := by
  cases r with
  | none => rfl
  | some r => exact fmtRefExpr_same h r

mutual
  theorem fmtType_same : ∀ (t : TypeExpr) {S S' : Slice}, SSame S S' → fmtType S t = fmtType S' t
    | .named id, S, S', h => by simp [fmtType_named]
    | .array size base i, S, S', h => by
      rw [fmtType_array, fmtType_array]
      have tailEq : ∀ s : List Char,
          (match base with
            | .none => (.ok (chars "array [" ++ s ++ chars "] of") : R)
            | .some t o =>
              match from' S o with
              | .error p => .error p
              | .ok sl => (fmtType sl t).map (fun b => chars "array [" ++ s ++ chars "] of " ++ b)) =
          (match base with
            | .none => (.ok (chars "array [" ++ s ++ chars "] of") : R)
            | .some t o =>
              match from' S' o with
              | .error p => .error p
              | .ok sl => (fmtType sl t).map (fun b => chars "array [" ++ s ++ chars "] of " ++ b)) := by
        intro s
        cases base with
        | none => rfl
        | some t o =>
          simp only
          rcases from_same h o with ⟨p, e1, e2⟩ | ⟨T, T', e1, e2, hT⟩
          · rw [e1, e2]
          · rw [e1, e2]; simp only; rw [fmtType_same t hT]
      cases size with
      | none => exact tailEq []
      | some l =>
        simp only [fmtIntLit_same h l]
        cases fmtIntLit l S' with
        | error e => rfl
        | ok s => exact tailEq s
end

theorem fmtOptRefType_same {S S' : Slice} (h : SSame S S') (r : Option (Ref TypeExpr)) :
    fmtOptRefType S r = fmtOptRefType S' r := by
  cases r with
  | none => rfl
  | some r =>
    simp only [fmtOptRefType]
    rcases from_same h r.offset with ⟨p, e1, e2⟩ | ⟨T, T', e1, e2, hT⟩
    · rw [e1, e2]
    · rw [e1, e2]; exact fmtType_same r.val hT

theorem sub_map_same {S S' : Slice} (h : SSame S S') (r : Range) (f : List Token → List Char)
    (hf : ∀ l l' : List Token, l.map Token.ty = l'.map Token.ty → f l = f l') :
    (sub S r).map (fun s => f s.toList) = (sub S' r).map (fun s => f s.toList) := by
  rcases sub_same h r with ⟨p, e1, e2⟩ | ⟨T, T', e1, e2, hT⟩
  · rw [e1, e2]
  · rw [e1, e2]; simp only [Except.map]; rw [hf _ _ (toList_same hT)]

theorem fmtTypeDecl_same {S S' : Slice} (h : SSame S S') (td : TypeDecl) : fmtTypeDecl td S = fmtTypeDecl td S' := by
  simp only [fmtTypeDecl, fmtOptRefType_same h]
  cases fmtOptRefType S' td.typeExpr with
  | error e => rfl
  | ok te => exact sub_map_same h _ _ (fun l l' hl => addLead_same _ hl)

theorem fmtVarDecl_same {S S' : Slice} (h : SSame S S') (v : VarDecl) : fmtVarDecl v S = fmtVarDecl v S' := by
  cases v with
  | valid d n t i => simp only [fmtVarDecl, fmtOptRefType_same h]
  | error i => simp only [fmtVarDecl, fmtInfo_same h]

theorem fmtParamDecl_same {S S' : Slice} (h : SSame S S') (v : ParamDecl) : fmtParamDecl v S = fmtParamDecl v S' := by
  cases v with
  | valid d r n t i => simp only [fmtParamDecl, fmtOptRefType_same h]
  | error i => simp only [fmtParamDecl, fmtInfo_same h]

theorem fmtAssignment_same {S S' : Slice} (h : SSame S S') (a : Assignment) : fmtAssignment a S = fmtAssignment a S' := by
  simp only [fmtAssignment, fmtOptRefExpr_same h, fmtVar_same a.target h]

theorem mapM_congr_fn {α β} (f f' : α → Except Panic β) (l : List α) (hf : ∀ x, f x = f' x) : l.mapM f = l.mapM f' := by
  have : f = f' := funext hf
  rw [this]

theorem fmtCall_same {S S' : Slice} (h : SSame S S') (cs : CallStmt) : fmtCall cs S = fmtCall cs S' := by
  simp only [fmtCall, mapM_congr_fn (fmtRefExpr S) (fmtRefExpr S') cs.args (fmtRefExpr_same h)]

/-- `match a, sub S r with …` with a comment helper -/
theorem wrap_all_same {S S' : Slice} (h : SSame S S') (a : R) (r : Range) :
    (match a, sub S r with
      | .ok s, .ok sl => (.ok (addAllComments s sl.toList) : R)
      | .error e, _ => .error e
      | _, .error e => .error e) =
    (match a, sub S' r with
      | .ok s, .ok sl => (.ok (addAllComments s sl.toList) : R)
      | .error e, _ => .error e
      | _, .error e => .error e) := by
  rcases sub_same h r with ⟨p, e1, e2⟩ | ⟨T, T', e1, e2, hT⟩
  · rw [e1, e2]
  · rw [e1, e2]
    cases a with
    | error e => rfl
    | ok s => simp only [addAll_same s (toList_same hT)]

theorem wrap_fn_same {S S' : Slice} (h : SSame S S') (f : List Char → List Token → List Char)
    (hf : ∀ s (l l' : List Token), l.map Token.ty = l'.map Token.ty → f s l = f s l') (a : R) (r : Range) :
    (match a, sub S r with
      | .ok s, .ok sl => (.ok (f s sl.toList) : R)
      | .error e, _ => .error e
      | _, .error e => .error e) =
    (match a, sub S' r with
      | .ok s, .ok sl => (.ok (f s sl.toList) : R)
      | .error e, _ => .error e
      | _, .error e => .error e) := by
  rcases sub_same h r with ⟨p, e1, e2⟩ | ⟨T, T', e1, e2, hT⟩
  · rw [e1, e2]
  · rw [e1, e2]
    cases a with
    | error e => rfl
    | ok s => simp only [hf s _ _ (toList_same hT)]

theorem wrap_lead_same {S S' : Slice} (h : SSame S S') (a : R) (r : Range) :
    (match a, sub S r with
      | .ok s, .ok sl => (.ok (addLeadingComments s sl.toList) : R)
      | .error e, _ => .error e
      | _, .error e => .error e) =
    (match a, sub S' r with
      | .ok s, .ok sl => (.ok (addLeadingComments s sl.toList) : R)
      | .error e, _ => .error e
      | _, .error e => .error e) := by
  rcases sub_same h r with ⟨p, e1, e2⟩ | ⟨T, T', e1, e2, hT⟩
  · rw [e1, e2]
  · rw [e1, e2]
    cases a with
    | error e => rfl
    | ok s => simp only [addLead_same s (toList_same hT)]


theorem ifAssemble_same {S S' : Slice} (h : SSame S S') (cnd a b : R) (el : Option (Bool × R)) (r : Range) :
    ifAssemble cnd a b el (sub S r) = ifAssemble cnd a b el (sub S' r) := by
  unfold ifAssemble
  cases cnd with
  | error p => rfl
  | ok cond => exact wrap_lead_same h _ r

theorem fmtStmt_error (o : Options) (S : Slice) (i : AstInfo) :
    fmtStmt o S (.error i) = (fmtInfo i S).map (fun s => s ++ ['\n']) := rfl

theorem fmtBranch_none (o : Options) (S : Slice) (e : Char) : fmtBranch o S .none e = .ok [e] := rfl

mutual
  theorem fmtStmt_same (o : Options) : ∀ (s : Stmt) {S S' : Slice}, SSame S S' → fmtStmt o S s = fmtStmt o S' s
    | .empty i, S, S', h => by
      rw [fmtStmt_empty, fmtStmt_empty]
      exact sub_map_same h _ _ (fun l l' hl => addAll_same _ hl)
    | .assign a, S, S', h => by
      rw [fmtStmt_assign, fmtStmt_assign, fmtAssignment_same h]
      exact wrap_all_same h _ _
    | .call cs, S, S', h => by
      rw [fmtStmt_call, fmtStmt_call, fmtCall_same h]
      exact wrap_all_same h _ _
    | .error i, S, S', h => by rw [fmtStmt_error, fmtStmt_error, fmtInfo_same h]
    | .block ss i, S, S', h => by
      rw [fmtStmt_block, fmtStmt_block]
      rcases sub_same h i.range with ⟨p, e1, e2⟩ | ⟨T, T', e1, e2, hT⟩
      · rw [e1, e2]
      · rw [e1, e2]
        cases ss with
        | nil => simp only [addLead_same _ (toList_same hT)]
        | cons s0 o0 r0 =>
          simp only
          rw [fmtStmtList_same o (.cons s0 o0 r0) h]
          cases fmtStmtList o S' (.cons s0 o0 r0) with
          | error e => rfl
          | ok body => simp only [addLead_same _ (toList_same hT)]
    | .whileS c b i, S, S', h => by
      rw [fmtStmt_while, fmtStmt_while, fmtOptRefExpr_same h]
      cases fmtOptRefExpr S' c with
      | error p => rfl
      | ok cond =>
        simp only
        rw [fmtBranch_same o b '\n' h]
        exact wrap_fn_same h (fun br l => addLeadingComments (chars "while (" ++ cond ++ [')'] ++ br) l)
          (fun s l l' hl => addLead_same _ hl) _ _
    | .ifS c t e i, S, S', h => by
      rw [fmtStmt_if, fmtStmt_if, fmtOptRefExpr_same h, fmtBranch_same o t '\n' h, fmtBranch_same o t ' ' h]
      have hel : elseOf o S e = elseOf o S' e := by
        cases e with
        | none => rfl
        | some s off =>
          cases s with
          | ifS c2 t2 e2 i2 =>
            simp only [elseOf]
            rcases from_same h off with ⟨p, e1, e2'⟩ | ⟨T, T', e1, e2', hT⟩
            · rw [e1, e2']
            · rw [e1, e2']; simp only; rw [fmtStmt_same o (.ifS c2 t2 e2 i2) hT]
          | empty i0 => simp only [elseOf]; rw [fmtBranch_same o (.some (.empty i0) off) '\n' h]
          | assign a0 => simp only [elseOf]; rw [fmtBranch_same o (.some (.assign a0) off) '\n' h]
          | call c0 => simp only [elseOf]; rw [fmtBranch_same o (.some (.call c0) off) '\n' h]
          | whileS c0 b0 i0 => simp only [elseOf]; rw [fmtBranch_same o (.some (.whileS c0 b0 i0) off) '\n' h]
          | block ss0 i0 => simp only [elseOf]; rw [fmtBranch_same o (.some (.block ss0 i0) off) '\n' h]
          | error i0 => simp only [elseOf]; rw [fmtBranch_same o (.some (.error i0) off) '\n' h]
      rw [hel]
      exact ifAssemble_same h _ _ _ _ _
  theorem fmtStmtList_same (o : Options) : ∀ (ss : StmtList) {S S' : Slice}, SSame S S' →
      fmtStmtList o S ss = fmtStmtList o S' ss
    | .nil, S, S', h => rfl
    | .cons s off rest, S, S', h => by
      rw [fmtStmtList_cons, fmtStmtList_cons, fmtStmtList_same o rest h]
      rcases from_same h off with ⟨p, e1, e2⟩ | ⟨T, T', e1, e2, hT⟩
      · rw [e1, e2]
      · rw [e1, e2]; simp only; rw [fmtStmt_same o s hT]
  theorem fmtBranch_same (o : Options) : ∀ (b : OptStmt) (e : Char) {S S' : Slice}, SSame S S' →
      fmtBranch o S b e = fmtBranch o S' b e
    | .none, e, S, S', h => rfl
    | .some s off, e, S, S', h => by
      rw [fmtBranch_some, fmtBranch_some]
      rcases from_same h off with ⟨p, e1, e2⟩ | ⟨T, T', e1, e2, hT⟩
      · rw [e1, e2]
      · rw [e1, e2]
        cases s with
        | block ss i =>
          cases ss with
          | nil => rfl
          | cons s0 o0 r0 => simp only; rw [fmtStmtList_same o (.cons s0 o0 r0) hT]
        | empty i0 => simp only; rw [fmtStmt_same o (.empty i0) hT]
        | assign a0 => simp only; rw [fmtStmt_same o (.assign a0) hT]
        | call c0 => simp only; rw [fmtStmt_same o (.call c0) hT]
        | whileS c0 b0 i0 => simp only; rw [fmtStmt_same o (.whileS c0 b0 i0) hT]
        | ifS c0 t0 e0 i0 => simp only; rw [fmtStmt_same o (.ifS c0 t0 e0 i0) hT]
        | error i0 => simp only; rw [fmtStmt_same o (.error i0) hT]
end


theorem wrap_slice_same {S S' : Slice} (h : SSame S S') (a : R) (i : AstInfo) :
    (match a, sliceOfInfo S i with
      | .ok s, .ok ts => (.ok (addAllComments s ts) : R)
      | .error p, _ => .error p
      | _, .error p => .error p) =
    (match a, sliceOfInfo S' i with
      | .ok s, .ok ts => (.ok (addAllComments s ts) : R)
      | .error p, _ => .error p
      | _, .error p => .error p) := by
  simp only [sliceOfInfo]
  rcases sub_same h i.range with ⟨p, e1, e2⟩ | ⟨T, T', e1, e2, hT⟩
  · rw [e1, e2]
  · rw [e1, e2]
    cases a with
    | error e => rfl
    | ok s => simp only [Except.map, addAll_same s (toList_same hT)]

theorem paramText_same {S S' : Slice} (h : SSame S S') (prm : Ref ParamDecl) : paramText S prm = paramText S' prm := by
  simp only [paramText]
  rcases from_same h prm.offset with ⟨p, e1, e2⟩ | ⟨T, T', e1, e2, hT⟩
  · rw [e1, e2]
  · rw [e1, e2]; simp only; rw [fmtParamDecl_same hT]; exact wrap_slice_same hT _ _

theorem varText_same {S S' : Slice} (h : SSame S S') (v : Ref VarDecl) : varText S v = varText S' v := by
  simp only [varText]
  rcases from_same h v.offset with ⟨p, e1, e2⟩ | ⟨T, T', e1, e2, hT⟩
  · rw [e1, e2]
  · rw [e1, e2]; simp only; rw [fmtVarDecl_same hT]; exact wrap_slice_same hT _ _

theorem fmtProcDecl_same (o : Options) {S S' : Slice} (h : SSame S S') (pd : ProcDecl) :
    fmtProcDecl o pd S = fmtProcDecl o pd S' := by
  rw [fmtProcDecl_eq, fmtProcDecl_eq, mapM_congr_fn (paramText S) (paramText S') _ (paramText_same h),
    mapM_congr_fn (varText S) (varText S') _ (varText_same h), fmtStmtList_same o _ h]
  cases List.mapM (paramText S') pd.params with
  | error p => rfl
  | ok pv =>
    simp only
    cases (List.mapM (varText S') pd.vars).map List.flatten with
    | error p => rfl
    | ok vds =>
      simp only
      cases fmtStmtList o S' (StmtList.ofList pd.stmts) with
      | error p => rfl
      | ok ss =>
        simp only [sliceOfInfo]
        rcases sub_same h pd.info.range with ⟨p, e1, e2⟩ | ⟨T, T', e1, e2, hT⟩
        · rw [e1, e2]
        · rw [e1, e2]; simp only [Except.map, addLead_same _ (toList_same hT)]

theorem fmtGlobalDecl_same (o : Options) {S S' : Slice} (h : SSame S S') (gd : GlobalDecl) :
    fmtGlobalDecl o gd S = fmtGlobalDecl o gd S' := by
  cases gd with
  | type td => exact fmtTypeDecl_same h td
  | proc pd => exact fmtProcDecl_same o h pd
  | error i => exact fmtInfo_same h i

/-- **the formatter reads the tokens only through their types** -/
theorem fmtProgram_same (o : Options) (p : Program) {A B : Array Token} (h : SameTy A B) :
    fmtProgram o p A = fmtProgram o p B := by
  rw [fmtProgram_eq, fmtProgram_eq]
  have : ∀ gd, declText o A gd = declText o B gd := by
    intro gd
    simp only [declText]
    have hf : SSame (Slice.full A) (Slice.full B) := ⟨rfl, by simp [Slice.full, h.1], h⟩
    rcases from_same hf gd.offset with ⟨p, e1, e2⟩ | ⟨T, T', e1, e2, hT⟩
    · rw [e1, e2]
    · rw [e1, e2]; exact fmtGlobalDecl_same o hT gd.val
  rw [mapM_congr_fn _ _ _ this]


/-! ### the derivation depends on the token types only -/

theorem sameTy_of_lists {l l' : List Token} (h : l.map Token.ty = l'.map Token.ty) : SameTy l.toArray l'.toArray := by
  have hlen : l.length = l'.length := by simpa using congrArg List.length h
  refine ⟨by simpa using hlen, ?_⟩
  intro i
  have := congrArg (fun x => x[i]?) h
  simpa [List.getElem?_map] using this

theorem its_congr : ∀ (l l' : List Token) (k : Nat), l.map Token.ty = l'.map Token.ty →
    ((l.zipIdx k).filter (fun (x : Token × Nat) => x.1.kind != Kind.Comment)).map (fun (x : Token × Nat) => (⟨x.2, x.1.ty⟩ : ITok)) =
    ((l'.zipIdx k).filter (fun (x : Token × Nat) => x.1.kind != Kind.Comment)).map (fun (x : Token × Nat) => (⟨x.2, x.1.ty⟩ : ITok))
  | [], [], _, _ => rfl
  | [], _ :: _, _, h => by simp at h
  | _ :: _, [], _, h => by simp at h
  | a :: l, b :: l', k, h => by
    simp only [List.map_cons, List.cons.injEq] at h
    have hk : a.kind = b.kind := by simp [Token.kind, h.1]
    simp only [List.zipIdx_cons, List.filter_cons, hk]
    split
    · simp only [List.map_cons, h.1, its_congr l l' (k + 1) h.2]
    · exact its_congr l l' (k + 1) h.2

theorem any_congr : ∀ (l l' : List Token), l.map Token.ty = l'.map Token.ty → (∀ t ∈ l, t.errors = []) → (∀ t ∈ l', t.errors = []) →
    l.any (fun t => !t.errors.isEmpty || t.kind == .Unknown) = l'.any (fun t => !t.errors.isEmpty || t.kind == .Unknown)
  | [], [], _, _, _ => rfl
  | [], _ :: _, h, _, _ => by simp at h
  | _ :: _, [], h, _, _ => by simp at h
  | a :: l, b :: l', h, he, he' => by
    simp only [List.map_cons, List.cons.injEq] at h
    have hk : a.kind = b.kind := by simp [Token.kind, h.1]
    simp only [List.any_cons, he a (by simp), he' b (by simp), hk]
    rw [any_congr l l' h.2 (fun t ht => he t (by simp [ht])) (fun t ht => he' t (by simp [ht]))]

/-- **The grammar specification's derivation is a function of the token types.** -/
theorem parse_congr (toks toks' : List Token) (h : toks.map Token.ty = toks'.map Token.ty)
    (he : ∀ t ∈ toks, t.errors = []) (he' : ∀ t ∈ toks', t.errors = []) : Grammar.parse toks = Grammar.parse toks' := by
  simp only [Grammar.parse, Grammar.parseAbs, any_congr toks toks' h he he', its_congr toks toks' 0 h]
  rw [decls_congr (g := ⟨toks.toArray⟩) (g' := ⟨toks'.toArray⟩) (sameTy_of_lists h)]

end Spl.FmtCanon
