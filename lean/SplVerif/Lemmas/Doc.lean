/-
  Helper lemmas for C08: the implementation's single-pass position walk equals the
  line-table specification.
-/
import SplVerif.Model.Doc
import SplVerif.Spec.LspPos

namespace Spl
open LspPos

theorem utf16Len_eq_units (c : Char) : utf16Len c = units c := by
  unfold utf16Len units
  by_cases h : c.toNat < 0x10000
  · have : ¬ c.toNat ≥ 65536 := by omega
    simp [h, this]
  · have : c.toNat ≥ 65536 := by omega
    simp [h, this]

/-- Remaining column for the generalised statement. -/
def remCol (p : Pos) (l c : Nat) : Nat := if l = p.line then p.col - c else p.col

theorem firstLine_other {ch : Char} {rest : List Char} (h1 : ch ≠ '\n') (h2 : ch ≠ '\r') :
    firstLine (ch :: rest) = (ch :: (firstLine rest).1, (firstLine rest).2.1, (firstLine rest).2.2) := by
  simp [firstLine, h1, h2]

theorem offset_other {ch : Char} {rest : List Char} (h1 : ch ≠ '\n') (h2 : ch ≠ '\r') (k col : Nat) :
    offset (k + 1) (ch :: rest) col = ch.utf8Size + offset (k + 1) rest col := by
  simp only [offset, firstLine_other h1 h2]
  rcases hfl : firstLine rest with ⟨a, e, r⟩
  cases r with
  | none => simp
  | some r => simp [Nat.add_assoc]

/-- The walk of `get_insertion_index`, started in the middle (current line `l ≤ p.line`,
    current column `c`, byte index `i`), lands at `i` plus the specified offset of the remaining
    position inside the remaining text. -/
theorem insertionIndexGo_eq (t : List Char) : ∀ (i : Nat) (p : Pos) (l c : Nat), l ≤ p.line →
    insertionIndexGo t i p l c = i + offset (p.line - l) t (remCol p l c) := by
  induction t with
  | nil =>
    intro i p l c _
    cases hk : p.line - l <;> simp [insertionIndexGo, offset, firstLine, colOffset]
  | cons ch rest ih =>
    intro i p l c hl
    by_cases hnl : ch = '\n'
    · subst hnl
      by_cases hL : l = p.line
      · subst hL
        simp [insertionIndexGo, offset, firstLine, colOffset]
      · have hlt : l < p.line := by omega
        obtain ⟨k, hk⟩ : ∃ k, p.line - l = k + 1 := ⟨p.line - l - 1, by omega⟩
        have hk' : p.line - (l + 1) = k := by omega
        have hb : (l == p.line) = false := by simp [hL]
        simp only [insertionIndexGo, hb, Bool.false_and, Bool.false_eq_true, if_false,
          BEq.rfl, Bool.true_or, if_true]
        rw [ih _ _ _ _ (by omega), hk, hk']
        simp only [offset, firstLine, if_true, utf8Len_nil, utf8Len_cons, Nat.zero_add]
        have : remCol p (l + 1) 0 = remCol p l c := by
          unfold remCol; simp [hL]
        rw [this]
        have : ('\n' : Char).utf8Size = 1 := by decide
        omega
    · by_cases hcr : ch = '\r'
      · subst hcr
        by_cases hL : l = p.line
        · subst hL
          cases rest with
          | nil => simp [insertionIndexGo, offset, firstLine, colOffset]
          | cons d r2 =>
            by_cases hd : d = '\n' <;> simp [insertionIndexGo, offset, firstLine, colOffset, hd]
        · have hlt : l < p.line := by omega
          obtain ⟨k, hk⟩ : ∃ k, p.line - l = k + 1 := ⟨p.line - l - 1, by omega⟩
          have hk' : p.line - (l + 1) = k := by omega
          have hb : (l == p.line) = false := by simp [hL]
          have hsz : ('\r' : Char).utf8Size = 1 := by decide
          have hsz' : ('\n' : Char).utf8Size = 1 := by decide
          have hrc : remCol p (l + 1) 0 = remCol p l c := by unfold remCol; simp [hL]
          cases rest with
          | nil =>
            simp only [insertionIndexGo, hb, isCrlf, Bool.false_and, Bool.false_eq_true, if_false,
              BEq.rfl, Bool.true_and, Bool.and_false, Bool.not_false, Bool.or_true, if_true,
              show (('\r' : Char) == '\n') = false by decide]
            rw [hk]
            simp [offset, firstLine, hsz]
            cases k <;> simp [offset, firstLine, colOffset]
          | cons d r2 =>
            by_cases hd : d = '\n'
            · subst hd
              -- crlf: two steps of the walk
              have hstep : insertionIndexGo ('\r' :: '\n' :: r2) i p l c
                  = insertionIndexGo ('\n' :: r2) (i + 1) p l c := by
                simp [insertionIndexGo, hb, isCrlf, hsz]
              rw [hstep, ih _ _ _ _ hl, hk]
              simp [offset, firstLine, hsz, hsz']
              omega
            · have hstep : insertionIndexGo ('\r' :: d :: r2) i p l c
                  = insertionIndexGo (d :: r2) (i + 1) p (l + 1) 0 := by
                simp [insertionIndexGo, hb, isCrlf, hd, hsz]
              rw [hstep, ih _ _ _ _ (by omega), hk, hk', hrc]
              simp [offset, firstLine, hd, hsz]
              omega
      · -- ordinary character
        have hcrlf : isCrlf ch rest = false := by simp [isCrlf, hcr]
        have hb1 : (ch == '\n') = false := by simp [hnl]
        have hb2 : (ch == '\r') = false := by simp [hcr]
        by_cases hL : l = p.line
        · subst hL
          by_cases hc : c ≥ p.col
          · have : p.col - c = 0 := by omega
            simp [insertionIndexGo, hc, offset, remCol, this, firstLine_other hnl hcr, colOffset]
          · have hlt : c < p.col := by omega
            obtain ⟨m, hm⟩ : ∃ m, p.col - c = m + 1 := ⟨p.col - c - 1, by omega⟩
            have hdec : decide (p.col ≤ c) = false := by simp; omega
            simp only [insertionIndexGo, BEq.rfl, Bool.true_and, hb1, hb2, hcrlf, Bool.or_false,
              Bool.false_and, Bool.false_eq_true, if_false, Bool.not_false, if_true,
              ge_iff_le, hdec]
            rw [ih _ _ _ _ (Nat.le_refl _)]
            simp only [Nat.sub_self, offset, remCol, if_true, firstLine_other hnl hcr, hm, colOffset]
            rw [utf16Len_eq_units]
            have : p.col - (c + units ch) = m + 1 - units ch := by omega
            rw [this]
            omega
        · have hlt : l < p.line := by omega
          obtain ⟨k, hk⟩ : ∃ k, p.line - l = k + 1 := ⟨p.line - l - 1, by omega⟩
          have hb : (l == p.line) = false := by simp [hL]
          simp only [insertionIndexGo, hb, Bool.false_and, hb1, hb2, hcrlf, Bool.or_false,
            Bool.false_eq_true, if_false, Bool.not_false, if_true]
          rw [ih _ _ _ _ hl, hk, offset_other hnl hcr]
          have : remCol p l (c + utf16Len ch) = remCol p l c := by unfold remCol; simp [hL]
          rw [this]
          omega

end Spl
