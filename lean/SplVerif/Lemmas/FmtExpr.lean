/-
  C09 for expressions: the text the formatter prints for an expression that the grammar specification derives
  from a comment-free token sequence tokenises back into exactly the types of the tokens the expression was
  derived from — whatever delimiter follows it.
-/
import SplVerif.Lemmas.FmtLex
import SplVerif.Model.Format
import SplVerif.Spec.Grammar

namespace Spl.FmtExpr
open Spl Spl.Grammar Spl.Fmt Spl.FmtLex Spl.Feat

/-! ### well-formed tokens -/

/-- token types as a lexer produces them for lexically valid text: identifiers are words that are not keywords,
    numbers fit 32 bits, no error payloads, no unknown characters -/
def tokWF : TokenType → Bool
  | .Ident w =>
    match w with
    | c :: tl => LexSpec.letter c && tl.all LexSpec.wordChar && (LexSpec.keywords.find? (fun kw => kw.1 == w)).isNone
    | [] => false
  | .Int (.Int n) => decide (n < 4294967296)
  | .Int (.Err _) => false
  | .Hex (.Int n) => decide (n < 4294967296)
  | .Hex (.Err _) => false
  | .Unknown _ => false
  | _ => true

def NoNL (s : List Char) : Prop := ∀ c ∈ s, c ≠ '\n'

theorem noNL_append {a b : List Char} (ha : NoNL a) (hb : NoNL b) : NoNL (a ++ b) := by
  intro c hc
  rcases List.mem_append.mp hc with h | h
  · exact ha c h
  · exact hb c h

theorem noNL_of_all (s : List Char) (f : Char → Bool) (hf : f '\n' = false) (h : ∀ c ∈ s, f c = true) : NoNL s := by
  intro c hc e
  subst e
  have := h _ hc
  rw [hf] at this
  cases this

/-- the printed form of an identifier or literal token is a piece that any delimiter may follow -/
theorem p_display (ty : TokenType) (hwf : tokWF ty = true)
    (hk : ty.kind = .Ident ∨ ty.kind = .Int ∨ ty.kind = .Hex ∨ ty.kind = .Char) :
    PDel (Parse.displayToken ty) [ty] ∧ NoNL (Parse.displayToken ty) ∧ Parse.displayToken ty ≠ [] := by
  cases ty with
  | Ident w =>
    cases w with
    | nil => simp [tokWF] at hwf
    | cons c tl =>
      simp only [tokWF, Bool.and_eq_true, List.all_eq_true, Option.isNone_iff_eq_none] at hwf
      obtain ⟨⟨hl, hall⟩, hkw⟩ := hwf
      have hp := p_word c tl hl hall
      have hty : wordTy (c :: tl) = .Ident (c :: tl) := by simp only [wordTy, hkw]
      rw [hty] at hp
      refine ⟨hp, ?_, by simp [Parse.displayToken]⟩
      apply noNL_of_all _ LexSpec.wordChar (by decide)
      intro x hx
      rcases List.mem_cons.mp hx with rfl | hx
      · simp [LexSpec.wordChar, hl]
      · exact hall x hx
  | Int r =>
    cases r with
    | Err e => simp [tokWF] at hwf
    | Int n =>
      simp only [tokWF, decide_eq_true_eq] at hwf
      obtain ⟨h1, h2, h3⟩ := natDigits_facts n
      have hp := p_decimal (Parse.natDigits n) h1 h2 (by rw [h3]; exact hwf)
      rw [h3] at hp
      exact ⟨hp, noNL_of_all _ LexSpec.digit (by decide) h2, h1⟩
  | Hex r =>
    cases r with
    | Err e => simp [tokWF] at hwf
    | Int n =>
      simp only [tokWF, decide_eq_true_eq] at hwf
      obtain ⟨hs, e, h1, h2, h3⟩ := fmtHex_facts n hwf
      have hp := p_hex hs h1 h2 (by rw [h3]; exact hwf)
      rw [h3] at hp
      have e' : Parse.displayToken (.Hex (.Int n)) = '0' :: 'x' :: hs := e
      rw [e']
      refine ⟨hp, ?_, by simp⟩
      intro c hc
      rcases List.mem_cons.mp hc with rfl | hc
      · decide
      · rcases List.mem_cons.mp hc with rfl | hc
        · decide
        · exact noNL_of_all _ LexSpec.hexdigit (by decide) h2 c hc
  | Char c =>
    refine ⟨pany_pdel (p_char c), ?_, ?_⟩
    · by_cases hn : c = '\n'
      · subst hn
        have e : Parse.displayToken (.Char '\n') = ['\'', '\\', 'n', '\''] := by decide
        rw [e]; intro x hx; simp at hx; rcases hx with rfl | rfl | rfl | rfl <;> decide
      · have e : Parse.displayToken (.Char c) = ['\'', c, '\''] := by simp [Parse.displayToken, hn]
        rw [e]; intro x hx; simp at hx; rcases hx with rfl | rfl | rfl
        · decide
        · exact hn
        · decide
    · simp only [Parse.displayToken]; split <;> simp
  | _ => simp [TokenType.kind] at hk

/-! ### the setting: a comment-free, well-formed token array -/

structure Ctx where
  g : GCtx
  nc : ∀ (i : Nat) (t : Token), g.all[i]? = some t → t.kind ≠ Kind.Comment
  wf : ∀ (i : Nat) (t : Token), g.all[i]? = some t → tokWF t.ty = true

variable (c : Ctx)

/-- the specification's token list is the part of the array that starts at index `st` -/
def Al : Nat → Toks → Prop
  | _, [] => True
  | st, t :: r => t.idx = st ∧ (∃ tk, c.g.all[st]? = some tk ∧ tk.ty = t.ty) ∧ Al (st + 1) r

theorem leadStart_nc : ∀ (fuel i : Nat), leadStart c.g fuel i = i
  | 0, i => rfl
  | fuel + 1, i => by
    simp only [leadStart]
    by_cases h0 : i = 0
    · simp [h0]
    · have : (i == 0) = false := by simpa using h0
      simp only [this, Bool.false_eq_true, if_false]
      cases h : c.g.all[i - 1]? with
      | none => rfl
      | some t =>
        have := c.nc _ _ h
        have hk : (t.kind == Kind.Comment) = false := by simpa using this
        simp [hk]

theorem lead_nc (i : Nat) : lead c.g i = i := leadStart_nc c _ _

theorem mkInfo_nc (a b : Nat) : mkInfo c.g a b = { range := ⟨a, b + 1⟩ } := by simp [mkInfo, lead_nc]

/-- types of the tokens `a … b-1` -/
def tysOf (a b : Nat) : List TokenType := ((c.g.all.extract a b).toList).map (·.ty)

theorem tysOf_split (a b d : Nat) (h1 : a ≤ b) (h2 : b ≤ d) : tysOf c a d = tysOf c a b ++ tysOf c b d := by
  simp only [tysOf, ← List.map_append, ← Array.toList_append]
  congr 2
  rw [Array.extract_append_extract]
  simp [Nat.min_eq_left h1, Nat.max_eq_right h2]

theorem tysOf_one (i : Nat) (t : Token) (h : c.g.all[i]? = some t) : tysOf c i (i + 1) = [t.ty] := by
  obtain ⟨hi, e⟩ := Array.getElem?_eq_some_iff.mp h
  simp only [tysOf]
  have : (c.g.all.extract i (i + 1)).toList = [t] := by
    apply List.ext_getElem
    · simp; omega
    · intro k h1 h2
      simp at h1
      have : k = 0 := by omega
      subst this
      simp [e]
  rw [this]; rfl

theorem tysOf_empty (i : Nat) : tysOf c i i = [] := by simp [tysOf]

/-! ### slices -/

/-- a slice `&tokens[lo..]` of the whole array -/
structure SOK (S : Slice) : Prop where
  toks : S.toks = c.g.all
  hi : S.hi = c.g.all.size
  le : S.lo ≤ S.hi

theorem from_ok {S : Slice} (h : SOK c S) (a : Nat) (ha : S.lo + a ≤ c.g.all.size) :
    ∃ S', from' S a = .ok S' ∧ SOK c S' ∧ S'.lo = S.lo + a := by
  have : S.lo + a ≤ S.hi := by rw [h.hi]; exact ha
  refine ⟨⟨S.toks, S.lo + a, S.hi⟩, by simp [from', Slice.from, this], ⟨h.toks, h.hi, this⟩, rfl⟩

theorem sub_one {S : Slice} (h : SOK c S) (i : Nat) (t : Token) (hi : S.lo ≤ i) (ht : c.g.all[i]? = some t) :
    ∃ S', sub S ⟨i - S.lo, i + 1 - S.lo⟩ = .ok S' ∧ S'.toList = [t] := by
  obtain ⟨hlt, e⟩ := Array.getElem?_eq_some_iff.mp ht
  have h1 : i - S.lo ≤ i + 1 - S.lo := by omega
  have h2 : S.lo + (i + 1 - S.lo) ≤ S.hi := by rw [h.hi]; omega
  refine ⟨⟨S.toks, S.lo + (i - S.lo), S.lo + (i + 1 - S.lo)⟩, by simp [sub, Slice.sub, h1, h2], ?_⟩
  simp only [Slice.toList, h.toks]
  have e1 : S.lo + (i - S.lo) = i := by omega
  have e2 : S.lo + (i + 1 - S.lo) = i + 1 := by omega
  rw [e1, e2]
  apply List.ext_getElem
  · simp; omega
  · intro k h1 h2
    simp at h1
    have : k = 0 := by omega
    subst this
    simp [e]

/-! ### what is proved of every derived expression -/

/-- The formatter prints the (relativised) expression from every enclosing slice, and the printed text is a piece
    for the types of the expression's own tokens. -/
def EGood (e : Expr) (sp : Span) : Prop :=
  sp.first ≤ sp.last ∧ sp.last < c.g.all.size ∧ e.info.range.lo = sp.first ∧
  ∀ S : Slice, SOK c S → S.lo ≤ sp.first →
    ∃ s, fmtExpr S (relExpr S.lo e) = .ok s ∧ PDel s (tysOf c sp.first (sp.last + 1)) ∧ NoNL s ∧ s ≠ []

def VGood (v : Var) (sp : Span) : Prop :=
  sp.first ≤ sp.last ∧ sp.last < c.g.all.size ∧ v.info.range.lo = sp.first ∧
  ∀ S : Slice, SOK c S → S.lo ≤ sp.first →
    ∃ s, fmtVar S (relVar S.lo v) = .ok s ∧ PDel s (tysOf c sp.first (sp.last + 1)) ∧ NoNL s ∧ s ≠ []

/-- the blank-separated operator between two operands -/
theorem op_piece (ty : TokenType) (op : Operator)
    (h : relop ty.kind = some op ∨ addop ty.kind = some op ∨ mulop ty.kind = some op) :
    PAny (' ' :: op.symbol ++ [' ']) [ty] ∧ NoNL (' ' :: op.symbol ++ [' ']) := by
  have sp : ∀ (s : List Char) (t : TokenType), PAny s [t] → PAny (' ' :: s) [t] := fun s t hs => by
    have := pany_seq (C := fun _ => True) p_space hs
    simpa using this
  have bl : ∀ {ch : Char} {t : TokenType}, PAny [ch] [t] → PAny [ch, ' '] [t] := fun hs => by
    have := pany_seq (C := fun _ => True) hs p_space
    simpa using this
  cases ty <;> simp [relop, addop, mulop, TokenType.kind] at h <;> subst h
  · exact ⟨sp _ _ (bl p_eq), by intro x hx; simp [Operator.symbol] at hx; rcases hx with rfl | rfl | rfl <;> decide⟩
  · exact ⟨sp _ _ (bl p_neq), by intro x hx; simp [Operator.symbol] at hx; rcases hx with rfl | rfl | rfl <;> decide⟩
  · exact ⟨sp _ _ p_lt, by intro x hx; simp [Operator.symbol] at hx; rcases hx with rfl | rfl | rfl <;> decide⟩
  · exact ⟨sp _ _ p_le, by intro x hx; simp [Operator.symbol] at hx; rcases hx with rfl | rfl | rfl | rfl <;> decide⟩
  · exact ⟨sp _ _ p_gt, by intro x hx; simp [Operator.symbol] at hx; rcases hx with rfl | rfl | rfl <;> decide⟩
  · exact ⟨sp _ _ p_ge, by intro x hx; simp [Operator.symbol] at hx; rcases hx with rfl | rfl | rfl | rfl <;> decide⟩
  · exact ⟨sp _ _ (bl p_plus), by intro x hx; simp [Operator.symbol] at hx; rcases hx with rfl | rfl | rfl <;> decide⟩
  · exact ⟨sp _ _ (bl p_minus), by intro x hx; simp [Operator.symbol] at hx; rcases hx with rfl | rfl | rfl <;> decide⟩
  · exact ⟨sp _ _ (bl p_times), by intro x hx; simp [Operator.symbol] at hx; rcases hx with rfl | rfl | rfl <;> decide⟩
  · exact ⟨sp _ _ p_divide, by intro x hx; simp [Operator.symbol] at hx; rcases hx with rfl | rfl | rfl <;> decide⟩


theorem startsDelim_space (s : List Char) : StartsDelim (' ' :: s) := ⟨' ', s, rfl, by decide⟩

theorem binary_good (op : Operator) (l rh : Expr) (sl sr : Span) (tk : Token)
    (hl : EGood c l sl) (htk : c.g.all[sl.last + 1]? = some tk)
    (hop : relop tk.ty.kind = some op ∨ addop tk.ty.kind = some op ∨ mulop tk.ty.kind = some op)
    (hr : EGood c rh sr) (hsr : sr.first = sl.last + 2) :
    EGood c (.binary op l rh (mkInfo c.g sl.first sr.last)) ⟨sl.first, sr.last⟩ := by
  obtain ⟨l1, l2, l3, l4⟩ := hl
  obtain ⟨r1, r2, r3, r4⟩ := hr
  refine ⟨by dsimp only; omega, r2, by simp [Expr.info, mkInfo_nc], ?_⟩
  intro S hS hlo
  dsimp only at hlo
  obtain ⟨ls, e1, p1, n1, ne1⟩ := l4 S hS hlo
  obtain ⟨rs, e2, p2, n2, ne2⟩ := r4 S hS (by omega)
  obtain ⟨po, no⟩ := op_piece tk.ty op hop
  refine ⟨ls ++ [' '] ++ op.symbol ++ [' '] ++ rs, by simp [relExpr, fmtExpr, e1, e2], ?_, ?_, by simp [ne1]⟩
  · have hty : tysOf c sl.first (sr.last + 1) =
        tysOf c sl.first (sl.last + 1) ++ ([tk.ty] ++ tysOf c sr.first (sr.last + 1)) := by
      rw [tysOf_split c sl.first (sl.last + 1) (sr.last + 1) (by omega) (by omega),
        tysOf_split c (sl.last + 1) (sl.last + 2) (sr.last + 1) (by omega) (by omega),
        tysOf_one c (sl.last + 1) tk htk, hsr]
    have hstr : ls ++ [' '] ++ op.symbol ++ [' '] ++ rs = ls ++ ((' ' :: op.symbol ++ [' ']) ++ rs) := by simp
    dsimp only
    rw [hty, hstr]
    exact pdel_seq p1 (by simpa using startsDelim_space _) (pany_seq po p2)
  · have hstr : ls ++ [' '] ++ op.symbol ++ [' '] ++ rs = ls ++ ((' ' :: op.symbol ++ [' ']) ++ rs) := by simp
    rw [hstr]
    exact noNL_append n1 (noNL_append no n2)

/-- conformance of the printed text for all expression functions of the specification at fuel `fs` -/
structure Conf (fs : Nat) : Prop where
  expr : ∀ ts e sp rest st, expr c.g fs ts = some (e, sp, rest) → Al c st ts →
    EGood c e sp ∧ sp.first = st ∧ Al c (sp.last + 1) rest
  add : ∀ ts e sp rest st, add c.g fs ts = some (e, sp, rest) → Al c st ts →
    EGood c e sp ∧ sp.first = st ∧ Al c (sp.last + 1) rest
  addRest : ∀ ts l sl e sp rest, addRest c.g fs l sl ts = some (e, sp, rest) → EGood c l sl → Al c (sl.last + 1) ts →
    EGood c e sp ∧ sp.first = sl.first ∧ Al c (sp.last + 1) rest
  mul : ∀ ts e sp rest st, mul c.g fs ts = some (e, sp, rest) → Al c st ts →
    EGood c e sp ∧ sp.first = st ∧ Al c (sp.last + 1) rest
  mulRest : ∀ ts l sl e sp rest, mulRest c.g fs l sl ts = some (e, sp, rest) → EGood c l sl → Al c (sl.last + 1) ts →
    EGood c e sp ∧ sp.first = sl.first ∧ Al c (sp.last + 1) rest
  factor : ∀ ts e sp rest st, factor c.g fs ts = some (e, sp, rest) → Al c st ts →
    EGood c e sp ∧ sp.first = st ∧ Al c (sp.last + 1) rest
  varAccess : ∀ ts v sp rest st, varAccess c.g fs ts = some (v, sp, rest) → Al c st ts →
    VGood c v sp ∧ sp.first = st ∧ Al c (sp.last + 1) rest
  accesses : ∀ ts v sv vf sp rest, accesses c.g fs v sv ts = some (vf, sp, rest) → VGood c v sv → Al c (sv.last + 1) ts →
    VGood c vf sp ∧ sp.first = sv.first ∧ Al c (sp.last + 1) rest

theorem expr_conf {fs : Nat} (ih : Conf c fs) :
    ∀ ts e sp rest st, expr c.g (fs + 1) ts = some (e, sp, rest) → Al c st ts →
    EGood c e sp ∧ sp.first = st ∧ Al c (sp.last + 1) rest := by
  intro ts e sp rest st hs hal
  simp only [Grammar.expr] at hs
  cases ha : add c.g fs ts with
  | none => simp [ha] at hs
  | some res =>
    obtain ⟨l, sl, r⟩ := res
    obtain ⟨gl, fl, al⟩ := ih.add ts l sl r st ha hal
    simp only [ha] at hs
    cases r with
    | nil => simp only [Option.some.injEq, Prod.mk.injEq] at hs; obtain ⟨rfl, rfl, rfl⟩ := hs; exact ⟨gl, fl, al⟩
    | cons t r1 =>
      simp only at hs
      cases hop : relop t.ty.kind with
      | none => simp only [hop, Option.some.injEq, Prod.mk.injEq] at hs; obtain ⟨rfl, rfl, rfl⟩ := hs; exact ⟨gl, fl, al⟩
      | some op =>
        simp only [hop] at hs
        obtain ⟨hidx, ⟨tk, htk, hty⟩, al1⟩ := al
        cases hr : add c.g fs r1 with
        | none => simp [hr] at hs
        | some res2 =>
          obtain ⟨rh, sr, r2⟩ := res2
          simp only [hr, Option.some.injEq, Prod.mk.injEq] at hs
          obtain ⟨rfl, rfl, rfl⟩ := hs
          obtain ⟨gr, fr, ar⟩ := ih.add r1 rh sr r2 (sl.last + 1 + 1) hr al1
          exact ⟨binary_good c op l rh sl sr tk gl htk (Or.inl (by rw [hty]; exact hop)) gr fr, fl, ar⟩

theorem rest_conf {fs : Nat} (opOf : Kind → Option Operator)
    (hopOf : ∀ k op, opOf k = some op → relop k = some op ∨ addop k = some op ∨ mulop k = some op)
    (restF : Nat → Expr → Span → Toks → Option (Expr × Span × Toks))
    (operand : Nat → Toks → Option (Expr × Span × Toks))
    (hunf : ∀ l sl ts, restF (fs + 1) l sl ts =
      match ts with
      | t :: r1 =>
        match opOf t.ty.kind with
        | some op =>
          match operand fs r1 with
          | some (rh, sr, r2) => restF fs (.binary op l rh (mkInfo c.g sl.first sr.last)) ⟨sl.first, sr.last⟩ r2
          | none => none
        | none => some (l, sl, ts)
      | [] => some (l, sl, ts))
    (ihOperand : ∀ ts e sp rest st, operand fs ts = some (e, sp, rest) → Al c st ts →
      EGood c e sp ∧ sp.first = st ∧ Al c (sp.last + 1) rest)
    (ihRest : ∀ ts l sl e sp rest, restF fs l sl ts = some (e, sp, rest) → EGood c l sl → Al c (sl.last + 1) ts →
      EGood c e sp ∧ sp.first = sl.first ∧ Al c (sp.last + 1) rest) :
    ∀ ts l sl e sp rest, restF (fs + 1) l sl ts = some (e, sp, rest) → EGood c l sl → Al c (sl.last + 1) ts →
      EGood c e sp ∧ sp.first = sl.first ∧ Al c (sp.last + 1) rest := by
  intro ts l sl e sp rest hs gl al
  rw [hunf] at hs
  cases ts with
  | nil => simp only [Option.some.injEq, Prod.mk.injEq] at hs; obtain ⟨rfl, rfl, rfl⟩ := hs; exact ⟨gl, rfl, al⟩
  | cons t r1 =>
    simp only at hs
    cases hop : opOf t.ty.kind with
    | none => simp only [hop, Option.some.injEq, Prod.mk.injEq] at hs; obtain ⟨rfl, rfl, rfl⟩ := hs; exact ⟨gl, rfl, al⟩
    | some op =>
      simp only [hop] at hs
      obtain ⟨hidx, ⟨tk, htk, hty⟩, al1⟩ := al
      cases hr : operand fs r1 with
      | none => simp [hr] at hs
      | some res2 =>
        obtain ⟨rh, sr, r2⟩ := res2
        simp only [hr] at hs
        obtain ⟨gr, fr, ar⟩ := ihOperand r1 rh sr r2 (sl.last + 1 + 1) hr al1
        have gb := binary_good c op l rh sl sr tk gl htk (hopOf _ _ (by rw [hty]; exact hop)) gr fr
        obtain ⟨g2, f2, a2⟩ := ihRest r2 _ _ e sp rest hs gb ar
        exact ⟨g2, f2, a2⟩


theorem add_conf {fs : Nat} (ih : Conf c fs) :
    ∀ ts e sp rest st, add c.g (fs + 1) ts = some (e, sp, rest) → Al c st ts →
    EGood c e sp ∧ sp.first = st ∧ Al c (sp.last + 1) rest := by
  intro ts e sp rest st hs hal
  simp only [Grammar.add] at hs
  cases ha : mul c.g fs ts with
  | none => simp [ha] at hs
  | some res =>
    obtain ⟨l, sl, r⟩ := res
    obtain ⟨gl, fl, al⟩ := ih.mul ts l sl r st ha hal
    simp only [ha] at hs
    obtain ⟨g2, f2, a2⟩ := ih.addRest r l sl e sp rest hs gl al
    exact ⟨g2, by omega, a2⟩

theorem mul_conf {fs : Nat} (ih : Conf c fs) :
    ∀ ts e sp rest st, mul c.g (fs + 1) ts = some (e, sp, rest) → Al c st ts →
    EGood c e sp ∧ sp.first = st ∧ Al c (sp.last + 1) rest := by
  intro ts e sp rest st hs hal
  simp only [Grammar.mul] at hs
  cases ha : factor c.g fs ts with
  | none => simp [ha] at hs
  | some res =>
    obtain ⟨l, sl, r⟩ := res
    obtain ⟨gl, fl, al⟩ := ih.factor ts l sl r st ha hal
    simp only [ha] at hs
    obtain ⟨g2, f2, a2⟩ := ih.mulRest r l sl e sp rest hs gl al
    exact ⟨g2, by omega, a2⟩

theorem addRest_conf {fs : Nat} (ih : Conf c fs) :
    ∀ ts l sl e sp rest, addRest c.g (fs + 1) l sl ts = some (e, sp, rest) → EGood c l sl → Al c (sl.last + 1) ts →
      EGood c e sp ∧ sp.first = sl.first ∧ Al c (sp.last + 1) rest :=
  rest_conf c addop (fun _ _ h => Or.inr (Or.inl h)) (addRest c.g) (mul c.g)
    (by intro l sl ts; simp only [Grammar.addRest]; rfl) ih.mul ih.addRest

theorem mulRest_conf {fs : Nat} (ih : Conf c fs) :
    ∀ ts l sl e sp rest, mulRest c.g (fs + 1) l sl ts = some (e, sp, rest) → EGood c l sl → Al c (sl.last + 1) ts →
      EGood c e sp ∧ sp.first = sl.first ∧ Al c (sp.last + 1) rest :=
  rest_conf c mulop (fun _ _ h => Or.inr (Or.inr h)) (mulRest c.g) (factor c.g)
    (by intro l sl ts; simp only [Grammar.mulRest]; rfl) ih.factor ih.mulRest

theorem kind_plain {ty : TokenType} {k : Kind} {p : TokenType} (hp : k.plain = some p) (h : ty.kind = k) : ty = p := by
  cases ty <;> simp [TokenType.kind] at h <;> subst h <;> simp [Kind.plain] at hp <;> exact hp

theorem expectK_al {k : Kind} {p : TokenType} (hp : k.plain = some p) {ts r : Toks} {j st : Nat}
    (h : expectK k ts = some (j, r)) (hal : Al c st ts) :
    j = st ∧ (∃ tk, c.g.all[st]? = some tk ∧ tk.ty = p) ∧ Al c (st + 1) r := by
  cases ts with
  | nil => simp [expectK] at h
  | cons t r' =>
    simp only [expectK] at h
    by_cases hk : (t.ty.kind == k) = true
    · simp only [hk, if_true, Option.some.injEq, Prod.mk.injEq] at h
      obtain ⟨rfl, rfl⟩ := h
      obtain ⟨hidx, ⟨tk, htk, hty⟩, al1⟩ := hal
      exact ⟨hidx, ⟨tk, htk, by rw [hty]; exact kind_plain hp (by simpa using hk)⟩, al1⟩
    · simp [hk] at h

theorem unary_good (e : Expr) (se : Span) (i : Nat) (tk : Token) (htk : c.g.all[i]? = some tk) (hty : tk.ty = .Minus)
    (he : EGood c e se) (hse : se.first = i + 1) : EGood c (.unary .Sub e (mkInfo c.g i se.last)) ⟨i, se.last⟩ := by
  obtain ⟨r1, r2, r3, r4⟩ := he
  refine ⟨by dsimp only; omega, r2, by simp [Expr.info, mkInfo_nc], ?_⟩
  intro S hS hlo
  dsimp only at hlo
  obtain ⟨rs, e2, p2, n2, ne2⟩ := r4 S hS (by omega)
  refine ⟨['-'] ++ rs, by simp [relExpr, fmtExpr, e2, Operator.symbol, Except.map], ?_, ?_, by simp⟩
  · have hty' : tysOf c i (se.last + 1) = [TokenType.Minus] ++ tysOf c se.first (se.last + 1) := by
      rw [tysOf_split c i (i + 1) (se.last + 1) (by omega) (by omega), tysOf_one c i tk htk, hty, hse]
    dsimp only
    rw [hty']
    exact pany_seq p_minus p2
  · exact noNL_append (by intro x hx; simp at hx; subst hx; decide) n2

theorem bracketed_good (e : Expr) (se : Span) (i : Nat) (tk tk2 : Token) (htk : c.g.all[i]? = some tk)
    (hty : tk.ty = .LParen) (he : EGood c e se) (hse : se.first = i + 1)
    (htk2 : c.g.all[se.last + 1]? = some tk2) (hty2 : tk2.ty = .RParen) :
    EGood c (.bracketed e (mkInfo c.g i (se.last + 1))) ⟨i, se.last + 1⟩ := by
  obtain ⟨r1, r2, r3, r4⟩ := he
  have hsz := (Array.getElem?_eq_some_iff.mp htk2).1
  refine ⟨by dsimp only; omega, hsz, by simp [Expr.info, mkInfo_nc], ?_⟩
  intro S hS hlo
  dsimp only at hlo
  obtain ⟨rs, e2, p2, n2, ne2⟩ := r4 S hS (by omega)
  refine ⟨['('] ++ rs ++ [')'], by simp [relExpr, fmtExpr, e2, Except.map], ?_, ?_, by simp⟩
  · have hty' : tysOf c i (se.last + 1 + 1) =
        [TokenType.LParen] ++ (tysOf c se.first (se.last + 1) ++ [TokenType.RParen]) := by
      rw [tysOf_split c i (i + 1) (se.last + 1 + 1) (by omega) (by omega), tysOf_one c i tk htk, hty,
        tysOf_split c (i + 1) (se.last + 1) (se.last + 1 + 1) (by omega) (by omega),
        tysOf_one c (se.last + 1) tk2 htk2, hty2, hse]
    dsimp only
    rw [hty', List.append_assoc]
    exact pany_pdel (pany_seq p_lparen (pdel_seq p2 ⟨')', [], rfl, by decide⟩ p_rparen))
  · exact noNL_append (noNL_append (by intro x hx; simp at hx; subst hx; decide) n2)
      (by intro x hx; simp at hx; subst hx; decide)

theorem lit_good (i : Nat) (tk : Token) (v : Option Nat) (htk : c.g.all[i]? = some tk)
    (hk : tk.ty.kind = .Int ∨ tk.ty.kind = .Hex ∨ tk.ty.kind = .Char) :
    EGood c (.intLit { value := v, info := mkInfo c.g i i }) ⟨i, i⟩ := by
  have hsz := (Array.getElem?_eq_some_iff.mp htk).1
  refine ⟨Nat.le_refl _, hsz, by simp [Expr.info, mkInfo_nc], ?_⟩
  intro S hS hlo
  dsimp only at hlo
  obtain ⟨S', es, el⟩ := sub_one c hS i tk hlo htk
  obtain ⟨pd, nn, ne⟩ := p_display tk.ty (c.wf i tk htk) (Or.inr hk)
  have hfind : [tk].find? (fun t => t.kind == .Int || t.kind == .Hex || t.kind == .Char) = some tk := by
    have : (tk.kind == Kind.Int || tk.kind == Kind.Hex || tk.kind == Kind.Char) = true := by
      simp only [Token.kind]
      rcases hk with h | h | h <;> simp [h]
    simp [List.find?, this]
  refine ⟨Parse.displayToken tk.ty, ?_, ?_, nn, ne⟩
  · simp only [relExpr, relIntLit, relInfo, mkInfo_nc, fmtExpr, fmtIntLit, es, el, hfind]
  · dsimp only
    rw [tysOf_one c i tk htk]
    exact pd


theorem var_expr_good (v : Var) (sp : Span) (h : VGood c v sp) : EGood c (.var v) sp := by
  obtain ⟨r1, r2, r3, r4⟩ := h
  refine ⟨r1, r2, by simpa [Expr.info] using r3, ?_⟩
  intro S hS hlo
  obtain ⟨s, e, p, n, ne⟩ := r4 S hS hlo
  exact ⟨s, by simpa [relExpr, fmtExpr] using e, p, n, ne⟩

theorem factor_conf {fs : Nat} (ih : Conf c fs) :
    ∀ ts e sp rest st, factor c.g (fs + 1) ts = some (e, sp, rest) → Al c st ts →
    EGood c e sp ∧ sp.first = st ∧ Al c (sp.last + 1) rest := by
  intro ts e sp rest st hs hal
  cases ts with
  | nil => simp [Grammar.factor, intLitTok] at hs
  | cons t r =>
    obtain ⟨i, tty⟩ := t
    have hal0 := hal
    obtain ⟨hidx, ⟨tk, htk, hty⟩, al1⟩ := hal
    dsimp only at hidx hty
    subst hidx
    cases tty with
    | Minus =>
      simp only [Grammar.factor] at hs
      cases hf : factor c.g fs r with
      | none => simp [hf] at hs
      | some res =>
        obtain ⟨e1, se, r1⟩ := res
        simp only [hf, Option.some.injEq, Prod.mk.injEq] at hs
        obtain ⟨rfl, rfl, rfl⟩ := hs
        obtain ⟨ge, fe, ae⟩ := ih.factor r e1 se r1 (i + 1) hf al1
        exact ⟨unary_good c e1 se i tk htk hty ge fe, rfl, ae⟩
    | LParen =>
      simp only [Grammar.factor] at hs
      cases hf : expr c.g fs r with
      | none => simp [hf] at hs
      | some res =>
        obtain ⟨e1, se, r1⟩ := res
        simp only [hf] at hs
        obtain ⟨ge, fe, ae⟩ := ih.expr r e1 se r1 (i + 1) hf al1
        cases hx : expectK .RParen r1 with
        | none => simp [hx] at hs
        | some res2 =>
          obtain ⟨j, r2⟩ := res2
          simp only [hx, Option.some.injEq, Prod.mk.injEq] at hs
          obtain ⟨rfl, rfl, rfl⟩ := hs
          obtain ⟨hj, ⟨tk2, htk2, hty2⟩, a2⟩ := expectK_al c (p := .RParen) rfl hx ae
          subst hj
          exact ⟨bracketed_good c e1 se i tk tk2 htk hty ge fe htk2 hty2, rfl, a2⟩
    | Ident s =>
      simp only [Grammar.factor] at hs
      cases hv : varAccess c.g fs (⟨i, .Ident s⟩ :: r) with
      | none => simp [hv] at hs
      | some res =>
        obtain ⟨v, sv, r'⟩ := res
        simp only [hv, Option.some.injEq, Prod.mk.injEq] at hs
        obtain ⟨rfl, rfl, rfl⟩ := hs
        obtain ⟨gv, fv, av⟩ := ih.varAccess _ v sv r' i hv hal0
        exact ⟨var_expr_good c v sv gv, fv, av⟩
    | Int iv =>
      cases iv with
      | Int v =>
        simp only [Grammar.factor, intLitTok, Option.some.injEq, Prod.mk.injEq] at hs
        obtain ⟨rfl, rfl, rfl⟩ := hs
        exact ⟨lit_good c i tk (some v) htk (Or.inl (by rw [hty]; rfl)), rfl, al1⟩
      | Err _ => simp [Grammar.factor, intLitTok] at hs
    | Hex iv =>
      cases iv with
      | Int v =>
        simp only [Grammar.factor, intLitTok, Option.some.injEq, Prod.mk.injEq] at hs
        obtain ⟨rfl, rfl, rfl⟩ := hs
        exact ⟨lit_good c i tk (some v) htk (Or.inr (Or.inl (by rw [hty]; rfl))), rfl, al1⟩
      | Err _ => simp [Grammar.factor, intLitTok] at hs
    | Char ch =>
      simp only [Grammar.factor, intLitTok] at hs
      by_cases hc : ch.toNat < 256
      · simp only [hc, if_true, Option.some.injEq, Prod.mk.injEq] at hs
        obtain ⟨rfl, rfl, rfl⟩ := hs
        exact ⟨lit_good c i tk (some ch.toNat) htk (Or.inr (Or.inr (by rw [hty]; rfl))), rfl, al1⟩
      · simp [hc] at hs
    | _ => simp [Grammar.factor, intLitTok] at hs

theorem named_good (i : Nat) (s : List Char) (tk : Token) (htk : c.g.all[i]? = some tk) (hty : tk.ty = .Ident s) :
    VGood c (.named (mkIdent c.g i s)) ⟨i, i⟩ := by
  have hsz := (Array.getElem?_eq_some_iff.mp htk).1
  refine ⟨Nat.le_refl _, hsz, by simp [Var.info, mkIdent, mkInfo_nc], ?_⟩
  intro S hS hlo
  obtain ⟨pd, nn, ne⟩ := p_display tk.ty (c.wf i tk htk) (Or.inl (by rw [hty]; rfl))
  rw [hty] at pd nn ne
  refine ⟨s, by simp [relVar, relIdent, mkIdent, fmtVar], ?_, nn, ne⟩
  dsimp only
  rw [tysOf_one c i tk htk, hty]
  exact pd

theorem access_good (v : Var) (sv : Span) (e : Expr) (se : Span) (tk tk2 : Token) (off : Nat)
    (hv : VGood c v sv) (htk : c.g.all[sv.last + 1]? = some tk) (hty : tk.ty = .LBracket)
    (he : EGood c e se) (hse : se.first = sv.last + 2)
    (htk2 : c.g.all[se.last + 1]? = some tk2) (hty2 : tk2.ty = .RBracket) :
    VGood c (.access v (.some e off) (mkInfo c.g sv.first (se.last + 1))) ⟨sv.first, se.last + 1⟩ := by
  obtain ⟨l1, l2, l3, l4⟩ := hv
  obtain ⟨r1, r2, r3, r4⟩ := he
  have hsz := (Array.getElem?_eq_some_iff.mp htk2).1
  refine ⟨by dsimp only; omega, hsz, by simp [Var.info, mkInfo_nc], ?_⟩
  intro S hS hlo
  dsimp only at hlo
  obtain ⟨vs, e1, p1, n1, ne1⟩ := l4 S hS hlo
  obtain ⟨S', ef, hS', hlo'⟩ := from_ok c hS (e.info.range.lo - S.lo) (by rw [r3]; omega)
  have hlo'' : S'.lo = e.info.range.lo := by rw [hlo', r3]; omega
  obtain ⟨is, e2, p2, n2, ne2⟩ := r4 S' hS' (by rw [hlo'', r3]; exact Nat.le_refl _)
  rw [hlo''] at e2
  refine ⟨vs ++ ['['] ++ is ++ [']'], ?_, ?_, ?_, by simp [ne1]⟩
  · simp only [relVar, relOptExpr, fmtVar, fmtOptExpr, ef, e2, e1]
  · have hty' : tysOf c sv.first (se.last + 1 + 1) =
        tysOf c sv.first (sv.last + 1) ++ ([TokenType.LBracket] ++ (tysOf c se.first (se.last + 1) ++ [TokenType.RBracket])) := by
      rw [tysOf_split c sv.first (sv.last + 1) (se.last + 1 + 1) (by omega) (by omega),
        tysOf_split c (sv.last + 1) (sv.last + 2) (se.last + 1 + 1) (by omega) (by omega),
        tysOf_one c (sv.last + 1) tk htk, hty,
        tysOf_split c (sv.last + 2) (se.last + 1) (se.last + 1 + 1) (by omega) (by omega),
        tysOf_one c (se.last + 1) tk2 htk2, hty2, hse]
    have hstr : vs ++ ['['] ++ is ++ [']'] = vs ++ (['['] ++ (is ++ [']'])) := by simp
    dsimp only
    rw [hty', hstr]
    exact pany_pdel (pdel_seq p1 ⟨'[', _, rfl, by decide⟩ (pany_seq p_lbracket (pdel_seq p2 ⟨']', [], rfl, by decide⟩ p_rbracket)))
  · have hstr : vs ++ ['['] ++ is ++ [']'] = vs ++ (['['] ++ (is ++ [']'])) := by simp
    rw [hstr]
    exact noNL_append n1 (noNL_append (by intro x hx; simp at hx; subst hx; decide)
      (noNL_append n2 (by intro x hx; simp at hx; subst hx; decide)))

theorem varAccess_conf {fs : Nat} (ih : Conf c fs) :
    ∀ ts v sp rest st, varAccess c.g (fs + 1) ts = some (v, sp, rest) → Al c st ts →
    VGood c v sp ∧ sp.first = st ∧ Al c (sp.last + 1) rest := by
  intro ts v sp rest st hs hal
  simp only [Grammar.varAccess] at hs
  cases ts with
  | nil => simp [identTok] at hs
  | cons t r =>
    obtain ⟨ti, tty⟩ := t
    obtain ⟨hidx, ⟨tk, htk, hty⟩, al1⟩ := hal
    dsimp only at hidx hty
    subst hidx
    cases tty with
    | Ident s =>
      simp only [identTok] at hs
      obtain ⟨g2, f2, a2⟩ := ih.accesses r _ ⟨ti, ti⟩ v sp rest hs (named_good c ti s tk htk hty) al1
      exact ⟨g2, f2, a2⟩
    | _ => simp [identTok] at hs

theorem accesses_conf {fs : Nat} (ih : Conf c fs) :
    ∀ ts v sv vf sp rest, accesses c.g (fs + 1) v sv ts = some (vf, sp, rest) → VGood c v sv → Al c (sv.last + 1) ts →
    VGood c vf sp ∧ sp.first = sv.first ∧ Al c (sp.last + 1) rest := by
  intro ts v sv vf sp rest hs gv hal
  simp only [Grammar.accesses] at hs
  split at hs
  · rename_i i r
    obtain ⟨hidx, ⟨tk, htk, hty⟩, al1⟩ := hal
    dsimp only at hidx hty
    cases hf : expr c.g fs r with
    | none => simp [hf] at hs
    | some res =>
      obtain ⟨e1, se, r1⟩ := res
      simp only [hf] at hs
      obtain ⟨ge, fe, ae⟩ := ih.expr r e1 se r1 (sv.last + 1 + 1) hf al1
      cases hx : expectK .RBracket r1 with
      | none => simp [hx] at hs
      | some res2 =>
        obtain ⟨j, r2⟩ := res2
        simp only [hx] at hs
        obtain ⟨hj, ⟨tk2, htk2, hty2⟩, a2⟩ := expectK_al c (p := .RBracket) rfl hx ae
        subst hj
        have ga := access_good c v sv e1 se tk tk2 0 gv htk hty ge fe htk2 hty2
        obtain ⟨g3, f3, a3⟩ := ih.accesses r2 _ _ vf sp rest hs ga a2
        exact ⟨g3, f3, a3⟩
  · simp only [Option.some.injEq, Prod.mk.injEq] at hs
    obtain ⟨rfl, rfl, rfl⟩ := hs
    exact ⟨gv, rfl, hal⟩

theorem conf_all : ∀ fs, Conf c fs
  | 0 => by
    constructor
    · intro ts e sp rest st hs; simp [Grammar.expr] at hs
    · intro ts e sp rest st hs; simp [Grammar.add] at hs
    · intro ts l sl e sp rest hs; simp [Grammar.addRest] at hs
    · intro ts e sp rest st hs; simp [Grammar.mul] at hs
    · intro ts l sl e sp rest hs; simp [Grammar.mulRest] at hs
    · intro ts e sp rest st hs; simp [Grammar.factor] at hs
    · intro ts v sp rest st hs; simp [Grammar.varAccess] at hs
    · intro ts v sv vf sp rest hs; simp [Grammar.accesses] at hs
  | fs + 1 => by
    have ih := conf_all fs
    exact ⟨expr_conf c ih, add_conf c ih, addRest_conf c ih, mul_conf c ih, mulRest_conf c ih,
      factor_conf c ih, varAccess_conf c ih, accesses_conf c ih⟩

/-- **C09 for expressions.**  For every expression that the grammar specification derives (any fuel) from a
    comment-free sequence of well-formed tokens, the formatter prints — from every enclosing token slice — a text
    without line breaks which, in front of any delimiter and any tokenisable remainder, tokenises into exactly the
    types of the tokens the expression was derived from. -/
theorem expression_format_lexes {fs : Nat} {ts rest : Toks} {e : Expr} {sp : Span} {st : Nat}
    (hs : expr c.g fs ts = some (e, sp, rest)) (hal : Al c st ts) :
    EGood c e sp ∧ sp.first = st ∧ Al c (sp.last + 1) rest :=
  (conf_all c fs).expr ts e sp rest st hs hal

end Spl.FmtExpr
