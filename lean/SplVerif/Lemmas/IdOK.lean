/-
  Lemmas for C02: every identifier node the (fresh) parser produces covers at least one token — whatever the tokens
  are.  `ValA p Q`: whenever parser `p` succeeds, in whatever state, its value satisfies `Q`.  No fuel or state
  invariant is needed: `utility::info` itself refuses to measure a range in front of the reference position, and a
  token parser that succeeds has moved on.
-/
import SplVerif.Lemmas.Total
import SplVerif.Lemmas.Analyze

namespace Spl.IdOK
open Spl Spl.Parse Spl.Total Spl.AnalyzeTotal

variable (ctx : Ctx)

def ValA {α} (p : P α) (Q : α → Prop) : Prop := ∀ s s' a, p s = .ok s' a → Q a

theorem valA_pure {α} (a : α) (Q : α → Prop) (h : Q a) : ValA (pure' a) Q := by
  intro s s' b hb; cases hb; exact h

theorem valA_bind {α β} {p : P α} {f : α → P β} {Qa : α → Prop} {Q : β → Prop} (hp : ValA p Qa)
    (hf : ∀ a, Qa a → ValA (f a) Q) : ValA (Parse.bind p f) Q := by
  intro s s' b h
  obtain ⟨s1, a, h1, h2⟩ := bind_ok_inv h
  exact hf a (hp _ _ _ h1) _ _ _ h2

theorem valA_pmap {α β} {p : P α} (f : α → β) {Q : β → Prop} (hp : ValA p (fun a => Q (f a))) : ValA (pmap f p) Q := by
  intro s s' b h
  unfold pmap at h
  cases h1 : p s with
  | ok s1 a => rw [h1] at h; cases h; exact hp _ _ _ h1
  | err k x => rw [h1] at h; cases h
  | panic e => rw [h1] at h; cases h

theorem valA_alt2 {α} {p q : P α} {Q : α → Prop} (hp : ValA p Q) (hq : ValA q Q) : ValA (alt2 p q) Q := by
  intro s s' a h
  rcases alt2_ok_inv h with h1 | h1
  · exact hp _ _ _ h1
  · exact hq _ _ _ h1

theorem valA_altList {α} {Q : α → Prop} : ∀ (ps : List (P α)), (∀ p ∈ ps, ValA p Q) → ValA (altList ps) Q
  | [], _ => by intro s s' a h; cases h
  | [p], h => by simpa [altList] using h p (by simp)
  | p :: q :: ps, h => by
    simp only [altList]
    exact valA_alt2 (h p (by simp)) (valA_altList (q :: ps) (fun x hx => h x (List.mem_cons_of_mem _ hx)))

theorem valA_opt {α} {p : P α} {Q : Option α → Prop} (hp : ValA p (fun a => Q (some a))) (hn : Q none) : ValA (opt p) Q := by
  intro s s' a h
  unfold opt at h
  cases h1 : p s with
  | ok s1 x => rw [h1] at h; cases h; exact hp _ _ _ h1
  | err k x => rw [h1] at h; cases h; exact hn
  | panic e => rw [h1] at h; cases h

theorem valA_many0 {α} {p : P α} {Qe : α → Prop} (hp : ValA p Qe) : ∀ fuel, ValA (many0 p fuel) (fun l => ∀ x ∈ l, Qe x)
  | 0 => by intro s s' a h; cases h
  | fuel + 1 => by
    intro s s' l h
    simp only [many0] at h
    cases h1 : p s with
    | err k x => rw [h1] at h; cases h; intro x hx; cases hx
    | panic e => rw [h1] at h; cases h
    | ok s1 a =>
      rw [h1] at h
      simp only at h
      split at h
      · cases h
      · cases h2 : many0 p fuel s1 with
        | ok s2 as =>
          rw [h2] at h; cases h
          intro x hx
          rcases List.mem_cons.mp hx with rfl | hx
          · exact hp _ _ _ h1
          · exact valA_many0 hp fuel _ _ _ h2 x hx
        | err k x => rw [h2] at h; cases h
        | panic e => rw [h2] at h; cases h

theorem valA_info {α} {p : P α} {Qa : α → Prop} (hp : ValA p Qa) : ValA (info p) (fun r => Qa r.1) := by
  intro s s' r h
  obtain ⟨s1, h1, _⟩ := info_ok_inv h
  exact hp _ _ _ h1

theorem valA_expect {α} {parser : Option α → P α} (msg : Msg) {Qa : α → Prop} (hp : ValA (parser none) Qa) :
    ValA (Parse.expect none parser msg) (fun o => ∀ a, o = some a → Qa a) := by
  intro s s' o h
  unfold Parse.expect at h
  cases h1 : parser none s with
  | ok s1 a =>
    rw [h1] at h; cases h
    intro b hb; cases hb; exact hp _ _ _ h1
  | panic e => rw [h1] at h; cases h
  | err k s1 =>
    rw [h1] at h
    cases k with
    | true =>
      simp only at h
      cases h2 : parser none s1 with
      | ok s2 a =>
        rw [h2] at h; cases h
        intro b hb; cases hb; exact hp _ _ _ h2
      | panic e => rw [h2] at h; cases h
      | err k2 s2 =>
        rw [h2] at h
        simp only at h
        cases h3 : expectError s2 msg with
        | ok s3 x => rw [h3] at h; cases h; intro b hb; cases hb
        | err k x => rw [h3] at h; cases h
        | panic e => rw [h3] at h; cases h
    | false =>
      simp only at h
      cases h3 : expectError s1 msg with
      | ok s3 x => rw [h3] at h; cases h; intro b hb; cases hb
      | err k x => rw [h3] at h; cases h
      | panic e => rw [h3] at h; cases h

theorem valA_refParse {α} {parseT : Option α → P α} {Qa : α → Prop} (hp : ValA (parseT none) Qa) :
    ValA (refParse parseT none) (fun r => Qa r.val) := by
  intro s s' r h
  obtain ⟨s1, a, h1, _, rfl⟩ := refParse_ok_inv h
  exact hp _ _ _ h1

theorem valA_congr {α} {p q : P α} {Q : α → Prop} (e : ∀ s, p s = q s) (h : ValA q Q) : ValA p Q := by
  intro s s' a hx; rw [e] at hx; exact h _ _ _ hx

theorem valA_confusable {α} {p : P α} (msg : Msg) {Q : α → Prop} (hp : ValA p Q) : ValA (confusable p msg) Q := by
  intro s s' a h
  unfold confusable at h
  cases h1 : info p s with
  | ok s1 r =>
    obtain ⟨x, i⟩ := r
    rw [h1] at h; cases h
    exact valA_info hp _ _ _ h1
  | err k x => rw [h1] at h; cases h
  | panic e => rw [h1] at h; cases h

theorem valA_true {α} (p : P α) : ValA p (fun _ => True) := fun _ _ _ _ => trivial

theorem valA_many {α} (range : α → Range) (parseT : Option α → P α) {Qa : α → Prop} (hp : ValA (parseT none) Qa) :
    ValA (many ctx range parseT (loopFuel ctx) none) (fun l => ∀ r ∈ l, Qa r.val) :=
  valA_congr (many_none ctx range parseT _) (valA_many0 (valA_refParse hp) _)

/-! ### the leaf: an identifier covers its token -/

theorem many0_comment_le : ∀ (fuel : Nat) (s s' : St) (cs : List (List Char)),
    many0 (comment ctx) fuel s = .ok s' cs → s.pos ≤ s'.pos
  | 0, _, _, _, h => by cases h
  | fuel + 1, s, s', cs, h => by
    simp only [many0] at h
    cases h1 : comment ctx s with
    | err k x => rw [h1] at h; cases h; exact Nat.le_refl _
    | panic e => rw [h1] at h; cases h
    | ok s1 a =>
      rw [h1] at h
      simp only at h
      have hp := (comment_ok_inv ctx h1).1
      split at h
      · cases h
      · cases h2 : many0 (comment ctx) fuel s1 with
        | ok s2 as =>
          rw [h2] at h; cases h
          have := many0_comment_le fuel _ _ _ h2
          omega
        | err k x => rw [h2] at h; cases h
        | panic e => rw [h2] at h; cases h

/-- a token parser that succeeds has moved on — in whatever state it started -/
theorem tk_lt {k : Kind} {s s' : St} {t : Token} (h : tk ctx k s = .ok s' t) :
    s.pos < s'.pos := by
  have h' : tag ctx (loopFuel ctx) (fun ty => ty.kind == k) s = .ok s' t := h
  unfold tag at h'
  cases h1 : many0 (comment ctx) (loopFuel ctx) s with
  | ok s1 cs =>
    rw [h1] at h'
    simp only at h'
    have hle := many0_comment_le ctx _ _ _ _ h1
    cases h2 : take1 ctx s1 with
    | ok s2 t2 =>
      rw [h2] at h'
      simp only at h'
      obtain ⟨rfl, _⟩ := take1_ok ctx h2
      split at h'
      · cases h'; simp; omega
      · cases h'
    | err k x => rw [h2] at h'; cases h'
    | panic e => rw [h2] at h'; cases h'
  | err k x => rw [h1] at h'; cases h'
  | panic e => rw [h1] at h'; cases h'

theorem info_hi {α} {p : P α} {s s' : St} {r : α × AstInfo} (h : info p s = .ok s' r) :
    s.refPos ≤ s.pos ∧ ∃ s1, p { s with errBuf := [] } = .ok s1 r.1 ∧ r.2.range.hi = s1.pos - s.refPos := by
  unfold info at h
  split at h
  · cases h
  · refine ⟨by omega, ?_⟩
    cases h1 : p { s with errBuf := [] } with
    | ok s1 a =>
      rw [h1] at h
      simp only at h
      split at h
      · cases h
      · cases h; exact ⟨s1, rfl, rfl⟩
    | err k x => rw [h1] at h; cases h
    | panic e => rw [h1] at h; cases h

/-- **`Identifier::parse` on a fresh parse only returns identifiers that cover a token.** -/
theorem ident_val : ValA (parseIdentifier ctx none) IdI := by
  have e : ∀ s, parseIdentifier ctx none s =
      pmap (fun (p : Token × AstInfo) => ({ value := displayToken p.1.ty, info := p.2 } : Identifier)) (info (tk ctx .Ident)) s := by
    intro s; simp only [parseIdentifier, affected_none]
  refine valA_congr e (valA_pmap _ ?_)
  intro s s' r hr
  obtain ⟨hle, s1, h1, hhi⟩ := info_hi hr
  have := tk_lt ctx h1
  simp only [IdI, hhi]
  simp at this
  omega

/-! ### expressions -/

theorem valA_parseRhs {parser : P Expr} (lhs : Expr) (op : Operator) (hp : ValA parser IdE) (hl : IdE lhs) :
    ValA (parseRhs parser lhs op) IdE := by
  intro s s' a h
  unfold parseRhs at h
  cases h1 : Parse.expect none (inc parser) (.ExpectedToken (chars "expression")) s with
  | ok s1 r =>
    rw [h1] at h
    simp only at h
    have hr := valA_expect (parser := inc parser) (.ExpectedToken (chars "expression")) (Qa := IdE) hp _ _ _ h1
    split at h
    · cases h
    · cases h
      cases r with
      | none => simp [IdE, hl]
      | some x => simpa [IdE, hl] using hr x rfl
  | err k x => rw [h1] at h; cases h
  | panic e => rw [h1] at h; cases h

theorem valA_opLoop (ops : List Kind) {rhs : Expr → Operator → P Expr}
    (hr : ∀ e op, IdE e → ValA (rhs e op) IdE) : ∀ (fuel : Nat) (e : Expr), IdE e → ValA (opLoop ctx ops rhs fuel e) IdE
  | 0, _, _ => by intro s s' a h; cases h
  | fuel + 1, e, he => by
    intro s s' a h
    simp only [opLoop] at h
    cases h1 : altList (ops.map (tk ctx)) s with
    | ok s1 t =>
      rw [h1] at h
      simp only at h
      cases h2 : opOfKind t.kind with
      | none => rw [h2] at h; cases h
      | some op =>
        rw [h2] at h
        simp only at h
        cases h3 : rhs e op s1 with
        | ok s2 e' =>
          rw [h3] at h
          exact valA_opLoop ops hr fuel e' (hr e op he _ _ _ h3) _ _ _ h
        | err k x => rw [h3] at h; cases h
        | panic x => rw [h3] at h; cases h
    | err k x => rw [h1] at h; cases h; exact he
    | panic x => rw [h1] at h; cases h

theorem valA_access {pe : Option (Ref Expr) → P (Ref Expr)} (hp : ValA (pe none) (fun x => IdE x.val)) :
    ValA (accessParser ctx pe) (fun r => ∀ x, r.1 = some x → IdE x.val) := by
  unfold accessParser
  refine valA_info (Qa := fun (o : Option (Ref Expr)) => ∀ x, o = some x → IdE x.val) ?_
  refine valA_bind (valA_true _) (fun _ _ => ?_)
  refine valA_bind (valA_expect _ hp) (fun idx hidx => ?_)
  refine valA_bind (valA_true _) (fun _ _ => ?_)
  exact valA_pure _ _ hidx

theorem idV_fold (vi : AstInfo) : ∀ (l : List (Option (Ref Expr) × AstInfo)) (v : Var), IdV v →
    (∀ a ∈ l, ∀ x, a.1 = some x → IdE x.val) → IdV (l.foldl (accessStep vi) v)
  | [], v, hv, _ => hv
  | a :: l, v, hv, h => by
    simp only [List.foldl_cons]
    refine idV_fold vi l _ ?_ (fun b hb => h b (List.mem_cons_of_mem _ hb))
    have ha := h a (by simp)
    obtain ⟨o, i⟩ := a
    cases o with
    | none => simp [accessStep, OptExpr.ofOption, IdV, IdOE, hv]
    | some x => simpa [accessStep, OptExpr.ofOption, IdV, IdOE, hv] using ha x rfl

structure EVal (F : Nat) : Prop where
  var : ValA (parseVariable ctx F none) IdV
  brack : ValA (parseBracketed ctx F) IdE
  prim : ValA (parsePrimary ctx F) IdE
  unary : ValA (parseUnary ctx F) IdE
  factor : ValA (parseFactor ctx F) IdE
  mul : ValA (parseMul ctx F) IdE
  add : ValA (parseAdd ctx F) IdE
  cmp : ValA (parseComparison ctx F) IdE
  expr : ValA (parseExpression ctx F none) IdE

theorem eval : ∀ F, EVal ctx F
  | 0 => by
    refine ⟨?_, ?_, ?_, ?_, ?_, ?_, ?_, ?_, ?_⟩ <;> intro s s' a h <;>
      simp [parseVariable, parseBracketed, parsePrimary, parseUnary, parseFactor, parseMul, parseAdd, parseComparison, parseExpression] at h
  | F + 1 => by
    have ih := eval F
    have hvar : ValA (parseVariable ctx (F + 1) none) IdV := by
      refine valA_congr (parseVariable_eq ctx F) ?_
      refine valA_bind (Qa := fun (r : Var × AstInfo) => IdV r.1) (valA_info (valA_pmap _ ?_)) (fun r hr => ?_)
      · intro s s' i h; simpa [IdV] using ident_val ctx _ _ _ h
      · refine valA_pmap _ ?_
        intro s s' l h
        exact idV_fold _ l _ hr (valA_many0 (valA_access ctx (valA_refParse ih.expr)) _ _ _ _ h)
    have hbrack : ValA (parseBracketed ctx (F + 1)) IdE := by
      refine valA_congr (parseBracketed_eq ctx F) (valA_pmap _ ?_)
      have hin : ValA (bracketedInner ctx (parseComparison ctx F)) (fun (r : AstInfo × Option Expr) =>
          IdE (r.2.getD (.error { range := ⟨r.1.range.hi, r.1.range.hi⟩ }))) := by
        unfold bracketedInner
        refine valA_bind (valA_true _) (fun lp _ => ?_)
        refine valA_bind (valA_expect (parser := inc (parseComparison ctx F)) _ ih.cmp) (fun e he => ?_)
        refine valA_bind (valA_true _) (fun _ _ => ?_)
        refine valA_pure _ _ ?_
        cases e with
        | none => simp [IdE]
        | some x => simpa [IdE] using he x rfl
      intro s s' r hx
      have := valA_info hin _ _ _ hx
      simpa [IdE] using this
    have hprim : ValA (parsePrimary ctx (F + 1)) IdE := by
      simp only [parsePrimary]
      refine valA_altList _ ?_
      intro p hp
      simp only [List.mem_cons, List.mem_nil_iff, or_false] at hp
      rcases hp with rfl | rfl | rfl
      · exact valA_pmap _ (fun _ _ _ _ => by simp [IdE])
      · exact valA_pmap _ (fun s s' v h => by simpa [IdE] using ih.var _ _ _ h)
      · exact ih.brack
    have hunary : ValA (parseUnary ctx (F + 1)) IdE := by
      simp only [parseUnary]
      refine valA_pmap _ ?_
      have hin : ValA (Parse.bind (tk ctx .Minus) (fun _ => parseFactor ctx F)) IdE :=
        valA_bind (valA_true _) (fun _ _ => ih.factor)
      intro s s' r hx
      have := valA_info hin _ _ _ hx
      simpa [IdE] using this
    have hfactor : ValA (parseFactor ctx (F + 1)) IdE := by
      simp only [parseFactor]; exact valA_alt2 ih.prim ih.unary
    have hmul : ValA (parseMul ctx (F + 1)) IdE := by
      simp only [parseMul]
      exact valA_bind ih.factor (fun e he => valA_opLoop ctx _ (fun e op he => valA_parseRhs e op ih.factor he) _ e he)
    have hadd : ValA (parseAdd ctx (F + 1)) IdE := by
      simp only [parseAdd]
      exact valA_bind ih.mul (fun e he => valA_opLoop ctx _ (fun e op he => valA_parseRhs e op ih.mul he) _ e he)
    have hcmp : ValA (parseComparison ctx (F + 1)) IdE := by
      simp only [parseComparison]
      refine valA_bind ih.add (fun e he => ?_)
      intro s s' a h
      simp only at h
      cases h1 : altList ([Kind.Eq, .Neq, .Le, .Lt, .Ge, .Gt].map (tk ctx)) s with
      | ok s1 t =>
        rw [h1] at h
        simp only at h
        cases h2 : opOfKind t.kind with
        | none => rw [h2] at h; cases h
        | some op => rw [h2] at h; exact valA_parseRhs e op ih.add he _ _ _ h
      | err k x => rw [h1] at h; cases h; exact he
      | panic x => rw [h1] at h; cases h
    exact ⟨hvar, hbrack, hprim, hunary, hfactor, hmul, hadd, hcmp, by simpa only [parseExpression, affected_none] using ih.cmp⟩

theorem refExpr_val : ValA (refExpr ctx none) (fun r => IdE r.val) :=
  valA_refParse (eval ctx _).expr

/-! ### type expressions -/

structure TVal (F : Nat) : Prop where
  te : ValA (parseTypeExpr ctx F none) IdT
  arr : ValA (parseArrayType ctx F none) IdT

theorem idOT_ofOption (o : Option (Ref TypeExpr)) (h : ∀ r, o = some r → IdT r.val) : IdOT (OptType.ofOption o) := by
  cases o with
  | none => simp [OptType.ofOption, IdOT]
  | some r => simpa [OptType.ofOption, IdOT] using h r rfl

theorem tval : ∀ F, TVal ctx F
  | 0 => by
    refine ⟨?_, ?_⟩ <;> intro s s' a h
    · have h' : (Res.panic ⟨"fuel"⟩ : Res TypeExpr) = .ok s' a := h
      cases h'
    · have h' : (Res.panic ⟨"fuel"⟩ : Res TypeExpr) = .ok s' a := h
      cases h'
  | F + 1 => by
    have ih := tval F
    refine ⟨?_, ?_⟩
    · show ValA (alt2 (parseArrayType ctx F none) (pmap TypeExpr.named (parseIdentifier ctx none))) IdT
      exact valA_alt2 ih.arr (valA_pmap _ (fun s s' i h => by simpa [IdT] using ident_val ctx _ _ _ h))
    · show ValA (pmap (fun (p : (Option IntLiteral × Option (Ref TypeExpr)) × AstInfo) =>
            TypeExpr.array p.1.1 (OptType.ofOption p.1.2) p.2)
          (info (arrayTypeInner ctx none none (refParse (parseTypeExpr ctx F))))) IdT
      refine valA_pmap _ ?_
      have hin : ValA (arrayTypeInner ctx none none (refParse (parseTypeExpr ctx F)))
          (fun (r : Option IntLiteral × Option (Ref TypeExpr)) => ∀ x, r.2 = some x → IdT x.val) := by
        unfold arrayTypeInner
        refine valA_bind (valA_true _) (fun _ _ => ?_)
        refine valA_bind (valA_true _) (fun _ _ => ?_)
        refine valA_bind (valA_true _) (fun sz _ => ?_)
        refine valA_bind (valA_true _) (fun _ _ => ?_)
        refine valA_bind (valA_true _) (fun _ _ => ?_)
        refine valA_bind (valA_expect _ (valA_refParse ih.te)) (fun b hb => ?_)
        exact valA_pure _ _ hb
      intro s s' r hx
      have := valA_info hin _ _ _ hx
      simpa [IdT] using idOT_ofOption _ this

theorem refTypeExpr_val : ValA (refTypeExpr ctx none) (fun r => IdT r.val) :=
  valA_refParse (tval ctx _).te

/-! ### comma separated lists, arguments, calls, assignments -/

theorem valA_parseList {α} (range : α → Range) (parseT : Option α → P α) {Qa : α → Prop} (hp : ValA (parseT none) Qa) :
    ValA (parseList ctx range parseT (loopFuel ctx) none) (fun l => ∀ r ∈ l, Qa r.val) := by
  refine valA_congr (parseList_eq ctx range parseT) ?_
  refine valA_bind (valA_refParse hp) (fun head hh => valA_pmap _ ?_)
  have hm := valA_many ctx (fun (inner : Ref α) => let r := range inner.val; (⟨r.lo, r.hi + 1⟩ : Range))
    (fun this => Parse.bind (tagK ctx (loopFuel ctx) .Comma) (fun _ => refParse parseT this))
    (Qa := fun (x : Ref α) => Qa x.val) (valA_bind (valA_true _) (fun _ _ => valA_refParse hp))
  intro s s' tail h r hr
  rcases List.mem_cons.mp hr with rfl | hr
  · exact hh
  · obtain ⟨x, hx, rfl⟩ := List.mem_map.mp hr
    exact hm _ _ _ h x hx

theorem argument_val : ValA (parseArgument ctx none) IdE := by
  show ValA (alt2 _ _) IdE
  refine valA_alt2 ?_ (valA_pmap _ (fun _ _ _ _ => by simp [IdE]))
  exact valA_bind (eval ctx _).expr (fun e he => valA_bind (valA_true _) (fun _ _ => valA_pure _ _ he))

theorem call_val : ValA (parseCall ctx none) IdCall := by
  show ValA (pmap (fun (p : (Identifier × List (Ref Expr)) × AstInfo) =>
        ({ name := p.1.1, args := p.1.2, info := p.2 } : CallStmt)) (info (callInner ctx none none))) IdCall
  refine valA_pmap _ ?_
  have hin : ValA (callInner ctx none none) (fun (r : Identifier × List (Ref Expr)) => ∀ a ∈ r.2, IdE a.val) := by
    unfold callInner
    refine valA_bind (valA_true _) (fun name _ => ?_)
    refine valA_bind (Qa := fun (l : List (Ref Expr)) => ∀ a ∈ l, IdE a.val) (valA_alt2 ?_ ?_) (fun args ha => ?_)
    · exact valA_pmap _ (fun _ _ _ _ a ha => by cases ha)
    · exact valA_parseList ctx _ _ (argument_val ctx)
    · refine valA_bind (valA_true _) (fun _ _ => ?_)
      refine valA_bind (valA_true _) (fun _ _ => ?_)
      exact valA_pure _ _ ha
  intro s s' r hx
  exact valA_info hin _ _ _ hx

theorem assignment_val : ValA (parseAssignment ctx none) IdAssign := by
  show ValA (pmap (fun (p : (Var × Option (Ref Expr)) × AstInfo) =>
        ({ target := p.1.1, expr := p.1.2, info := p.2 } : Assignment)) (info (assignInner ctx none none))) IdAssign
  refine valA_pmap _ ?_
  have hin : ValA (assignInner ctx none none) (fun (r : Var × Option (Ref Expr)) => IdV r.1 ∧ ∀ x, r.2 = some x → IdE x.val) := by
    unfold assignInner
    refine valA_bind (Qa := IdV) ?_ (fun v hv => ?_)
    · exact valA_bind (eval ctx _).var (fun v hv => valA_bind (valA_true _) (fun _ _ => valA_pure _ _ hv))
    · refine valA_bind (valA_expect _ (refExpr_val ctx)) (fun e he => ?_)
      refine valA_bind (valA_true _) (fun _ _ => ?_)
      exact valA_pure _ _ ⟨hv, he⟩
  intro s s' r hx
  exact valA_info hin _ _ _ hx

/-! ### statements -/

theorem idOS_ofOption (o : Option (Ref Stmt)) (h : ∀ r, o = some r → IdS r.val) : IdOS (OptStmt.ofOption o) := by
  cases o with
  | none => simp [OptStmt.ofOption, IdOS]
  | some r => simpa [OptStmt.ofOption, IdOS] using h r rfl

theorem idSL_ofList : ∀ (l : List (Ref Stmt)), (∀ r ∈ l, IdS r.val) → IdSL (StmtList.ofList l)
  | [], _ => by simp [StmtList.ofList, IdSL]
  | r :: l, h => by
    simp only [StmtList.ofList, IdSL]
    exact ⟨h r (by simp), idSL_ofList l (fun x hx => h x (List.mem_cons_of_mem _ hx))⟩

theorem stmtParseError_val : ValA (stmtParseError ctx) IdS := by
  intro s s' a h
  unfold stmtParseError at h
  split at h
  · cases h
  · rename_i r hr
    exact valA_pmap (Q := IdS) _ (fun _ _ _ _ => by simp [IdS]) _ _ _ h

structure SVal (F : Nat) : Prop where
  stmt : ValA (parseStmt ctx F none) IdS
  iff : ValA (parseIf ctx F none) IdS
  whl : ValA (parseWhile ctx F none) IdS
  blk : ValA (parseBlock ctx F none) IdS

theorem sval : ∀ F, SVal ctx F
  | 0 => by
    refine ⟨?_, ?_, ?_, ?_⟩ <;> intro s s' a h <;>
      (have h' : (Res.panic ⟨"fuel"⟩ : Res Stmt) = .ok s' a := h) <;> cases h'
  | F + 1 => by
    have ih := sval F
    refine ⟨?_, ?_, ?_, ?_⟩
    · show ValA (altList [pmap (fun (p : Token × AstInfo) => Stmt.empty p.2) (info (tk ctx .Semic)),
          parseIf ctx F none, parseWhile ctx F none, parseBlock ctx F none,
          pmap Stmt.call (parseCall ctx none), pmap Stmt.assign (parseAssignment ctx none), stmtParseError ctx]) IdS
      refine valA_altList _ ?_
      intro p hp
      simp only [List.mem_cons, List.mem_nil_iff, or_false] at hp
      rcases hp with rfl | rfl | rfl | rfl | rfl | rfl | rfl
      · exact valA_pmap _ (fun _ _ _ _ => by simp [IdS])
      · exact ih.iff
      · exact ih.whl
      · exact ih.blk
      · exact valA_pmap _ (fun s s' c h => by simpa [IdS] using call_val ctx _ _ _ h)
      · exact valA_pmap _ (fun s s' c h => by simpa [IdS] using assignment_val ctx _ _ _ h)
      · exact stmtParseError_val ctx
    · show ValA (pmap (fun (p : (Option (Ref Expr) × Option (Ref Stmt) × Option (Option (Ref Stmt))) × AstInfo) =>
            Stmt.ifS p.1.1 (OptStmt.ofOption p.1.2.1) (OptStmt.ofOption (p.1.2.2.getD none)) p.2)
          (info (ifInner ctx none none none (refParse (parseStmt ctx F))))) IdS
      refine valA_pmap _ ?_
      have hps : ValA (refParse (parseStmt ctx F) none) (fun r => IdS r.val) := valA_refParse ih.stmt
      have hin : ValA (ifInner ctx none none none (refParse (parseStmt ctx F)))
          (fun (r : Option (Ref Expr) × Option (Ref Stmt) × Option (Option (Ref Stmt))) =>
            (∀ x, r.1 = some x → IdE x.val) ∧ (∀ x, r.2.1 = some x → IdS x.val) ∧ (∀ x, r.2.2 = some (some x) → IdS x.val)) := by
        unfold ifInner
        refine valA_bind (valA_true _) (fun _ _ => ?_)
        refine valA_bind (valA_true _) (fun _ _ => ?_)
        refine valA_bind (valA_expect _ (refExpr_val ctx)) (fun c hc => ?_)
        refine valA_bind (valA_true _) (fun _ _ => ?_)
        refine valA_bind (valA_expect _ hps) (fun t ht => ?_)
        refine valA_bind (Qa := fun (e : Option (Option (Ref Stmt))) => ∀ x, e = some (some x) → IdS x.val)
          (valA_opt ?_ (by intro x hx; cases hx)) (fun e he => valA_pure _ _ ⟨hc, ht, he⟩)
        refine valA_bind (valA_true _) (fun _ _ => ?_)
        intro s s' o h x hx
        cases hx
        exact valA_expect _ hps _ _ _ h x rfl
      intro s s' r hx
      obtain ⟨h1, h2, h3⟩ := valA_info hin _ _ _ hx
      simp only [IdS]
      refine ⟨h1, idOS_ofOption _ h2, idOS_ofOption _ ?_⟩
      intro x hx
      cases he : r.1.2.2 with
      | none => rw [he] at hx; cases hx
      | some o => rw [he] at hx; simp only [Option.getD_some] at hx; subst hx; exact h3 x he
    · show ValA (pmap (fun (p : (Option (Ref Expr) × Option (Ref Stmt)) × AstInfo) =>
            Stmt.whileS p.1.1 (OptStmt.ofOption p.1.2) p.2)
          (info (whileInner ctx none none (refParse (parseStmt ctx F))))) IdS
      refine valA_pmap _ ?_
      have hps : ValA (refParse (parseStmt ctx F) none) (fun r => IdS r.val) := valA_refParse ih.stmt
      have hin : ValA (whileInner ctx none none (refParse (parseStmt ctx F)))
          (fun (r : Option (Ref Expr) × Option (Ref Stmt)) =>
            (∀ x, r.1 = some x → IdE x.val) ∧ (∀ x, r.2 = some x → IdS x.val)) := by
        unfold whileInner
        refine valA_bind (valA_true _) (fun _ _ => ?_)
        refine valA_bind (valA_true _) (fun _ _ => ?_)
        refine valA_bind (valA_expect _ (refExpr_val ctx)) (fun c hc => ?_)
        refine valA_bind (valA_true _) (fun _ _ => ?_)
        refine valA_bind (valA_expect _ hps) (fun t ht => ?_)
        exact valA_pure _ _ ⟨hc, ht⟩
      intro s s' r hx
      obtain ⟨h1, h2⟩ := valA_info hin _ _ _ hx
      simp only [IdS]
      exact ⟨h1, idOS_ofOption _ h2⟩
    · show ValA (pmap (fun (p : List (Ref Stmt) × AstInfo) => Stmt.block (StmtList.ofList p.1) p.2)
          (info (blockInner ctx none (parseStmt ctx F)))) IdS
      refine valA_pmap _ ?_
      have hin : ValA (blockInner ctx none (parseStmt ctx F)) (fun (l : List (Ref Stmt)) => ∀ r ∈ l, IdS r.val) := by
        unfold blockInner
        refine valA_bind (valA_true _) (fun _ _ => ?_)
        refine valA_bind (valA_many ctx _ _ ih.stmt) (fun ss hss => ?_)
        refine valA_bind (valA_true _) (fun _ _ => ?_)
        exact valA_pure _ _ hss
      intro s s' r hx
      have := valA_info hin _ _ _ hx
      simp only [IdS]
      exact idSL_ofList _ this

theorem stmt_val : ValA (parseStmt ctx (stmtFuel ctx) none) IdS := (sval ctx _).stmt

/-! ### declarations -/

abbrev NameTe (r : List (List Char) × Option Identifier × Option (Ref TypeExpr)) : Prop :=
  (∀ n, r.2.1 = some n → IdI n) ∧ (∀ x, r.2.2 = some x → IdT x.val)

theorem typeDeclInner_val : ValA (typeDeclInner ctx none none) NameTe := by
  unfold typeDeclInner
  refine valA_bind (valA_true _) (fun doc _ => ?_)
  refine valA_bind (valA_true _) (fun _ _ => ?_)
  refine valA_bind (valA_expect _ (ident_val ctx)) (fun name hn => ?_)
  refine valA_bind (valA_true _) (fun _ _ => ?_)
  refine valA_bind (valA_expect _ (refTypeExpr_val ctx)) (fun te ht => ?_)
  refine valA_bind (valA_true _) (fun _ _ => ?_)
  exact valA_pure _ _ ⟨hn, ht⟩

theorem varDeclInner_val : ValA (varDeclInner ctx none none) NameTe := by
  unfold varDeclInner
  refine valA_bind (valA_true _) (fun doc _ => ?_)
  refine valA_bind (valA_true _) (fun _ _ => ?_)
  refine valA_bind (valA_expect _ (ident_val ctx)) (fun name hn => ?_)
  refine valA_bind (valA_true _) (fun _ _ => ?_)
  refine valA_bind (valA_expect _ (refTypeExpr_val ctx)) (fun te ht => ?_)
  refine valA_bind (valA_true _) (fun _ _ => ?_)
  exact valA_pure _ _ ⟨hn, ht⟩

theorem typeDecl_val : ValA (parseTypeDecl ctx none) IdTD := by
  show ValA (pmap (fun (p : (List (List Char) × Option Identifier × Option (Ref TypeExpr)) × AstInfo) =>
        ({ doc := p.1.1, name := p.1.2.1, typeExpr := p.1.2.2, info := p.2 } : TypeDecl))
      (info (typeDeclInner ctx none none))) IdTD
  refine valA_pmap _ ?_
  intro s s' r hx
  exact valA_info (typeDeclInner_val ctx) _ _ _ hx

theorem varDecl_val : ValA (parseVarDecl ctx none) IdVarD := by
  show ValA (alt2 (pmap (fun (p : (List (List Char) × Option Identifier × Option (Ref TypeExpr)) × AstInfo) =>
          VarDecl.valid p.1.1 p.1.2.1 p.1.2.2 p.2) (info (varDeclInner ctx none none)))
    (pmap _ (info (ignoreUntil1 ctx (peek (la ctx .var_dec)) (loopFuel ctx))))) IdVarD
  refine valA_alt2 (valA_pmap _ ?_) (valA_pmap _ (fun _ _ _ _ => by simp [IdVarD]))
  intro s s' r hx
  have := valA_info (varDeclInner_val ctx) _ _ _ hx
  simpa [IdVarD] using this

theorem paramDeclInner_val : ValA (paramDeclInner ctx none none)
    (fun (r : List (List Char) × (Bool × Option Identifier) × Option (Ref TypeExpr)) =>
      (∀ n, r.2.1.2 = some n → IdI n) ∧ (∀ x, r.2.2 = some x → IdT x.val)) := by
  unfold paramDeclInner
  refine valA_bind (valA_true _) (fun doc _ => ?_)
  refine valA_bind (Qa := fun (rn : Bool × Option Identifier) => ∀ n, rn.2 = some n → IdI n) (valA_alt2 ?_ ?_) (fun rn hn => ?_)
  · exact valA_bind (valA_true _) (fun _ _ => valA_pmap _ (valA_expect _ (ident_val ctx)))
  · refine valA_pmap _ ?_
    intro s s' i h n hn
    cases hn
    exact ident_val ctx _ _ _ h
  · refine valA_bind (valA_true _) (fun _ _ => ?_)
    refine valA_bind (valA_expect _ (refTypeExpr_val ctx)) (fun te ht => ?_)
    refine valA_bind (valA_true _) (fun _ _ => ?_)
    exact valA_pure _ _ ⟨hn, ht⟩

theorem paramDecl_val : ValA (parseParamDecl ctx none) IdParam := by
  show ValA (alt2 (pmap (fun (p : (List (List Char) × (Bool × Option Identifier) × Option (Ref TypeExpr)) × AstInfo) =>
        ParamDecl.valid p.1.1 p.1.2.1.1 p.1.2.1.2 p.1.2.2 p.2) (info (paramDeclInner ctx none none)))
    (pmap _ (info (fun s => ignoreUntil0 ctx (peek (la ctx .param_dec)) (loopFuel ctx) s.pos s)))) IdParam
  refine valA_alt2 (valA_pmap _ ?_) (valA_pmap _ (fun _ _ _ _ => by simp [IdParam]))
  intro s s' r hx
  have := valA_info (paramDeclInner_val ctx) _ _ _ hx
  simpa [IdParam] using this

theorem procRest_val (doc : List (List Char)) : ValA (procRest ctx doc)
    (fun (r : List (List Char) × Option Identifier × List (Ref ParamDecl) × List (Ref VarDecl) × List (Ref Stmt)) =>
      (∀ n, r.2.1 = some n → IdI n) ∧ (∀ p ∈ r.2.2.1, IdParam p.val) ∧ (∀ v ∈ r.2.2.2.1, IdVarD v.val) ∧
      (∀ x ∈ r.2.2.2.2, IdS x.val)) := by
  unfold procRest
  refine valA_bind (valA_expect _ (ident_val ctx)) (fun name hn => ?_)
  refine valA_bind (valA_true _) (fun _ _ => ?_)
  refine valA_bind (Qa := fun (l : List (Ref ParamDecl)) => ∀ p ∈ l, IdParam p.val) (valA_alt2 ?_ ?_) (fun params hp => ?_)
  · exact valA_pmap _ (fun _ _ _ _ a ha => by cases ha)
  · exact valA_parseList ctx _ _ (paramDecl_val ctx)
  · refine valA_bind (valA_true _) (fun _ _ => ?_)
    refine valA_bind (valA_true _) (fun _ _ => ?_)
    refine valA_bind (valA_many ctx _ _ (varDecl_val ctx)) (fun vars hv => ?_)
    refine valA_bind (valA_many ctx _ _ (stmt_val ctx)) (fun stmts hs => ?_)
    refine valA_bind (valA_true _) (fun _ _ => ?_)
    exact valA_pure _ _ ⟨hn, hp, hv, hs⟩

theorem procDecl_val : ValA (parseProcDecl ctx none) IdPD := by
  show ValA (pmap (fun (p : (List (List Char) × Option Identifier × List (Ref ParamDecl) × List (Ref VarDecl) × List (Ref Stmt)) × AstInfo) =>
        ({ doc := p.1.1, name := p.1.2.1, params := p.1.2.2.1, vars := p.1.2.2.2.1, stmts := p.1.2.2.2.2, info := p.2 } : ProcDecl))
      (info (procDeclInner ctx none))) IdPD
  refine valA_pmap _ ?_
  rw [procDeclInner_eq]
  intro s s' r hx
  exact valA_info (valA_bind (valA_true _) (fun doc _ => valA_bind (valA_true _) (fun _ _ => procRest_val ctx doc))) _ _ _ hx

theorem globalDecl_val : ValA (parseGlobalDecl ctx none) IdGD := by
  show ValA (altList [pmap GlobalDecl.type (parseTypeDecl ctx none), pmap GlobalDecl.proc (parseProcDecl ctx none), pmap _ _]) IdGD
  refine valA_altList _ ?_
  intro p hp
  simp only [List.mem_cons, List.mem_nil_iff, or_false] at hp
  rcases hp with rfl | rfl | rfl
  · exact valA_pmap _ (fun s s' c h => by simpa [IdGD] using typeDecl_val ctx _ _ _ h)
  · exact valA_pmap _ (fun s s' c h => by simpa [IdGD] using procDecl_val ctx _ _ _ h)
  · exact valA_pmap _ (fun _ _ _ _ => by simp [IdGD])

theorem program_val : ValA (parseProgram ctx none) IdProg := by
  unfold parseProgram
  refine valA_pmap _ ?_
  refine valA_bind (Qa := fun (r : List (Ref GlobalDecl) × AstInfo) => ∀ d ∈ r.1, IdGD d.val) ?_
    (fun r hr => valA_bind (valA_true _) (fun _ _ => valA_pure _ _ hr))
  intro s s' r hx
  exact valA_info (valA_many ctx _ _ (globalDecl_val ctx)) _ _ _ hx

end Spl.IdOK

namespace Spl.IdOK
open Spl Spl.Parse Spl.AnalyzeTotal

/-- **Every identifier of a parsed program covers at least one token** — for every token sequence. -/
theorem parse_idProg (toks : List Token) (p : Program) (h : Parse.parse toks = .ok p) : IdProg p := by
  unfold Parse.parse at h
  simp only at h
  split at h
  · rename_i s' p' hp
    cases h
    exact program_val _ _ _ _ hp
  · cases h
  · cases h

end Spl.IdOK
