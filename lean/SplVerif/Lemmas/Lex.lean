/-
  Helper lemmas about the lexer model (used by Props/C06 and Props/C07).
-/
import SplVerif.Model.Lexer
import SplVerif.Spec.Tiling

namespace Spl

/-! ### table facts about the generated lexer tables (re-checked on every run) -/

/-- What the proofs need from `Gen.altOrder`/`Gen.spelling`: every symbol/keyword alternative
    has a non-empty spelling and a payload-free token type different from `Eof`, and the
    catch-all `unknown` alternative is present. -/
def altItemOK : AltItem → Bool
  | .symbol k | .keyword k =>
    (match Gen.spelling k with
     | some p => !p.isEmpty
     | none => false) &&
    (match k.plain with
     | some ty => ty != .Eof
     | none => false)
  | _ => true

def LexTableOK : Bool := Gen.altOrder.all altItemOK && Gen.altOrder.contains .unknown

theorem lexTableOK : LexTableOK = true := by decide

/-! ### each recogniser consumes between 1 and `s.length` characters, never yields `Eof` -/

theorem stripPrefix_length {p s r : List Char} (h : stripPrefix p s = some r) :
    p.length + r.length = s.length := by
  induction p generalizing s with
  | nil => simp [stripPrefix] at h; simp [h]
  | cons a as ih =>
    cases s with
    | nil => simp [stripPrefix] at h
    | cons c cs =>
      simp only [stripPrefix] at h
      split at h
      · have := ih h; simp; omega
      · simp at h

theorem takeWhile_length_le {α} (p : α → Bool) (l : List α) : (l.takeWhile p).length ≤ l.length := by
  induction l with
  | nil => simp
  | cons a as ih => simp only [List.takeWhile]; split <;> simp <;> omega

structure OutOK (s : List Char) (o : LexOut) : Prop where
  pos : 1 ≤ o.n
  le : o.n ≤ s.length
  notEof : o.ty ≠ .Eof

theorem lexComment_ok {s o} (h : lexComment s = some o) : OutOK s o := by
  unfold lexComment at h
  split at h
  · rename_i rest
    have hl := takeWhile_length_le (· != '\n') rest
    have hsplit : (rest.takeWhile (· != '\n')).length + (rest.dropWhile (· != '\n')).length = rest.length := by
      rw [← List.length_append, List.takeWhile_append_dropWhile]
    dsimp only at h
    split at h
    · cases h; refine ⟨by dsimp only; omega, by simp; omega, by simp⟩
    · rename_i heq
      cases h
      rw [heq] at hsplit
      refine ⟨by dsimp only; omega, by simp at hsplit ⊢; omega, by simp⟩
  · simp at h

theorem lexSymbol_ok {k s o} (hk : altItemOK (.symbol k) = true) (h : lexSymbol k s = some o) :
    OutOK s o := by
  unfold lexSymbol at h
  simp only [altItemOK] at hk
  split at h
  · rename_i p ty hp hty
    rw [hp, hty] at hk
    simp at hk
    split at h
    · rename_i r hr
      cases h
      have := stripPrefix_length hr
      refine ⟨?_, by simp; omega, by simpa using hk.2⟩
      have : p ≠ [] := hk.1
      cases p with
      | nil => contradiction
      | cons => simp
    · simp at h
  · simp at h

theorem lexKeyword_ok {k s o} (hk : altItemOK (.keyword k) = true) (h : lexKeyword k s = some o) :
    OutOK s o := by
  unfold lexKeyword at h
  simp only [altItemOK] at hk
  split at h
  · rename_i p ty hp hty
    rw [hp, hty] at hk
    simp at hk
    have hp1 : 1 ≤ p.length := by
      have : p ≠ [] := hk.1
      cases p with
      | nil => contradiction
      | cons => simp
    split at h
    · rename_i hr
      cases h
      have := stripPrefix_length hr
      exact ⟨hp1, by simp at this ⊢; omega, by simpa using hk.2⟩
    · rename_i c r hr
      have := stripPrefix_length hr
      split at h
      · simp at h
      · cases h
        exact ⟨hp1, by simp at this ⊢; omega, by simpa using hk.2⟩
    · simp at h
  · simp at h

theorem lexChar_ok {s o} (h : lexChar s = some o) : OutOK s o := by
  unfold lexChar at h
  split at h
  · split at h <;> cases h <;> refine ⟨by simp, by simp, by simp⟩
  · split at h <;> cases h <;> refine ⟨by simp, by simp, by simp⟩
  · simp at h

theorem lexHex_ok {s o} (h : lexHex s = some o) : OutOK s o := by
  unfold lexHex at h
  split at h
  · rename_i rest
    have hl := takeWhile_length_le isHexDigit rest
    simp only at h
    split at h
    · cases h; exact ⟨by simp, by simp, by simp⟩
    · split at h <;> cases h <;> exact ⟨by dsimp only; omega, by simp; omega, by simp⟩
  · simp at h

theorem lexInt_ok {s o} (h : lexInt s = some o) : OutOK s o := by
  unfold lexInt at h
  have hl := takeWhile_length_le isDigit s
  simp only at h
  split at h
  · simp at h
  · rename_i hne
    have h1 : 1 ≤ (s.takeWhile isDigit).length := by
      cases hd : s.takeWhile isDigit with
      | nil => simp [hd] at hne
      | cons => simp
    split at h <;> cases h <;> exact ⟨h1, hl, by simp⟩

theorem lexIdent_ok {s o} (h : lexIdent s = some o) : OutOK s o := by
  unfold lexIdent at h
  split at h
  · rename_i c rest
    have hl := takeWhile_length_le isAlnumTrunc rest
    split at h
    · cases h; exact ⟨by simp, by simp; omega, by simp⟩
    · simp at h
  · simp at h

theorem lexUnknown_ok {s o} (h : lexUnknown s = some o) : OutOK s o := by
  unfold lexUnknown at h
  split at h
  · cases h; exact ⟨by simp, by simp, by simp⟩
  · simp at h

theorem lexItem_ok {a s o} (ha : altItemOK a = true) (h : lexItem a s = some o) : OutOK s o := by
  cases a with
  | comment => exact lexComment_ok h
  | symbol k => exact lexSymbol_ok ha h
  | keyword k => exact lexKeyword_ok ha h
  | char => exact lexChar_ok h
  | hex => exact lexHex_ok h
  | int => exact lexInt_ok h
  | ident => exact lexIdent_ok h
  | unknown => exact lexUnknown_ok h

theorem firstMatch_ok {as : List AltItem} {s o} (has : as.all altItemOK = true)
    (h : firstMatch as s = some o) : OutOK s o := by
  induction as with
  | nil => simp [firstMatch] at h
  | cons a as ih =>
    simp only [List.all_cons, Bool.and_eq_true] at has
    simp only [firstMatch] at h
    split at h
    · rename_i o' ho'
      cases h
      exact lexItem_ok has.1 ho'
    · exact ih has.2 h

theorem firstMatch_some_of_unknown {as : List AltItem} {c : Char} {cs : List Char}
    (h : as.contains .unknown = true) : ∃ o, firstMatch as (c :: cs) = some o := by
  induction as with
  | nil => simp at h
  | cons a as ih =>
    simp only [firstMatch]
    cases hm : lexItem a (c :: cs) with
    | some o => exact ⟨o, rfl⟩
    | none =>
      simp only [List.contains_cons, Bool.or_eq_true] at h
      rcases h with h | h
      · have : a = .unknown := by
          have := eq_of_beq h
          exact this.symm
        subst this
        simp [lexItem, lexUnknown] at hm
      · exact ih h

theorem lexOne_ok {s o} (h : lexOne s = some o) : OutOK s o := by
  have ht := lexTableOK
  simp only [LexTableOK, Bool.and_eq_true] at ht
  exact firstMatch_ok ht.1 h

theorem lexOne_total (c : Char) (cs : List Char) : ∃ o, lexOne (c :: cs) = some o := by
  have ht := lexTableOK
  simp only [LexTableOK, Bool.and_eq_true] at ht
  exact firstMatch_some_of_unknown ht.2

/-! ### the loop -/

theorem lexGo_skip (r : List Char) (o k : Nat) :
    lexGo r o k = lexGo (r.drop k) (o + utf8Len (r.take k)) 0 := by
  induction r generalizing o k with
  | nil => cases k <;> simp [lexGo]
  | cons c cs ih =>
    cases k with
    | zero => simp
    | succ k =>
      simp only [lexGo, List.drop_succ_cons, List.take_succ_cons, utf8Len_cons]
      rw [ih]
      simp [Nat.add_assoc]

theorem utf8Len_take_drop (r : List Char) (n : Nat) :
    utf8Len (r.take n) + utf8Len (r.drop n) = utf8Len r := by
  rw [← utf8Len_append, List.take_append_drop]

theorem utf8Len_take_pos {r : List Char} {n : Nat} (h1 : 1 ≤ n) (h2 : n ≤ r.length) :
    0 < utf8Len (r.take n) := by
  cases r with
  | nil => simp at h2; omega
  | cons c cs =>
    cases n with
    | zero => omega
    | succ n => simp only [List.take_succ_cons, utf8Len_cons]; have := utf8Size_pos c; omega

/-- Unfolding of one token step of the loop. -/
theorem lexGo_token {c : Char} {cs : List Char} {off : Nat} {o : LexOut}
    (hsp : isSpace c = false) (ho : lexOne (c :: cs) = some o) :
    lexGo (c :: cs) off 0 =
      (lexGo ((c :: cs).drop o.n) (off + utf8Len ((c :: cs).take o.n)) 0).map
        (fun ts => mkToken o (c :: cs) off :: ts) := by
  have hok := lexOne_ok ho
  have h1 := hok.pos
  obtain ⟨m, hm⟩ : ∃ m, o.n = m + 1 := ⟨o.n - 1, by omega⟩
  simp only [lexGo, hsp, ho, hm, Nat.add_sub_cancel, List.drop_succ_cons, List.take_succ_cons,
    utf8Len_cons]
  rw [lexGo_skip cs _ m, Nat.add_assoc]
  cases lexGo (List.drop m cs) (off + (c.utf8Size + utf8Len (List.take m cs))) 0 <;> simp

theorem lexGo_total (r : List Char) (o k : Nat) : ∃ ts, lexGo r o k = some ts := by
  induction r generalizing o k with
  | nil => exact ⟨[], by simp [lexGo]⟩
  | cons c cs ih =>
    cases k with
    | succ k => simp only [lexGo]; exact ih _ _
    | zero =>
      simp only [lexGo]
      split
      · exact ih _ _
      · obtain ⟨o', ho'⟩ := lexOne_total c cs
        simp only [ho']
        obtain ⟨ts, hts⟩ := ih (o + c.utf8Size) (o'.n - 1)
        simp [hts]

/-- Every token produced from offset `o` starts at or after `o`. -/
theorem lexGo_lo {r : List Char} {o k : Nat} {ts : List Token} (h : lexGo r o k = some ts) :
    ∀ t ∈ ts, o ≤ t.range.lo := by
  induction r generalizing o k ts with
  | nil => simp [lexGo] at h; subst h; intro t ht; cases ht
  | cons c cs ih =>
    cases k with
    | succ k =>
      simp only [lexGo] at h
      intro t ht; have := ih h t ht; omega
    | zero =>
      simp only [lexGo] at h
      split at h
      · intro t ht; have := ih h t ht; omega
      · split at h
        · simp at h
        · rename_i o' ho'
          split at h
          · simp at h
          · rename_i ts' hts'
            cases h
            intro t ht
            simp only [List.mem_cons] at ht
            rcases ht with rfl | ht
            · simp [mkToken]
            · have := ih hts' t ht; omega

/-! ### tiling checker lemmas -/

theorem skipWsTo_self (r : List Char) (o : Nat) : skipWsTo r o o = some r := by
  unfold skipWsTo; simp

theorem takeTo_take (r : List Char) (o n : Nat) (h : n ≤ r.length) :
    takeTo r o (o + utf8Len (r.take n)) = some (r.drop n) := by
  induction r generalizing o n with
  | nil => simp at h; subst h; unfold takeTo; simp
  | cons c cs ih =>
    cases n with
    | zero => unfold takeTo; simp
    | succ n =>
      unfold takeTo
      have hc := utf8Size_pos c
      simp only [List.take_succ_cons, utf8Len_cons, List.drop_succ_cons]
      have h1 : ¬ (o = o + (c.utf8Size + utf8Len (List.take n cs))) := by omega
      have h2 : o < o + (c.utf8Size + utf8Len (List.take n cs)) := by omega
      simp only [h1, h2, if_true, if_false]
      have := ih (o + c.utf8Size) n (by simpa using h)
      simpa [Nat.add_assoc] using this

theorem isSpace_eq_wsChar (c : Char) : isSpace c = wsChar c := by
  simp [isSpace, wsChar]

theorem skipWsTo_cons_ws {c : Char} {cs : List Char} {o t : Nat} (hws : wsChar c = true)
    (hlt : o + c.utf8Size ≤ t) : skipWsTo (c :: cs) o t = skipWsTo cs (o + c.utf8Size) t := by
  have hc := utf8Size_pos c
  conv => lhs; unfold skipWsTo
  have h1 : ¬ (o = t) := by omega
  have h2 : o < t := by omega
  simp [h1, h2, hws]

/-- Prepending a whitespace character keeps a tiling, if the first token starts after it. -/
theorem tilingGo_cons_ws {ts : List Token} {c : Char} {cs : List Char} {o : Nat}
    (hws : wsChar c = true) (hlo : ∀ t ∈ ts.head?, o + c.utf8Size ≤ t.range.lo)
    (h : tilingGo ts cs (o + c.utf8Size) = true) : tilingGo ts (c :: cs) o = true := by
  match ts, h, hlo with
  | [], h, _ => simp [tilingGo] at h
  | [t], h, hlo =>
    have hl := hlo t (by simp)
    simp only [tilingGo] at h ⊢
    rw [skipWsTo_cons_ws hws hl]
    exact h
  | t :: t' :: rest, h, hlo =>
    have hl := hlo t (by simp)
    simp only [tilingGo] at h ⊢
    rw [skipWsTo_cons_ws hws hl]
    exact h

end Spl

namespace Spl

/-! ### table obligations used by C06 (longest match) and C07 (look-ahead) -/

def isProperPrefix : List Char → List Char → Bool
  | [], [] => false
  | [], _ :: _ => true
  | _ :: _, [] => false
  | a :: as, b :: bs => a == b && isProperPrefix as bs

/-- Spellings of the fixed-spelling alternatives in source order (`//` for the comment). -/
def altSpelling : AltItem → Option (List Char)
  | .comment => some ['/', '/']
  | .symbol k => Gen.spelling k
  | _ => none

/-- C06 (d): among the fixed-spelling alternatives tried before the word/number classes, no
    earlier spelling is a proper prefix of a later one (otherwise the longer one is dead and
    longest match fails, e.g. `<` before `<=`). -/
def orderOKGo : List AltItem → Bool
  | [] => true
  | a :: rest =>
    (match altSpelling a with
     | some p => rest.all (fun b => match altSpelling b with
                                   | some q => !isProperPrefix p q
                                   | none => true)
     | none => true) && orderOKGo rest

def SymbolOrderOK : Bool := orderOKGo Gen.altOrder

/-- The look-ahead a token kind needs so that "the text up to the token end plus look-ahead is
    unchanged" implies "the token is unchanged": 1 for every maximal-run class and for keywords,
    and for a symbol the length by which a longer fixed spelling extends it. -/
def requiredLA (k : Kind) : Nat :=
  match k with
  | .Eof => 0
  | .If | .Else | .While | .Array | .Of | .Proc | .Ref | .Type | .Var
  | .Ident | .Int | .Hex | .Char | .Unknown | .Comment => 1
  | k =>
    match Gen.spelling k with
    | none => 0
    | some p =>
      (Gen.altOrder.filterMap altSpelling).foldl
        (fun acc q => if isProperPrefix p q then max acc (q.length - p.length) else acc) 0

def allKinds : List Kind :=
  [.LParen, .RParen, .LBracket, .RBracket, .LCurly, .RCurly, .Eq, .Neq, .Lt, .Le, .Gt, .Ge,
   .Assign, .Colon, .Comma, .Semic, .Plus, .Minus, .Times, .Divide, .If, .Else, .While, .Array,
   .Of, .Proc, .Ref, .Type, .Var, .Ident, .Char, .Int, .Hex, .Comment, .Unknown, .Eof]

/-- C07 (a): the generated look-ahead table grants every kind at least what it needs, and never
    more than one character (the head/tail partition of `lexer::update` relies on ≤ 1). -/
def LookAheadOK : Bool :=
  allKinds.all (fun k => requiredLA k ≤ Gen.lookAhead k && Gen.lookAhead k ≤ 1)

/-- No fixed spelling starts with an identifier character or a digit or a quote, so symbols
    never compete with the word, number and character classes. -/
def spellingStartOK : Bool :=
  Gen.altOrder.all (fun a => match a with
    | .symbol k => match Gen.spelling k with
      | some (c :: _) => !(isAlpha c || c == '_' || isDigit c || c == '\'' || isSpace c)
      | _ => false
    | _ => true)

end Spl
