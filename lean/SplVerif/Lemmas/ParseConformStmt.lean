/-
  Conformance of the parser model with the grammar specification (C04), continued: type
  expressions, statements and statement lists.

  The nested matches of the specification are flattened once per construct (`typeExpr_array`,
  `stmt_if_flat`, `stmt_while_flat`, `stmt_block_flat`, `stmt_call_flat`, `stmt_assign_flat`); the
  model's parsers are unfolded by `rfl` lemmas (`parseStmt_none`, `parseIf_none`, …) onto their named
  inner parsers.  `Reference` parsers re-base the ranges (`refParse_ok`); the look-ahead sets are
  evaluated on the generated table (`la_param_ok`, `la_stmt_rcurly'`); the alternatives of
  `Statement::parse` that come before the right one fail on the head token (`fail_*`), and every
  statement parser fails on `}` (`parseStmt_fail_rcurly`), which ends the statement loops.
  `SConf fs` = conformance of `stmt` and `stmts` at specification fuel `fs` (`sconf_all`).
-/
import SplVerif.Lemmas.ParseConform

namespace Spl.ParseConform
open Spl Spl.Parse Spl.Grammar

variable (ctx : Ctx)

theorem relType_info (r : Nat) (t : TypeExpr) : (relType r t).info = relInfo r t.info := by
  cases t <;> simp [relType, TypeExpr.info, relIdent]

def GoodT (s : St) (res : Res TypeExpr) (t : TypeExpr) (sp : Span) (rest : Toks) : Prop :=
  res = .ok { s with pos := sp.last + 1 } (relType s.refPos t) ∧
  Next ctx.toks s.pos sp.first ∧ sp.first ≤ sp.last ∧ t.info.range = ⟨s.pos, sp.last + 1⟩ ∧
  At ctx { s with pos := sp.last + 1 } rest

/-- consuming an expected token: `expect(tag)` on the head token of the right kind -/
theorem expect_tk {s : St} {i : Nat} {ty : TokenType} {rest : Toks} (h : At ctx s (⟨i, ty⟩ :: rest)) (k : Kind)
    (hk : (ty.kind == k) = true) (msg : Msg) :
    ∃ t, Spl.Parse.expect none (inc (tk ctx k)) msg s = .ok { s with pos := i + 1 } (some t) ∧
      At ctx { s with pos := i + 1 } rest := by
  obtain ⟨t, _, _, he, _, hat⟩ := tagK_head ctx h k
  rw [hk] at he; simp only [if_true] at he
  have he' : tk ctx k s = _ := he
  exact ⟨t, by simp only [Spl.Parse.expect, inc, he'], hat⟩

theorem intLitTok_length (g : GCtx) (ts rest : Toks) (l : IntLiteral) (i : Nat)
    (h : intLitTok g ts = some (l, i, rest)) : ts.length = rest.length + 1 := by
  cases ts with
  | nil => simp [intLitTok] at h
  | cons t r =>
    obtain ⟨j, ty⟩ := t
    cases ty with
    | Int res => cases res <;> simp_all [intLitTok]
    | Hex res => cases res <;> simp_all [intLitTok]
    | Char c =>
      simp only [intLitTok] at h
      split at h <;> simp_all
    | _ => simp [intLitTok] at h

theorem typeExpr_other (g : GCtx) (fs i : Nat) (ty : TokenType) (r : Toks) (h : ty ≠ .Array) :
    typeExpr g (fs + 1) (⟨i, ty⟩ :: r) = match identTok (⟨i, ty⟩ :: r) with
      | some (i, s, r) => some (.named (mkIdent g i s), ⟨i, i⟩, r)
      | none => none := by
  cases ty <;> first | rfl | simp_all [Grammar.typeExpr]

theorem expectK_some (k : Kind) (ts r : Toks) (i : Nat) (h : expectK k ts = some (i, r)) :
    ∃ ty, ts = ⟨i, ty⟩ :: r ∧ (ty.kind == k) = true := by
  cases ts with
  | nil => simp [expectK] at h
  | cons t r' =>
    obtain ⟨j, ty⟩ := t
    simp only [expectK] at h
    split at h
    · rename_i hk
      simp only [Option.some.injEq, Prod.mk.injEq] at h
      obtain ⟨rfl, rfl⟩ := h
      exact ⟨ty, rfl, hk⟩
    · cases h

theorem typeExpr_array (g : GCtx) (fs i : Nat) (r rest : Toks) (t : TypeExpr) (sp : Span)
    (h : typeExpr g (fs + 1) (⟨i, .Array⟩ :: r) = some (t, sp, rest)) :
    ∃ i1 ty1 r1 sz isz i3 ty3 i4 ty4 r4 b sb,
      r = ⟨i1, ty1⟩ :: r1 ∧ (ty1.kind == Kind.LBracket) = true ∧
      intLitTok g r1 = some (sz, isz, ⟨i3, ty3⟩ :: ⟨i4, ty4⟩ :: r4) ∧ (ty3.kind == Kind.RBracket) = true ∧
      (ty4.kind == Kind.Of) = true ∧ typeExpr g fs r4 = some (b, sb, rest) ∧
      t = .array (some sz) (.some b 0) (mkInfo g i sb.last) ∧ sp = ⟨i, sb.last⟩ := by
  simp only [Grammar.typeExpr] at h
  split at h
  · cases h
  · rename_i x1 r1 h1
    obtain ⟨ty1, e1, k1⟩ := expectK_some _ _ _ _ h1
    split at h
    · cases h
    · rename_i sz isz r2 h2
      split at h
      · cases h
      · rename_i x3 r3 h3
        obtain ⟨ty3, e3, k3⟩ := expectK_some _ _ _ _ h3
        split at h
        · cases h
        · rename_i x4 r4 h4
          obtain ⟨ty4, e4, k4⟩ := expectK_some _ _ _ _ h4
          split at h
          · cases h
          · rename_i b sb r5 h5
            simp only [Option.some.injEq, Prod.mk.injEq] at h
            obtain ⟨rfl, rfl, rfl⟩ := h
            subst e3 e4
            exact ⟨x1, ty1, r1, sz, isz, x3, ty3, x4, ty4, r4, b, sb, e1, k1, h2, k3, k4, h5, rfl, rfl⟩

theorem parseArrayType_none (f : Nat) (s : St) : parseArrayType ctx (f + 1) none s =
    pmap (fun (p : (Option IntLiteral × Option (Ref TypeExpr)) × AstInfo) =>
        TypeExpr.array p.1.1 (OptType.ofOption p.1.2) p.2)
      (info (arrayTypeInner ctx none none (refParse (parseTypeExpr ctx f)))) s := rfl

theorem typeExpr_conf : ∀ (fs : Nat) ts t sp rest, typeExpr (G ctx) fs ts = some (t, sp, rest) →
    ∀ fm s, At ctx s ts → ts.length + 1 ≤ fm → GoodT ctx s (parseTypeExpr ctx fm none s) t sp rest
  | 0, ts, t, sp, rest, hs => by simp [Grammar.typeExpr] at hs
  | fs + 1, ts, t, sp, rest, hs => by
    intro fm s hat hfm
    cases ts with
    | nil => simp [Grammar.typeExpr, identTok] at hs
    | cons t0 r =>
      obtain ⟨i, ty⟩ := t0
      obtain ⟨hN, _, _, hlead⟩ := hat.head
      by_cases hty : ty = .Array
      · subst hty
        obtain ⟨i1, ty1, r1, sz, isz, i3, ty3, i4, ty4, r4, b, sb, rfl, hk1, hl, hk3, hk4, hb, rfl, rfl⟩ :=
          typeExpr_array _ _ _ _ _ _ _ hs
        obtain ⟨f2, rfl⟩ : ∃ f, fm = f + 2 := ⟨fm - 2, by simp only [List.length_cons] at hfm; omega⟩
        -- `array`
        obtain ⟨_, _, _, he0, _, hat0⟩ := tagK_head ctx hat.clearErr .Array
        have hk0 : ((TokenType.Array).kind == Kind.Array) = true := rfl
        rw [hk0] at he0; simp only [if_true] at he0
        have he0' : tk ctx .Array { s with errBuf := [] } = _ := he0
        obtain ⟨_, e1, hat1⟩ := expect_tk ctx hat0 .LBracket hk1 (.ExpectedToken ['['])
        obtain ⟨e2, hat2, hN2, _⟩ := intLit_ok ctx hat1 hl
        have e2' := expect_ok (parseIntLiteral ctx) (.ExpectedToken (chars "int literal")) _ _ _ e2
        obtain ⟨_, e3, hat3⟩ := expect_tk ctx hat2 .RBracket hk3 (.MissingClosing ']')
        obtain ⟨_, e4, hat4⟩ := expect_tk ctx hat3 .Of hk4 (.ExpectedToken (chars "of"))
        -- the base type, under its own reference
        have hat5 : At ctx { s with errBuf := [], pos := i4 + 1, refPos := i4 + 1 } r4 :=
          ⟨hat4.fresh, Nat.le_refl _, hat4.toks⟩
        have hlen : r4.length + 5 ≤ (⟨i, .Array⟩ :: ⟨i1, ty1⟩ :: r1 : Toks).length := by
          have := intLitTok_length _ _ _ _ _ hl
          simp only [List.length_cons] at this ⊢
          omega
        obtain ⟨hresb, hNb, hleb, hrngb, hat6⟩ := typeExpr_conf fs r4 b sb rest hb f2 _ hat5
          (by simp only [List.length_cons] at hfm hlen; omega)
        have hi4 : s.refPos ≤ i4 + 1 := by have := hat4.ref; simpa using this
        have href : refParse (parseTypeExpr ctx f2) none { s with errBuf := [], pos := i4 + 1 } =
            .ok { s with errBuf := [], pos := sb.last + 1 } ⟨relType (i4 + 1) b, i4 + 1 - s.refPos⟩ := by
          have a : ¬ i4 + 1 < s.refPos := by omega
          simp only [refParse, Option.isSome_none, Bool.false_eq_true, if_false, a, Option.map_none]
          simp only [hresb]
        have e5 := expect_ok (refParse (parseTypeExpr ctx f2)) (.ExpectedToken (chars "type expression")) _ _ _ href
        have inner : arrayTypeInner ctx none none (refParse (parseTypeExpr ctx f2)) { s with errBuf := [] } =
            .ok { s with errBuf := [], pos := sb.last + 1 }
              (some (relIntLit s.refPos sz), some ⟨relType (i4 + 1) b, i4 + 1 - s.refPos⟩) := by
          simp only [arrayTypeInner, Parse.bind, he0', e1, e2', e3, e4, e5, pure']
        have hpos : s.refPos ≤ sb.last + 1 := by have := hNb.le; simp at this; omega
        have hi := info_ok _ s _ _ inner hat.ref (by simpa using hpos)
        have hi5 : i4 + 1 ≤ sb.first := by have := hNb.le; simpa using this
        have c1 : i + 1 ≤ i1 := by have := (hat0.head).1.le; simpa using this
        have c2 : i1 + 1 ≤ isz := by have := hN2.le; simpa using this
        have c3 : isz + 1 ≤ i3 := by have := (hat2.head).1.le; simpa using this
        have c4 : i3 + 1 ≤ i4 := by have := (hat3.head).1.le; simpa using this
        refine ⟨?_, hN, by simp; omega,
          by simp [TypeExpr.info, mkInfo, hlead], ⟨hat6.fresh, by simpa using hpos, hat6.toks⟩⟩
        rw [show f2 + 2 = (f2 + 1) + 1 from rfl]
        simp only [parseTypeExpr]
        apply alt2_ok_left
        rw [parseArrayType_none]
        simp only [pmap, hi, OptType.ofOption, relType, relOptType, relInfo, mkInfo,
          hlead, hrngb, Option.map_some]
      · rw [typeExpr_other _ _ _ _ _ hty] at hs
        cases ty with
        | Ident name =>
          simp only [identTok, Option.some.injEq, Prod.mk.injEq] at hs
          obtain ⟨rfl, rfl, rfl⟩ := hs
          obtain ⟨fm', rfl⟩ : ∃ f, fm = f + 1 := ⟨fm - 1, by omega⟩
          obtain ⟨hid, hat1⟩ := ident_ok ctx hat
          refine ⟨?_, hN, Nat.le_refl _, by simp [TypeExpr.info, mkIdent, mkInfo, hlead], hat1⟩
          simp only [parseTypeExpr]
          -- the array alternative fails on an identifier
          have harr : IsErr (parseArrayType ctx fm' none s) := by
            cases fm' with
            | zero => simp only [List.length_cons] at hfm; omega
            | succ f =>
              have h0 : IsErr (tk ctx .Array { s with errBuf := [] }) :=
                tagK_fail ctx hat.clearErr .Array (by intro i' ty' r' e'; cases e'; simp [TokenType.kind])
              have hb : IsErr (arrayTypeInner ctx none none (refParse (parseTypeExpr ctx f)) { s with errBuf := [] }) := by
                unfold arrayTypeInner
                exact bind_err _ _ _ h0
              rw [parseArrayType_none]
              exact pmap_err _ _ _ (info_err _ s hb hat.ref)
          rw [alt2_err_left _ _ _ harr]
          simp only [pmap, hid, relType]
        | _ => simp [identTok] at hs

/-! ### `Reference` parsers -/

theorem refParse_ok {α} (parseT : Option α → P α) (s : St) (a : α) (j : Nat)
    (h : parseT none { s with refPos := s.pos } = .ok { s with refPos := s.pos, pos := j } a) (href : s.refPos ≤ s.pos) :
    refParse parseT none s = .ok { s with pos := j } ⟨a, s.pos - s.refPos⟩ := by
  have a1 : ¬ s.pos < s.refPos := by omega
  simp only [refParse, Option.isSome_none, Bool.false_eq_true, if_false, a1, Option.map_none, h]

theorem refParse_err {α} (parseT : Option α → P α) (s : St) (h : IsErr (parseT none { s with refPos := s.pos }))
    (href : s.refPos ≤ s.pos) : IsErr (refParse parseT none s) := by
  obtain ⟨k, s', h⟩ := h
  have a1 : ¬ s.pos < s.refPos := by omega
  exact ⟨k, { s' with refPos := s.refPos, incRefs := s'.incRefs.dropLast },
    by simp only [refParse, Option.isSome_none, Bool.false_eq_true, if_false, a1, Option.map_none, h]⟩

/-- entry conditions under a fresh reference that starts at the current position -/
theorem At.reref {s : St} {ts : Toks} (h : At ctx s ts) : At ctx { s with refPos := s.pos } ts :=
  ⟨h.fresh, Nat.le_refl _, h.toks⟩

theorem peek_ok {α} (p : P α) (s s' : St) (a : α) (h : p s = .ok s' a) : peek p s = .ok s a := by
  simp [peek, h]

theorem peek_err {α} (p : P α) (s : St) (h : IsErr (p s)) : IsErr (peek p s) := by
  obtain ⟨k, s', h⟩ := h
  exact ⟨k, s', by simp [peek, h]⟩

theorem void_ok {α} (p : P α) (s s' : St) (a : α) (h : p s = .ok s' a) : void p s = .ok s' () := by
  simp [void, pmap, h]

theorem void_err {α} (p : P α) (s : St) (h : IsErr (p s)) : IsErr (void p s) := pmap_err _ _ _ h

/-! ### look-ahead sets (evaluated on the generated table) -/

theorem lookAhead_succ (fuel d : Nat) (n : LAName) :
    lookAhead ctx fuel (d + 1) n = altList ((Gen.lookAheadSet n).map (fun item =>
      match item with
      | .tok k => void (tk ctx k)
      | .identThen ks => void (Parse.bind (parseIdentifier ctx none) (fun _ => altList (ks.map (tk ctx))))
      | .sub m => lookAhead ctx fuel d m)) := rfl

/-- `look_ahead::arg` / `look_ahead::param_dec` accept `)` and `,` -/
theorem la_param_ok {s : St} {i : Nat} {ty : TokenType} {rest : Toks} (h : At ctx s (⟨i, ty⟩ :: rest))
    (hk : ty.kind = .RParen ∨ ty.kind = .Comma) :
    peek (la ctx .param_dec) s = .ok s () ∧ peek (la ctx .arg) s = .ok s () := by
  obtain ⟨t1, _, _, he1, _, _⟩ := tagK_head ctx h .RParen
  obtain ⟨t2, _, _, he2, _, _⟩ := tagK_head ctx h .Comma
  have he1' : tk ctx .RParen s = _ := he1
  have he2' : tk ctx .Comma s = _ := he2
  have key : ∀ d, lookAhead ctx 0 (d + 1) .param_dec s = .ok { s with pos := i + 1 } () := by
    intro d
    rw [lookAhead_succ]
    simp only [Gen.lookAheadSet, List.map_cons, List.map_nil]
    rcases hk with hk | hk
    · have : (ty.kind == Kind.RParen) = true := by simp [hk]
      rw [this] at he1'; simp only [if_true] at he1'
      exact altList_cons_ok _ _ _ _ _ (void_ok _ _ _ _ he1')
    · have a : (ty.kind == Kind.RParen) = false := by simp [hk]
      have b : (ty.kind == Kind.Comma) = true := by simp [hk]
      rw [a] at he1'; rw [b] at he2'
      simp only [if_true, Bool.false_eq_true, if_false] at he1' he2'
      rw [altList_cons_err _ _ _ (by simp) (void_err _ _ ⟨false, s, he1'⟩)]
      exact altList_cons_ok _ _ _ _ _ (void_ok _ _ _ _ he2')
  have hs' := key 6
  refine ⟨peek_ok _ _ _ _ (key 7), ?_⟩
  have : lookAhead ctx 0 (7 + 1) .arg s = .ok { s with pos := i + 1 } () := by
    rw [lookAhead_succ]
    simp only [Gen.lookAheadSet, List.map_cons, List.map_nil, altList]
    exact hs'
  exact peek_ok _ _ _ _ this

/-- `look_ahead::stmt` accepts `}` -/
theorem la_stmt_rcurly {s : St} {i : Nat} {rest : Toks} (h : At ctx s (⟨i, .RCurly⟩ :: rest)) :
    la ctx .stmt s = .ok { s with pos := i + 1 } () := by
  obtain ⟨t1, _, _, he1, _, _⟩ := tagK_head ctx h .LCurly
  obtain ⟨t2, _, _, he2, _, _⟩ := tagK_head ctx h .RCurly
  have he1' : tk ctx .LCurly s = _ := he1
  have he2' : tk ctx .RCurly s = _ := he2
  have a : ((TokenType.RCurly).kind == Kind.LCurly) = false := rfl
  have b : ((TokenType.RCurly).kind == Kind.RCurly) = true := rfl
  rw [a] at he1'; rw [b] at he2'
  simp only [if_true, Bool.false_eq_true, if_false] at he1' he2'
  show lookAhead ctx 0 (7 + 1) .stmt s = _
  rw [lookAhead_succ]
  simp only [Gen.lookAheadSet, List.map_cons, List.map_nil]
  rw [altList_cons_err _ _ _ (by simp) (void_err _ _ ⟨false, s, he1'⟩)]
  exact altList_cons_ok _ _ _ _ _ (void_ok _ _ _ _ he2')

theorem parseStmt_none (f : Nat) (s : St) : parseStmt ctx (f + 1) none s =
    altList [
      pmap (fun (p : Token × AstInfo) => Stmt.empty p.2) (info (tk ctx .Semic)),
      parseIf ctx f none,
      parseWhile ctx f none,
      parseBlock ctx f none,
      pmap Stmt.call (parseCall ctx none),
      pmap Stmt.assign (parseAssignment ctx none),
      stmtParseError ctx] s := rfl

theorem parseIf_none (f : Nat) (s : St) : parseIf ctx (f + 1) none s =
    pmap (fun (p : (Option (Ref Expr) × Option (Ref Stmt) × Option (Option (Ref Stmt))) × AstInfo) =>
        Stmt.ifS p.1.1 (OptStmt.ofOption p.1.2.1) (OptStmt.ofOption (p.1.2.2.getD none)) p.2)
      (info (ifInner ctx none none none (refParse (parseStmt ctx f)))) s := rfl

theorem parseWhile_none (f : Nat) (s : St) : parseWhile ctx (f + 1) none s =
    pmap (fun (p : (Option (Ref Expr) × Option (Ref Stmt)) × AstInfo) =>
        Stmt.whileS p.1.1 (OptStmt.ofOption p.1.2) p.2)
      (info (whileInner ctx none none (refParse (parseStmt ctx f)))) s := rfl

theorem parseBlock_none (f : Nat) (s : St) : parseBlock ctx (f + 1) none s =
    pmap (fun (p : List (Ref Stmt) × AstInfo) => Stmt.block (StmtList.ofList p.1) p.2)
      (info (blockInner ctx none (parseStmt ctx f))) s := rfl

theorem parseCall_none (s : St) : parseCall ctx none s =
    pmap (fun (p : (Identifier × List (Ref Expr)) × AstInfo) =>
        ({ name := p.1.1, args := p.1.2, info := p.2 } : CallStmt))
      (info (callInner ctx none none)) s := rfl

theorem parseAssignment_none (s : St) : parseAssignment ctx none s =
    pmap (fun (p : (Var × Option (Ref Expr)) × AstInfo) =>
        ({ target := p.1.1, expr := p.1.2, info := p.2 } : Assignment))
      (info (assignInner ctx none none)) s := rfl

theorem parseArgument_none (s : St) : parseArgument ctx none s =
    alt2 (Parse.bind (parseExpression ctx (exprFuel ctx) none) (fun e => Parse.bind (peek (la ctx .arg)) (fun _ => pure' e)))
      (pmap (fun (p : List Token × AstInfo) =>
          Expr.error { p.2 with errors := p.2.errors ++ [⟨p.2.range, .ExpectedToken (chars "expression")⟩] })
        (info (fun s => ignoreUntil0 ctx (peek (la ctx .arg)) (loopFuel ctx) s.pos s))) s := rfl


theorem relStmt_info (r : Nat) (t : Stmt) : (relStmt r t).info = relInfo r t.info := by
  cases t <;> simp [relStmt, Stmt.info]

def GoodS (s : St) (res : Res Stmt) (t : Stmt) (sp : Span) (rest : Toks) : Prop :=
  res = .ok { s with pos := sp.last + 1 } (relStmt s.refPos t) ∧
  Next ctx.toks s.pos sp.first ∧ sp.first ≤ sp.last ∧ t.info.range = ⟨s.pos, sp.last + 1⟩ ∧
  At ctx { s with pos := sp.last + 1 } rest

/-- the references of a statement list in the implementation's convention -/
def relRefs (base : Nat) : StmtList → List (Ref Stmt)
  | .nil => []
  | .cons t _ r => ⟨relStmt t.info.range.lo t, t.info.range.lo - base⟩ :: relRefs base r

theorem ofList_relRefs (base : Nat) : ∀ ss : StmtList, StmtList.ofList (relRefs base ss) = relStmtList base ss
  | .nil => rfl
  | .cons t o r => by simp [relRefs, StmtList.ofList, relStmtList, ofList_relRefs base r]

structure SConf (fs : Nat) : Prop where
  stmt : ∀ ts t sp rest, Grammar.stmt (G ctx) fs ts = some (t, sp, rest) → ∀ fm s, At ctx s ts → 2 * ts.length + 2 ≤ fm →
    GoodS ctx s (parseStmt ctx fm none s) t sp rest
  stmts : ∀ ts ss rest, Grammar.stmts (G ctx) fs ts = some (ss, rest) → ∀ fm lf s, At ctx s ts → 2 * ts.length + 2 ≤ fm →
    ts.length < lf →
    ∃ j, many0 (refParse (parseStmt ctx fm) none) lf s = .ok { s with pos := j } (relRefs s.refPos ss) ∧ s.pos ≤ j ∧
      At ctx { s with pos := j } rest ∧ ∃ i r, rest = ⟨i, .RCurly⟩ :: r

/-- an expression under its own reference (`refExpr`) -/
theorem refExpr_ok {fs : Nat} {ts rest : Toks} {e : Expr} {sp : Span} {s : St}
    (hs : expr (G ctx) fs ts = some (e, sp, rest)) (hat : At ctx s ts) :
    refExpr ctx none s = .ok { s with pos := sp.last + 1 } (relRefExpr s.refPos (refAbs e)) ∧
    s.pos ≤ sp.last ∧ At ctx { s with pos := sp.last + 1 } rest := by
  obtain ⟨g1, g2, g3, g4, g5⟩ := expression_conforms ctx hs (hat.reref ctx)
  have hr := refParse_ok (parseExpression ctx (exprFuel ctx)) s _ _ g1 hat.ref
  refine ⟨?_, by have := g2.le; simp at this; omega, ⟨g5.fresh, by have := hat.ref; have := g2.le; simp at *; omega, g5.toks⟩⟩
  simp only [refExpr, hr, relRefExpr, refAbs, g4]

/-- a statement under its own reference -/
theorem refStmt_ok {fs : Nat} (ih : SConf ctx fs) {ts rest : Toks} {t : Stmt} {sp : Span} {s : St} {fm : Nat}
    (hs : Grammar.stmt (G ctx) fs ts = some (t, sp, rest)) (hat : At ctx s ts) (hfm : 2 * ts.length + 2 ≤ fm) :
    refParse (parseStmt ctx fm) none s = .ok { s with pos := sp.last + 1 } (relRefStmt s.refPos (refAbs t)) ∧
    s.pos ≤ sp.last ∧ At ctx { s with pos := sp.last + 1 } rest := by
  obtain ⟨g1, g2, g3, g4, g5⟩ := ih.stmt ts t sp rest hs fm _ (hat.reref ctx) hfm
  have hr := refParse_ok (parseStmt ctx fm) s _ _ g1 hat.ref
  refine ⟨?_, by have := g2.le; simp at this; omega, ⟨g5.fresh, by have := hat.ref; have := g2.le; simp at *; omega, g5.toks⟩⟩
  simp only [hr, relRefStmt, refAbs, g4]

theorem stmt_if_flat (g : GCtx) (fs i : Nat) (r rest : Toks) (t : Stmt) (sp : Span)
    (h : Grammar.stmt g (fs + 1) (⟨i, .If⟩ :: r) = some (t, sp, rest)) :
    ∃ ilp tylp r1 c spc irp tyrp r3 th st r4,
      r = ⟨ilp, tylp⟩ :: r1 ∧ (tylp.kind == Kind.LParen) = true ∧
      expr g (8 * r1.length + 16) r1 = some (c, spc, ⟨irp, tyrp⟩ :: r3) ∧ (tyrp.kind == Kind.RParen) = true ∧
      Grammar.stmt g fs r3 = some (th, st, r4) ∧
      ((∃ ie r5 e se, r4 = ⟨ie, .Else⟩ :: r5 ∧ Grammar.stmt g fs r5 = some (e, se, rest) ∧
          t = .ifS (some (refAbs c)) (.some th 0) (.some e 0) (mkInfo g i se.last) ∧ sp = ⟨i, se.last⟩) ∨
       ((∀ ie r5, r4 ≠ ⟨ie, .Else⟩ :: r5) ∧ rest = r4 ∧
          t = .ifS (some (refAbs c)) (.some th 0) .none (mkInfo g i st.last) ∧ sp = ⟨i, st.last⟩)) := by
  simp only [Grammar.stmt] at h
  split at h
  · cases h
  · rename_i x1 r1 h1
    obtain ⟨ty1, e1, k1⟩ := expectK_some _ _ _ _ h1
    split at h
    · cases h
    · rename_i c spc r2 h2
      split at h
      · cases h
      · rename_i x3 r3 h3
        obtain ⟨ty3, e3, k3⟩ := expectK_some _ _ _ _ h3
        subst e3
        split at h
        · cases h
        · rename_i th st r4 h4
          refine ⟨x1, ty1, r1, c, spc, x3, ty3, r3, th, st, r4, e1, k1, h2, k3, h4, ?_⟩
          split at h
          · rename_i ie r5
            split at h
            · rename_i e se r6 h6
              simp only [Option.some.injEq, Prod.mk.injEq] at h
              obtain ⟨rfl, rfl, rfl⟩ := h
              exact Or.inl ⟨ie, r5, e, se, rfl, h6, rfl, rfl⟩
            · cases h
          · rename_i hne
            simp only [Option.some.injEq, Prod.mk.injEq] at h
            obtain ⟨rfl, rfl, rfl⟩ := h
            exact Or.inr ⟨fun ie r5 e => hne ie r5 e, rfl, rfl, rfl⟩

theorem stmt_while_flat (g : GCtx) (fs i : Nat) (r rest : Toks) (t : Stmt) (sp : Span)
    (h : Grammar.stmt g (fs + 1) (⟨i, .While⟩ :: r) = some (t, sp, rest)) :
    ∃ ilp tylp r1 c spc irp tyrp r3 b sb,
      r = ⟨ilp, tylp⟩ :: r1 ∧ (tylp.kind == Kind.LParen) = true ∧
      expr g (8 * r1.length + 16) r1 = some (c, spc, ⟨irp, tyrp⟩ :: r3) ∧ (tyrp.kind == Kind.RParen) = true ∧
      Grammar.stmt g fs r3 = some (b, sb, rest) ∧
      t = .whileS (some (refAbs c)) (.some b 0) (mkInfo g i sb.last) ∧ sp = ⟨i, sb.last⟩ := by
  simp only [Grammar.stmt] at h
  split at h
  · cases h
  · rename_i x1 r1 h1
    obtain ⟨ty1, e1, k1⟩ := expectK_some _ _ _ _ h1
    split at h
    · cases h
    · rename_i c spc r2 h2
      split at h
      · cases h
      · rename_i x3 r3 h3
        obtain ⟨ty3, e3, k3⟩ := expectK_some _ _ _ _ h3
        subst e3
        split at h
        · cases h
        · rename_i b sb r4 h4
          simp only [Option.some.injEq, Prod.mk.injEq] at h
          obtain ⟨rfl, rfl, rfl⟩ := h
          exact ⟨x1, ty1, r1, c, spc, x3, ty3, r3, b, sb, e1, k1, h2, k3, h4, rfl, rfl⟩

theorem stmt_block_flat (g : GCtx) (fs i : Nat) (r rest : Toks) (t : Stmt) (sp : Span)
    (h : Grammar.stmt g (fs + 1) (⟨i, .LCurly⟩ :: r) = some (t, sp, rest)) :
    ∃ ss j tyj, Grammar.stmts g fs r = some (ss, ⟨j, tyj⟩ :: rest) ∧ (tyj.kind == Kind.RCurly) = true ∧
      t = .block ss (mkInfo g i j) ∧ sp = ⟨i, j⟩ := by
  simp only [Grammar.stmt] at h
  split at h
  · cases h
  · rename_i ss r1 h1
    split at h
    · rename_i j r2 h2
      obtain ⟨tyj, e2, k2⟩ := expectK_some _ _ _ _ h2
      subst e2
      simp only [Option.some.injEq, Prod.mk.injEq] at h
      obtain ⟨rfl, rfl, rfl⟩ := h
      exact ⟨ss, j, tyj, h1, k2, rfl, rfl⟩
    · cases h

theorem stmt_call_flat (g : GCtx) (fs i ilp : Nat) (nm : List Char) (r rest : Toks) (t : Stmt) (sp : Span)
    (h : Grammar.stmt g (fs + 1) (⟨i, .Ident nm⟩ :: ⟨ilp, .LParen⟩ :: r) = some (t, sp, rest)) :
    ∃ as irp tyrp j tyj,
      ((∃ k r', r = ⟨k, .RParen⟩ :: r' ∧ as = [] ∧ r = ⟨irp, tyrp⟩ :: ⟨j, tyj⟩ :: rest) ∨
       ((∀ k r', r ≠ ⟨k, .RParen⟩ :: r') ∧ exprList g (r.length + 1) r = some (as, ⟨irp, tyrp⟩ :: ⟨j, tyj⟩ :: rest))) ∧
      (tyrp.kind == Kind.RParen) = true ∧ (tyj.kind == Kind.Semic) = true ∧
      t = .call { name := mkIdent g i nm, args := as, info := mkInfo g i j } ∧ sp = ⟨i, j⟩ := by
  simp only [Grammar.stmt] at h
  split at h
  · cases h
  · rename_i as r1 h1
    split at h
    · cases h
    · rename_i x2 r2 h2
      obtain ⟨ty2, e2, k2⟩ := expectK_some _ _ _ _ h2
      subst e2
      split at h
      · rename_i j r3 h3
        obtain ⟨ty3, e3, k3⟩ := expectK_some _ _ _ _ h3
        subst e3
        simp only [Option.some.injEq, Prod.mk.injEq] at h
        obtain ⟨rfl, rfl, rfl⟩ := h
        refine ⟨as, x2, ty2, j, ty3, ?_, k2, k3, rfl, rfl⟩
        split at h1
        · rename_i k r'
          simp only [Option.some.injEq, Prod.mk.injEq] at h1
          obtain ⟨rfl, e⟩ := h1
          exact Or.inl ⟨k, r', rfl, rfl, e⟩
        · rename_i hne
          exact Or.inr ⟨fun k r' e => hne k r' e, h1⟩
      · cases h

theorem stmt_assign_flat (g : GCtx) (fs i : Nat) (nm : List Char) (r rest : Toks) (t : Stmt) (sp : Span)
    (hnc : ∀ k r', r ≠ ⟨k, .LParen⟩ :: r')
    (h : Grammar.stmt g (fs + 1) (⟨i, .Ident nm⟩ :: r) = some (t, sp, rest)) :
    ∃ v sv ias tyas r1 e se j tyj,
      varAccess g (8 * (⟨i, .Ident nm⟩ :: r : Toks).length + 16) (⟨i, .Ident nm⟩ :: r) = some (v, sv, ⟨ias, tyas⟩ :: r1) ∧
      (tyas.kind == Kind.Assign) = true ∧
      expr g (8 * r1.length + 16) r1 = some (e, se, ⟨j, tyj⟩ :: rest) ∧ (tyj.kind == Kind.Semic) = true ∧
      t = .assign { target := v, expr := some (refAbs e), info := mkInfo g i j } ∧ sp = ⟨i, j⟩ := by
  simp only [Grammar.stmt] at h
  split at h
  · cases h
  · rename_i v sv r0 h0
    split at h
    · cases h
    · rename_i x1 r1 h1
      obtain ⟨ty1, e1, k1⟩ := expectK_some _ _ _ _ h1
      subst e1
      split at h
      · cases h
      · rename_i e se r2 h2
        split at h
        · rename_i j r3 h3
          obtain ⟨ty3, e3, k3⟩ := expectK_some _ _ _ _ h3
          subst e3
          simp only [Option.some.injEq, Prod.mk.injEq] at h
          obtain ⟨rfl, rfl, rfl⟩ := h
          exact ⟨v, sv, x1, ty1, r1, e, se, j, ty3, h0, k1, h2, k3, rfl, rfl⟩
        · cases h

/-! ### alternatives of `Statement::parse` that fail on the head token -/

theorem fail_empty {s : St} {ts : Toks} (h : At ctx s ts) (hne : ∀ i ty r, ts = ⟨i, ty⟩ :: r → ty.kind ≠ .Semic) :
    IsErr (pmap (fun (p : Token × AstInfo) => Stmt.empty p.2) (info (tk ctx .Semic)) s) :=
  pmap_err _ _ _ (info_err _ _ (tagK_fail ctx h.clearErr .Semic hne) h.ref)

theorem fail_if {s : St} {ts : Toks} (h : At ctx s ts) (f : Nat) (hne : ∀ i ty r, ts = ⟨i, ty⟩ :: r → ty.kind ≠ .If) :
    IsErr (parseIf ctx (f + 1) none s) := by
  have h0 : IsErr (tk ctx .If { s with errBuf := [] }) := tagK_fail ctx h.clearErr .If hne
  have hb : IsErr (ifInner ctx none none none (refParse (parseStmt ctx f)) { s with errBuf := [] }) := by
    unfold ifInner; exact bind_err _ _ _ h0
  rw [parseIf_none]
  exact pmap_err _ _ _ (info_err _ s hb h.ref)

theorem fail_while {s : St} {ts : Toks} (h : At ctx s ts) (f : Nat) (hne : ∀ i ty r, ts = ⟨i, ty⟩ :: r → ty.kind ≠ .While) :
    IsErr (parseWhile ctx (f + 1) none s) := by
  have h0 : IsErr (tk ctx .While { s with errBuf := [] }) := tagK_fail ctx h.clearErr .While hne
  have hb : IsErr (whileInner ctx none none (refParse (parseStmt ctx f)) { s with errBuf := [] }) := by
    unfold whileInner; exact bind_err _ _ _ h0
  rw [parseWhile_none]
  exact pmap_err _ _ _ (info_err _ s hb h.ref)

theorem fail_block {s : St} {ts : Toks} (h : At ctx s ts) (f : Nat) (hne : ∀ i ty r, ts = ⟨i, ty⟩ :: r → ty.kind ≠ .LCurly) :
    IsErr (parseBlock ctx (f + 1) none s) := by
  have h0 : IsErr (tk ctx .LCurly { s with errBuf := [] }) := tagK_fail ctx h.clearErr .LCurly hne
  have hb : IsErr (blockInner ctx none (parseStmt ctx f) { s with errBuf := [] }) := by
    unfold blockInner; exact bind_err _ _ _ h0
  rw [parseBlock_none]
  exact pmap_err _ _ _ (info_err _ s hb h.ref)

/-- the call alternative fails unless an identifier is followed by `(` -/
theorem fail_call_head {s : St} {ts : Toks} (h : At ctx s ts) (hne : ∀ i ty r, ts = ⟨i, ty⟩ :: r → ty.kind ≠ .Ident) :
    IsErr (pmap Stmt.call (parseCall ctx none) s) := by
  have h0 := ident_fail ctx h.clearErr hne
  have hb : IsErr (callInner ctx none none { s with errBuf := [] }) := by
    unfold callInner; exact bind_err _ _ _ (bind_err _ _ _ h0)
  have hc : IsErr (parseCall ctx none s) := by
    rw [parseCall_none]; exact pmap_err _ _ _ (info_err _ s hb h.ref)
  exact pmap_err _ _ _ hc

theorem fail_call_second {s : St} {i : Nat} {nm : List Char} {r : Toks} (h : At ctx s (⟨i, .Ident nm⟩ :: r))
    (hne : ∀ k ty r', r = ⟨k, ty⟩ :: r' → ty.kind ≠ .LParen) :
    IsErr (pmap Stmt.call (parseCall ctx none) s) := by
  obtain ⟨hid, hat1⟩ := ident_ok ctx h.clearErr
  have h0 : IsErr (tk ctx .LParen { s with errBuf := [], pos := i + 1 }) := tagK_fail ctx hat1 .LParen hne
  have hb : IsErr (callInner ctx none none { s with errBuf := [] }) := by
    unfold callInner
    apply bind_err
    obtain ⟨k, s', he⟩ := h0
    exact ⟨k, s', by simp only [Parse.bind, hid, he]⟩
  have hc : IsErr (parseCall ctx none s) := by
    rw [parseCall_none]; exact pmap_err _ _ _ (info_err _ s hb h.ref)
  exact pmap_err _ _ _ hc

/-! ### the empty statement -/

theorem stmt_empty_conf {s : St} {i : Nat} {r : Toks} (hat : At ctx s (⟨i, .Semic⟩ :: r)) (f : Nat) :
    GoodS ctx s (parseStmt ctx (f + 1) none s) (.empty (mkInfo (G ctx) i i)) ⟨i, i⟩ r := by
  obtain ⟨hN, _, _, hlead⟩ := hat.head
  obtain ⟨t, _, _, he, _, hat1⟩ := tagK_head ctx hat.clearErr .Semic
  have hk : ((TokenType.Semic).kind == Kind.Semic) = true := rfl
  rw [hk] at he; simp only [if_true] at he
  have he' : tk ctx .Semic { s with errBuf := [] } = _ := he
  have hi := info_ok _ s _ _ he' hat.ref (by have := hat1.ref; simpa using this)
  refine ⟨?_, hN, Nat.le_refl _, by simp [Stmt.info, mkInfo, hlead], ⟨hat1.fresh, hat1.ref, hat1.toks⟩⟩
  rw [parseStmt_none]
  apply altList_cons_ok
  simp only [pmap, hi, relStmt, relInfo, mkInfo, hlead]

theorem opt_ok {α} (p : P α) (s s' : St) (a : α) (h : p s = .ok s' a) : opt p s = .ok s' (some a) := by
  simp [opt, h]

theorem opt_err {α} (p : P α) (s : St) (h : IsErr (p s)) : opt p s = .ok s none := by
  obtain ⟨k, s', h⟩ := h
  simp [opt, h]

/-- lengths: a consumed head token -/
theorem At.cons_length {s s' : St} {t : ITok} {r ts : Toks} (_h : At ctx s (t :: r)) (h' : At ctx s' ts)
    (hpos : t.idx + 1 ≤ s'.pos) (hr : r = tsFrom ctx.toks (t.idx + 1)) : ts.length ≤ r.length := by
  rw [hr, ← h'.toks]
  exact tsFrom_length_mono _ _ _ _ rfl hpos

theorem stmt_if_conf {fs : Nat} (ih : SConf ctx fs) {s : St} {i : Nat} {r rest : Toks} {t : Stmt} {sp : Span}
    (hs : Grammar.stmt (G ctx) (fs + 1) (⟨i, .If⟩ :: r) = some (t, sp, rest)) (hat : At ctx s (⟨i, .If⟩ :: r))
    (f : Nat) (hf : 2 * (r.length + 1) + 2 ≤ f + 2) :
    GoodS ctx s (parseStmt ctx (f + 2) none s) t sp rest := by
  obtain ⟨ilp, tylp, r1, c, spc, irp, tyrp, r3, th, st, r4, rfl, klp, hc, krp, hth, helse⟩ := stmt_if_flat _ _ _ _ _ _ _ hs
  obtain ⟨hN, _, hr0, hlead⟩ := hat.head
  -- `if`
  obtain ⟨_, _, _, he0, _, hat0⟩ := tagK_head ctx hat.clearErr .If
  have hk0 : ((TokenType.If).kind == Kind.If) = true := rfl
  rw [hk0] at he0; simp only [if_true] at he0
  have he0' : tk ctx .If { s with errBuf := [] } = _ := he0
  obtain ⟨_, e1, hat1⟩ := expect_tk ctx hat0 .LParen klp (.MissingOpening '(')
  -- condition
  obtain ⟨e2, hp2, hat2⟩ := refExpr_ok ctx hc hat1
  have e2' := expect_ok (refExpr ctx) (.ExpectedToken (chars "expression")) _ _ _ e2
  obtain ⟨_, e3, hat3⟩ := expect_tk ctx hat2 .RParen krp (.MissingClosing ')')
  -- lengths
  have l1 : r1.length + 1 ≤ (⟨ilp, tylp⟩ :: r1 : Toks).length := by simp
  have l3 : r3.length + 1 ≤ r1.length := by
    have := hat1.length_mono ctx hat2 (by simp at hp2 ⊢; omega)
    simpa using this
  -- then branch
  obtain ⟨e4, hp4, hat4⟩ := refStmt_ok ctx ih hth hat3 (fm := f) (by simp only [List.length_cons] at hf; omega)
  have e4' := expect_ok (refParse (parseStmt ctx f)) (.ExpectedToken (chars "expression")) _ _ _ e4
  have hi0 : s.pos ≤ i := hN.le
  have c1 : i + 1 ≤ ilp := by have := (hat0.head).1.le; simpa using this
  have c2 : ilp + 1 ≤ spc.last := by simpa using hp2
  have c3 : spc.last + 1 ≤ irp := by have := (hat2.head).1.le; simpa using this
  have c4 : irp + 1 ≤ st.last := by simpa using hp4
  rcases helse with ⟨ie, r5, e, se, rfl, he, rfl, rfl⟩ | ⟨hne, rfl, rfl, rfl⟩
  · -- with else
    obtain ⟨_, _, _, he5, _, hat5⟩ := tagK_head ctx hat4 .Else
    have hk5 : ((TokenType.Else).kind == Kind.Else) = true := rfl
    rw [hk5] at he5; simp only [if_true] at he5
    have he5' : tk ctx .Else _ = _ := he5
    have l5 : r5.length + 1 ≤ r3.length := by
      have := hat3.length_mono ctx hat4 (by simp at hp4 ⊢; omega)
      simpa using this
    obtain ⟨e6, hp6, hat6⟩ := refStmt_ok ctx ih he hat5 (fm := f) (by simp only [List.length_cons] at hf; omega)
    have e6' := expect_ok (refParse (parseStmt ctx f)) (.ExpectedToken (chars "statement")) _ _ _ e6
    have c5 : st.last + 1 ≤ ie := by have := (hat4.head).1.le; simpa using this
    have c6 : ie + 1 ≤ se.last := by simpa using hp6
    have hopt : opt (Parse.bind (tk ctx .Else) (fun _ =>
        Spl.Parse.expect none (refParse (parseStmt ctx f)) (.ExpectedToken (chars "statement"))))
        { s with errBuf := [], pos := st.last + 1 } =
        .ok { s with errBuf := [], pos := se.last + 1 } (some (some (relRefStmt s.refPos (refAbs e)))) :=
      opt_ok _ _ _ _ (by simp only [Parse.bind, he5', e6'])
    have inner : ifInner ctx none none none (refParse (parseStmt ctx f)) { s with errBuf := [] } =
        .ok { s with errBuf := [], pos := se.last + 1 }
          (some (relRefExpr s.refPos (refAbs c)), some (relRefStmt s.refPos (refAbs th)),
            some (some (relRefStmt s.refPos (refAbs e)))) := by
      simp only [ifInner, Parse.bind, he0', e1, e2', e3, e4', hopt, pure']
    have hpos : s.refPos ≤ se.last + 1 := by have := hat.ref; omega
    have hi := info_ok _ s _ _ inner hat.ref (by simpa using hpos)
    refine ⟨?_, hN, by simp; omega, by simp [Stmt.info, mkInfo, hlead], ⟨hat6.fresh, by simpa using hpos, hat6.toks⟩⟩
    rw [show f + 2 = (f + 1) + 1 from rfl, parseStmt_none]
    rw [altList_cons_err _ _ _ (by simp) (fail_empty ctx hat (by intro i' ty' r' e'; cases e'; simp [TokenType.kind]))]
    apply altList_cons_ok
    rw [parseIf_none]
    simp only [pmap, hi, OptStmt.ofOption, Option.getD, relStmt, relOptStmt, relRefStmt, refAbs, relInfo, mkInfo, hlead,
      Option.map_some]
  · -- without else
    have hfail : IsErr (tk ctx .Else { s with errBuf := [], pos := st.last + 1 }) :=
      tagK_fail ctx hat4 .Else (by
        intro i' ty' r' e'
        intro hk
        apply hne i' r'
        cases ty' <;> simp_all [TokenType.kind])
    have hopt : opt (Parse.bind (tk ctx .Else) (fun _ =>
        Spl.Parse.expect none (refParse (parseStmt ctx f)) (.ExpectedToken (chars "statement"))))
        { s with errBuf := [], pos := st.last + 1 } = .ok { s with errBuf := [], pos := st.last + 1 } none :=
      opt_err _ _ (bind_err _ _ _ hfail)
    have inner : ifInner ctx none none none (refParse (parseStmt ctx f)) { s with errBuf := [] } =
        .ok { s with errBuf := [], pos := st.last + 1 }
          (some (relRefExpr s.refPos (refAbs c)), some (relRefStmt s.refPos (refAbs th)), none) := by
      simp only [ifInner, Parse.bind, he0', e1, e2', e3, e4', hopt, pure']
    have hpos : s.refPos ≤ st.last + 1 := by have := hat.ref; omega
    have hi := info_ok _ s _ _ inner hat.ref (by simpa using hpos)
    refine ⟨?_, hN, by simp; omega, by simp [Stmt.info, mkInfo, hlead], ⟨hat4.fresh, by simpa using hpos, hat4.toks⟩⟩
    rw [show f + 2 = (f + 1) + 1 from rfl, parseStmt_none]
    rw [altList_cons_err _ _ _ (by simp) (fail_empty ctx hat (by intro i' ty' r' e'; cases e'; simp [TokenType.kind]))]
    apply altList_cons_ok
    rw [parseIf_none]
    simp only [pmap, hi, OptStmt.ofOption, Option.getD, relStmt, relOptStmt, relRefStmt, refAbs, relInfo, mkInfo, hlead,
      Option.map_some]

theorem stmt_while_conf {fs : Nat} (ih : SConf ctx fs) {s : St} {i : Nat} {r rest : Toks} {t : Stmt} {sp : Span}
    (hs : Grammar.stmt (G ctx) (fs + 1) (⟨i, .While⟩ :: r) = some (t, sp, rest)) (hat : At ctx s (⟨i, .While⟩ :: r))
    (f : Nat) (hf : 2 * (r.length + 1) + 2 ≤ f + 2) :
    GoodS ctx s (parseStmt ctx (f + 2) none s) t sp rest := by
  obtain ⟨ilp, tylp, r1, c, spc, irp, tyrp, r3, b, sb, rfl, klp, hc, krp, hb, rfl, rfl⟩ := stmt_while_flat _ _ _ _ _ _ _ hs
  obtain ⟨hN, _, hr0, hlead⟩ := hat.head
  obtain ⟨_, _, _, he0, _, hat0⟩ := tagK_head ctx hat.clearErr .While
  have hk0 : ((TokenType.While).kind == Kind.While) = true := rfl
  rw [hk0] at he0; simp only [if_true] at he0
  have he0' : tk ctx .While { s with errBuf := [] } = _ := he0
  obtain ⟨_, e1, hat1⟩ := expect_tk ctx hat0 .LParen klp (.MissingOpening '(')
  obtain ⟨e2, hp2, hat2⟩ := refExpr_ok ctx hc hat1
  have e2' := expect_ok (refExpr ctx) (.ExpectedToken (chars "expression")) _ _ _ e2
  obtain ⟨_, e3, hat3⟩ := expect_tk ctx hat2 .RParen krp (.MissingClosing ')')
  have l3 : r3.length + 1 ≤ r1.length := by
    have := hat1.length_mono ctx hat2 (by simp at hp2 ⊢; omega)
    simpa using this
  obtain ⟨e4, hp4, hat4⟩ := refStmt_ok ctx ih hb hat3 (fm := f) (by simp only [List.length_cons] at hf; omega)
  have e4' := expect_ok (refParse (parseStmt ctx f)) (.ExpectedToken (chars "expression")) _ _ _ e4
  have hi0 : s.pos ≤ i := hN.le
  have c1 : i + 1 ≤ ilp := by have := (hat0.head).1.le; simpa using this
  have c2 : ilp + 1 ≤ spc.last := by simpa using hp2
  have c3 : spc.last + 1 ≤ irp := by have := (hat2.head).1.le; simpa using this
  have c4 : irp + 1 ≤ sb.last := by simpa using hp4
  have inner : whileInner ctx none none (refParse (parseStmt ctx f)) { s with errBuf := [] } =
      .ok { s with errBuf := [], pos := sb.last + 1 }
        (some (relRefExpr s.refPos (refAbs c)), some (relRefStmt s.refPos (refAbs b))) := by
    simp only [whileInner, Parse.bind, he0', e1, e2', e3, e4', pure']
  have hpos : s.refPos ≤ sb.last + 1 := by have := hat.ref; omega
  have hi := info_ok _ s _ _ inner hat.ref (by simpa using hpos)
  refine ⟨?_, hN, by simp; omega, by simp [Stmt.info, mkInfo, hlead], ⟨hat4.fresh, by simpa using hpos, hat4.toks⟩⟩
  rw [show f + 2 = (f + 1) + 1 from rfl, parseStmt_none]
  rw [altList_cons_err _ _ _ (by simp) (fail_empty ctx hat (by intro i' ty' r' e'; cases e'; simp [TokenType.kind]))]
  rw [altList_cons_err _ _ _ (by simp) (fail_if ctx hat f (by intro i' ty' r' e'; cases e'; simp [TokenType.kind]))]
  apply altList_cons_ok
  rw [parseWhile_none]
  simp only [pmap, hi, OptStmt.ofOption, relStmt, relOptStmt, relRefStmt, refAbs, relInfo, mkInfo, hlead, Option.map_some]

theorem many_none {α} (range : α → Range) (parseT : Option α → P α) (fuel : Nat) (s : St) :
    many ctx range parseT fuel none s = many0 (refParse parseT none) fuel s := by
  simp only [many, Option.getD, manyOld, List.nil_append]
  cases many0 (refParse parseT none) fuel s <;> rfl

theorem stmt_block_conf {fs : Nat} (ih : SConf ctx fs) {s : St} {i : Nat} {r rest : Toks} {t : Stmt} {sp : Span}
    (hs : Grammar.stmt (G ctx) (fs + 1) (⟨i, .LCurly⟩ :: r) = some (t, sp, rest)) (hat : At ctx s (⟨i, .LCurly⟩ :: r))
    (f : Nat) (hf : 2 * (r.length + 1) + 2 ≤ f + 2) :
    GoodS ctx s (parseStmt ctx (f + 2) none s) t sp rest := by
  obtain ⟨ss, j, tyj, hss, kj, rfl, rfl⟩ := stmt_block_flat _ _ _ _ _ _ _ hs
  obtain ⟨hN, _, hr0, hlead⟩ := hat.head
  obtain ⟨_, _, _, he0, _, hat0⟩ := tagK_head ctx hat.clearErr .LCurly
  have hk0 : ((TokenType.LCurly).kind == Kind.LCurly) = true := rfl
  rw [hk0] at he0; simp only [if_true] at he0
  have he0' : tk ctx .LCurly { s with errBuf := [] } = _ := he0
  obtain ⟨p, e1, hp1, hat1, _⟩ := ih.stmts r ss _ hss f (loopFuel ctx) _ hat0 (by omega) (loopFuel_gt ctx hat0)
  have e1' := (many_none ctx (fun (s : Stmt) => s.info.range) (parseStmt ctx f) (loopFuel ctx) _).trans e1
  obtain ⟨_, e2, hat2⟩ := expect_tk ctx hat1 .RCurly kj (.MissingClosing '}')
  have hi0 : s.pos ≤ i := hN.le
  have c1 : i + 1 ≤ p := by simpa using hp1
  have c2 : p ≤ j := by have := (hat1.head).1.le; simpa using this
  have inner : blockInner ctx none (parseStmt ctx f) { s with errBuf := [] } =
      .ok { s with errBuf := [], pos := j + 1 } (relRefs s.refPos ss) := by
    simp only [blockInner, Parse.bind, he0', e1', e2, pure']
  have hpos : s.refPos ≤ j + 1 := by have := hat.ref; omega
  have hi := info_ok _ s _ _ inner hat.ref (by simpa using hpos)
  refine ⟨?_, hN, by simp; omega, by simp [Stmt.info, mkInfo, hlead], ⟨hat2.fresh, by simpa using hpos, hat2.toks⟩⟩
  rw [show f + 2 = (f + 1) + 1 from rfl, parseStmt_none]
  rw [altList_cons_err _ _ _ (by simp) (fail_empty ctx hat (by intro i' ty' r' e'; cases e'; simp [TokenType.kind]))]
  rw [altList_cons_err _ _ _ (by simp) (fail_if ctx hat f (by intro i' ty' r' e'; cases e'; simp [TokenType.kind]))]
  rw [altList_cons_err _ _ _ (by simp) (fail_while ctx hat f (by intro i' ty' r' e'; cases e'; simp [TokenType.kind]))]
  apply altList_cons_ok
  rw [parseBlock_none]
  simp only [pmap, hi, ofList_relRefs, relStmt, relInfo, mkInfo, hlead]

/-! ### expressions fail on tokens that cannot start one -/

theorem comparison_fail {s : St} {ts : Toks} (h : At ctx s ts) (f : Nat)
    (hne : ∀ i ty r, ts = ⟨i, ty⟩ :: r →
      ty.kind ≠ .Hex ∧ ty.kind ≠ .Char ∧ ty.kind ≠ .Int ∧ ty.kind ≠ .Ident ∧ ty.kind ≠ .LParen ∧ ty.kind ≠ .Minus) :
    IsErr (parseComparison ctx (f + 6) s) := by
  have hp := primary_fail ctx h f (fun i ty r e => let x := hne i ty r e; ⟨x.1, x.2.1, x.2.2.1, x.2.2.2.1, x.2.2.2.2.1⟩)
  have hu : IsErr (parseUnary ctx (f + 2) s) := by
    have h0 : IsErr (tk ctx .Minus { s with errBuf := [] }) :=
      tagK_fail ctx h.clearErr .Minus (fun i ty r e => (hne i ty r e).2.2.2.2.2)
    simp only [parseUnary]
    exact pmap_err _ _ _ (info_err _ s (bind_err _ _ _ h0) h.ref)
  have hf : IsErr (parseFactor ctx (f + 3) s) := by
    simp only [parseFactor]
    rw [alt2_err_left _ _ _ hp]
    exact hu
  have hm : IsErr (parseMul ctx (f + 4) s) := by
    simp only [parseMul]; exact bind_err _ _ _ hf
  have ha : IsErr (parseAdd ctx (f + 5) s) := by
    simp only [parseAdd]; exact bind_err _ _ _ hm
  simp only [parseComparison]
  exact bind_err _ _ _ ha

/-- the first token of a derivable expression can start an expression -/
theorem expr_head {fs : Nat} {s : St} {i : Nat} {ty : TokenType} {r rest : Toks} {e : Expr} {sp : Span}
    (hs : expr (G ctx) fs (⟨i, ty⟩ :: r) = some (e, sp, rest)) (hat : At ctx s (⟨i, ty⟩ :: r)) :
    ty.kind = .Hex ∨ ty.kind = .Char ∨ ty.kind = .Int ∨ ty.kind = .Ident ∨ ty.kind = .LParen ∨ ty.kind = .Minus := by
  by_cases hk : ty.kind = .Hex ∨ ty.kind = .Char ∨ ty.kind = .Int ∨ ty.kind = .Ident ∨ ty.kind = .LParen ∨ ty.kind = .Minus
  · exact hk
  · exfalso
    have hlen := hat.length_le ctx
    obtain ⟨g1, _⟩ := (conf_all ctx fs).expr _ e sp rest hs (8 * ctx.toks.size + 6) s hat (by omega)
    obtain ⟨k, s', he⟩ := comparison_fail ctx hat (8 * ctx.toks.size) (by
      intro i' ty' r' e'
      cases e'
      simp only [not_or] at hk
      exact hk)
    rw [he] at g1
    cases g1

/-! ### one argument -/

theorem arg_ok {fs : Nat} {ts rest : Toks} {e : Expr} {sp : Span} {s : St}
    (hs : expr (G ctx) fs ts = some (e, sp, rest)) (hat : At ctx s ts)
    (hnext : ∃ i ty r, rest = ⟨i, ty⟩ :: r ∧ (ty.kind = .RParen ∨ ty.kind = .Comma)) :
    refParse (parseArgument ctx) none s = .ok { s with pos := sp.last + 1 } (relRefExpr s.refPos (refAbs e)) ∧
    s.pos ≤ sp.last ∧ At ctx { s with pos := sp.last + 1 } rest := by
  obtain ⟨g1, g2, g3, g4, g5⟩ := expression_conforms ctx hs (hat.reref ctx)
  obtain ⟨i, ty, r, rfl, hk⟩ := hnext
  obtain ⟨_, hla⟩ := la_param_ok ctx g5 hk
  have hv : parseArgument ctx none { s with refPos := s.pos } =
      .ok { s with refPos := s.pos, pos := sp.last + 1 } (relExpr s.pos e) := by
    rw [parseArgument_none]
    apply alt2_ok_left
    simp only [Parse.bind, g1, hla, pure']
  have hr := refParse_ok (parseArgument ctx) s _ _ hv hat.ref
  refine ⟨?_, by have := g2.le; simp at this; omega, ⟨g5.fresh, by have := hat.ref; have := g2.le; simp at *; omega, g5.toks⟩⟩
  simp only [hr, relRefExpr, refAbs, g4]

/-! ### the rest of an argument list -/

/-- `CommaPreceded` of `parse_list` -/
def cpParse (fuel : Nat) (this : Option (Ref Expr)) : P (Ref Expr) :=
  Parse.bind (tagK ctx fuel .Comma) (fun _ => refParse (parseArgument ctx) this)

def cpConv (r : Ref (Ref Expr)) : Ref Expr := ⟨r.val.val, r.offset + r.val.offset⟩

/-- what `exprList` does behind an expression -/
def exprListTail (g : GCtx) (fl : Nat) (ts : Toks) : Option (List (Ref Expr) × Toks) :=
  match ts with
  | ⟨_, .Comma⟩ :: r1 => exprList g fl r1
  | _ => some ([], ts)

theorem exprList_succ (g : GCtx) (fl : Nat) (ts : Toks) :
    exprList g (fl + 1) ts = match expr g (8 * ts.length + 16) ts with
      | none => none
      | some (e, _, r) => (exprListTail g fl r).map (fun (p : List (Ref Expr) × Toks) => (refAbs e :: p.1, p.2)) := by
  cases he : expr g (8 * ts.length + 16) ts with
  | none => simp only [Grammar.exprList, he]
  | some res =>
    obtain ⟨e, sp, r⟩ := res
    simp only [Grammar.exprList, he]
    cases r with
    | nil => rfl
    | cons t r1 =>
      obtain ⟨ic, ty⟩ := t
      cases ty <;> first
        | rfl
        | (simp only [exprListTail]; cases exprList g fl r1 <;> rfl)

def RParenHead (ts : Toks) : Prop := ∃ i ty r, ts = ⟨i, ty⟩ :: r ∧ ty.kind = .RParen

theorem exprListTail_other (g : GCtx) (fl i : Nat) (ty : TokenType) (r : Toks) (h : ty ≠ .Comma) :
    exprListTail g fl (⟨i, ty⟩ :: r) = some ([], ⟨i, ty⟩ :: r) := by
  cases ty <;> first | rfl | exact absurd rfl h

/-- the `(, argument)*` loop of `parse_list` follows `exprListTail` -/
theorem argsTail_conf : ∀ (fl : Nat) (ts : Toks) (es : List (Ref Expr)) (r2 : Toks),
    exprListTail (G ctx) fl ts = some (es, r2) → RParenHead r2 →
    ∀ (lf : Nat) (s : St), At ctx s ts → ts.length < lf →
    ∃ j tail, many0 (refParse (cpParse ctx (loopFuel ctx)) none) lf s = .ok { s with pos := j } tail ∧
      tail.map cpConv = es.map (relRefExpr s.refPos) ∧ s.pos ≤ j ∧ At ctx { s with pos := j } r2
  | fl, ts, es, r2, hs, hr2, lf, s, hat, hlf => by
    obtain ⟨lf', rfl⟩ : ∃ f, lf = f + 1 := ⟨lf - 1, by omega⟩
    -- the loop stops here
    have stop : IsErr (tagK ctx (loopFuel ctx) .Comma { s with refPos := s.pos }) → es = [] → r2 = ts →
        ∃ j tail, many0 (refParse (cpParse ctx (loopFuel ctx)) none) (lf' + 1) s = .ok { s with pos := j } tail ∧
          tail.map cpConv = es.map (relRefExpr s.refPos) ∧ s.pos ≤ j ∧ At ctx { s with pos := j } r2 := by
      intro he h1 h2
      subst h1 h2
      have hc : IsErr (cpParse ctx (loopFuel ctx) none { s with refPos := s.pos }) := bind_err _ _ _ he
      obtain ⟨k, s', hr⟩ := refParse_err _ s hc hat.ref
      refine ⟨s.pos, [], ?_, rfl, Nat.le_refl _, by rw [st_eta s _ rfl]; exact hat⟩
      rw [st_eta s _ rfl]
      simp only [many0, hr]
    cases ts with
    | nil =>
      simp only [exprListTail, Option.some.injEq, Prod.mk.injEq] at hs
      exact stop (tagK_fail ctx (hat.reref ctx) .Comma (by intro i ty r e; cases e)) hs.1.symm hs.2.symm
    | cons t0 r1 =>
      obtain ⟨ic, ty⟩ := t0
      by_cases hty : ty = .Comma
      · subst hty
        simp only [exprListTail] at hs
        cases fl with
        | zero => simp [Grammar.exprList] at hs
        | succ fl' =>
          rw [exprList_succ] at hs
          cases he : expr (G ctx) (8 * r1.length + 16) r1 with
          | none => simp [he] at hs
          | some res =>
            obtain ⟨e, se, r'⟩ := res
            simp only [he, Option.map_eq_some_iff] at hs
            obtain ⟨⟨es', r2'⟩, htl, hpair⟩ := hs
            simp only [Prod.mk.injEq] at hpair
            obtain ⟨rfl, rfl⟩ := hpair
            -- `,`
            obtain ⟨_, _, _, hcm, _, hat1⟩ := tagK_head ctx (hat.reref ctx) .Comma
            have hk : ((TokenType.Comma).kind == Kind.Comma) = true := rfl
            rw [hk] at hcm; simp only [if_true] at hcm
            -- what follows the argument: `,` or the closing parenthesis
            have hnext : ∃ i ty r, r' = ⟨i, ty⟩ :: r ∧ (ty.kind = .RParen ∨ ty.kind = .Comma) := by
              cases r' with
              | nil =>
                simp only [exprListTail, Option.some.injEq, Prod.mk.injEq] at htl
                obtain ⟨i, ty, r, e2, _⟩ := hr2
                rw [← htl.2] at e2; cases e2
              | cons t' r'' =>
                obtain ⟨i', ty'⟩ := t'
                by_cases hc : ty' = .Comma
                · exact ⟨i', ty', r'', rfl, Or.inr (by rw [hc]; rfl)⟩
                · rw [exprListTail_other _ _ _ _ _ hc] at htl
                  simp only [Option.some.injEq, Prod.mk.injEq] at htl
                  obtain ⟨i, ty, r, e2, hk2⟩ := hr2
                  rw [← htl.2] at e2
                  simp only [List.cons.injEq, ITok.mk.injEq] at e2
                  obtain ⟨⟨rfl, rfl⟩, rfl⟩ := e2
                  exact ⟨i', ty', r'', rfl, Or.inl hk2⟩
            obtain ⟨ha, hpa, hat2⟩ := arg_ok ctx he hat1 hnext
            -- one round of the loop
            have hcp : cpParse ctx (loopFuel ctx) none { s with refPos := s.pos } =
                .ok { s with refPos := s.pos, pos := se.last + 1 } ⟨relExpr (ic + 1) e, ic + 1 - s.pos⟩ := by
              simp only [cpParse, Parse.bind, hcm, ha, relRefExpr, refAbs]
              have := (expression_conforms ctx he (hat1.reref ctx)).2.2.2.1
              simp only at this
              simp [this]
            have hround := refParse_ok (cpParse ctx (loopFuel ctx)) s _ _ hcp hat.ref
            have hic : s.pos ≤ ic := (hat.head).1.le
            have hse : ic + 1 ≤ se.last := by simpa using hpa
            have hat3 : At ctx { s with pos := se.last + 1 } r' :=
              ⟨hat2.fresh, by have := hat.ref; simp; omega, hat2.toks⟩
            have hlen : r'.length ≤ r1.length := hat1.length_mono ctx hat2 (by simp; omega)
            obtain ⟨j, tail, g1, g2, g3, g4⟩ := argsTail_conf fl' r' es' r2' htl hr2 lf' _ hat3
              (by simp only [List.length_cons] at hlf; omega)
            refine ⟨j, ⟨⟨relExpr (ic + 1) e, ic + 1 - s.pos⟩, s.pos - s.refPos⟩ :: tail, ?_, ?_, by simp at g3; omega, g4⟩
            · have hne : ((se.last + 1 == s.pos) = false) := by simp; omega
              simp only [many0, hround, hne, Bool.false_eq_true, if_false, g1]
            · simp only [List.map_cons, g2, cpConv, relRefExpr, refAbs]
              have hlo := (expression_conforms ctx he (hat1.reref ctx)).2.2.2.1
              simp only at hlo
              have : s.pos - s.refPos + (ic + 1 - s.pos) = ic + 1 - s.refPos := by have := hat.ref; omega
              simp [hlo, this]
      · rw [exprListTail_other _ _ _ _ _ hty] at hs
        simp only [Option.some.injEq, Prod.mk.injEq] at hs
        exact stop (tagK_fail ctx (hat.reref ctx) .Comma (by
          intro i' ty' r' e'; cases e'
          intro hk; apply hty; cases ty <;> simp_all [TokenType.kind])) hs.1.symm hs.2.symm

theorem parseList_none_ok (s s1 s2 : St) (head : Ref Expr) (tail : List (Ref (Ref Expr)))
    (h1 : refParse (parseArgument ctx) none s = .ok s1 head)
    (h2 : many0 (refParse (cpParse ctx (loopFuel ctx)) none) (loopFuel ctx) s1 = .ok s2 tail) :
    parseList ctx (fun (e : Expr) => e.info.range) (parseArgument ctx) (loopFuel ctx) none s =
      .ok s2 (head :: tail.map cpConv) := by
  have h2' : many ctx (fun (inner : Ref Expr) => let r := inner.val.info.range; (⟨r.lo, r.hi + 1⟩ : Range))
      (fun this => Parse.bind (tagK ctx (loopFuel ctx) .Comma) (fun _ => refParse (parseArgument ctx) this))
      (loopFuel ctx) none s1 = .ok s2 tail := by
    rw [many_none]; exact h2
  simp only [parseList, h1, Option.getD, List.any_nil, Bool.false_eq_true, if_false, Option.map_none, h2']
  rfl

/-- the argument list of a call: `exprList` of the specification -/
theorem args_conf {fl : Nat} {ts r2 : Toks} {es : List (Ref Expr)} {s : St}
    (hs : exprList (G ctx) fl ts = some (es, r2)) (hr2 : RParenHead r2) (hat : At ctx s ts) :
    ∃ j, parseList ctx (fun (e : Expr) => e.info.range) (parseArgument ctx) (loopFuel ctx) none s =
        .ok { s with pos := j } (es.map (relRefExpr s.refPos)) ∧ s.pos ≤ j ∧ At ctx { s with pos := j } r2 := by
  cases fl with
  | zero => simp [Grammar.exprList] at hs
  | succ fl' =>
    rw [exprList_succ] at hs
    cases he : expr (G ctx) (8 * ts.length + 16) ts with
    | none => simp [he] at hs
    | some res =>
      obtain ⟨e, se, r'⟩ := res
      simp only [he, Option.map_eq_some_iff] at hs
      obtain ⟨⟨es', r2'⟩, htl, hpair⟩ := hs
      simp only [Prod.mk.injEq] at hpair
      obtain ⟨rfl, rfl⟩ := hpair
      have hnext : ∃ i ty r, r' = ⟨i, ty⟩ :: r ∧ (ty.kind = .RParen ∨ ty.kind = .Comma) := by
        cases r' with
        | nil =>
          simp only [exprListTail, Option.some.injEq, Prod.mk.injEq] at htl
          obtain ⟨i, ty, r, e2, _⟩ := hr2
          rw [← htl.2] at e2; cases e2
        | cons t' r'' =>
          obtain ⟨i', ty'⟩ := t'
          by_cases hc : ty' = .Comma
          · exact ⟨i', ty', r'', rfl, Or.inr (by rw [hc]; rfl)⟩
          · rw [exprListTail_other _ _ _ _ _ hc] at htl
            simp only [Option.some.injEq, Prod.mk.injEq] at htl
            obtain ⟨i, ty, r, e2, hk2⟩ := hr2
            rw [← htl.2] at e2
            simp only [List.cons.injEq, ITok.mk.injEq] at e2
            obtain ⟨⟨rfl, rfl⟩, rfl⟩ := e2
            exact ⟨i', ty', r'', rfl, Or.inl hk2⟩
      obtain ⟨ha, hpa, hat2⟩ := arg_ok ctx he hat hnext
      obtain ⟨j, tail, g1, g2, g3, g4⟩ := argsTail_conf ctx fl' r' es' r2' htl hr2 (loopFuel ctx) _ hat2 (loopFuel_gt ctx hat2)
      refine ⟨j, ?_, by simp at g3; omega, g4⟩
      rw [parseList_none_ok ctx s _ _ _ _ ha g1, g2]
      rfl

theorem kind_rparen (ty : TokenType) (h : ty.kind = .RParen) : ty = .RParen := by
  cases ty <;> simp_all [TokenType.kind]

theorem kind_lparen (ty : TokenType) (h : ty.kind = .LParen) : ty = .LParen := by
  cases ty <;> simp_all [TokenType.kind]

/-- the "no arguments" test of `CallStatement::parse` fails in front of an expression -/
theorem noargs_fail {s : St} {ts : Toks} (h : At ctx s ts)
    (hne : ∀ i ty r, ts = ⟨i, ty⟩ :: r → ty.kind ≠ .RParen ∧ ty.kind ≠ .Semic ∧ ty.kind ≠ .Eof) :
    IsErr (pmap (fun _ => ([] : List (Ref Expr)))
      (peek (altList [void (tk ctx .RParen), void (tk ctx .Semic), void (tk ctx .Eof)])) s) := by
  have f1 : IsErr (tk ctx .RParen s) := tagK_fail ctx h .RParen (fun i ty r e => (hne i ty r e).1)
  have f2 : IsErr (tk ctx .Semic s) := tagK_fail ctx h .Semic (fun i ty r e => (hne i ty r e).2.1)
  have f3 : IsErr (tk ctx .Eof s) := tagK_fail ctx h .Eof (fun i ty r e => (hne i ty r e).2.2)
  apply pmap_err
  apply peek_err
  rw [altList_cons_err _ _ _ (by simp) (void_err _ _ f1)]
  rw [altList_cons_err _ _ _ (by simp) (void_err _ _ f2)]
  exact void_err _ _ f3

theorem stmt_call_conf {fs : Nat} {s : St} {i ilp : Nat} {nm : List Char} {r rest : Toks} {t : Stmt} {sp : Span}
    (hs : Grammar.stmt (G ctx) (fs + 1) (⟨i, .Ident nm⟩ :: ⟨ilp, .LParen⟩ :: r) = some (t, sp, rest))
    (hat : At ctx s (⟨i, .Ident nm⟩ :: ⟨ilp, .LParen⟩ :: r)) (f : Nat) :
    GoodS ctx s (parseStmt ctx (f + 2) none s) t sp rest := by
  obtain ⟨as, irp, tyrp, j, tyj, hargs, krp, kj, rfl, rfl⟩ := stmt_call_flat _ _ _ _ _ _ _ _ _ hs
  obtain ⟨hN, _, hr0, hlead⟩ := hat.head
  -- name and `(`
  obtain ⟨hid, hat0⟩ := ident_ok ctx hat.clearErr
  obtain ⟨_, _, _, he1, _, hat1⟩ := tagK_head ctx hat0 .LParen
  have hk1 : ((TokenType.LParen).kind == Kind.LParen) = true := rfl
  rw [hk1] at he1; simp only [if_true] at he1
  have he1' : tk ctx .LParen _ = _ := he1
  have c1 : i + 1 ≤ ilp := by have := (hat0.head).1.le; simpa using this
  -- the arguments
  have hA : ∃ p, Parse.alt2 (pmap (fun _ => ([] : List (Ref Expr)))
        (peek (altList [void (tk ctx .RParen), void (tk ctx .Semic), void (tk ctx .Eof)])))
        (parseList ctx (fun (e : Expr) => e.info.range) (parseArgument ctx) (loopFuel ctx) none)
        { s with errBuf := [], pos := ilp + 1 } =
        .ok { s with errBuf := [], pos := p } (as.map (relRefExpr s.refPos)) ∧ ilp + 1 ≤ p ∧
        At ctx { s with errBuf := [], pos := p } (⟨irp, tyrp⟩ :: ⟨j, tyj⟩ :: rest) := by
    rcases hargs with ⟨k, r', rfl, rfl, hr⟩ | ⟨hnr, hl⟩
    · simp only [List.cons.injEq, ITok.mk.injEq] at hr
      obtain ⟨⟨rfl, rfl⟩, rfl⟩ := hr
      obtain ⟨_, _, _, he, _, _⟩ := tagK_head ctx hat1 .RParen
      have hk : ((TokenType.RParen).kind == Kind.RParen) = true := rfl
      rw [hk] at he; simp only [if_true] at he
      have he' : tk ctx .RParen _ = _ := he
      refine ⟨ilp + 1, ?_, Nat.le_refl _, ⟨hat1.fresh, hat1.ref, hat1.toks⟩⟩
      apply alt2_ok_left
      have hp := peek_ok _ _ _ _ (altList_cons_ok (void (tk ctx .RParen)) [void (tk ctx .Semic), void (tk ctx .Eof)] _ _ _
        (void_ok _ _ _ _ he'))
      simp only [pmap, hp, List.map_nil]
    · have hr2 : RParenHead (⟨irp, tyrp⟩ :: ⟨j, tyj⟩ :: rest) := ⟨irp, tyrp, _, rfl, by simpa using krp⟩
      obtain ⟨p, g1, g2, g3⟩ := args_conf ctx hl hr2 hat1
      refine ⟨p, ?_, by simpa using g2, ⟨g3.fresh, g3.ref, g3.toks⟩⟩
      have hfail : IsErr (pmap (fun _ => ([] : List (Ref Expr)))
          (peek (altList [void (tk ctx .RParen), void (tk ctx .Semic), void (tk ctx .Eof)]))
          { s with errBuf := [], pos := ilp + 1 }) := by
        apply noargs_fail ctx hat1
        intro k ty r' e'
        subst e'
        cases hfl : r'.length + 1 + 1 with
        | zero => omega
        | succ fl' =>
          simp only [List.length_cons] at hl
          rw [hfl, exprList_succ] at hl
          cases he : expr (G ctx) (8 * (⟨k, ty⟩ :: r' : Toks).length + 16) (⟨k, ty⟩ :: r') with
          | none => rw [he] at hl; cases hl
          | some res =>
            obtain ⟨e, se, rr⟩ := res
            have := expr_head ctx he hat1
            refine ⟨fun hk => hnr k r' (by rw [kind_rparen ty hk]), ?_, ?_⟩ <;>
              (intro hk; rcases this with h | h | h | h | h | h <;> rw [hk] at h <;> cases h)
      rw [alt2_err_left _ _ _ hfail]
      exact g1
  obtain ⟨p, eA, hp, hatA⟩ := hA
  -- `)` and `;`
  obtain ⟨_, e3, hat3⟩ := expect_tk ctx hatA .RParen krp (.MissingClosing ')')
  obtain ⟨_, e4, hat4⟩ := expect_tk ctx hat3 .Semic kj .MissingTrailingSemic
  have c2 : p ≤ irp := by have := (hatA.head).1.le; simpa using this
  have c3 : irp + 1 ≤ j := by have := (hat3.head).1.le; simpa using this
  have hi0 : s.pos ≤ i := hN.le
  have inner : callInner ctx none none { s with errBuf := [] } =
      .ok { s with errBuf := [], pos := j + 1 }
        (relIdent s.refPos (mkIdent (G ctx) i nm), as.map (relRefExpr s.refPos)) := by
    simp only [callInner, Parse.bind, hid, he1', pure', eA, e3, e4]
  have hpos : s.refPos ≤ j + 1 := by have := hat.ref; omega
  have hi := info_ok _ s _ _ inner hat.ref (by simpa using hpos)
  refine ⟨?_, hN, by simp; omega, by simp [Stmt.info, mkInfo, hlead], ⟨hat4.fresh, by simpa using hpos, hat4.toks⟩⟩
  rw [show f + 2 = (f + 1) + 1 from rfl, parseStmt_none]
  rw [altList_cons_err _ _ _ (by simp) (fail_empty ctx hat (by intro i' ty' r' e'; cases e'; simp [TokenType.kind]))]
  rw [altList_cons_err _ _ _ (by simp) (fail_if ctx hat f (by intro i' ty' r' e'; cases e'; simp [TokenType.kind]))]
  rw [altList_cons_err _ _ _ (by simp) (fail_while ctx hat f (by intro i' ty' r' e'; cases e'; simp [TokenType.kind]))]
  rw [altList_cons_err _ _ _ (by simp) (fail_block ctx hat f (by intro i' ty' r' e'; cases e'; simp [TokenType.kind]))]
  apply altList_cons_ok
  simp only [pmap, parseCall_none, hi, relStmt, relInfo, mkInfo, hlead]

theorem next_unique {A : Array Token} {p i i' : Nat} (h : Next A p i) (h' : Next A p i') : i = i' := by
  rcases Nat.lt_trichotomy i i' with hlt | heq | hgt
  · obtain ⟨t, ht, hk⟩ := h'.cmts i h.le hlt
    obtain ⟨t2, ht2, hk2⟩ := h.tok
    rw [ht] at ht2; cases ht2
    exact absurd hk hk2
  · exact heq
  · obtain ⟨t, ht, hk⟩ := h.cmts i' h'.le hgt
    obtain ⟨t2, ht2, hk2⟩ := h'.tok
    rw [ht] at ht2; cases ht2
    exact absurd hk hk2

theorem stmt_assign_conf {fs : Nat} {s : St} {i : Nat} {nm : List Char} {r rest : Toks} {t : Stmt} {sp : Span}
    (hnc : ∀ k r', r ≠ ⟨k, .LParen⟩ :: r')
    (hs : Grammar.stmt (G ctx) (fs + 1) (⟨i, .Ident nm⟩ :: r) = some (t, sp, rest))
    (hat : At ctx s (⟨i, .Ident nm⟩ :: r)) (f : Nat) :
    GoodS ctx s (parseStmt ctx (f + 2) none s) t sp rest := by
  obtain ⟨v, sv, ias, tyas, r1, e, se, j, tyj, hv, kas, he, kj, rfl, rfl⟩ := stmt_assign_flat _ _ _ _ _ _ _ _ hnc hs
  obtain ⟨hN, _, hr0, hlead⟩ := hat.head
  -- the target
  have hlen := hat.length_le ctx
  obtain ⟨gv1, gv2, gv3, gv4, gv5⟩ := (conf_all ctx _).varAccess _ v sv _ hv (exprFuel ctx) _ hat.clearErr
    (by simp only [exprFuel]; omega)
  -- `:=`
  obtain ⟨_, _, _, he1, _, hat1⟩ := tagK_head ctx gv5 .Assign
  rw [kas] at he1; simp only [if_true] at he1
  have he1' : tk ctx .Assign _ = _ := he1
  have ha2 : Parse.alt2 (tk ctx .Assign) (confusable (tk ctx .Eq) (.ConfusedToken assignS eqS)) _ = _ :=
    alt2_ok_left _ _ _ _ _ he1'
  -- the value
  obtain ⟨e2, hp2, hat2⟩ := refExpr_ok ctx he hat1
  have e2' := expect_ok (refExpr ctx) (.ExpectedToken (chars "expression")) _ _ _ e2
  obtain ⟨_, e3, hat3⟩ := expect_tk ctx hat2 .Semic kj .MissingTrailingSemic
  have hi0 : s.pos ≤ i := hN.le
  have c0 : sv.first ≤ sv.last := gv3
  have c0' : sv.first = i := by
    have : Next ctx.toks s.pos sv.first := gv2
    exact next_unique this hN
  have c1 : sv.last + 1 ≤ ias := by have := (gv5.head).1.le; simpa using this
  have c2 : ias + 1 ≤ se.last := by simpa using hp2
  have c3 : se.last + 1 ≤ j := by have := (hat2.head).1.le; simpa using this
  have inner : assignInner ctx none none { s with errBuf := [] } =
      .ok { s with errBuf := [], pos := j + 1 } (relVar s.refPos v, some (relRefExpr s.refPos (refAbs e))) := by
    simp only [assignInner, Parse.bind, gv1, ha2, pure', e2', e3]
  have hpos : s.refPos ≤ j + 1 := by have := hat.ref; omega
  have hi := info_ok _ s _ _ inner hat.ref (by simpa using hpos)
  refine ⟨?_, hN, by simp; omega, by simp [Stmt.info, mkInfo, hlead], ⟨hat3.fresh, by simpa using hpos, hat3.toks⟩⟩
  rw [show f + 2 = (f + 1) + 1 from rfl, parseStmt_none]
  rw [altList_cons_err _ _ _ (by simp) (fail_empty ctx hat (by intro i' ty' r' e'; cases e'; simp [TokenType.kind]))]
  rw [altList_cons_err _ _ _ (by simp) (fail_if ctx hat f (by intro i' ty' r' e'; cases e'; simp [TokenType.kind]))]
  rw [altList_cons_err _ _ _ (by simp) (fail_while ctx hat f (by intro i' ty' r' e'; cases e'; simp [TokenType.kind]))]
  rw [altList_cons_err _ _ _ (by simp) (fail_block ctx hat f (by intro i' ty' r' e'; cases e'; simp [TokenType.kind]))]
  rw [altList_cons_err _ _ _ (by simp) (fail_call_second ctx hat (by
    intro k ty r' e' hk
    exact hnc k r' (by rw [e', kind_lparen ty hk])))]
  apply altList_cons_ok
  simp only [pmap, parseAssignment_none, hi, relStmt, relInfo, mkInfo, hlead, Option.map_some]

/-- `look_ahead::stmt` accepts `}` (position directly at the token) -/
theorem la_stmt_rcurly' (s : St) (i : Nat) (t : Token) (hN : Next ctx.toks s.pos i) (ht : ctx.toks[i]? = some t)
    (hty : t.ty = .RCurly) : la ctx .stmt s = .ok { s with pos := i + 1 } () := by
  have he1 : tk ctx .LCurly s = .err false s := by
    have := tagK_next ctx s i t .LCurly hN ht
    simpa [tk, hty, TokenType.kind] using this
  have he2 : tk ctx .RCurly s = .ok { s with pos := i + 1 } t := by
    have := tagK_next ctx s i t .RCurly hN ht
    simpa [tk, hty, TokenType.kind] using this
  show lookAhead ctx 0 (7 + 1) .stmt s = _
  rw [lookAhead_succ]
  simp only [Gen.lookAheadSet, List.map_cons, List.map_nil]
  rw [altList_cons_err _ _ _ (by simp) (void_err _ _ ⟨false, s, he1⟩)]
  exact altList_cons_ok _ _ _ _ _ (void_ok _ _ _ _ he2)

theorem stmtParseError_fail_rcurly {s : St} {i : Nat} {r : Toks} (hat : At ctx s (⟨i, .RCurly⟩ :: r)) :
    IsErr (stmtParseError ctx s) := by
  obtain ⟨hN, ⟨t, ht, hty⟩, _, _⟩ := hat.head
  obtain ⟨cs, hcs⟩ := many0_comment_run ctx (i - s.pos) { s with errBuf := [] } i (loopFuel ctx) rfl
    (by have := (Array.getElem?_eq_some_iff.mp ht).1; simp [loopFuel]; omega) hN
  have hN' : Next ctx.toks ({ s with errBuf := [], pos := i } : St).pos i :=
    ⟨Nat.le_refl _, by intro q a b; simp at a; omega, hN.tok⟩
  have hla := la_stmt_rcurly' ctx { s with errBuf := [], pos := i } i t hN' ht hty
  have hpk := peek_ok _ _ _ _ hla
  have hig : IsErr (ignoreUntil1 ctx (peek (la ctx .stmt)) (loopFuel ctx) { s with errBuf := [], pos := i }) :=
    ⟨false, { s with errBuf := [], pos := i }, by simp only [ignoreUntil1, hpk]⟩
  have hb : IsErr (Parse.bind (docComments ctx) (fun _ => ignoreUntil1 ctx (peek (la ctx .stmt)) (loopFuel ctx))
      { s with errBuf := [] }) := by
    obtain ⟨k, s', he⟩ := hig
    exact ⟨k, s', by simp only [Parse.bind, docComments, hcs, he]⟩
  obtain ⟨k, s', he⟩ := pmap_err (fun (p : List Token × AstInfo) =>
      Stmt.error { p.2 with errors := p.2.errors ++
        [⟨p.2.range, .UnexpectedCharacters (p.1.flatMap (fun t => displayToken t.ty))⟩] }) _ _ (info_err _ s hb hat.ref)
  exact ⟨k, s, by simp only [stmtParseError, he]⟩

theorem parseStmt_fail_rcurly {s : St} {i : Nat} {r : Toks} (hat : At ctx s (⟨i, .RCurly⟩ :: r)) (f : Nat) :
    IsErr (parseStmt ctx (f + 2) none s) := by
  have hk : ∀ k, k ≠ Kind.RCurly → ∀ i' ty' r', (⟨i, TokenType.RCurly⟩ :: r : Toks) = ⟨i', ty'⟩ :: r' → ty'.kind ≠ k := by
    intro k hk i' ty' r' e'; cases e'; intro h; exact hk h.symm
  rw [show f + 2 = (f + 1) + 1 from rfl, parseStmt_none]
  rw [altList_cons_err _ _ _ (by simp) (fail_empty ctx hat (hk _ (by decide)))]
  rw [altList_cons_err _ _ _ (by simp) (fail_if ctx hat f (hk _ (by decide)))]
  rw [altList_cons_err _ _ _ (by simp) (fail_while ctx hat f (hk _ (by decide)))]
  rw [altList_cons_err _ _ _ (by simp) (fail_block ctx hat f (hk _ (by decide)))]
  rw [altList_cons_err _ _ _ (by simp) (fail_call_head ctx hat (hk _ (by decide)))]
  have hassign : IsErr (pmap Stmt.assign (parseAssignment ctx none) s) := by
    have hv := variable_fail ctx hat.clearErr (8 * ctx.toks.size + 15) (hk _ (by decide))
    have hb : IsErr (assignInner ctx none none { s with errBuf := [] }) := by
      unfold assignInner
      exact bind_err _ _ _ (bind_err _ _ _ hv)
    have hc : IsErr (parseAssignment ctx none s) := by
      rw [parseAssignment_none]; exact pmap_err _ _ _ (info_err _ s hb hat.ref)
    exact pmap_err _ _ _ hc
  rw [altList_cons_err _ _ _ (by simp) hassign]
  exact stmtParseError_fail_rcurly ctx hat

theorem stmt_other (g : GCtx) (fs i : Nat) (ty : TokenType) (r : Toks)
    (h1 : ty ≠ .Semic) (h2 : ty ≠ .If) (h3 : ty ≠ .While) (h4 : ty ≠ .LCurly) (h5 : ∀ n, ty ≠ .Ident n) :
    Grammar.stmt g (fs + 1) (⟨i, ty⟩ :: r) = none := by
  cases ty <;> first | rfl | simp_all [Grammar.stmt]

theorem stmt_conf {fs : Nat} (ih : SConf ctx fs) :
    ∀ ts t sp rest, Grammar.stmt (G ctx) (fs + 1) ts = some (t, sp, rest) → ∀ fm s, At ctx s ts → 2 * ts.length + 2 ≤ fm →
    GoodS ctx s (parseStmt ctx fm none s) t sp rest := by
  intro ts t sp rest hs fm s hat hfm
  cases ts with
  | nil => simp [Grammar.stmt] at hs
  | cons t0 r =>
    obtain ⟨i, ty⟩ := t0
    obtain ⟨f, rfl⟩ : ∃ f, fm = f + 2 := ⟨fm - 2, by simp only [List.length_cons] at hfm; omega⟩
    have hf : 2 * (r.length + 1) + 2 ≤ f + 2 := by simpa using hfm
    by_cases h1 : ty = .Semic
    · subst h1
      simp only [Grammar.stmt, Option.some.injEq, Prod.mk.injEq] at hs
      obtain ⟨rfl, rfl, rfl⟩ := hs
      exact stmt_empty_conf ctx hat (f + 1)
    · by_cases h2 : ty = .If
      · subst h2; exact stmt_if_conf ctx ih hs hat f hf
      · by_cases h3 : ty = .While
        · subst h3; exact stmt_while_conf ctx ih hs hat f hf
        · by_cases h4 : ty = .LCurly
          · subst h4; exact stmt_block_conf ctx ih hs hat f hf
          · by_cases h5 : ∃ n, ty = .Ident n
            · obtain ⟨nm, rfl⟩ := h5
              by_cases hc : ∃ k r', r = ⟨k, .LParen⟩ :: r'
              · obtain ⟨k, r', rfl⟩ := hc
                exact stmt_call_conf ctx hs hat f
              · exact stmt_assign_conf ctx (fun k r' e => hc ⟨k, r', e⟩) hs hat f
            · rw [stmt_other _ _ _ _ _ h1 h2 h3 h4 (fun n e => h5 ⟨n, e⟩)] at hs
              cases hs

theorem stmts_rcurly (g : GCtx) (fs i : Nat) (r : Toks) :
    Grammar.stmts g (fs + 1) (⟨i, .RCurly⟩ :: r) = some (.nil, ⟨i, .RCurly⟩ :: r) := rfl

theorem stmts_other (g : GCtx) (fs : Nat) (ts : Toks) (h : ∀ i r, ts ≠ ⟨i, .RCurly⟩ :: r) :
    Grammar.stmts g (fs + 1) ts = match Grammar.stmt g fs ts with
      | none => none
      | some (s, _, r) => match Grammar.stmts g fs r with
        | some (ss, r1) => some (.cons s 0 ss, r1)
        | none => none := by
  cases ts with
  | nil => rfl
  | cons t r =>
    obtain ⟨i, ty⟩ := t
    cases ty <;> first | rfl | exact absurd rfl (h i r)

theorem stmts_conf {fs : Nat} (ih : SConf ctx fs) :
    ∀ ts ss rest, Grammar.stmts (G ctx) (fs + 1) ts = some (ss, rest) → ∀ fm lf s, At ctx s ts → 2 * ts.length + 2 ≤ fm →
    ts.length < lf →
    ∃ j, many0 (refParse (parseStmt ctx fm) none) lf s = .ok { s with pos := j } (relRefs s.refPos ss) ∧ s.pos ≤ j ∧
      At ctx { s with pos := j } rest ∧ ∃ i r, rest = ⟨i, .RCurly⟩ :: r := by
  intro ts ss rest hs fm lf s hat hfm hlf
  obtain ⟨lf', rfl⟩ : ∃ f, lf = f + 1 := ⟨lf - 1, by omega⟩
  by_cases hr : ∃ i r, ts = ⟨i, .RCurly⟩ :: r
  · obtain ⟨i, r, rfl⟩ := hr
    rw [stmts_rcurly] at hs
    simp only [Option.some.injEq, Prod.mk.injEq] at hs
    obtain ⟨rfl, rfl⟩ := hs
    obtain ⟨f, rfl⟩ : ∃ f, fm = f + 2 := ⟨fm - 2, by simp only [List.length_cons] at hfm; omega⟩
    have hfail := parseStmt_fail_rcurly ctx (hat.reref ctx) f
    obtain ⟨k, s', hr⟩ := refParse_err _ s hfail hat.ref
    refine ⟨s.pos, ?_, Nat.le_refl _, by rw [st_eta s _ rfl]; exact hat, i, r, rfl⟩
    rw [st_eta s _ rfl]
    simp only [many0, hr, relRefs]
  · rw [stmts_other _ _ _ (fun i r e => hr ⟨i, r, e⟩)] at hs
    cases h1 : Grammar.stmt (G ctx) fs ts with
    | none => rw [h1] at hs; cases hs
    | some res =>
      obtain ⟨t, sp, r⟩ := res
      rw [h1] at hs
      cases h2 : Grammar.stmts (G ctx) fs r with
      | none => simp only [h2] at hs; cases hs
      | some res2 =>
        obtain ⟨ss', r1⟩ := res2
        simp only [h2, Option.some.injEq, Prod.mk.injEq] at hs
        obtain ⟨rfl, rfl⟩ := hs
        obtain ⟨e1, hp1, hat1⟩ := refStmt_ok ctx ih h1 hat (fm := fm) hfm
        obtain ⟨_, gN, gle, grng, _⟩ := ih.stmt _ t sp r h1 fm _ (hat.reref ctx) hfm
        have hlen' : r.length + 1 ≤ ts.length := by
          cases ts with
          | nil => cases fs <;> simp [Grammar.stmt] at h1
          | cons t0 r0 =>
            obtain ⟨hN, _, hr0, _⟩ := hat.head
            have e := next_unique gN hN
            have d := tsFrom_length_mono ctx.toks _ (t0.idx + 1) (sp.last + 1) rfl (by omega)
            rw [← hat1.toks, hr0]
            simp only [List.length_cons]
            omega
        obtain ⟨j, g1, g2, g3, g4⟩ := ih.stmts r ss' r1 h2 fm lf' _ hat1 (by omega) (by omega)
        refine ⟨j, ?_, by simp at g2; omega, g3, g4⟩
        have hne : ((sp.last + 1 == s.pos) = false) := by simp; omega
        have ht : t.info.range.lo = s.pos := by
          simp only at grng
          simp [grng]
        simp only [many0, e1, hne, Bool.false_eq_true, if_false, g1, relRefs, relRefStmt, refAbs, ht]

theorem sconf_all : ∀ fs, SConf ctx fs
  | 0 => ⟨by intro ts t sp rest hs; simp [Grammar.stmt] at hs, by intro ts ss rest hs; simp [Grammar.stmts] at hs⟩
  | fs + 1 => ⟨stmt_conf ctx (sconf_all fs), stmts_conf ctx (sconf_all fs)⟩

end Spl.ParseConform
