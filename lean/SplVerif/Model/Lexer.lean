/-
  Model of `spl_frontend/src/lexer.rs`: `lex` (batch) and `update` (incremental).
  Hand-written control logic; the alternative order, spellings and look-ahead table come
  from `SplVerif.Gen.LexTables` (regenerated from the Rust sources on every run).
-/
import SplVerif.Model.Basic
import SplVerif.Gen.LexTables

namespace Spl

/-! ### character classes (nom's ASCII classes) -/

def isSpace (c : Char) : Bool := c == ' ' || c == '\t' || c == '\r' || c == '\n'

def isAsciiAlphaN (n : Nat) : Bool := (65 ≤ n && n ≤ 90) || (97 ≤ n && n ≤ 122)
def isAsciiDigitN (n : Nat) : Bool := 48 ≤ n && n ≤ 57
def isAlpha (c : Char) : Bool := isAsciiAlphaN c.toNat
def isDigit (c : Char) : Bool := isAsciiDigitN c.toNat
def isHexDigit (c : Char) : Bool :=
  isDigit c || (65 ≤ c.toNat && c.toNat ≤ 70) || (97 ≤ c.toNat && c.toNat ≤ 102)

/-- `lexer/utility.rs::is_alpha_numeric`: `is_alphanumeric(c as u8) || c == '_'`.
    The `as u8` cast truncates the code point (so e.g. U+0141 counts as `'A'`). -/
def isAlnumTrunc (c : Char) : Bool :=
  let b := c.toNat % 256
  isAsciiAlphaN b || isAsciiDigitN b || c == '_'

/-! ### primitives -/

/-- nom `tag`. -/
def stripPrefix : List Char → List Char → Option (List Char)
  | [], s => some s
  | _ :: _, [] => none
  | p :: ps, c :: cs => if p == c then stripPrefix ps cs else none

def digitVal (c : Char) : Nat :=
  if isDigit c then c.toNat - 48
  else if 65 ≤ c.toNat && c.toNat ≤ 70 then c.toNat - 55
  else c.toNat - 87

def numVal (base : Nat) (ds : List Char) : Nat :=
  ds.foldl (fun acc c => acc * base + digitVal c) 0

def u32Max : Nat := 4294967295

/-- Result of one token recogniser: type, number of characters consumed, errors with byte
    offsets relative to the token start. -/
structure LexOut where
  ty : TokenType
  n : Nat
  errs : List SplError := []
  deriving Repr, DecidableEq

/-! ### recognisers (one per `AltItem`) -/

/-- `Comment::lex` — `//` … up to and including `\n`, or up to the end of the text. -/
def lexComment (s : List Char) : Option LexOut :=
  match s with
  | '/' :: '/' :: rest =>
    let body := rest.takeWhile (· != '\n')
    let after := rest.dropWhile (· != '\n')
    match after with
    | [] => some { ty := .Comment body, n := 2 + body.length }
    | _ :: _ => some { ty := .Comment body, n := 2 + body.length + 1 }
  | _ => none

def lexSymbol (k : Kind) (s : List Char) : Option LexOut :=
  match Gen.spelling k, k.plain with
  | some p, some ty =>
    match stripPrefix p s with
    | some _ => some { ty := ty, n := p.length }
    | none => none
  | _, _ => none

def lexKeyword (k : Kind) (s : List Char) : Option LexOut :=
  match Gen.spelling k, k.plain with
  | some p, some ty =>
    match stripPrefix p s with
    | some [] => some { ty := ty, n := p.length }
    | some (c :: _) => if isAlnumTrunc c then none else some { ty := ty, n := p.length }
    | none => none
  | _, _ => none

def lexChar (s : List Char) : Option LexOut :=
  match s with
  | '\'' :: '\\' :: 'n' :: rest =>
    match rest with
    | '\'' :: _ => some { ty := .Char '\n', n := 4 }
    | _ => some { ty := .Char '\n', n := 3, errs := [⟨⟨3, 3⟩, .MissingClosingTick⟩] }
  | '\'' :: c :: rest =>
    match rest with
    | '\'' :: _ => some { ty := .Char c, n := 3 }
    | _ => some { ty := .Char c, n := 2,
                  errs := [⟨⟨1 + c.utf8Size, 1 + c.utf8Size⟩, .MissingClosingTick⟩] }
  | _ => none

def lexHex (s : List Char) : Option LexOut :=
  match s with
  | '0' :: 'x' :: rest =>
    let ds := rest.takeWhile isHexDigit
    if ds.isEmpty then
      some { ty := .Hex (.Err []), n := 2, errs := [⟨⟨2, 2⟩, .ExpectedHexNumber⟩] }
    else
      let v := numVal 16 ds
      if v ≤ u32Max then some { ty := .Hex (.Int v), n := 2 + ds.length }
      else some { ty := .Hex (.Err ds), n := 2 + ds.length,
                  errs := [⟨⟨2, 2 + ds.length⟩, .InvalidIntLit ('0' :: 'x' :: ds)⟩] }
  | _ => none

def lexInt (s : List Char) : Option LexOut :=
  let ds := s.takeWhile isDigit
  if ds.isEmpty then none
  else
    let v := numVal 10 ds
    if v ≤ u32Max then some { ty := .Int (.Int v), n := ds.length }
    else some { ty := .Int (.Err ds), n := ds.length,
                errs := [⟨⟨0, ds.length⟩, .InvalidIntLit ds⟩] }

def lexIdent (s : List Char) : Option LexOut :=
  match s with
  | c :: rest =>
    if isAlpha c || c == '_' then
      let tl := rest.takeWhile isAlnumTrunc
      some { ty := .Ident (c :: tl), n := 1 + tl.length }
    else none
  | [] => none

def lexUnknown (s : List Char) : Option LexOut :=
  match s with
  | c :: _ => some { ty := .Unknown [c], n := 1 }
  | [] => none

def lexItem : AltItem → List Char → Option LexOut
  | .comment => lexComment
  | .symbol k => lexSymbol k
  | .keyword k => lexKeyword k
  | .char => lexChar
  | .hex => lexHex
  | .int => lexInt
  | .ident => lexIdent
  | .unknown => lexUnknown

def firstMatch : List AltItem → List Char → Option LexOut
  | [], _ => none
  | a :: as, s =>
    match lexItem a s with
    | some o => some o
    | none => firstMatch as s

/-- `Token::lex` on the remaining text. -/
def lexOne (s : List Char) : Option LexOut := firstMatch Gen.altOrder s

def mkToken (o : LexOut) (s : List Char) (off : Nat) : Token :=
  { ty := o.ty
    range := ⟨off, off + utf8Len (s.take o.n)⟩
    errors := o.errs.map (·.shift off) }

def eofToken (off : Nat) : Token := { ty := .Eof, range := ⟨off, off⟩ }

/-- The token loop `many0(preceded(multispace0, Token::lex))`, structurally recursive on the
    text: `skip` is the number of characters of the current token still to be passed over.
    `none` = the Rust code would panic (`Lexing must not fail`). Tokens only, no `Eof`. -/
def lexGo : List Char → Nat → Nat → Option (List Token)
  | [], _, _ => some []
  | c :: cs, off, skip + 1 => lexGo cs (off + c.utf8Size) skip
  | c :: cs, off, 0 =>
    if isSpace c then lexGo cs (off + c.utf8Size) 0
    else
      match lexOne (c :: cs) with
      | none => none
      | some o =>
        match lexGo cs (off + c.utf8Size) (o.n - 1) with
        | none => none
        | some ts => some (mkToken o (c :: cs) off :: ts)

/-- `lexer::lex`. -/
def lex (s : List Char) : Except Panic (List Token) :=
  match lexGo s 0 0 with
  | some ts => .ok (ts ++ [eofToken (utf8Len s)])
  | none => .error ⟨"expect:Lexing must not fail"⟩

/-! ### incremental update (`lexer::update`) -/

def Token.isAffectedBy (t : Token) (index : Nat) : Bool :=
  t.range.hi + Gen.lookAhead t.kind > index

/-- `shift_token` — also shifts the attached errors (fix D3). Offsets are `Int`; a negative
    result is a Rust panic (`Range is too big`). -/
def shiftInt (n : Nat) (d : Int) : Option Nat :=
  let r := (n : Int) + d
  if r < 0 then none else some r.toNat

def shiftRange? (r : Range) (d : Int) : Option Range :=
  match shiftInt r.lo d, shiftInt r.hi d with
  | some a, some b => some ⟨a, b⟩
  | _, _ => none

def shiftErrs? (es : List SplError) (d : Int) : Option (List SplError) :=
  es.mapM (fun e => (shiftRange? e.range d).map (fun r => { e with range := r }))

def shiftToken? (t : Token) (d : Int) : Option Token :=
  match shiftRange? t.range d, shiftErrs? t.errors d with
  | some r, some es => some { t with range := r, errors := es }
  | _, _ => none

/-- Drop `n` bytes from a text; `none` if `n` is not a character boundary or past the end
    (Rust: slicing a `str` panics). -/
def dropBytes : Nat → List Char → Option (List Char)
  | 0, s => some s
  | _ + 1, [] => none
  | n + 1, c :: cs => if c.utf8Size ≤ n + 1 then dropBytes (n + 1 - c.utf8Size) cs else none
termination_by n _ => n
decreasing_by have := utf8Size_pos c; omega

structure TokenChange where
  delLo : Nat
  delHi : Nat
  insLen : Nat
  deriving DecidableEq, Repr, Inhabited

def splitLast {α} : List α → Option (List α × α)
  | [] => none
  | [x] => some ([], x)
  | x :: y :: r => (splitLast (y :: r)).map (fun (i, l) => (x :: i, l))

/-- `lexer::update(new_text, tokens, change)` with `change = (cs..ce, inserted text)`;
    `insLen` is the byte length of the inserted text. -/
def lexUpdate (newText : List Char) (tokens : List Token) (cs ce insLen : Nat) :
    Except Panic (List Token × TokenChange) :=
  let d : Int := (insLen : Int) - ((ce - cs : Nat) : Int)
  match splitLast tokens with
  | none => .error ⟨"Must contain EOF token"⟩
  | some (toks, eof) =>
    if eof.ty != .Eof then .error ⟨"Must contain EOF token"⟩ else
    match shiftToken? eof d with
    | none => .error ⟨"expect:Range is too big"⟩
    | some eof' =>
      let head := toks.filter (fun t => !t.isAffectedBy cs)
      let rest := toks.filter (fun t => t.isAffectedBy cs)
      let reusable0 := rest.filter (fun t => !(t.range.lo < ce))
      match reusable0.mapM (fun t => shiftToken? t d) with
      | none => .error ⟨"expect:Range is too big"⟩
      | some reusable =>
        let reStart := match head.getLast? with
          | some t => t.range.hi
          | none => 0
        match dropBytes reStart newText with
        | none => .error ⟨"slice"⟩
        | some suffix =>
          match lexGo suffix reStart 0 with
          | none => .error ⟨"expect:Lexing must not fail"⟩
          | some lexed =>
            let newToks := lexed.takeWhile (fun t => !reusable.contains t)
            let tail := match newToks.getLast? with
              | some l => reusable.dropWhile (fun t => t.range.lo < l.range.hi)
              | none => reusable
            let change : TokenChange :=
              ⟨head.length, toks.length - tail.length, newToks.length⟩
            .ok (head ++ newToks ++ tail ++ [eof'], change)

end Spl
