/-
  Model of `spl_frontend/src/parser/utility.rs`, the token-level parsers of `parser.rs`
  (`tag_parser!`, `comment`) and of the nom combinators they are built from.

  A parser is `St → Res α`; the error result carries the stream state because the Rust code
  continues from `err.input` (`expect`, `many`).  Panics of the Rust code are `Res.panic`.
-/
import SplVerif.Model.Ast
import SplVerif.Model.Lexer

namespace Spl.Parse

/-- Constant part of a `TokenStream`: the token slice and the token change. -/
structure Ctx where
  toks : Array Token
  change : TokenChange

/-- Mutable part of a `TokenStream`. -/
structure St where
  pos : Nat                       -- `location_offset()`
  errBuf : List SplError := []    -- `error_buffer`
  incRefs : List Nat := []        -- `inc_references`
  refPos : Nat := 0               -- `reference_pos`
  deriving Repr, Inhabited

inductive Res (α : Type) where
  | ok (s : St) (a : α)
  | err (affected : Bool) (s : St)     -- `nom::Err::Error(ParserError{kind, input})`
  | panic (p : Panic)
  deriving Inhabited

abbrev P (α : Type) := St → Res α

def pure' {α} (a : α) : P α := fun s => .ok s a

def bind {α β} (p : P α) (f : α → P β) : P β := fun s =>
  match p s with
  | .ok s' a => f a s'
  | .err k s' => .err k s'
  | .panic e => .panic e

def pmap {α β} (f : α → β) (p : P α) : P β := fun s =>
  match p s with
  | .ok s' a => .ok s' (f a)
  | .err k s' => .err k s'
  | .panic e => .panic e

/-- nom `alt` of two parsers: the second runs on the original input; its error is the result. -/
def alt2 {α} (p q : P α) : P α := fun s =>
  match p s with
  | .err _ _ => q s
  | r => r

def altList {α} : List (P α) → P α
  | [] => fun s => .err false s
  | [p] => p
  | p :: ps => alt2 p (altList ps)

/-- nom `opt`. -/
def opt {α} (p : P α) : P (Option α) := fun s =>
  match p s with
  | .ok s' a => .ok s' (some a)
  | .err _ _ => .ok s none
  | .panic e => .panic e

/-- nom `peek`: success restores the input; an error is passed on unchanged. -/
def peek {α} (p : P α) : P α := fun s =>
  match p s with
  | .ok _ a => .ok s a
  | r => r

def void {α} (p : P α) : P Unit := pmap (fun _ => ()) p

/-- nom `many0` (with its no-progress guard). -/
def many0 {α} (p : P α) : Nat → P (List α)
  | 0 => fun _ => .panic ⟨"fuel"⟩
  | fuel + 1 => fun s =>
    match p s with
    | .err _ _ => .ok s []
    | .panic e => .panic e
    | .ok s' a =>
      if s'.pos == s.pos then .err false s
      else
        match many0 p fuel s' with
        | .ok s'' as => .ok s'' (a :: as)
        | r => r

section
variable (ctx : Ctx)

/-- nom `take(1usize)`. -/
def take1 : P Token := fun s =>
  match ctx.toks[s.pos]? with
  | some t => .ok { s with pos := s.pos + 1 } t
  | none => .err false s

/-- `parser::comment`. -/
def comment : P (List Char) := fun s =>
  match take1 ctx s with
  | .ok s' t =>
    match t.ty with
    | .Comment c => .ok s' c
    | _ => .err false s
  | r => match r with
    | .err k s' => .err k s'
    | .panic e => .panic e
    | .ok _ _ => .err false s

/-- `tag_parser!(name, pattern)`: skip comments, then one token whose type matches. -/
def tag (fuel : Nat) (pred : TokenType → Bool) : P Token := fun s =>
  match many0 (comment ctx) fuel s with
  | .ok s1 _ =>
    match take1 ctx s1 with
    | .ok s2 t => if pred t.ty then .ok s2 t else .err false s
    | .err k s' => .err k s'
    | .panic e => .panic e
  | .err k s' => .err k s'
  | .panic e => .panic e

def tagK (fuel : Nat) (k : Kind) : P Token := tag ctx fuel (fun ty => ty.kind == k)

/-- nom `all_consuming`. -/
def allConsuming {α} (p : P α) : P α := fun s =>
  match p s with
  | .ok s' a => if s'.pos == ctx.toks.size then .ok s' a else .err false s'
  | r => r

/-- `utility::info`: measure the token range relative to the enclosing `Reference`, collect the
    errors buffered while the inner parser ran. -/
def info {α} (p : P α) : P (α × AstInfo) := fun s =>
  if s.pos < s.refPos then .panic ⟨"underflow"⟩ else
  let start := s.pos - s.refPos
  let backup := s.errBuf
  match p { s with errBuf := [] } with
  | .ok s' a =>
    if s'.pos < s.refPos then .panic ⟨"underflow"⟩ else
    let i : AstInfo := { range := ⟨start, s'.pos - s.refPos⟩, errors := s'.errBuf }
    .ok { s' with errBuf := backup } (a, i)
  | .err k s' => .err k { s' with errBuf := backup }
  | .panic e => .panic e

def expectError (s : St) (msg : Msg) : Res St :=
  if s.pos < s.refPos then .panic ⟨"underflow"⟩ else
  let pos := s.pos - s.refPos
  let ep := if pos > 0 then pos - 1 else 0
  .ok { s with errBuf := s.errBuf ++ [⟨⟨ep, ep⟩, msg⟩] } s

/-- `utility::expect(this, parser, msg)`. -/
def expect {α} (this : Option α) (parser : Option α → P α) (msg : Msg) : P (Option α) := fun s =>
  match parser this s with
  | .ok s' a => .ok s' (some a)
  | .panic e => .panic e
  | .err true s1 =>
    match parser none s1 with
    | .ok s' a => .ok s' (some a)
    | .panic e => .panic e
    | .err _ s2 =>
      match expectError s2 msg with
      | .ok s3 _ => .ok s3 none
      | .err k x => .err k x
      | .panic e => .panic e
  | .err false s1 =>
    match expectError s1 msg with
    | .ok s3 _ => .ok s3 none
    | .err k x => .err k x
    | .panic e => .panic e

/-- `inc(f)`: ignore `this`. -/
def inc {α} (p : P α) : Option α → P α := fun _ => p

/-- `utility::confusable`. -/
def confusable {α} (p : P α) (msg : Msg) : P α := fun s =>
  match info p s with
  | .ok s' (a, i) => .ok { s' with errBuf := s'.errBuf ++ [⟨i.range, msg⟩] } a
  | .err k s' => .err k s'
  | .panic e => .panic e

def tokensBetween (a b : Nat) : List Token := (ctx.toks.extract a b).toList

/-- `ignore_until0(pattern)`: consumed tokens (pattern is always a `peek`). -/
def ignoreUntil0 (pattern : P Unit) : Nat → Nat → P (List Token)
  | 0, _ => fun _ => .panic ⟨"fuel"⟩
  | fuel + 1, start => fun s =>
    match pattern s with
    | .ok s1 _ => .ok s1 (tokensBetween ctx start s1.pos)
    | .panic e => .panic e
    | .err _ _ =>
      match take1 ctx s with
      | .ok s1 _ => ignoreUntil0 pattern fuel start s1
      | .err k s' => .err k s'
      | .panic e => .panic e

/-- `ignore_until1(pattern)`: fails (kind IgnoreUntil) if the pattern matches immediately. -/
def ignoreUntil1 (pattern : P Unit) (fuel : Nat) : P (List Token) := fun s =>
  match pattern s with
  | .ok s1 _ => .err false s1
  | .panic e => .panic e
  | .err _ _ => ignoreUntil0 ctx pattern fuel s.pos s

/-! ### incremental machinery -/

def _root_.Spl.TokenChange.overlaps (c : TokenChange) (r : Range) : Bool :=
  if c.delHi ≤ c.delLo then
    if c.delHi == r.lo then false else r.contains c.delLo
  else Nat.max c.delLo r.lo < Nat.min c.delHi r.hi

def _root_.Spl.TokenChange.deletes (c : TokenChange) (r : Range) : Bool :=
  c.delLo ≤ r.lo && r.hi ≤ c.delHi

def _root_.Spl.TokenChange.delLen (c : TokenChange) : Nat := c.delHi - c.delLo

def _root_.Spl.TokenChange.outOfRange (c : TokenChange) (p : Nat) : Bool :=
  p ≥ c.delHi + c.insLen - c.delLen

def _root_.Spl.TokenChange.newTokenPos (c : TokenChange) (old : Nat) : Nat :=
  if old ≥ c.delHi then old + c.insLen - c.delLen else old

/-- What `affected`/`many` need from a node type. -/
structure NodeOps (α : Type) where
  range : α → Range
  strip : α → α        -- `traverse_mut(remove_messages)`

def oldReference (s : St) : Nat := s.incRefs.foldl (· + ·) 0

/-- `utility::affected(this, inner)`. -/
def affected {α} (ops : NodeOps α) (this : Option α) (inner : P α) : P α := fun s =>
  match this with
  | none => inner s
  | some t =>
    let r := (ops.range t).shift (oldReference s)
    let c := ctx.change
    let insertionHere := c.delLo ≤ s.pos && s.pos < c.delLo + c.insLen
    let partiallyConsumed := c.outOfRange s.pos && s.pos > c.newTokenPos r.lo
    if c.deletes r || insertionHere || partiallyConsumed then .err true s
    else if c.overlaps ⟨r.lo, r.hi + 1⟩ then
      match inner s with
      | .ok s' a => .ok s' a
      | .err _ s' => .err true s'
      | .panic e => .panic e
    else
      if s.pos + r.len > ctx.toks.size then .panic ⟨"slice"⟩
      else .ok { s with pos := s.pos + r.len } (ops.strip t)

/-- `impl Parser for Reference<T>`. -/
def refParse {α} (parseT : Option α → P α) (this : Option (Ref α)) : P (Ref α) := fun s =>
  let backup := s.refPos
  let s1 : St := match this with
    | some r => { s with incRefs := s.incRefs ++ [r.offset] }
    | none => s
  if s.pos < backup then .panic ⟨"underflow"⟩ else
  let offset := s.pos - backup
  match parseT (this.map (·.val)) { s1 with refPos := s.pos } with
  | .ok s' a =>
    let s'' : St := { s' with refPos := backup }
    .ok (if this.isSome then { s'' with incRefs := s''.incRefs.dropLast } else s'') ⟨a, offset⟩
  | .err k s' => .err k { s' with refPos := backup, incRefs := s'.incRefs.dropLast }
  | .panic e => .panic e

/-- `many::parse_insertion`: accumulated results survive an error. -/
def parseInsertion {α} (parseT : Option α → P α) (endPos : Nat) : Nat → List (Ref α) → St → List (Ref α) × Res Unit
  | 0, acc, _ => (acc, .panic ⟨"fuel"⟩)
  | fuel + 1, acc, s =>
    if s.pos < endPos then
      match refParse parseT none s with
      | .ok s' r => parseInsertion parseT endPos fuel (acc ++ [r]) s'
      | .err k s' => (acc, .err k s')
      | .panic e => (acc, .panic e)
    else (acc, .ok s ())

/-- `utility::many(inner_parser)`. -/
def manyOld {α} (range : α → Range) (parseT : Option α → P α) (fuel : Nat) :
    List (Ref α) → List (Ref α) → P (List (Ref α))
  | [], acc => fun s =>
    match many0 (refParse parseT none) fuel s with
    | .ok s' out => .ok s' (acc ++ out)
    | .err k s' => .err k s'
    | .panic e => .panic e
  | old :: olds, acc => fun s =>
    let parserStart := (range old.val).lo + old.offset
    let c := ctx.change
    let endPos := if c.delLo ≤ s.pos && s.pos < c.delLo + c.insLen then c.delLo + c.insLen
                  else c.newTokenPos parserStart
    match parseInsertion parseT endPos fuel acc s with
    | (acc1, .panic e) => let _ := acc1; .panic e
    | (acc1, .err _ s') => .ok s' acc1
    | (acc1, .ok s1 _) =>
      match refParse parseT (some old) s1 with
      | .err true _ => manyOld range parseT fuel olds acc1 s1
      | .err false _ => .ok s1 acc1
      | .panic e => .panic e
      | .ok s2 out => manyOld range parseT fuel olds (acc1 ++ [out]) s2

def many {α} (range : α → Range) (parseT : Option α → P α) (fuel : Nat)
    (olds : Option (List (Ref α))) : P (List (Ref α)) :=
  manyOld ctx range parseT fuel (olds.getD []) []

/-- `utility::parse_list(inner_parsers)` — comma separated list (`CommaPreceded` wrapper). -/
def parseList {α} (range : α → Range) (parseT : Option α → P α) (fuel : Nat)
    (olds : Option (List (Ref α))) : P (List (Ref α)) := fun s =>
  let (first, rest) : Option (Ref α) × Option (List (Ref α)) := match olds with
    | some (f :: r) => (some f, some r)
    | _ => (none, none)
  match refParse parseT first s with
  | .err k s' => .err k s'
  | .panic e => .panic e
  | .ok s1 head =>
    -- CommaPreceded::new_wrapped asserts a non-zero offset
    if (rest.getD []).any (fun r => r.offset == 0) then .panic ⟨"assert"⟩ else
    let wrapped : Option (List (Ref (Ref α))) :=
      rest.map (fun rs => rs.map (fun r => ⟨⟨r.val, 1⟩, r.offset - 1⟩))
    let cpRange : Ref α → Range := fun inner => let r := range inner.val; ⟨r.lo, r.hi + 1⟩
    let cpParse : Option (Ref α) → P (Ref α) := fun this =>
      bind (tagK ctx fuel .Comma) (fun _ => refParse parseT this)
    match many ctx cpRange cpParse fuel wrapped s1 with
    | .err k s' => .err k s'
    | .panic e => .panic e
    | .ok s2 tail =>
      .ok s2 (head :: tail.map (fun r => ⟨r.val.val, r.offset + r.val.offset⟩))

end

end Spl.Parse
