/-
  Model of the server's process network (`server.rs::run`, `document.rs::broker`,
  `io.rs::responder`): three sequential processes — reader, broker, responder — connected by
  two bounded FIFO channels (`doc`, `io`) and a one-shot reply, under an arbitrary scheduler.
  Parametric in the pure functions the processes compute (`applyChange`, `analyze`, `answer`).
-/
import SplVerif.Gen.RpcTables

namespace Spl.Net

variable {Uri Text Chg Req Resp Diag : Type}

/-- The pure parts. -/
structure Fns (Uri Text Chg Req Resp Diag : Type) where
  applyChange : Text → Chg → Text
  analyze : Text → Diag
  answer : Option Text → Req → Resp

/-- Client messages of the main phase. -/
inductive CMsg (Uri Text Chg Req Resp : Type) where
  | open (u : Uri) (t : Text)
  | change (u : Uri) (c : Chg)
  | close (u : Uri)
  | docReq (id : Nat) (u : Uri) (r : Req)      -- a feature request: visits the broker
  | otherReq (id : Nat) (resp : Resp)           -- answered by the reader alone (unknown method, …)

/-- Messages on the `doc` channel. -/
inductive BReq (Uri Text Chg Req : Type) where
  | open (u : Uri) (t : Text)
  | change (u : Uri) (c : Chg)
  | close (u : Uri)
  | getInfo (id : Nat) (u : Uri) (r : Req)

/-- Messages to the client. -/
inductive Out (Uri Resp Diag : Type) where
  | resp (id : Nat) (r : Resp) (viaBroker : Bool)
  | diag (u : Uri) (d : Diag)

inductive Reader (Uri Text Chg Req Resp Diag : Type) where
  | idle
  | sendDoc (b : BReq Uri Text Chg Req)
  | waitReply
  | sendIo (o : Out Uri Resp Diag)

inductive Broker (Uri Resp Diag : Type) where
  | idle
  | sendDiag (o : Out Uri Resp Diag)

abbrev Docs (Uri Text : Type) := List (Uri × Text)

def Docs.get [DecidableEq Uri] (d : Docs Uri Text) (u : Uri) : Option Text :=
  (d.find? (fun e => e.1 = u)).map (·.2)

def Docs.remove [DecidableEq Uri] (d : Docs Uri Text) (u : Uri) : Docs Uri Text :=
  d.filter (fun e => e.1 ≠ u)

def Docs.set [DecidableEq Uri] (d : Docs Uri Text) (u : Uri) (t : Text) : Docs Uri Text :=
  (u, t) :: d.remove u

structure State (Uri Text Chg Req Resp Diag : Type) where
  input : List (CMsg Uri Text Chg Req Resp)
  reader : Reader Uri Text Chg Req Resp Diag
  docCh : List (BReq Uri Text Chg Req)
  broker : Broker Uri Resp Diag
  reply : Option (Out Uri Resp Diag)
  ioCh : List (Out Uri Resp Diag)
  out : List (Out Uri Resp Diag)
  docs : Docs Uri Text

def init (input : List (CMsg Uri Text Chg Req Resp)) : State Uri Text Chg Req Resp Diag :=
  { input := input, reader := .idle, docCh := [], broker := .idle, reply := none, ioCh := [],
    out := [], docs := [] }

inductive Proc where
  | reader | broker | responder
  deriving DecidableEq, Repr

section
variable [DecidableEq Uri] (f : Fns Uri Text Chg Req Resp Diag) (diagOn : Bool) (docCap ioCap : Nat)

/-- What the broker does with one request: new documents, optional diagnostics, optional reply. -/
def brokerHandle (docs : Docs Uri Text) (b : BReq Uri Text Chg Req) :
    Docs Uri Text × Option (Out Uri Resp Diag) × Option (Out Uri Resp Diag) :=
  match b with
  | .open u t => (docs.set u t, if diagOn then some (.diag u (f.analyze t)) else none, none)
  | .change u c =>
    match docs.get u with
    | some t =>
      let t' := f.applyChange t c
      (docs.set u t', if diagOn then some (.diag u (f.analyze t')) else none, none)
    | none => (docs, none, none)
  | .close u => (docs.remove u, none, none)
  | .getInfo id u r => (docs, none, some (.resp id (f.answer (docs.get u) r) true))

/-- One step of process `p`; `none` if `p` is not enabled (blocked or has nothing to do). -/
def step (s : State Uri Text Chg Req Resp Diag) (p : Proc) : Option (State Uri Text Chg Req Resp Diag) :=
  match p with
  | .reader =>
    match s.reader with
    | .idle =>
      match s.input with
      | [] => none
      | .open u t :: rest => some { s with input := rest, reader := .sendDoc (.open u t) }
      | .change u c :: rest => some { s with input := rest, reader := .sendDoc (.change u c) }
      | .close u :: rest => some { s with input := rest, reader := .sendDoc (.close u) }
      | .docReq id u r :: rest => some { s with input := rest, reader := .sendDoc (.getInfo id u r) }
      | .otherReq id resp :: rest => some { s with input := rest, reader := .sendIo (.resp id resp false) }
    | .sendDoc b =>
      if s.docCh.length < docCap then
        some { s with docCh := s.docCh ++ [b],
                      reader := match b with
                        | .getInfo .. => .waitReply
                        | _ => .idle }
      else none
    | .waitReply =>
      match s.reply with
      | some o => some { s with reply := none, reader := .sendIo o }
      | none => none
    | .sendIo o =>
      if s.ioCh.length < ioCap then some { s with ioCh := s.ioCh ++ [o], reader := .idle } else none
  | .broker =>
    match s.broker with
    | .sendDiag o =>
      if s.ioCh.length < ioCap then some { s with ioCh := s.ioCh ++ [o], broker := .idle } else none
    | .idle =>
      match s.docCh with
      | [] => none
      | b :: rest =>
        let (docs', dg, rp) := brokerHandle f diagOn s.docs b
        some { s with docCh := rest, docs := docs',
                      broker := match dg with
                        | some o => .sendDiag o
                        | none => .idle,
                      reply := match rp with
                        | some o => some o
                        | none => s.reply }
  | .responder =>
    match s.ioCh with
    | [] => none
    | o :: rest => some { s with ioCh := rest, out := s.out ++ [o] }

/-- Run a schedule; choices of blocked processes are skipped. -/
def runSchedule (s : State Uri Text Chg Req Resp Diag) : List Proc → State Uri Text Chg Req Resp Diag
  | [] => s
  | p :: ps =>
    match step f diagOn docCap ioCap s p with
    | some s' => runSchedule s' ps
    | none => runSchedule s ps

def isFinal (s : State Uri Text Chg Req Resp Diag) : Bool :=
  s.input.isEmpty && s.docCh.isEmpty && s.ioCh.isEmpty &&
  (match s.reader with | .idle => true | _ => false) &&
  (match s.broker with | .idle => true | _ => false)

/-- The broker request a client message turns into (`none`: answered by the reader alone). -/
def toBReq : CMsg Uri Text Chg Req Resp → Option (BReq Uri Text Chg Req)
  | .open u t => some (.open u t)
  | .change u c => some (.change u c)
  | .close u => some (.close u)
  | .docReq id u r => some (.getInfo id u r)
  | .otherReq _ _ => none

def optList {α} : Option α → List α
  | some a => [a]
  | none => []

/-- Outputs of the broker handling one request completely (diagnostics, then reply). -/
def handleOut (docs : Docs Uri Text) (b : BReq Uri Text Chg Req) : Docs Uri Text × List (Out Uri Resp Diag) :=
  let r := brokerHandle f diagOn docs b
  (r.1, optList r.2.1 ++ optList r.2.2)

/-- The broker working off a queue of requests sequentially. -/
def runBroker (docs : Docs Uri Text) : List (BReq Uri Text Chg Req) → Docs Uri Text × List (Out Uri Resp Diag)
  | [] => (docs, [])
  | b :: bs =>
    let r := handleOut f diagOn docs b
    let r2 := runBroker r.1 bs
    (r2.1, r.2 ++ r2.2)

/-- The single-threaded reference: handle one client message completely before the next. -/
def seqRun (docs : Docs Uri Text) : List (CMsg Uri Text Chg Req Resp) → List (Out Uri Resp Diag)
  | [] => []
  | m :: rest =>
    match toBReq m with
    | some b =>
      let r := handleOut f diagOn docs b
      r.2 ++ seqRun r.1 rest
    | none =>
      match m with
      | .otherReq id resp => .resp id resp false :: seqRun docs rest
      | _ => seqRun docs rest

end

def Out.isResp : Out Uri Resp Diag → Bool
  | .resp .. => true
  | .diag .. => false

/-- Everything except the responses that never visit the broker. -/
def Out.isDocRelated : Out Uri Resp Diag → Bool
  | .resp _ _ v => v
  | .diag .. => true

end Spl.Net
