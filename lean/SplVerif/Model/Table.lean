/-
  Model of `spl_frontend/src/table.rs`, `table/build.rs`, `table/semantic.rs` and of
  `AnalyzedSource::{new, errors}` (`lib.rs`).  `HashMap`s are association lists with
  "first insertion wins" (`enter`); iteration order is never observed.
  The Rust code mutates the tree (appends diagnostics); here every function returns the new node.
-/
import SplVerif.Model.Parser
import SplVerif.Model.Doc
import SplVerif.Gen.Builtins

namespace Spl

/-- `DataType`; `Option<Box<Self>>` in the base position is spelled with the extra constructor
    `unknown` (= `None`), which never occurs at top level. -/
inductive DataType where
  | int
  | bool
  | array (size : Option Nat) (base : DataType) (creator : List Char)
  | unknown
  deriving DecidableEq, Repr, Inhabited

def DataType.ofOption : Option DataType → DataType
  | some d => d
  | none => .unknown

def DataType.toOption : DataType → Option DataType
  | .unknown => none
  | d => some d

def DataType.isPrimitive : DataType → Bool
  | .int | .bool => true
  | _ => false

structure VariableEntry where
  name : Identifier
  isRef : Bool
  dataType : Option DataType
  range : Range
  doc : Option (List Char)
  deriving DecidableEq, Repr

inductive LocalEntry where
  | variable (v : VariableEntry)
  | parameter (v : VariableEntry)
  deriving DecidableEq, Repr

def LocalEntry.entry : LocalEntry → VariableEntry
  | .variable v | .parameter v => v

abbrev LocalTable := List (List Char × LocalEntry)

structure TypeEntry where
  name : Identifier
  dataType : Option DataType
  range : Range
  doc : Option (List Char)
  deriving DecidableEq, Repr

structure ProcedureEntry where
  name : Identifier
  localTable : LocalTable
  parameters : List VariableEntry
  range : Range
  doc : Option (List Char)
  deriving DecidableEq, Repr

inductive GlobalEntry where
  | type (t : TypeEntry)
  | procedure (p : ProcedureEntry)
  deriving DecidableEq, Repr

abbrev GlobalTable := List (List Char × GlobalEntry)

/-- `Entry<'a>`: an entry of either scope. -/
inductive Entry where
  | type (t : TypeEntry)
  | procedure (p : ProcedureEntry)
  | variable (v : VariableEntry)
  | parameter (v : VariableEntry)
  deriving DecidableEq, Repr

def tblLookup {α} (t : List (List Char × α)) (k : List Char) : Option α :=
  (t.find? (fun e => e.1 == k)).map (·.2)

/-- `SymbolTable::enter`: `none` = key already exists. -/
def tblEnter {α} (t : List (List Char × α)) (k : List Char) (v : α) : Option (List (List Char × α)) :=
  if t.any (fun e => e.1 == k) then none else some (t ++ [(k, v)])

/-- `LookupTable::lookup`: local first, then global. -/
def lookupBoth (l : Option LocalTable) (g : GlobalTable) (k : List Char) : Option Entry :=
  match l.bind (fun t => tblLookup t k) with
  | some (.variable v) => some (.variable v)
  | some (.parameter v) => some (.parameter v)
  | none =>
    match tblLookup g k with
    | some (.type t) => some (.type t)
    | some (.procedure p) => some (.procedure p)
    | none => none

def zeroIdent (s : String) : Identifier := { value := s.toList, info := { range := ⟨0, 0⟩ } }

/-- `GlobalTable::initialized()`. -/
def initialTable : GlobalTable :=
  (("int".toList, GlobalEntry.type { name := zeroIdent "int", dataType := some .int, range := ⟨0, 0⟩, doc := none })) ::
  Gen.builtinProcs.map (fun (n, d, ps) =>
    (n.toList, GlobalEntry.procedure
      { name := zeroIdent n, localTable := [],
        parameters := ps.map (fun (pn, r) =>
          { name := zeroIdent pn, isRef := r, dataType := some .int, range := ⟨0, 0⟩, doc := none }),
        range := ⟨0, 0⟩, doc := some d.toList }))

def Entry.isDefault : Entry → Bool
  | .type t => Gen.defaultEntries.contains (String.ofList t.name.value)
  | .procedure p => Gen.defaultEntries.contains (String.ofList p.name.value)
  | _ => false

/-- `Identifier::to_error`: the last token of the identifier's range. `none` = assertion panic. -/
def Identifier.toError (i : Identifier) (msg : List Char → Msg) : Option SplError :=
  if i.info.range.hi > 0 then some ⟨⟨i.info.range.hi - 1, i.info.range.hi⟩, msg i.value⟩ else none

def Identifier.addError (i : Identifier) (e : SplError) : Identifier :=
  { i with info := { i.info with errors := i.info.errors ++ [e] } }

def AstInfo.add (i : AstInfo) (e : SplError) : AstInfo := { i with errors := i.errors ++ [e] }

/-- append `name.to_error(msg)` to the identifier's own info (`Except` for the assertion). -/
def Identifier.flag (i : Identifier) (msg : List Char → Msg) : Except Panic Identifier :=
  match i.toError msg with
  | some e => .ok (i.addError e)
  | none => .error ⟨"assert"⟩

def getDocumentation (docs : List (List Char)) : Option (List Char) :=
  let d := docs.flatten
  if d.isEmpty then none else some d

/-- `get_data_type(type_expr, caller, table)`: returns the (possibly flagged) type expression. -/
def getDataType (l : Option LocalTable) (g : GlobalTable) (caller : Option (List Char)) :
    TypeExpr → Except Panic (TypeExpr × Option DataType)
  | .named name =>
    if name.value == "int".toList then .ok (.named name, some .int)
    else
      match lookupBoth l g name.value with
      | some (.type t) => .ok (.named name, t.dataType)
      | some _ => (name.flag .NotAType).map (fun n => (.named n, none))
      | none => (name.flag .UndefinedType).map (fun n => (.named n, none))
  | .array size base info =>
    let sz := size.bind (·.value)
    match base with
    | .none =>
      .ok (.array size .none info, caller.map (fun c => DataType.array sz .unknown c))
    | .some t off =>
      match getDataType l g caller t with
      | .error e => .error e
      | .ok (t', bt) =>
        .ok (.array size (.some t' off) info, caller.map (fun c => DataType.array sz (DataType.ofOption bt) c))

def getDataTypeRef (l : Option LocalTable) (g : GlobalTable) (caller : Option (List Char))
    (te : Option (Ref TypeExpr)) : Except Panic (Option (Ref TypeExpr) × Option DataType) :=
  match te with
  | none => .ok (none, none)
  | some r =>
    match getDataType l g caller r.val with
    | .error e => .error e
    | .ok (t', dt) => .ok (some ⟨t', r.offset⟩, dt)

/-- `TableBuilder for TypeDeclaration`. -/
def buildTypeDecl (td : TypeDecl) (table : GlobalTable) (offset : Nat) : Except Panic (TypeDecl × GlobalTable) :=
  let range := td.info.range.shift offset
  match td.name with
  | none => .ok (td, table)
  | some name =>
    if name.value == "main".toList then
      .ok ({ td with name := some (name.addError ⟨name.info.range, .MainIsNotAProcedure⟩) }, table)
    else
      match getDataTypeRef none table (some name.value) td.typeExpr with
      | .error e => .error e
      | .ok (te', dt) =>
        let entry : TypeEntry := { name := name, dataType := dt, range := range, doc := getDocumentation td.doc }
        match tblEnter table name.value (.type entry) with
        | some table' => .ok ({ td with typeExpr := te' }, table')
        | none =>
          match name.flag .RedeclarationAsType with
          | .error e => .error e
          | .ok n' => .ok ({ td with typeExpr := te', name := some n' }, table)

/-- `anonymous_creator`: the creator of an array type written in a parameter or variable declaration
    is qualified by the procedure (`.` cannot occur in a name). -/
def anonymousCreator (procedure : List Char) (name : Identifier) : List Char :=
  procedure ++ '.' :: name.value

/-- `build_parameter`. -/
def buildParameter (p : Ref ParamDecl) (procedure : List Char) (g : GlobalTable) (l : LocalTable) :
    Except Panic (Ref ParamDecl × LocalTable × Option VariableEntry) :=
  let range := p.val.info.range.shift p.offset
  match p.val with
  | .error _ => .ok (p, l, none)
  | .valid doc isRef none te info => let _ := (doc, isRef, te, info); .ok (p, l, none)
  | .valid doc isRef (some name) te info =>
    match getDataTypeRef none g (some (anonymousCreator procedure name)) te with
    | .error e => .error e
    | .ok (te', dt) =>
      let entry : VariableEntry := { name := name, isRef := isRef, dataType := dt, range := range, doc := getDocumentation doc }
      let step1 : Except Panic Identifier := match dt with
        | some d => if !d.isPrimitive && !isRef then name.flag .MustBeAReferenceParameter else .ok name
        | none => .ok name
      match step1 with
      | .error e => .error e
      | .ok n1 =>
        match tblEnter l name.value (.parameter entry) with
        | some l' => .ok (⟨.valid doc isRef (some n1) te' info, p.offset⟩, l', some entry)
        | none =>
          match n1.flag .RedeclarationAsParameter with
          | .error e => .error e
          | .ok n2 => .ok (⟨.valid doc isRef (some n2) te' info, p.offset⟩, l, some entry)

/-- `build_variable`. -/
def buildVariable (v : Ref VarDecl) (procedure : List Char) (g : GlobalTable) (l : LocalTable) : Except Panic (Ref VarDecl × LocalTable) :=
  let range := v.val.info.range.shift v.offset
  match v.val with
  | .valid doc (some name) te info =>
    match getDataTypeRef (some l) g (some (anonymousCreator procedure name)) te with
    | .error e => .error e
    | .ok (te', dt) =>
      let entry : VariableEntry := { name := name, isRef := false, dataType := dt, range := range, doc := getDocumentation doc }
      match tblEnter l name.value (.variable entry) with
      | some l' => .ok (⟨.valid doc (some name) te' info, v.offset⟩, l')
      | none =>
        match name.flag .RedeclarationAsVariable with
        | .error e => .error e
        | .ok n' => .ok (⟨.valid doc (some n') te' info, v.offset⟩, l)
  | _ => .ok (v, l)

def buildParams (procedure : List Char) (g : GlobalTable) : List (Ref ParamDecl) → LocalTable →
    Except Panic (List (Ref ParamDecl) × LocalTable × List VariableEntry)
  | [], l => .ok ([], l, [])
  | p :: ps, l =>
    match buildParameter p procedure g l with
    | .error e => .error e
    | .ok (p', l1, ent) =>
      match buildParams procedure g ps l1 with
      | .error e => .error e
      | .ok (ps', l2, ents) => .ok (p' :: ps', l2, (match ent with | some e => [e] | none => []) ++ ents)

def buildVars (procedure : List Char) (g : GlobalTable) : List (Ref VarDecl) → LocalTable → Except Panic (List (Ref VarDecl) × LocalTable)
  | [], l => .ok ([], l)
  | v :: vs, l =>
    match buildVariable v procedure g l with
    | .error e => .error e
    | .ok (v', l1) =>
      match buildVars procedure g vs l1 with
      | .error e => .error e
      | .ok (vs', l2) => .ok (v' :: vs', l2)

/-- `TableBuilder for ProcedureDeclaration`. -/
def buildProcDecl (pd : ProcDecl) (table : GlobalTable) (offset : Nat) : Except Panic (ProcDecl × GlobalTable) :=
  let range := pd.info.range.shift offset
  match pd.name with
  | none => .ok (pd, table)
  | some name =>
    match buildParams name.value table pd.params [] with
    | .error e => .error e
    | .ok (params', l1, ents) =>
      match buildVars name.value table pd.vars l1 with
      | .error e => .error e
      | .ok (vars', l2) =>
        let entry : ProcedureEntry :=
          { name := name, localTable := l2, parameters := ents, range := range, doc := getDocumentation pd.doc }
        match tblEnter table name.value (.procedure entry) with
        | some table' => .ok ({ pd with params := params', vars := vars' }, table')
        | none =>
          match name.flag .RedeclarationAsProcedure with
          | .error e => .error e
          | .ok n' => .ok ({ pd with params := params', vars := vars', name := some n' }, table)

def buildDecls : List (Ref GlobalDecl) → GlobalTable → Nat → Except Panic (List (Ref GlobalDecl) × GlobalTable)
  | [], t, _ => .ok ([], t)
  | d :: ds, t, offset =>
    let r : Except Panic (GlobalDecl × GlobalTable) := match d.val with
      | .type td => (buildTypeDecl td t (offset + d.offset)).map (fun (x, t') => (.type x, t'))
      | .proc pd => (buildProcDecl pd t (offset + d.offset)).map (fun (x, t') => (.proc x, t'))
      | .error i => .ok (.error i, t)
    match r with
    | .error e => .error e
    | .ok (d', t1) =>
      match buildDecls ds t1 offset with
      | .error e => .error e
      | .ok (ds', t2) => .ok (⟨d', d.offset⟩ :: ds', t2)

/-- `table::build(program)`. -/
def build (p : Program) : Except Panic (Program × GlobalTable) :=
  match buildDecls p.decls initialTable 0 with
  | .error e => .error e
  | .ok (decls', table) =>
    match tblLookup table "main".toList with
    | some (.procedure m) =>
      if !m.parameters.isEmpty then
        .ok ({ decls := decls', info := p.info.add ⟨m.name.info.range.shift m.range.lo, .MainMustNotHaveParameters⟩ }, table)
      else .ok ({ p with decls := decls' }, table)
    | some (.type _) => .error ⟨"'main' must be a procedure"⟩
    | none => .ok ({ decls := decls', info := p.info.add ⟨⟨0, 0⟩, .MainIsMissing⟩ }, table)

/-! ### semantic analysis -/

structure Scope where
  localTable : Option LocalTable
  globalTable : GlobalTable

def Scope.lookup (sc : Scope) (k : List Char) : Option Entry := lookupBoth sc.localTable sc.globalTable k

/-- `Expression::info_mut().append_error(e)`. -/
def Expr.addError (e : Expr) (err : SplError) : Expr :=
  match e with
  | .binary op l r i => .binary op l r (i.add err)
  | .bracketed x i => .bracketed x (i.add err)
  | .error i => .error (i.add err)
  | .unary op x i => .unary op x (i.add err)
  | .intLit l => .intLit { l with info := l.info.add err }
  | .var (.access a idx i) => .var (.access a idx (i.add err))
  | .var (.named n) => .var (.named (n.addError err))

mutual
  def analyzeVar (sc : Scope) : Var → Except Panic (Var × Option DataType)
    | .named n =>
      match sc.lookup n.value with
      | some (.variable v) | some (.parameter v) => .ok (.named n, v.dataType)
      | some _ => (n.flag .NotAVariable).map (fun n' => (.named n', none))
      | none => (n.flag .UndefinedVariable).map (fun n' => (.named n', none))
    | .access arr idx info =>
      match analyzeIndex sc idx with
      | .error e => .error e
      | .ok idx' =>
        match analyzeVar sc arr with
        | .error e => .error e
        | .ok (arr', arrT) =>
          match arrT with
          | some (.array _ base _) => .ok (.access arr' idx' info, base.toOption)
          | some _ => .ok (.access arr' idx' (info.add ⟨info.range, .IndexingNonArray⟩), none)
          | none => .ok (.access arr' idx' info, none)

  def analyzeIndex (sc : Scope) : OptExpr → Except Panic OptExpr
    | .none => .ok .none
    | .some e off =>
      match analyzeExpr sc e with
      | .error p => .error p
      | .ok (e', t) =>
        match t with
        | some .int => .ok (.some e' off)
        | some _ => .ok (.some (e'.addError ⟨e'.info.range, .IndexingWithNonInteger⟩) off)
        | none => .ok (.some e' off)

  def analyzeExpr (sc : Scope) : Expr → Except Panic (Expr × Option DataType)
    | .intLit l => .ok (.intLit l, some .int)
    | .var v => (analyzeVar sc v).map (fun (v', t) => (.var v', t))
    | .unary op e i =>
      match analyzeExpr sc e with
      | .error p => .error p
      | .ok (e', t) =>
        let i' := match t with
          | some .int => i
          | some _ => i.add ⟨i.range, .ArithmeticOperatorNonInteger⟩
          | none => i
        .ok (.unary op e' i', some .int)
    | .bracketed e i => (analyzeExpr sc e).map (fun (e', t) => (.bracketed e' i, t))
    | .error i => .ok (.error i, none)
    | .binary op l r i =>
      match analyzeExpr sc l with
      | .error p => .error p
      | .ok (l', lt) =>
        match analyzeExpr sc r with
        | .error p => .error p
        | .ok (r', rt) =>
          let res := if op.isArithmetic then DataType.int else DataType.bool
          let i' := match lt, rt with
            | some .int, some .int => i
            | some .int, some _ | some _, some .int => i.add ⟨i.range, .OperatorDifferentTypes⟩
            | some _, some _ =>
              if op.isArithmetic then i.add ⟨i.range, .ArithmeticOperatorNonInteger⟩
              else i.add ⟨i.range, .ComparisonNonInteger⟩
            | _, _ => i
          .ok (.binary op l' r' i', some res)
end

def analyzeRefExpr (sc : Scope) (r : Ref Expr) : Except Panic (Ref Expr × Option DataType) :=
  (analyzeExpr sc r.val).map (fun (e, t) => (⟨e, r.offset⟩, t))

def analyzeCondition (sc : Scope) (c : Option (Ref Expr)) (msg : Msg) : Except Panic (Option (Ref Expr)) :=
  match c with
  | none => .ok none
  | some r =>
    match analyzeExpr sc r.val with
    | .error p => .error p
    | .ok (e, t) =>
      match t with
      | some .bool => .ok (some ⟨e, r.offset⟩)
      | some _ => .ok (some ⟨e.addError ⟨e.info.range, msg⟩, r.offset⟩)
      | none => .ok (some ⟨e, r.offset⟩)

/-- the argument as it is analysed: a non-variable given for a reference parameter is flagged first -/
def refArgExpr (a : Ref Expr) (p : VariableEntry) (name : List Char) (i : Nat) : Expr :=
  let isVariable := match a.val with
    | .var _ => true
    | _ => false
  if p.isRef && !isVariable then a.val.addError ⟨a.val.info.range, .ArgumentMustBeAVariable name (i + 1)⟩ else a.val

def analyzeArgs (sc : Scope) (name : List Char) : List (Ref Expr) → List VariableEntry → Nat →
    Except Panic (List (Ref Expr))
  | [], _, _ => .ok []
  | args, [], _ => .ok args
  | a :: as, p :: ps, i =>
    let range := a.val.info.range
    let a1 := refArgExpr a p name i
    match analyzeExpr sc a1 with
    | .error e => .error e
    | .ok (a2, argT) =>
      let a3 := match argT, p.dataType with
        | some x, some y => if x != y then a2.addError ⟨range, .ArgumentsTypeMismatch name (i + 1)⟩ else a2
        | _, _ => a2
      match analyzeArgs sc name as ps (i + 1) with
      | .error e => .error e
      | .ok rest => .ok (⟨a3, a.offset⟩ :: rest)

def analyzeCall (sc : Scope) (c : CallStmt) : Except Panic CallStmt :=
  match sc.lookup c.name.value with
  | some (.procedure pe) =>
    let info1 :=
      if c.args.length < pe.parameters.length then c.info.add ⟨c.info.range, .TooFewArguments c.name.value⟩
      else if c.args.length > pe.parameters.length then c.info.add ⟨c.info.range, .TooManyArguments c.name.value⟩
      else c.info
    (analyzeArgs sc c.name.value c.args pe.parameters 0).map (fun args => { c with args := args, info := info1 })
  | some _ => .ok { c with info := c.info.add ⟨c.info.range, .CallOfNoneProcedure c.name.value⟩ }
  | none => .ok { c with info := c.info.add ⟨c.info.range, .UndefinedProcedure c.name.value⟩ }

def analyzeAssignment (sc : Scope) (a : Assignment) : Except Panic Assignment :=
  match a.expr with
  | none => .ok a
  | some r =>
    match analyzeVar sc a.target with
    | .error e => .error e
    | .ok (v', lt) =>
      match analyzeRefExpr sc r with
      | .error e => .error e
      | .ok (r', rt) =>
        let info' := match lt, rt with
          | some l, some rr =>
            if l != rr then a.info.add ⟨a.info.range, .AssignmentHasDifferentTypes⟩
            else if l != .int then a.info.add ⟨a.info.range, .AssignmentRequiresIntegers⟩
            else a.info
          | _, _ => a.info
        .ok { target := v', expr := some r', info := info' }

mutual
  def analyzeStmt (sc : Scope) : Stmt → Except Panic Stmt
    | .assign a => (analyzeAssignment sc a).map Stmt.assign
    | .call c => (analyzeCall sc c).map Stmt.call
    | .block ss i => (analyzeStmtList sc ss).map (fun ss' => .block ss' i)
    | .ifS c t e i =>
      match analyzeCondition sc c .IfConditionMustBeBoolean with
      | .error p => .error p
      | .ok c' =>
        match analyzeOptStmt sc t with
        | .error p => .error p
        | .ok t' =>
          match analyzeOptStmt sc e with
          | .error p => .error p
          | .ok e' => .ok (.ifS c' t' e' i)
    | .whileS c b i =>
      match analyzeCondition sc c .WhileConditionMustBeBoolean with
      | .error p => .error p
      | .ok c' =>
        match analyzeOptStmt sc b with
        | .error p => .error p
        | .ok b' => .ok (.whileS c' b' i)
    | .empty i => .ok (.empty i)
    | .error i => .ok (.error i)
  def analyzeOptStmt (sc : Scope) : OptStmt → Except Panic OptStmt
    | .none => .ok .none
    | .some s o => (analyzeStmt sc s).map (fun s' => .some s' o)
  def analyzeStmtList (sc : Scope) : StmtList → Except Panic StmtList
    | .nil => .ok .nil
    | .cons s o r =>
      match analyzeStmt sc s with
      | .error p => .error p
      | .ok s' => (analyzeStmtList sc r).map (fun r' => .cons s' o r')
end

def analyzeRefStmts (sc : Scope) : List (Ref Stmt) → Except Panic (List (Ref Stmt))
  | [] => .ok []
  | r :: rs =>
    match analyzeStmt sc r.val with
    | .error p => .error p
    | .ok s' => (analyzeRefStmts sc rs).map (fun rs' => ⟨s', r.offset⟩ :: rs')

def analyzeDecls (table : GlobalTable) : List (Ref GlobalDecl) → Except Panic (List (Ref GlobalDecl))
  | [] => .ok []
  | d :: ds =>
    let r : Except Panic GlobalDecl := match d.val with
      | .proc pd =>
        match pd.name with
        | none => .ok (.proc pd)
        | some name =>
          match tblLookup table name.value with
          | none => .error ⟨"expect:Named declaration without entry"⟩
          | some (.procedure pe) =>
            (analyzeRefStmts ⟨some pe.localTable, table⟩ pd.stmts).map (fun ss => .proc { pd with stmts := ss })
          | some (.type _) => .ok (.proc pd)
      | other => .ok other
    match r with
    | .error e => .error e
    | .ok d' => (analyzeDecls table ds).map (fun ds' => ⟨d', d.offset⟩ :: ds')

/-- `table::analyze(program, table)`. -/
def analyze (p : Program) (table : GlobalTable) : Except Panic Program :=
  (analyzeDecls table p.decls).map (fun ds => { p with decls := ds })

/-! ### `AnalyzedSource` -/

structure AnalyzedSource where
  text : List Char
  tokens : List Token
  ast : Program
  table : GlobalTable

/-- `AnalyzedSource::new(text)`. -/
def AnalyzedSource.new (text : List Char) : Except Panic AnalyzedSource :=
  match lex text with
  | .error e => .error e
  | .ok toks =>
    match Parse.parse toks with
    | .error e => .error e
    | .ok prog =>
      match build prog with
      | .error e => .error e
      | .ok (prog1, table) =>
        match analyze prog1 table with
        | .error e => .error e
        | .ok prog2 => .ok { text := text, tokens := toks, ast := prog2, table := table }

/-- `AstInfo::to_text_range` / the closure of `AnalyzedSource::errors`: token range -> byte range. -/
def tokenRangeToText (toks : Array Token) (r : Range) : Except Panic Range :=
  if r.hi ≤ r.lo then
    match toks[r.hi]? with
    | some t => .ok ⟨t.range.hi, t.range.hi⟩
    | none => .error ⟨"slice"⟩
  else
    if r.hi > toks.size then .error ⟨"slice"⟩ else
    match toks[r.lo]?, toks[r.hi - 1]? with
    | some a, some b => .ok ⟨a.range.lo, b.range.hi⟩
    | _, _ => .error ⟨"slice"⟩

/-- `impl ErrorContainer for AnalyzedSource`: all diagnostics with byte ranges. -/
def convErrs (toks : Array Token) : List SplError → Except Panic (List SplError)
  | [] => .ok []
  | e :: es =>
    match tokenRangeToText toks e.range with
    | .error p => .error p
    | .ok r =>
      match convErrs toks es with
      | .error p => .error p
      | .ok rest => .ok ({ e with range := r } :: rest)

def AnalyzedSource.errors (d : AnalyzedSource) : Except Panic (List SplError) :=
  convErrs d.tokens.toArray d.ast.errors

end Spl

namespace Spl

/-- One step of the fold in `AnalyzedSource::update`: text, tokens and tree for one change. -/
def AnalyzedSource.applyChange (d : AnalyzedSource) (c : TextChange) : Except Panic AnalyzedSource :=
  match replaceRange d.text c.lo c.hi c.text with
  | none => .error ⟨"slice"⟩
  | some text' =>
    match lexUpdate text' d.tokens c.lo c.hi (utf8Len c.text) with
    | .error e => .error e
    | .ok (toks', tc) =>
      match Parse.update d.ast toks' tc with
      | .error e => .error e
      | .ok ast' => .ok { d with text := text', tokens := toks', ast := ast' }

/-- `AnalyzedSource::update(changes)`: incremental text/tokens/tree per change, then the table
    and the semantic analysis are rebuilt from scratch. -/
def AnalyzedSource.update (d : AnalyzedSource) (changes : List TextChange) : Except Panic AnalyzedSource :=
  let rec go : AnalyzedSource → List TextChange → Except Panic AnalyzedSource
    | d, [] => .ok d
    | d, c :: cs =>
      match d.applyChange c with
      | .error e => .error e
      | .ok d' => go d' cs
  match go d changes with
  | .error e => .error e
  | .ok d1 =>
    match build d1.ast with
    | .error e => .error e
    | .ok (prog1, table) =>
      match analyze prog1 table with
      | .error e => .error e
      | .ok prog2 => .ok { d1 with ast := prog2, table := table }

end Spl
