/-
  Model of the JSON-RPC lifecycle of `lsp4spl/src/server.rs` (`phases::initialization`,
  `phases::main`, `phases::shutdown`, and the exit handling of `run`).  The per-phase
  dispatch (method string -> action, error codes) is generated (`Gen.RpcTables`).
-/
import SplVerif.Gen.RpcTables

namespace Spl.Rpc

/-- Client-to-server messages (client responses are outside the property's alphabet). -/
inductive CMsg where
  | req (id : Int) (method : String)
  | note (method : String)
  deriving DecidableEq, Repr

inductive Phase where
  | preInit      -- first loop of `initialization`
  | handshake    -- second loop: after the `initialize` response, before `initialized`
  | main
  | shutdown
  | exited (code : Nat)
  deriving DecidableEq, Repr

/-- Server output relevant to C18: one response per request. -/
inductive Out where
  | ok (id : Int)
  | err (id : Int) (code : Int)
  deriving DecidableEq, Repr

def lookup {α} (m : String) : List (String × α) → Option α
  | [] => none
  | (k, v) :: r => if k == m then some v else lookup m r

def step : Phase → CMsg → Phase × List Out
  | .preInit, .req id m =>
    if m == Gen.initializeMethod then (.handshake, [.ok id])
    else (.preInit, [.err id (Gen.errorCode Gen.preInitOther)])
  | .preInit, .note m =>
    if m == Gen.exitMethod then (.exited 1, []) else (.preInit, [])
  | .handshake, .req id m =>
    if m == Gen.initializeMethod then (.handshake, [.err id (Gen.errorCode Gen.handshakeInitialize)])
    else (.handshake, [.err id (Gen.errorCode Gen.handshakeOther)])
  | .handshake, .note m =>
    if m == Gen.initializedMethod then (.main, [])
    else if m == Gen.exitMethod then (.exited 1, [])
    else (.handshake, [])
  | .main, .req id m =>
    match (lookup m Gen.mainRequests).getD Gen.mainRequestDefault with
    | .error c => (.main, [.err id (Gen.errorCode c)])
    | .shutdown => (.shutdown, [.ok id])
    | .feature _ => (.main, [.ok id])
  | .main, .note m =>
    match (lookup m Gen.mainNotifications).getD .drop with
    | .exit => (.exited 1, [])
    | _ => (.main, [])
  | .shutdown, .req id _ => (.shutdown, [.err id (Gen.errorCode Gen.shutdownRequest)])
  | .shutdown, .note m =>
    if m == Gen.exitMethod then (.exited 0, []) else (.shutdown, [])
  | .exited c, _ => (.exited c, [])

/-- Process status when the input ends in phase `p` (every loop falls through to a clean return). -/
def eofStatus : Phase → Nat
  | .exited c => c
  | _ => 0

def runFrom : Phase → List CMsg → Phase × List Out
  | p, [] => (p, [])
  | p, m :: ms =>
    let (p', o) := step p m
    let (pf, os) := runFrom p' ms
    (pf, o ++ os)

/-- Whole session followed by end of input: outputs and exit status. -/
def run (ms : List CMsg) : List Out × Nat :=
  let (p, os) := runFrom .preInit ms
  (os, eofStatus p)

end Spl.Rpc
