/-
  Model of `spl_frontend/src/parser.rs`: one function per `impl Parser for …`, with the
  incremental `this` threading.  Batch parsing is `this = none` with the token change
  `(0..0, tokens.len())`.  Mutual recursion is structural on a fuel argument.
-/
import SplVerif.Model.ParserCore
import SplVerif.Gen.ParserTables

namespace Spl.Parse

/-! ### `Display for TokenType` -/

def isRustWhitespace (c : Char) : Bool :=
  let n := c.toNat
  (9 ≤ n && n ≤ 13) || n == 32 || n == 0x85 || n == 0xA0 || n == 0x1680 ||
  (0x2000 ≤ n && n ≤ 0x200A) || n == 0x2028 || n == 0x2029 || n == 0x202F || n == 0x205F || n == 0x3000

def trimStr (s : List Char) : List Char :=
  ((s.dropWhile isRustWhitespace).reverse.dropWhile isRustWhitespace).reverse

def natDigits (n : Nat) : List Char := (toString n).toList

def hexUpper (n : Nat) : List Char :=
  let rec go : Nat → Nat → List Char → List Char
    | 0, _, acc => acc
    | fuel + 1, n, acc =>
      let d := n % 16
      let c := if d < 10 then Char.ofNat (48 + d) else Char.ofNat (55 + d)
      if n / 16 == 0 then c :: acc else go fuel (n / 16) (c :: acc)
  go 64 n []

/-- `format!("{:#04X}", i)`: `0x` + upper-case hex, zero-padded to a total width of 4. -/
def fmtHex04 (n : Nat) : List Char :=
  let ds := hexUpper n
  ['0', 'x'] ++ (if ds.length < 2 then ['0'] ++ ds else ds)

def displayToken (t : TokenType) : List Char :=
  match t with
  | .Ident s | .Unknown s => s
  | .Comment s => ['/', '/', ' '] ++ trimStr s ++ ['\n']
  | .Char c => if c == '\n' then ['\'', '\\', 'n', '\''] else ['\'', c, '\'']
  | .Int (.Int i) => natDigits i
  | .Int (.Err e) => e
  | .Hex (.Int i) => fmtHex04 i
  | .Hex (.Err e) => ['0', 'x'] ++ e
  | other => (Gen.spelling other.kind).getD []

/-! ### node operations (`ToRange`, `traverse_mut(remove_messages)`) -/

def intLitOps : NodeOps IntLiteral := ⟨fun l => l.info.range, IntLiteral.mapInfo removeMessages⟩
def identOps : NodeOps Identifier := ⟨fun l => l.info.range, Identifier.mapInfo removeMessages⟩
def varOps : NodeOps Var := ⟨fun v => v.info.range, Var.mapInfo removeMessages⟩
def exprOps : NodeOps Expr := ⟨fun v => v.info.range, Expr.mapInfo removeMessages⟩
def typeExprOps : NodeOps TypeExpr := ⟨fun v => v.info.range, TypeExpr.mapInfo removeMessages⟩
def typeDeclOps : NodeOps TypeDecl := ⟨fun v => v.info.range, TypeDecl.mapInfo removeMessages⟩
def varDeclOps : NodeOps VarDecl := ⟨fun v => v.info.range, VarDecl.mapInfo removeMessages⟩
def paramDeclOps : NodeOps ParamDecl := ⟨fun v => v.info.range, ParamDecl.mapInfo removeMessages⟩
def callOps : NodeOps CallStmt := ⟨fun v => v.info.range, CallStmt.mapInfo removeMessages⟩
def assignOps : NodeOps Assignment := ⟨fun v => v.info.range, Assignment.mapInfo removeMessages⟩
def stmtOps : NodeOps Stmt := ⟨fun v => v.info.range, Stmt.mapInfo removeMessages⟩
def procDeclOps : NodeOps ProcDecl := ⟨fun v => v.info.range, ProcDecl.mapInfo removeMessages⟩

def chars (s : String) : List Char := s.toList

def AstInfo.extendRange (a b : AstInfo) : AstInfo :=
  { a with range := ⟨Nat.min a.range.lo b.range.lo, Nat.max a.range.hi b.range.hi⟩ }

def opOfKind : Kind → Option Operator
  | .Plus => some .Add | .Minus => some .Sub | .Times => some .Mul | .Divide => some .Div
  | .Eq => some .Equ | .Neq => some .Neq | .Lt => some .Lst | .Le => some .Lse
  | .Gt => some .Grt | .Ge => some .Gre
  | _ => none

section
variable (ctx : Ctx)

/-- fuel used for the non-recursive loops (`many0(comment)` …). -/
abbrev loopFuel : Nat := ctx.toks.size + 2

def tk (k : Kind) : P Token := tagK ctx (loopFuel ctx) k

/-- `IntLiteral::parse`. -/
def parseIntLiteral (this : Option IntLiteral) : P IntLiteral :=
  affected ctx intLitOps this
    (pmap (fun (p : Option Nat × AstInfo) => ({ value := p.1, info := p.2 } : IntLiteral))
      (info (altList [
        pmap (fun (t : Token) => match t.ty with
          | .Hex (.Int i) => some i
          | _ => none) (tk ctx .Hex),
        pmap (fun (t : Token) => match t.ty with
          | .Char c => some (c.toNat % 256)
          | _ => none) (tk ctx .Char),
        pmap (fun (t : Token) => match t.ty with
          | .Int (.Int i) => some i
          | _ => none) (tk ctx .Int)])))

/-- `Identifier::parse`. -/
def parseIdentifier (this : Option Identifier) : P Identifier :=
  affected ctx identOps this
    (pmap (fun (p : Token × AstInfo) => ({ value := displayToken p.1.ty, info := p.2 } : Identifier))
      (info (tk ctx .Ident)))

/-- The `while let Ok(op) = alt(ops)` loops of `parse_mul` / `parse_add`. -/
def opLoop (ops : List Kind) (rhs : Expr → Operator → P Expr) : Nat → Expr → P Expr
  | 0, _ => fun _ => .panic ⟨"fuel"⟩
  | fuel + 1, e => fun s =>
    match altList (ops.map (tk ctx)) s with
    | .ok s1 t =>
      match opOfKind t.kind with
      | none => .panic ⟨"expect:Operator conversion failed"⟩
      | some op =>
        match rhs e op s1 with
        | .ok s2 e' => opLoop ops rhs fuel e' s2
        | r => r
    | .err _ _ => .ok s e
    | .panic p => .panic p

/-- `parse_rhs`. -/
def parseRhs (parser : P Expr) (lhs : Expr) (op : Operator) : P Expr := fun s =>
  match Spl.Parse.expect none (inc parser) (.ExpectedToken (chars "expression")) s with
  | .ok s1 r =>
    if s1.pos < s1.refPos then .panic ⟨"underflow"⟩ else
    let pos := s1.pos - s1.refPos
    let ep := if pos > 0 then pos - 1 else 0
    let rhs := r.getD (.error { range := ⟨ep, ep⟩ })
    .ok s1 (.binary op lhs rhs { range := ⟨lhs.info.range.lo, pos⟩ })
  | .err k s' => .err k s'
  | .panic e => .panic e

/-- one `[ index ]` of `Variable::parse` (the index expression parser is a parameter) -/
def accessParser (pe : Option (Ref Expr) → P (Ref Expr)) : P (Option (Ref Expr) × AstInfo) :=
  info (bind (tk ctx .LBracket) (fun _ =>
    bind (Spl.Parse.expect none pe (.ExpectedToken (chars "expression"))) (fun idx =>
      bind (Spl.Parse.expect none (inc (tk ctx .RBracket)) (.MissingClosing ']')) (fun _ =>
        pure' idx))))

/-- `( expression )` of `parse_bracketed` (the expression parser is a parameter) -/
def bracketedInner (pc : P Expr) : P (AstInfo × Option Expr) :=
  bind (info (tk ctx .LParen)) (fun lp =>
    bind (Spl.Parse.expect none (inc pc) (.ExpectedToken (chars "expression"))) (fun e =>
      bind (Spl.Parse.expect none (inc (tk ctx .RParen)) (.MissingClosing ')')) (fun _ =>
        pure' (lp.2, e))))

/-- the fold of `Variable::parse` over the parsed accesses -/
def accessStep (vinfo : AstInfo) (arr : Var) (a : Option (Ref Expr) × AstInfo) : Var :=
  Var.access arr (OptExpr.ofOption a.1) (AstInfo.extendRange a.2 vinfo)

mutual
  /-- `Variable::parse`. -/
  def parseVariable : Nat → Option Var → P Var
    | 0, _ => fun _ => .panic ⟨"fuel"⟩
    | fuel + 1, this =>
      affected ctx varOps this (fun s =>
        match info (pmap Var.named (parseIdentifier ctx none)) s with
        | .err k s' => .err k s'
        | .panic e => .panic e
        | .ok s1 (v, vinfo) =>
          match many0 (accessParser ctx (refParse (parseExpression fuel))) (loopFuel ctx) s1 with
          | .err k s' => .err k s'
          | .panic e => .panic e
          | .ok s2 accesses => .ok s2 (accesses.foldl (accessStep vinfo) v))

  def parseBracketed : Nat → P Expr
    | 0 => fun _ => .panic ⟨"fuel"⟩
    | fuel + 1 => fun s =>
      match info (bracketedInner ctx (parseComparison fuel)) s with
      | .ok s1 ((lpInfo, e), i) =>
        let ep := lpInfo.range.hi
        .ok s1 (.bracketed (e.getD (.error { range := ⟨ep, ep⟩ })) i)
      | .err k s' => .err k s'
      | .panic e => .panic e

  def parsePrimary : Nat → P Expr
    | 0 => fun _ => .panic ⟨"fuel"⟩
    | fuel + 1 =>
      altList [pmap Expr.intLit (parseIntLiteral ctx none),
               pmap Expr.var (parseVariable fuel none),
               parseBracketed fuel]

  def parseUnary : Nat → P Expr
    | 0 => fun _ => .panic ⟨"fuel"⟩
    | fuel + 1 =>
      pmap (fun (p : Expr × AstInfo) => Expr.unary .Sub p.1 p.2)
        (info (bind (tk ctx .Minus) (fun _ => parseFactor fuel)))

  def parseFactor : Nat → P Expr
    | 0 => fun _ => .panic ⟨"fuel"⟩
    | fuel + 1 => alt2 (parsePrimary fuel) (parseUnary fuel)

  def parseMul : Nat → P Expr
    | 0 => fun _ => .panic ⟨"fuel"⟩
    | fuel + 1 =>
      bind (parseFactor fuel) (fun e =>
        opLoop ctx [.Times, .Divide] (parseRhs (parseFactor fuel)) (loopFuel ctx) e)

  def parseAdd : Nat → P Expr
    | 0 => fun _ => .panic ⟨"fuel"⟩
    | fuel + 1 =>
      bind (parseMul fuel) (fun e =>
        opLoop ctx [.Plus, .Minus] (parseRhs (parseMul fuel)) (loopFuel ctx) e)

  def parseComparison : Nat → P Expr
    | 0 => fun _ => .panic ⟨"fuel"⟩
    | fuel + 1 =>
      bind (parseAdd fuel) (fun e => fun s =>
        match altList ([Kind.Eq, .Neq, .Le, .Lt, .Ge, .Gt].map (tk ctx)) s with
        | .ok s1 t =>
          match opOfKind t.kind with
          | none => .panic ⟨"expect:Operator conversion failed"⟩
          | some op => parseRhs (parseAdd fuel) e op s1
        | .err _ _ => .ok s e
        | .panic p => .panic p)

  /-- `Expression::parse`. -/
  def parseExpression : Nat → Option Expr → P Expr
    | 0, _ => fun _ => .panic ⟨"fuel"⟩
    | fuel + 1, this => affected ctx exprOps this (parseComparison fuel)
end

/-- look-ahead sets (`mod look_ahead`), always used under `peek`. -/
def lookAhead (fuel : Nat) : Nat → LAName → P Unit
  | 0, _ => fun _ => .panic ⟨"fuel"⟩
  | d + 1, n =>
    altList ((Gen.lookAheadSet n).map (fun item =>
      match item with
      | .tok k => void (tk ctx k)
      | .identThen ks => void (bind (parseIdentifier ctx none) (fun _ => altList (ks.map (tk ctx))))
      | .sub m => lookAhead fuel d m))

def la (n : LAName) : P Unit := lookAhead ctx 0 8 n

/-- `array [ size ] of base` of `parse_array_type` (the base type parser is a parameter) -/
def arrayTypeInner (size : Option IntLiteral) (base : Option (Ref TypeExpr))
    (pt : Option (Ref TypeExpr) → P (Ref TypeExpr)) : P (Option IntLiteral × Option (Ref TypeExpr)) :=
  bind (tk ctx .Array) (fun _ =>
    bind (expect none (inc (tk ctx .LBracket)) (.ExpectedToken ['['])) (fun _ =>
    bind (expect size (parseIntLiteral ctx) (.ExpectedToken (chars "int literal"))) (fun sz =>
    bind (expect none (inc (tk ctx .RBracket)) (.MissingClosing ']')) (fun _ =>
    bind (expect none (inc (tk ctx .Of)) (.ExpectedToken (chars "of"))) (fun _ =>
    bind (expect base pt (.ExpectedToken (chars "type expression"))) (fun b =>
      pure' (sz, b)))))))

mutual
  /-- `TypeExpression::parse`. -/
  def parseTypeExpr : Nat → Option TypeExpr → P TypeExpr
    | 0, _ => fun _ => .panic ⟨"fuel"⟩
    | fuel + 1, this =>
      match this with
      | some (.named name) => pmap TypeExpr.named (parseIdentifier ctx (some name))
      | some (.array ..) => parseArrayType fuel this
      | none => alt2 (parseArrayType fuel none) (pmap TypeExpr.named (parseIdentifier ctx none))

  def parseArrayType : Nat → Option TypeExpr → P TypeExpr
    | 0, _ => fun _ => .panic ⟨"fuel"⟩
    | fuel + 1, this =>
      let (size, base) : Option IntLiteral × Option (Ref TypeExpr) := match this with
        | some (.array sz b _) => (sz, b.toOption)
        | _ => (none, none)
      affected ctx typeExprOps this
        (pmap (fun (p : (Option IntLiteral × Option (Ref TypeExpr)) × AstInfo) =>
            TypeExpr.array p.1.1 (OptType.ofOption p.1.2) p.2)
          (info (arrayTypeInner ctx size base (refParse (parseTypeExpr fuel)))))
end

def typeFuel : Nat := 2 * ctx.toks.size + 4

def refTypeExpr : Option (Ref TypeExpr) → P (Ref TypeExpr) := refParse (parseTypeExpr ctx (typeFuel ctx))

def exprFuel : Nat := 8 * ctx.toks.size + 16

def refExpr : Option (Ref Expr) → P (Ref Expr) := refParse (parseExpression ctx (exprFuel ctx))

def docComments : P (List (List Char)) := many0 (comment ctx) (loopFuel ctx)

def eqS : List Char := ['=']
def assignS : List Char := [':', '=']
def colonS : List Char := [':']

/-- `TypeDeclaration::parse`. -/
def typeDeclInner (name0 : Option Identifier) (te0 : Option (Ref TypeExpr)) :
    P (List (List Char) × Option Identifier × Option (Ref TypeExpr)) :=
  bind (docComments ctx) (fun doc =>
    bind (tk ctx .Type) (fun _ =>
    bind (expect name0 (parseIdentifier ctx) (.ExpectedToken (chars "identifier"))) (fun name =>
    bind (expect none (inc (altList [
            tk ctx .Eq,
            confusable (tk ctx .Assign) (.ConfusedToken eqS assignS),
            confusable (tk ctx .Colon) (.ConfusedToken eqS colonS)])) (.ExpectedToken eqS)) (fun _ =>
    bind (expect te0 (refTypeExpr ctx) (.ExpectedToken (chars "type expression"))) (fun te =>
    bind (expect none (inc (tk ctx .Semic)) .MissingTrailingSemic) (fun _ =>
      pure' (doc, name, te)))))))

def parseTypeDecl (this : Option TypeDecl) : P TypeDecl :=
  affected ctx typeDeclOps this
    (pmap (fun (p : (List (List Char) × Option Identifier × Option (Ref TypeExpr)) × AstInfo) =>
        ({ doc := p.1.1, name := p.1.2.1, typeExpr := p.1.2.2, info := p.2 } : TypeDecl))
      (info (typeDeclInner ctx (this.bind (·.name)) (this.bind (·.typeExpr)))))

def varDeclInner (name0 : Option Identifier) (te0 : Option (Ref TypeExpr)) :
    P (List (List Char) × Option Identifier × Option (Ref TypeExpr)) :=
  bind (docComments ctx) (fun doc =>
    bind (tk ctx .Var) (fun _ =>
    bind (expect name0 (parseIdentifier ctx) (.ExpectedToken (chars "identifier"))) (fun name =>
    bind (expect none (inc (altList [
            tk ctx .Colon,
            confusable (tk ctx .Assign) (.ConfusedToken colonS assignS),
            confusable (tk ctx .Eq) (.ConfusedToken colonS eqS)])) (.ExpectedToken colonS)) (fun _ =>
    bind (expect te0 (refTypeExpr ctx) (.ExpectedToken (chars "type expression"))) (fun te =>
    bind (expect none (inc (tk ctx .Semic)) .MissingTrailingSemic) (fun _ =>
      pure' (doc, name, te)))))))

/-- `VariableDeclaration::parse`. -/
def parseVarDecl (this : Option VarDecl) : P VarDecl :=
  let parseValid : Option VarDecl → P VarDecl := fun this =>
    let (name, te) : Option Identifier × Option (Ref TypeExpr) := match this with
      | some (.valid _ n t _) => (n, t)
      | _ => (none, none)
    affected ctx varDeclOps this
      (pmap (fun (p : (List (List Char) × Option Identifier × Option (Ref TypeExpr)) × AstInfo) =>
          VarDecl.valid p.1.1 p.1.2.1 p.1.2.2 p.2)
        (info (varDeclInner ctx name te)))
  let parseError : P VarDecl :=
    pmap (fun (p : List Token × AstInfo) =>
        VarDecl.error { p.2 with errors := p.2.errors ++ [⟨p.2.range, .ExpectedToken (chars "variable declaration")⟩] })
      (info (ignoreUntil1 ctx (peek (la ctx .var_dec)) (loopFuel ctx)))
  match this with
  | some (.valid ..) => parseValid this
  | _ => alt2 (parseValid none) parseError

def paramDeclInner (name0 : Option Identifier) (te0 : Option (Ref TypeExpr)) :
    P (List (List Char) × (Bool × Option Identifier) × Option (Ref TypeExpr)) :=
  bind (docComments ctx) (fun doc =>
    bind (alt2
          (bind (tk ctx .Ref) (fun _ =>
            pmap (fun n => (true, n)) (expect name0 (parseIdentifier ctx) (.ExpectedToken (chars "identifier")))))
          (pmap (fun n => (false, some n)) (parseIdentifier ctx name0))) (fun rn =>
    bind (expect none (inc (tk ctx .Colon)) (.ExpectedToken colonS)) (fun _ =>
    bind (expect te0 (refTypeExpr ctx) (.ExpectedToken (chars "type expression"))) (fun te =>
    bind (peek (la ctx .param_dec)) (fun _ =>
      pure' (doc, rn, te))))))

/-- `ParameterDeclaration::parse`. -/
def parseParamDecl (this : Option ParamDecl) : P ParamDecl :=
  let parseValid : Option ParamDecl → P ParamDecl := fun this =>
    let (name, te) : Option Identifier × Option (Ref TypeExpr) := match this with
      | some (.valid _ _ n t _) => (n, t)
      | _ => (none, none)
    pmap (fun (p : (List (List Char) × (Bool × Option Identifier) × Option (Ref TypeExpr)) × AstInfo) =>
        ParamDecl.valid p.1.1 p.1.2.1.1 p.1.2.1.2 p.1.2.2 p.2)
      (info (paramDeclInner ctx name te))
  let parseError : P ParamDecl :=
    pmap (fun (p : List Token × AstInfo) =>
        ParamDecl.error { p.2 with errors := p.2.errors ++ [⟨p.2.range, .ExpectedToken (chars "parameter declaration")⟩] })
      (info (fun s => ignoreUntil0 ctx (peek (la ctx .param_dec)) (loopFuel ctx) s.pos s))
  match this with
  | some (.valid ..) => affected ctx paramDeclOps this (alt2 (parseValid this) parseError)
  | _ => alt2 (parseValid none) parseError

/-- `Argument::parse` (an `Expression` tagged valid/error; `this` is used only when valid). -/
def parseArgument (this : Option Expr) : P Expr :=
  let parseValid : Option Expr → P Expr := fun this =>
    bind (parseExpression ctx (exprFuel ctx) this) (fun e => bind (peek (la ctx .arg)) (fun _ => pure' e))
  let parseError : P Expr :=
    pmap (fun (p : List Token × AstInfo) =>
        Expr.error { p.2 with errors := p.2.errors ++ [⟨p.2.range, .ExpectedToken (chars "expression")⟩] })
      (info (fun s => ignoreUntil0 ctx (peek (la ctx .arg)) (loopFuel ctx) s.pos s))
  match this with
  | some (.error _) | none => alt2 (parseValid none) parseError
  | some e => affected ctx exprOps (some e) (alt2 (parseValid (some e)) parseError)

def callInner (name0 : Option Identifier) (args0 : Option (List (Ref Expr))) : P (Identifier × List (Ref Expr)) :=
  bind (bind (parseIdentifier ctx name0) (fun n => bind (tk ctx .LParen) (fun _ => pure' n))) (fun name =>
    bind (alt2
          (pmap (fun _ => ([] : List (Ref Expr)))
            (peek (altList [void (tk ctx .RParen), void (tk ctx .Semic), void (tk ctx .Eof)])))
          (parseList ctx (fun (e : Expr) => e.info.range) (parseArgument ctx) (loopFuel ctx) args0)) (fun args =>
    bind (expect none (inc (tk ctx .RParen)) (.MissingClosing ')')) (fun _ =>
    bind (expect none (inc (tk ctx .Semic)) .MissingTrailingSemic) (fun _ =>
      pure' (name, args)))))

/-- `CallStatement::parse`. -/
def parseCall (this : Option CallStmt) : P CallStmt :=
  affected ctx callOps this
    (pmap (fun (p : (Identifier × List (Ref Expr)) × AstInfo) =>
        ({ name := p.1.1, args := p.1.2, info := p.2 } : CallStmt))
      (info (callInner ctx (this.map (·.name)) (this.map (·.args)))))

def assignInner (target0 : Option Var) (expr0 : Option (Ref Expr)) : P (Var × Option (Ref Expr)) :=
  bind (bind (parseVariable ctx (exprFuel ctx) target0) (fun v =>
          bind (alt2 (tk ctx .Assign) (confusable (tk ctx .Eq) (.ConfusedToken assignS eqS))) (fun _ => pure' v))) (fun v =>
    bind (expect expr0 (refExpr ctx) (.ExpectedToken (chars "expression"))) (fun e =>
    bind (expect none (inc (tk ctx .Semic)) .MissingTrailingSemic) (fun _ =>
      pure' (v, e))))

/-- `Assignment::parse`. -/
def parseAssignment (this : Option Assignment) : P Assignment :=
  affected ctx assignOps this
    (pmap (fun (p : (Var × Option (Ref Expr)) × AstInfo) =>
        ({ target := p.1.1, expr := p.1.2, info := p.2 } : Assignment))
      (info (assignInner ctx (this.map (·.target)) (this.bind (·.expr)))))

/-- `Statement::parse::parse_error`: on failure the error carries the ORIGINAL input (the leading
    comments are not consumed — they belong to what follows, e.g. the next declaration). -/
def stmtParseError : P Stmt := fun s =>
  match (pmap (fun (p : List Token × AstInfo) =>
      Stmt.error { p.2 with errors := p.2.errors ++
        [⟨p.2.range, .UnexpectedCharacters (p.1.flatMap (fun t => displayToken t.ty))⟩] })
    (info (bind (docComments ctx) (fun _ => ignoreUntil1 ctx (peek (la ctx .stmt)) (loopFuel ctx))))) s with
  | .err k _ => .err k s
  | r => r

def ifInner (c0 : Option (Ref Expr)) (t0 e0 : Option (Ref Stmt)) (ps : Option (Ref Stmt) → P (Ref Stmt)) :
    P (Option (Ref Expr) × Option (Ref Stmt) × Option (Option (Ref Stmt))) :=
  bind (tk ctx .If) (fun _ =>
    bind (expect none (inc (tk ctx .LParen)) (.MissingOpening '(')) (fun _ =>
    bind (expect c0 (refExpr ctx) (.ExpectedToken (chars "expression"))) (fun c =>
    bind (expect none (inc (tk ctx .RParen)) (.MissingClosing ')')) (fun _ =>
    bind (expect t0 ps (.ExpectedToken (chars "expression"))) (fun t =>
    bind (opt (bind (tk ctx .Else) (fun _ =>
            expect e0 ps (.ExpectedToken (chars "statement"))))) (fun e =>
      pure' (c, t, e)))))))

def whileInner (c0 : Option (Ref Expr)) (b0 : Option (Ref Stmt)) (ps : Option (Ref Stmt) → P (Ref Stmt)) :
    P (Option (Ref Expr) × Option (Ref Stmt)) :=
  bind (tk ctx .While) (fun _ =>
    bind (expect none (inc (tk ctx .LParen)) (.MissingOpening '(')) (fun _ =>
    bind (expect c0 (refExpr ctx) (.ExpectedToken (chars "expression"))) (fun c =>
    bind (expect none (inc (tk ctx .RParen)) (.MissingClosing ')')) (fun _ =>
    bind (expect b0 ps (.ExpectedToken (chars "expression"))) (fun b =>
      pure' (c, b))))))

def blockInner (olds : Option (List (Ref Stmt))) (pstmt : Option Stmt → P Stmt) : P (List (Ref Stmt)) :=
  bind (tk ctx .LCurly) (fun _ =>
    bind (many ctx (fun (s : Stmt) => s.info.range) pstmt (loopFuel ctx) olds) (fun ss =>
    bind (expect none (inc (tk ctx .RCurly)) (.MissingClosing '}')) (fun _ =>
      pure' ss)))

mutual
  /-- `Statement::parse`. -/
  def parseStmt : Nat → Option Stmt → P Stmt
    | 0, _ => fun _ => .panic ⟨"fuel"⟩
    | fuel + 1, this =>
      match this with
      | some (.ifS c t e i) => parseIf fuel (some (.ifS c t e i))
      | some (.whileS c b i) => parseWhile fuel (some (.whileS c b i))
      | some (.assign a) => pmap Stmt.assign (parseAssignment ctx (some a))
      | some (.call c) => pmap Stmt.call (parseCall ctx (some c))
      | some (.block ss i) => parseBlock fuel (some (.block ss i))
      | _ =>
        altList [
          pmap (fun (p : Token × AstInfo) => Stmt.empty p.2) (info (tk ctx .Semic)),
          parseIf fuel none,
          parseWhile fuel none,
          parseBlock fuel none,
          pmap Stmt.call (parseCall ctx none),
          pmap Stmt.assign (parseAssignment ctx none),
          stmtParseError ctx]

  /-- `IfStatement::parse` (`this` is `none` or an `ifS`). -/
  def parseIf : Nat → Option Stmt → P Stmt
    | 0, _ => fun _ => .panic ⟨"fuel"⟩
    | fuel + 1, this =>
      let (c0, t0, e0) : Option (Ref Expr) × Option (Ref Stmt) × Option (Ref Stmt) := match this with
        | some (.ifS c t e _) => (c, t.toOption, e.toOption)
        | _ => (none, none, none)
      affected ctx stmtOps this
        (pmap (fun (p : (Option (Ref Expr) × Option (Ref Stmt) × Option (Option (Ref Stmt))) × AstInfo) =>
            Stmt.ifS p.1.1 (OptStmt.ofOption p.1.2.1) (OptStmt.ofOption (p.1.2.2.getD none)) p.2)
          (info (ifInner ctx c0 t0 e0 (refParse (parseStmt fuel)))))

  def parseWhile : Nat → Option Stmt → P Stmt
    | 0, _ => fun _ => .panic ⟨"fuel"⟩
    | fuel + 1, this =>
      let (c0, b0) : Option (Ref Expr) × Option (Ref Stmt) := match this with
        | some (.whileS c b _) => (c, b.toOption)
        | _ => (none, none)
      affected ctx stmtOps this
        (pmap (fun (p : (Option (Ref Expr) × Option (Ref Stmt)) × AstInfo) =>
            Stmt.whileS p.1.1 (OptStmt.ofOption p.1.2) p.2)
          (info (whileInner ctx c0 b0 (refParse (parseStmt fuel)))))

  def parseBlock : Nat → Option Stmt → P Stmt
    | 0, _ => fun _ => .panic ⟨"fuel"⟩
    | fuel + 1, this =>
      let olds : Option (List (Ref Stmt)) := match this with
        | some (.block ss _) => some ss.toList
        | _ => none
      affected ctx stmtOps this
        (pmap (fun (p : List (Ref Stmt) × AstInfo) => Stmt.block (StmtList.ofList p.1) p.2)
          (info (blockInner ctx olds (parseStmt fuel))))
end

def stmtFuel : Nat := 2 * ctx.toks.size + 16

def procDeclInner (this : Option ProcDecl) :
    P (List (List Char) × Option Identifier × List (Ref ParamDecl) × List (Ref VarDecl) × List (Ref Stmt)) :=
  bind (docComments ctx) (fun doc =>
    bind (tk ctx .Proc) (fun _ =>
    bind (expect (this.bind (·.name)) (parseIdentifier ctx) (.ExpectedToken (chars "identifier"))) (fun name =>
    bind (expect none (inc (tk ctx .LParen)) (.MissingOpening '(')) (fun _ =>
    bind (alt2
          (pmap (fun _ => ([] : List (Ref ParamDecl)))
            (peek (altList [void (tk ctx .RParen), void (tk ctx .LCurly), void (tk ctx .Eof)])))
          (parseList ctx (fun (p : ParamDecl) => p.info.range) (parseParamDecl ctx) (loopFuel ctx)
            (this.map (·.params)))) (fun params =>
    bind (expect none (inc (tk ctx .RParen)) (.MissingClosing ')')) (fun _ =>
    bind (expect none (inc (tk ctx .LCurly)) (.MissingOpening '{')) (fun _ =>
    bind (many ctx (fun (v : VarDecl) => v.info.range) (parseVarDecl ctx) (loopFuel ctx) (this.map (·.vars))) (fun vars =>
    bind (many ctx (fun (s : Stmt) => s.info.range) (parseStmt ctx (stmtFuel ctx)) (loopFuel ctx) (this.map (·.stmts))) (fun stmts =>
    bind (expect none (inc (tk ctx .RCurly)) (.MissingClosing '}')) (fun _ =>
      pure' (doc, name, params, vars, stmts)))))))))))

/-- `ProcedureDeclaration::parse`. -/
def parseProcDecl (this : Option ProcDecl) : P ProcDecl :=
  affected ctx procDeclOps this
    (pmap (fun (p : (List (List Char) × Option Identifier × List (Ref ParamDecl) × List (Ref VarDecl) × List (Ref Stmt)) × AstInfo) =>
        ({ doc := p.1.1, name := p.1.2.1, params := p.1.2.2.1, vars := p.1.2.2.2.1, stmts := p.1.2.2.2.2, info := p.2 } : ProcDecl))
      (info (procDeclInner ctx this)))

/-- `GlobalDeclaration::parse`. -/
def parseGlobalDecl (this : Option GlobalDecl) : P GlobalDecl :=
  let parseError : P GlobalDecl :=
    pmap (fun (p : List Token × AstInfo) =>
        GlobalDecl.error { p.2 with errors := p.2.errors ++
          [⟨p.2.range, .UnexpectedCharacters (p.1.flatMap (fun t => displayToken t.ty))⟩] })
      (info (ignoreUntil1 ctx (peek (la ctx .global_dec)) (loopFuel ctx)))
  match this with
  | some (.type td) => pmap GlobalDecl.type (parseTypeDecl ctx (some td))
  | some (.proc pd) => pmap GlobalDecl.proc (parseProcDecl ctx (some pd))
  | _ => altList [pmap GlobalDecl.type (parseTypeDecl ctx none),
                  pmap GlobalDecl.proc (parseProcDecl ctx none),
                  parseError]

/-- `Program::parse`. -/
def parseProgram (this : Option Program) : P Program :=
  pmap (fun (p : List (Ref GlobalDecl) × AstInfo) => ({ decls := p.1, info := p.2 } : Program))
    (bind (info (many ctx (fun (g : GlobalDecl) => g.info.range) (parseGlobalDecl ctx) (loopFuel ctx)
            (this.map (·.decls)))) (fun r =>
      bind (allConsuming ctx (tk ctx .Eof)) (fun _ => pure' r)))

end

/-- `parser::parse(tokens)`. -/
def parse (toks : List Token) : Except Panic Program :=
  let ctx : Ctx := { toks := toks.toArray, change := ⟨0, 0, toks.length⟩ }
  match parseProgram ctx none { pos := 0 } with
  | .ok _ p => .ok p
  | .err _ _ => .error ⟨"expect:Parser cannot fail"⟩
  | .panic e => .error e

/-- `parser::update(program, TokenStream::new_with_change(tokens, change))`. -/
def update (old : Program) (toks : List Token) (change : TokenChange) : Except Panic Program :=
  let ctx : Ctx := { toks := toks.toArray, change := change }
  match parseProgram ctx (some old) { pos := 0 } with
  | .ok _ p => .ok p
  | .err _ _ => .error ⟨"expect:Parser cannot fail"⟩
  | .panic e => .error e

end Spl.Parse
