/-
  Model of `lsp4spl/src/document.rs`: position <-> byte index conversion and the conversion
  of LSP content changes to byte-range text changes (as fixed by the `fix:` commits:
  UTF-16 columns, over-long columns clamp to the line end, CR / CRLF / LF terminators,
  range-less changes replace the whole text).
-/
import SplVerif.Model.Basic

namespace Spl

structure Pos where
  line : Nat
  col : Nat
  deriving DecidableEq, Repr, Inhabited

/-- `char::len_utf16`. -/
def utf16Len (c : Char) : Nat := if c.toNat < 0x10000 then 1 else 2

/-- Is `ch` (followed by `rest`) the `\r` of a `\r\n` pair? -/
def isCrlf (ch : Char) (rest : List Char) : Bool :=
  ch == '\r' && (match rest with
    | d :: _ => d == '\n'
    | [] => false)

/-- `as_position(index, text)`: walk `char_indices` with state (byte index, line, column). -/
def asPositionGo : List Char → Nat → Nat → Nat → Nat → Pos
  | [], _, _, l, c => ⟨l, c⟩
  | ch :: rest, i, index, l, c =>
    if i == index then ⟨l, c⟩
    else if ch == '\n' || (ch == '\r' && !isCrlf ch rest) then
      asPositionGo rest (i + ch.utf8Size) index (l + 1) 0
    else if !isCrlf ch rest then
      asPositionGo rest (i + ch.utf8Size) index l (c + utf16Len ch)
    else asPositionGo rest (i + ch.utf8Size) index l c

def asPosition (index : Nat) (text : List Char) : Pos := asPositionGo text 0 index 0 0

/-- `get_insertion_index(position, text)`. -/
def insertionIndexGo : List Char → Nat → Pos → Nat → Nat → Nat
  | [], i, _, _, _ => i
  | ch :: rest, i, p, l, c =>
    if l == p.line && (c ≥ p.col || ch == '\n' || ch == '\r') then i
    else if ch == '\n' || (ch == '\r' && !isCrlf ch rest) then
      insertionIndexGo rest (i + ch.utf8Size) p (l + 1) 0
    else if !isCrlf ch rest then
      insertionIndexGo rest (i + ch.utf8Size) p l (c + utf16Len ch)
    else insertionIndexGo rest (i + ch.utf8Size) p l c

def insertionIndex (p : Pos) (text : List Char) : Nat := insertionIndexGo text 0 p 0 0

/-- One LSP content change: ranged or full text. -/
structure ContentChange where
  range : Option (Pos × Pos)
  text : List Char
  deriving Repr

/-- Byte-range change (`spl_frontend::TextChange`). -/
structure TextChange where
  lo : Nat
  hi : Nat
  text : List Char
  deriving Repr, DecidableEq

/-- `String::replace_range(lo..hi, ins)`; `none` = panic (`lo > hi`, out of range or not on
    character boundaries). -/
def splitAtByte : List Char → Nat → Option (List Char × List Char)
  | r, 0 => some ([], r)
  | [], _ + 1 => none
  | c :: cs, n + 1 =>
    if c.utf8Size ≤ n + 1 then
      (splitAtByte cs (n + 1 - c.utf8Size)).map (fun (a, b) => (c :: a, b))
    else none
termination_by r _ => r.length

def replaceRange (t : List Char) (lo hi : Nat) (ins : List Char) : Option (List Char) :=
  if hi < lo then none else
  match splitAtByte t lo with
  | none => none
  | some (pre, rest) =>
    match splitAtByte rest (hi - lo) with
    | none => none
    | some (_, post) => some (pre ++ ins ++ post)

/-- `to_text_changes(changes, text)` together with the running temporary text: returns the
    byte-range changes and the final text (which is what `AnalyzedSource::update` ends with). -/
def toTextChanges : List ContentChange → List Char → Except Panic (List TextChange × List Char)
  | [], t => .ok ([], t)
  | ch :: rest, t =>
    let (lo, hi) := match ch.range with
      | some (s, e) => (insertionIndex s t, insertionIndex e t)
      | none => (0, utf8Len t)
    match replaceRange t lo hi ch.text with
    | none => .error ⟨"slice"⟩
    | some t' =>
      match toTextChanges rest t' with
      | .error p => .error p
      | .ok (cs, tf) => .ok (⟨lo, hi, ch.text⟩ :: cs, tf)

/-- Server text after a sequence of `didChange` notifications. -/
def applyNotifications : List (List ContentChange) → List Char → Except Panic (List Char)
  | [], t => .ok t
  | n :: ns, t =>
    match toTextChanges n t with
    | .error p => .error p
    | .ok (_, t') => applyNotifications ns t'

end Spl
