/-
  Model of `spl_frontend/src/ast.rs`.  `Reference<T>{reference, offset}` is `Ref`; inside the
  recursive types the optional / list children are spelled as dedicated inductives
  (`OptExpr`, `OptStmt`, `StmtList`, `OptType`) so that all traversals are structurally
  recursive over plain mutual inductives.
-/
import SplVerif.Model.Basic

namespace Spl

structure AstInfo where
  range : Range
  errors : List SplError := []
  deriving DecidableEq, Repr, Inhabited

structure Ref (α : Type) where
  val : α
  offset : Nat
  deriving Repr

instance {α} [DecidableEq α] : DecidableEq (Ref α) := fun a b =>
  if h : a.val = b.val ∧ a.offset = b.offset then isTrue (by cases a; cases b; simp_all)
  else isFalse (by intro e; subst e; simp at h)

structure IntLiteral where
  value : Option Nat
  info : AstInfo
  deriving DecidableEq, Repr

structure Identifier where
  value : List Char
  info : AstInfo
  deriving DecidableEq, Repr, Inhabited

inductive Operator where
  | Add | Sub | Mul | Div | Equ | Neq | Lst | Lse | Grt | Gre
  deriving DecidableEq, Repr

def Operator.isArithmetic : Operator → Bool
  | .Add | .Sub | .Mul | .Div => true
  | _ => false

def Operator.symbol : Operator → List Char
  | .Add => ['+'] | .Sub => ['-'] | .Mul => ['*'] | .Div => ['/'] | .Equ => ['='] | .Neq => ['#']
  | .Lst => ['<'] | .Lse => ['<', '='] | .Grt => ['>'] | .Gre => ['>', '=']

mutual
  inductive Var where
    | named (id : Identifier)
    | access (array : Var) (index : OptExpr) (info : AstInfo)
  inductive Expr where
    | binary (op : Operator) (lhs rhs : Expr) (info : AstInfo)
    | bracketed (e : Expr) (info : AstInfo)
    | intLit (l : IntLiteral)
    | unary (op : Operator) (e : Expr) (info : AstInfo)
    | var (v : Var)
    | error (info : AstInfo)
  inductive OptExpr where
    | none
    | some (e : Expr) (offset : Nat)
end

mutual
  inductive TypeExpr where
    | named (id : Identifier)
    | array (size : Option IntLiteral) (base : OptType) (info : AstInfo)
  inductive OptType where
    | none
    | some (t : TypeExpr) (offset : Nat)
end

structure TypeDecl where
  doc : List (List Char)
  name : Option Identifier
  typeExpr : Option (Ref TypeExpr)
  info : AstInfo

inductive VarDecl where
  | valid (doc : List (List Char)) (name : Option Identifier) (typeExpr : Option (Ref TypeExpr)) (info : AstInfo)
  | error (info : AstInfo)

inductive ParamDecl where
  | valid (doc : List (List Char)) (isRef : Bool) (name : Option Identifier)
      (typeExpr : Option (Ref TypeExpr)) (info : AstInfo)
  | error (info : AstInfo)

structure CallStmt where
  name : Identifier
  args : List (Ref Expr)
  info : AstInfo

structure Assignment where
  target : Var
  expr : Option (Ref Expr)
  info : AstInfo

mutual
  inductive Stmt where
    | empty (info : AstInfo)
    | assign (a : Assignment)
    | call (c : CallStmt)
    | ifS (cond : Option (Ref Expr)) (thenB : OptStmt) (elseB : OptStmt) (info : AstInfo)
    | whileS (cond : Option (Ref Expr)) (body : OptStmt) (info : AstInfo)
    | block (stmts : StmtList) (info : AstInfo)
    | error (info : AstInfo)
  inductive OptStmt where
    | none
    | some (s : Stmt) (offset : Nat)
  inductive StmtList where
    | nil
    | cons (s : Stmt) (offset : Nat) (rest : StmtList)
end

structure ProcDecl where
  doc : List (List Char)
  name : Option Identifier
  params : List (Ref ParamDecl)
  vars : List (Ref VarDecl)
  stmts : List (Ref Stmt)
  info : AstInfo

inductive GlobalDecl where
  | type (t : TypeDecl)
  | proc (p : ProcDecl)
  | error (info : AstInfo)

structure Program where
  decls : List (Ref GlobalDecl)
  info : AstInfo

/-! ### conversions between the dedicated inductives and `Option`/`List` of `Ref` -/

def OptExpr.toOption : OptExpr → Option (Ref Expr)
  | .none => Option.none
  | .some e o => Option.some ⟨e, o⟩

def OptExpr.ofOption : Option (Ref Expr) → OptExpr
  | Option.none => .none
  | Option.some r => .some r.val r.offset

def OptType.toOption : OptType → Option (Ref TypeExpr)
  | .none => Option.none
  | .some t o => Option.some ⟨t, o⟩

def OptType.ofOption : Option (Ref TypeExpr) → OptType
  | Option.none => .none
  | Option.some r => .some r.val r.offset

def OptStmt.toOption : OptStmt → Option (Ref Stmt)
  | .none => Option.none
  | .some s o => Option.some ⟨s, o⟩

def OptStmt.ofOption : Option (Ref Stmt) → OptStmt
  | Option.none => .none
  | Option.some r => .some r.val r.offset

def StmtList.toList : StmtList → List (Ref Stmt)
  | .nil => []
  | .cons s o r => ⟨s, o⟩ :: r.toList

def StmtList.ofList : List (Ref Stmt) → StmtList
  | [] => .nil
  | r :: rs => .cons r.val r.offset (StmtList.ofList rs)

/-! ### `ToRange` (the derive macro: `self.info.to_range()`) -/

def Var.info : Var → AstInfo
  | .named id => id.info
  | .access _ _ i => i

def Expr.info : Expr → AstInfo
  | .binary _ _ _ i => i
  | .bracketed _ i => i
  | .intLit l => l.info
  | .unary _ _ i => i
  | .var v => v.info
  | .error i => i

def TypeExpr.info : TypeExpr → AstInfo
  | .named id => id.info
  | .array _ _ i => i

def VarDecl.info : VarDecl → AstInfo
  | .valid _ _ _ i => i
  | .error i => i

def ParamDecl.info : ParamDecl → AstInfo
  | .valid _ _ _ _ i => i
  | .error i => i

def Stmt.info : Stmt → AstInfo
  | .empty i => i
  | .assign a => a.info
  | .call c => c.info
  | .ifS _ _ _ i => i
  | .whileS _ _ i => i
  | .block _ i => i
  | .error i => i

def GlobalDecl.info : GlobalDecl → AstInfo
  | .type t => t.info
  | .proc p => p.info
  | .error i => i

/-! ### `AstInfoTraverser::traverse_mut` with a function on `AstInfo` -/

def IntLiteral.mapInfo (f : AstInfo → AstInfo) (l : IntLiteral) : IntLiteral := { l with info := f l.info }
def Identifier.mapInfo (f : AstInfo → AstInfo) (i : Identifier) : Identifier := { i with info := f i.info }

mutual
  def Var.mapInfo (f : AstInfo → AstInfo) : Var → Var
    | .named id => .named (id.mapInfo f)
    | .access a idx i => .access (a.mapInfo f) (idx.mapInfo f) (f i)
  def Expr.mapInfo (f : AstInfo → AstInfo) : Expr → Expr
    | .binary op l r i => .binary op (l.mapInfo f) (r.mapInfo f) (f i)
    | .bracketed e i => .bracketed (e.mapInfo f) (f i)
    | .intLit l => .intLit (l.mapInfo f)
    | .unary op e i => .unary op (e.mapInfo f) (f i)
    | .var v => .var (v.mapInfo f)
    | .error i => .error (f i)
  def OptExpr.mapInfo (f : AstInfo → AstInfo) : OptExpr → OptExpr
    | .none => .none
    | .some e o => .some (e.mapInfo f) o
end

mutual
  def TypeExpr.mapInfo (f : AstInfo → AstInfo) : TypeExpr → TypeExpr
    | .named id => .named (id.mapInfo f)
    | .array sz b i => .array (sz.map (·.mapInfo f)) (b.mapInfo f) (f i)
  def OptType.mapInfo (f : AstInfo → AstInfo) : OptType → OptType
    | .none => .none
    | .some t o => .some (t.mapInfo f) o
end

def Ref.map {α β} (g : α → β) (r : Ref α) : Ref β := ⟨g r.val, r.offset⟩

def TypeDecl.mapInfo (f : AstInfo → AstInfo) (t : TypeDecl) : TypeDecl :=
  { t with name := t.name.map (·.mapInfo f), typeExpr := t.typeExpr.map (Ref.map (·.mapInfo f)), info := f t.info }

def VarDecl.mapInfo (f : AstInfo → AstInfo) : VarDecl → VarDecl
  | .valid d n t i => .valid d (n.map (·.mapInfo f)) (t.map (Ref.map (·.mapInfo f))) (f i)
  | .error i => .error (f i)

def ParamDecl.mapInfo (f : AstInfo → AstInfo) : ParamDecl → ParamDecl
  | .valid d r n t i => .valid d r (n.map (·.mapInfo f)) (t.map (Ref.map (·.mapInfo f))) (f i)
  | .error i => .error (f i)

def CallStmt.mapInfo (f : AstInfo → AstInfo) (c : CallStmt) : CallStmt :=
  { name := c.name.mapInfo f, args := c.args.map (Ref.map (·.mapInfo f)), info := f c.info }

def Assignment.mapInfo (f : AstInfo → AstInfo) (a : Assignment) : Assignment :=
  { target := a.target.mapInfo f, expr := a.expr.map (Ref.map (·.mapInfo f)), info := f a.info }

mutual
  def Stmt.mapInfo (f : AstInfo → AstInfo) : Stmt → Stmt
    | .empty i => .empty (f i)
    | .assign a => .assign (a.mapInfo f)
    | .call c => .call (c.mapInfo f)
    | .ifS c t e i => .ifS (c.map (Ref.map (·.mapInfo f))) (t.mapInfo f) (e.mapInfo f) (f i)
    | .whileS c b i => .whileS (c.map (Ref.map (·.mapInfo f))) (b.mapInfo f) (f i)
    | .block ss i => .block (ss.mapInfo f) (f i)
    | .error i => .error (f i)
  def OptStmt.mapInfo (f : AstInfo → AstInfo) : OptStmt → OptStmt
    | .none => .none
    | .some s o => .some (s.mapInfo f) o
  def StmtList.mapInfo (f : AstInfo → AstInfo) : StmtList → StmtList
    | .nil => .nil
    | .cons s o r => .cons (s.mapInfo f) o (r.mapInfo f)
end

def ProcDecl.mapInfo (f : AstInfo → AstInfo) (p : ProcDecl) : ProcDecl :=
  { p with name := p.name.map (·.mapInfo f),
           params := p.params.map (Ref.map (·.mapInfo f)),
           vars := p.vars.map (Ref.map (·.mapInfo f)),
           stmts := p.stmts.map (Ref.map (·.mapInfo f)),
           info := f p.info }

def GlobalDecl.mapInfo (f : AstInfo → AstInfo) : GlobalDecl → GlobalDecl
  | .type t => .type (t.mapInfo f)
  | .proc p => .proc (p.mapInfo f)
  | .error i => .error (f i)

def Program.mapInfo (f : AstInfo → AstInfo) (p : Program) : Program :=
  { decls := p.decls.map (Ref.map (·.mapInfo f)), info := f p.info }

/-- `remove_messages`: drop build and semantic messages from an `AstInfo`. -/
def removeMessages (i : AstInfo) : AstInfo :=
  { i with errors := i.errors.filter (fun e => e.msg.cls != .build && e.msg.cls != .semantic) }

/-! ### `ErrorContainer::errors` (collect, shifting by every `Reference.offset`) -/

def shiftErrs (es : List SplError) (d : Nat) : List SplError := es.map (·.shift d)

mutual
  def Var.errors : Var → List SplError
    | .named id => id.info.errors
    | .access a idx i => i.errors ++ a.errors ++ idx.errors
  def Expr.errors : Expr → List SplError
    | .binary _ l r i => i.errors ++ l.errors ++ r.errors
    | .bracketed e i => i.errors ++ e.errors
    | .intLit l => l.info.errors
    | .unary _ e i => i.errors ++ e.errors
    | .var v => v.errors
    | .error i => i.errors
  def OptExpr.errors : OptExpr → List SplError
    | .none => []
    | .some e o => shiftErrs e.errors o
end

mutual
  /-- Note: the `size` literal's errors are not collected (as in the Rust code). -/
  def TypeExpr.errors : TypeExpr → List SplError
    | .named id => id.info.errors
    | .array _ b i => i.errors ++ b.errors
  def OptType.errors : OptType → List SplError
    | .none => []
    | .some t o => shiftErrs t.errors o
end

def refErrors {α} (errs : α → List SplError) (r : Ref α) : List SplError := shiftErrs (errs r.val) r.offset

def optIdErrors (n : Option Identifier) : List SplError :=
  match n with
  | some i => i.info.errors
  | none => []

def optRefErrors {α} (errs : α → List SplError) (r : Option (Ref α)) : List SplError :=
  match r with
  | some r => refErrors errs r
  | none => []

def TypeDecl.errors (t : TypeDecl) : List SplError :=
  t.info.errors ++ optIdErrors t.name ++ optRefErrors TypeExpr.errors t.typeExpr

def VarDecl.errors : VarDecl → List SplError
  | .error i => i.errors
  | .valid _ n t i => i.errors ++ optIdErrors n ++ optRefErrors TypeExpr.errors t

def ParamDecl.errors : ParamDecl → List SplError
  | .error i => i.errors
  | .valid _ _ n t i => i.errors ++ optIdErrors n ++ optRefErrors TypeExpr.errors t

def CallStmt.errors (c : CallStmt) : List SplError :=
  c.info.errors ++ c.name.info.errors ++ c.args.flatMap (refErrors Expr.errors)

def Assignment.errors (a : Assignment) : List SplError :=
  a.info.errors ++ a.target.errors ++ optRefErrors Expr.errors a.expr

mutual
  def Stmt.errors : Stmt → List SplError
    | .empty i => i.errors
    | .error i => i.errors
    | .assign a => a.errors
    | .call c => c.errors
    | .ifS c t e i => i.errors ++ optRefErrors Expr.errors c ++ t.errors ++ e.errors
    | .whileS c b i => i.errors ++ optRefErrors Expr.errors c ++ b.errors
    | .block ss i => i.errors ++ ss.errors
  def OptStmt.errors : OptStmt → List SplError
    | .none => []
    | .some s o => shiftErrs s.errors o
  def StmtList.errors : StmtList → List SplError
    | .nil => []
    | .cons s o r => shiftErrs s.errors o ++ r.errors
end

def ProcDecl.errors (p : ProcDecl) : List SplError :=
  p.info.errors ++ optIdErrors p.name ++ p.params.flatMap (refErrors ParamDecl.errors)
    ++ p.vars.flatMap (refErrors VarDecl.errors) ++ p.stmts.flatMap (refErrors Stmt.errors)

def GlobalDecl.errors : GlobalDecl → List SplError
  | .type t => t.errors
  | .proc p => p.errors
  | .error i => i.errors

def Program.errors (p : Program) : List SplError :=
  p.info.errors ++ p.decls.flatMap (refErrors GlobalDecl.errors)

end Spl
