/-
  Model of `lsp4spl/src/features.rs` and `features/{goto,hover,references,fold,signature_help,
  semantic_tokens}.rs`.  Handlers are functions of an `AnalyzedSource` (the broker hands the
  handler a clone of the document) and the request parameters.
-/
import SplVerif.Model.Table

namespace Spl.Feat

abbrev PosRange := Pos × Pos

/-- `&tokens[a..b]` as (array, a, b) view; `none` = slice panic. -/
structure Slice where
  toks : Array Token
  lo : Nat
  hi : Nat

def Slice.full (t : Array Token) : Slice := ⟨t, 0, t.size⟩

def Slice.sub (s : Slice) (r : Range) : Option Slice :=
  if r.lo ≤ r.hi ∧ s.lo + r.hi ≤ s.hi then some ⟨s.toks, s.lo + r.lo, s.lo + r.hi⟩ else none

/-- `&tokens[a..]` -/
def Slice.from (s : Slice) (a : Nat) : Option Slice :=
  if s.lo + a ≤ s.hi then some ⟨s.toks, s.lo + a, s.hi⟩ else none

def Slice.get? (s : Slice) (i : Nat) : Option Token :=
  if s.lo + i < s.hi then s.toks[s.lo + i]? else none

def Slice.len (s : Slice) : Nat := s.hi - s.lo

def Slice.toList (s : Slice) : List Token := (s.toks.extract s.lo s.hi).toList

/-- `AstInfo::to_text_range(tokens)`. -/
def toTextRange (s : Slice) (r : Range) : Except Panic Range :=
  if r.hi ≤ r.lo then
    match s.get? r.hi with
    | some t => .ok ⟨t.range.hi, t.range.hi⟩
    | none => .error ⟨"slice"⟩
  else
    match s.sub r with
    | none => .error ⟨"slice"⟩
    | some sub =>
      match sub.get? 0, sub.get? (sub.len - 1) with
      | some a, some b => .ok ⟨a.range.lo, b.range.hi⟩
      | _, _ => .error ⟨"expect:Token slice is empty"⟩

def asPosRange (r : Range) (text : List Char) : PosRange := (asPosition r.lo text, asPosition r.hi text)

/-- `Ident` of `features.rs`: an identifier token with its text range. -/
structure Ident where
  value : List Char
  range : Range
  deriving DecidableEq, Repr

structure Cursor where
  doc : AnalyzedSource
  index : Nat
  context : Option GlobalEntry

def declName : GlobalDecl → Option Identifier
  | .proc pd => pd.name
  | .type td => td.name
  | .error _ => none

/-- First global declaration whose text range contains `index`. -/
def findDecl (d : AnalyzedSource) (index : Nat) : List (Ref GlobalDecl) → Except Panic (Option (Ref GlobalDecl))
  | [] => .ok none
  | gd :: rest =>
    match (Slice.full d.tokens.toArray).from gd.offset with
    | none => .error ⟨"slice"⟩
    | some s =>
      match toTextRange s gd.val.info.range with
      | .error e => .error e
      | .ok r => if r.contains index then .ok (some gd) else findDecl d index rest

/-- `doc_cursor`. -/
def docCursor (d : AnalyzedSource) (p : Pos) : Except Panic Cursor :=
  let index := insertionIndex p d.text
  match findDecl d index d.ast.decls with
  | .error e => .error e
  | .ok gd =>
    let ctx := (gd.bind (fun g => declName g.val)).bind (fun n => tblLookup d.table n.value)
    .ok ⟨d, index, ctx⟩

/-- `DocumentCursor::ident`. -/
def Cursor.ident (c : Cursor) : Option Ident :=
  match c.doc.tokens.find? (fun t => t.range.contains c.index) with
  | some t =>
    match t.ty with
    | .Ident name => some ⟨name, t.range⟩
    | _ => none
  | none => none

def _root_.Spl.GlobalEntry.range : GlobalEntry → Range
  | .type t => t.range
  | .procedure p => p.range

def _root_.Spl.GlobalEntry.name : GlobalEntry → Identifier
  | .type t => t.name
  | .procedure p => p.name

def _root_.Spl.Entry.name : Entry → Identifier
  | .type t => t.name
  | .procedure p => p.name
  | .variable v | .parameter v => v.name

def _root_.Spl.Entry.ofGlobal : GlobalEntry → Entry
  | .type t => .type t
  | .procedure p => .procedure p

def allTokens (d : AnalyzedSource) : Slice := Slice.full d.tokens.toArray

def locate (d : AnalyzedSource) (s : Option Slice) (name : Identifier) : Except Panic (Option PosRange) :=
  match s with
  | none => .error ⟨"slice"⟩
  | some s =>
    match toTextRange s name.info.range with
    | .error e => .error e
    | .ok r => .ok (some (asPosRange r d.text))

/-! ### goto.rs -/

def gotoDeclaration (d : AnalyzedSource) (p : Pos) : Except Panic (Option PosRange) :=
  match docCursor d p with
  | .error e => .error e
  | .ok c =>
    match c.ident, c.context with
    | some ident, some (.type _) =>
      if ident.value == "int".toList then .ok none else
      match tblLookup d.table ident.value with
      | some entry =>
        if (Entry.ofGlobal entry).isDefault then .ok none
        else locate d ((allTokens d).sub (GlobalEntry.range entry)) (GlobalEntry.name entry)
      | none => .ok none
    | some ident, some (.procedure pe) =>
      match lookupBoth (some pe.localTable) d.table ident.value with
      | some entry =>
        if entry.isDefault then .ok none else
        let s : Option Slice := match entry with
          | .procedure q => (allTokens d).sub q.range
          | .type t => (allTokens d).sub t.range
          | .variable v | .parameter v => ((allTokens d).sub pe.range).bind (fun s => s.sub v.range)
        locate d s entry.name
      | none => .ok none
    | _, _ => .ok none

def gotoTypeDefinition (d : AnalyzedSource) (p : Pos) : Except Panic (Option PosRange) :=
  match docCursor d p with
  | .error e => .error e
  | .ok c =>
    match c.ident, c.context with
    | some ident, some (.type _) =>
      if ident.value == "int".toList then .ok none else
      match tblLookup d.table ident.value with
      | some (.type t) => locate d ((allTokens d).sub t.range) t.name
      | _ => .ok none
    | some ident, some (.procedure pe) =>
      match lookupBoth (some pe.localTable) d.table ident.value with
      | some (.type t) =>
        if ident.value == "int".toList then .ok none else locate d ((allTokens d).sub t.range) t.name
      | some (.procedure _) => .ok none
      | some (.variable v) | some (.parameter v) =>
        match v.dataType with
        | some (.array _ _ creator) =>
          match tblLookup d.table creator with
          | some (.type t) =>
            if t.dataType == v.dataType then locate d ((allTokens d).sub t.range) t.name else .ok none
          | _ => .ok none
        | _ => .ok none
      | none => .ok none
    | _, _ => .ok none

def gotoImplementation (d : AnalyzedSource) (p : Pos) : Except Panic (Option PosRange) :=
  match docCursor d p with
  | .error e => .error e
  | .ok c =>
    match c.ident, c.context with
    | some ident, some (.procedure pe) =>
      match lookupBoth (some pe.localTable) d.table ident.value with
      | some (.procedure target) =>
        if (Entry.procedure target).isDefault then .ok none
        else locate d ((allTokens d).sub target.range) target.name
      | _ => .ok none
    | _, _ => .ok none

/-! ### Display of table entries (table.rs) and hover.rs -/

def dataTypeStr : DataType → List Char
  | .int => "int".toList
  | .bool => "boolean".toList
  | .unknown => ['_']
  | .array sz base _ =>
    "array [".toList ++ (match sz with | some n => (toString n).toList | none => ['_']) ++ "] of ".toList ++ dataTypeStr base

def optTypeStr (t : Option DataType) : List Char :=
  match t with
  | some d => dataTypeStr d
  | none => ['_']

def varEntryStr (v : VariableEntry) : List Char :=
  (if v.isRef then "ref ".toList else []) ++ v.name.value ++ ": ".toList ++ optTypeStr v.dataType

def joinWith (sep : List Char) : List (List Char) → List Char
  | [] => []
  | [x] => x
  | x :: xs => x ++ sep ++ joinWith sep xs

def procEntryStr (p : ProcedureEntry) : List Char :=
  "proc ".toList ++ p.name.value ++ ['('] ++ joinWith ", ".toList (p.parameters.map varEntryStr) ++ [')']

def entryStr : Entry → List Char
  | .procedure p => procEntryStr p
  | .type t => optTypeStr t.dataType
  | .variable v | .parameter v => varEntryStr v

def _root_.Spl.Entry.doc : Entry → Option (List Char)
  | .procedure p => p.doc
  | .type t => t.doc
  | .variable v | .parameter v => v.doc

def trimStart (s : List Char) : List Char := s.dropWhile Parse.isRustWhitespace

def createHover (e : Entry) : List Char :=
  "```spl\n".toList ++ entryStr e ++ "\n```".toList ++
    (match e.doc with
     | some doc => "\n---\n".toList ++ trimStart doc ++ ['\n']
     | none => [])

def hover (d : AnalyzedSource) (p : Pos) : Except Panic (Option (PosRange × List Char)) :=
  match docCursor d p with
  | .error e => .error e
  | .ok c =>
    match c.ident, c.context with
    | some ident, some (.type _) =>
      match tblLookup d.table ident.value with
      | some entry => .ok (some (asPosRange ident.range d.text, createHover (Entry.ofGlobal entry)))
      | none => .ok none
    | some ident, some (.procedure pe) =>
      match lookupBoth (some pe.localTable) d.table ident.value with
      | some entry => .ok (some (asPosRange ident.range d.text, createHover entry))
      | none => .ok none
    | _, _ => .ok none

/-! ### fold.rs -/

def skipLeadingComments : List Token → List Token
  | t :: rest => if t.kind == .Comment then skipLeadingComments rest else t :: rest
  | [] => []

def fold (d : AnalyzedSource) : Except Panic (List (Nat × Nat)) :=
  d.ast.decls.filterMap (fun gd => match gd.val with
      | .proc pd => some (pd, gd.offset)
      | _ => none)
    |>.mapM (fun (pd, offset) =>
      match (allTokens d).sub (pd.info.range.shift offset) with
      | none => Except.error (⟨"slice"⟩ : Panic)
      | some s =>
        let toks := skipLeadingComments s.toList
        let tr : Range := match toks.head?, toks.getLast? with
          | some f, some l => ⟨f.range.lo, l.range.hi⟩
          | _, _ => ⟨0, 0⟩
        let r := asPosRange tr d.text
        .ok (r.1.line, r.2.line))

/-! ### signature_help.rs -/

mutual
  def findCallInStmt (toks : Slice) (index : Nat) : Stmt → Nat → Except Panic (Option (CallStmt × Nat))
    | .block ss _, offset => findCallInList toks index ss offset
    | .ifS _ t e _, offset =>
      match findCallInOpt toks index t offset with
      | .error p => .error p
      | .ok (some r) => .ok (some r)
      | .ok none => findCallInOpt toks index e offset
    | .whileS _ b _, offset => findCallInOpt toks index b offset
    | .call c, offset =>
      match toks.from offset with
      | none => .error ⟨"slice"⟩
      | some s =>
        match toTextRange s c.info.range with
        | .error p => .error p
        | .ok r => if r.contains index then .ok (some (c, offset)) else .ok none
    | _, _ => .ok none
  def findCallInOpt (toks : Slice) (index : Nat) : OptStmt → Nat → Except Panic (Option (CallStmt × Nat))
    | .none, _ => .ok none
    | .some s o, offset => findCallInStmt toks index s (offset + o)
  def findCallInList (toks : Slice) (index : Nat) : StmtList → Nat → Except Panic (Option (CallStmt × Nat))
    | .nil, _ => .ok none
    | .cons s o r, offset =>
      match findCallInStmt toks index s (offset + o) with
      | .error p => .error p
      | .ok (some x) => .ok (some x)
      | .ok none => findCallInList toks index r offset
end

def findCallInRefs (toks : Slice) (index : Nat) : List (Ref Stmt) → Nat → Except Panic (Option (CallStmt × Nat))
  | [], _ => .ok none
  | r :: rs, offset =>
    match findCallInStmt toks index r.val (offset + r.offset) with
    | .error p => .error p
    | .ok (some x) => .ok (some x)
    | .ok none => findCallInRefs toks index rs offset

/-- First procedure declaration whose text range contains the index. -/
def findProcDecl (d : AnalyzedSource) (index : Nat) : List (Ref GlobalDecl) → Except Panic (Option (ProcDecl × Nat))
  | [] => .ok none
  | gd :: rest =>
    match gd.val with
    | .proc pd =>
      match (allTokens d).from gd.offset with
      | none => .error ⟨"slice"⟩
      | some s =>
        match toTextRange s pd.info.range with
        | .error e => .error e
        | .ok r => if r.contains index then .ok (some (pd, gd.offset)) else findProcDecl d index rest
    | _ => findProcDecl d index rest

structure SigHelp where
  label : List Char
  params : List (List Char)
  active : Option Nat
  doc : Option (List Char)

def activeParam (nParams : Nat) (toks : List Token) (index : Nat) : Option Nat :=
  if nParams == 0 then none else
  let rec go : List Token → Nat → Nat
    | [], n => n
    | t :: rest, n =>
      if t.range.lo ≥ index then n
      else go rest (if t.kind == .Comma then n + 1 else n)
  some (go toks 0)

def signatureHelp (d : AnalyzedSource) (p : Pos) : Except Panic (Option SigHelp) :=
  match docCursor d p with
  | .error e => .error e
  | .ok c =>
    match findProcDecl d c.index d.ast.decls with
    | .error e => .error e
    | .ok none => .ok none
    | .ok (some (pd, pdOffset)) =>
      match findCallInRefs (allTokens d) c.index pd.stmts pdOffset with
      | .error e => .error e
      | .ok none => .ok none
      | .ok (some (call, offset)) =>
        match tblLookup d.table call.name.value with
        | some (.procedure pe) =>
          match (allTokens d).sub (call.info.range.shift offset) with
          | none => .error ⟨"slice"⟩
          | some s =>
            .ok (some { label := procEntryStr pe
                        params := pe.parameters.map varEntryStr
                        active := activeParam pe.parameters.length s.toList c.index
                        doc := pe.doc.map (fun doc => "---\n".toList ++ trimStart doc ++ ['\n']) })
        | _ => .ok none

/-! ### references.rs -/

def _root_.Spl.Identifier.shift (i : Identifier) (d : Nat) : Identifier := { i with info := { i.info with range := i.info.range.shift d } }
def shiftIds (l : List Identifier) (d : Nat) : List Identifier := l.map (Identifier.shift · d)

mutual
  def procsInStmt (name : List Char) : Stmt → List Identifier
    | .block ss _ => procsInList name ss
    | .call c => if c.name.value == name then [c.name] else []
    | .ifS _ t e _ => procsInOpt name t ++ procsInOpt name e
    | .whileS _ b _ => procsInOpt name b
    | _ => []
  def procsInOpt (name : List Char) : OptStmt → List Identifier
    | .none => []
    | .some s o => shiftIds (procsInStmt name s) o
  def procsInList (name : List Char) : StmtList → List Identifier
    | .nil => []
    | .cons s o r => shiftIds (procsInStmt name s) o ++ procsInList name r
end

def findProcs (name : List Char) (p : Program) : List Identifier :=
  p.decls.flatMap (fun gd => match gd.val with
    | .proc pd =>
      let own := match pd.name with
        | some n => if n.value == name then [n] else []
        | none => []
      shiftIds (own ++ pd.stmts.flatMap (fun s => shiftIds (procsInStmt name s.val) s.offset)) gd.offset
    | _ => [])

mutual
  def identInType : TypeExpr → Option Identifier
    | .named id => some id
    | .array _ b _ => identInOptType b
  def identInOptType : OptType → Option Identifier
    | .none => none
    | .some t o => (identInType t).map (Identifier.shift · o)
end

def identInRefType (r : Ref TypeExpr) : Option Identifier := (identInType r.val).map (Identifier.shift · r.offset)

def findTypes (name : List Char) (p : Program) : List Identifier :=
  p.decls.flatMap (fun gd =>
    let ids : List Identifier := match gd.val with
      | .type td =>
        (match td.name with
         | some n => if n.value == name then [n] else []
         | none => []) ++
        (match td.typeExpr.bind identInRefType with
         | some i => if i.value == name then [i] else []
         | none => [])
      | .proc pd =>
        (pd.params.filterMap (fun prm => match prm.val with
          | .valid _ _ _ (some te) _ => (identInRefType te).map (Identifier.shift · prm.offset)
          | _ => none)).filter (fun i => i.value == name) ++
        (pd.vars.filterMap (fun v => match v.val with
          | .valid _ _ (some te) _ => (identInRefType te).map (Identifier.shift · v.offset)
          | _ => none)).filter (fun i => i.value == name)
      | .error _ => []
    shiftIds ids gd.offset)

mutual
  def varsInVar (name : List Char) : Var → List Identifier
    | .named id => if id.value == name then [id] else []
    | .access a idx _ => varsInVar name a ++ varsInOptExpr name idx
  def varsInExpr (name : List Char) : Expr → List Identifier
    | .var v => varsInVar name v
    | .binary _ l r _ => varsInExpr name l ++ varsInExpr name r
    | .bracketed e _ => varsInExpr name e
    | .unary _ e _ => varsInExpr name e
    | _ => []
  def varsInOptExpr (name : List Char) : OptExpr → List Identifier
    | .none => []
    | .some e o => shiftIds (varsInExpr name e) o
end

def varsInRefExpr (name : List Char) (r : Ref Expr) : List Identifier := shiftIds (varsInExpr name r.val) r.offset

def varsInOptRefExpr (name : List Char) (r : Option (Ref Expr)) : List Identifier :=
  match r with
  | some r => varsInRefExpr name r
  | none => []

mutual
  def varsInStmt (name : List Char) : Stmt → List Identifier
    | .assign a => varsInVar name a.target ++ varsInOptRefExpr name a.expr
    | .block ss _ => varsInList name ss
    | .call c => c.args.flatMap (varsInRefExpr name)
    | .ifS c t e _ => varsInOptRefExpr name c ++ varsInOpt name t ++ varsInOpt name e
    | .whileS c b _ => varsInOptRefExpr name c ++ varsInOpt name b
    | _ => []
  def varsInOpt (name : List Char) : OptStmt → List Identifier
    | .none => []
    | .some s o => shiftIds (varsInStmt name s) o
  def varsInList (name : List Char) : StmtList → List Identifier
    | .nil => []
    | .cons s o r => shiftIds (varsInStmt name s) o ++ varsInList name r
end

def findVars (name procName : List Char) (p : Program) : List Identifier :=
  match p.decls.find? (fun gd => match gd.val with
      | .proc pd => (match pd.name with | some n => n.value == procName | none => false)
      | _ => false) with
  | some gd =>
    match gd.val with
    | .proc pd =>
      let ps := pd.params.filterMap (fun prm => match prm.val with
        | .valid _ _ (some n) _ _ => if n.value == name then some (Identifier.shift n prm.offset) else none
        | _ => none)
      let vs := pd.vars.filterMap (fun v => match v.val with
        | .valid _ (some n) _ _ => if n.value == name then some (Identifier.shift n v.offset) else none
        | _ => none)
      let ss := pd.stmts.flatMap (fun s => shiftIds (varsInStmt name s.val) s.offset)
      shiftIds (ps ++ vs ++ ss) gd.offset
    | _ => []
  | none => []

def findReferenced (ident : Ident) (ctx : GlobalEntry) (d : AnalyzedSource) : List Identifier :=
  match ctx with
  | .procedure pe =>
    if pe.name.value == ident.value then findProcs ident.value d.ast
    else
      match lookupBoth (some pe.localTable) d.table ident.value with
      | some (.type _) => findTypes ident.value d.ast
      | some (.procedure _) => findProcs ident.value d.ast
      | some (.variable _) | some (.parameter _) => findVars ident.value pe.name.value d.ast
      | none => []
  | .type _ => findTypes ident.value d.ast

def identTextRanges (d : AnalyzedSource) (ids : List Identifier) : Except Panic (List Ident) :=
  ids.mapM (fun i => (toTextRange (allTokens d) i.info.range).map (fun r => (⟨i.value, r⟩ : Ident)))

def references (d : AnalyzedSource) (p : Pos) : Except Panic (Option (List PosRange)) :=
  match docCursor d p with
  | .error e => .error e
  | .ok c =>
    match c.ident, c.context with
    | some ident, some ctx =>
      match identTextRanges d (findReferenced ident ctx d) with
      | .error e => .error e
      | .ok ids => .ok (some ((ids.filter (fun i => i != ident)).map (fun i => asPosRange i.range d.text)))
    | _, _ => .ok none

def rename (d : AnalyzedSource) (p : Pos) : Except Panic (Option (List PosRange)) :=
  match docCursor d p with
  | .error e => .error e
  | .ok c =>
    match c.ident, c.context with
    | some ident, some ctx =>
      if ident.value == "int".toList then .ok none else
      match identTextRanges d (findReferenced ident ctx d) with
      | .error e => .error e
      | .ok ids => .ok (some (ids.map (fun i => asPosRange i.range d.text)))
    | _, _ => .ok none

def prepareRename (d : AnalyzedSource) (p : Pos) : Except Panic (Option PosRange) :=
  match docCursor d p with
  | .error e => .error e
  | .ok c =>
    match c.ident with
    | some ident => if ident.value == "int".toList then .ok none else .ok (some (asPosRange ident.range d.text))
    | none => .ok none

end Spl.Feat
