/-
  Model of `lsp4spl/src/features.rs` and `features/{goto,hover,references,fold,signature_help,
  semantic_tokens}.rs`.  Handlers are functions of an `AnalyzedSource` (the broker hands the
  handler a clone of the document) and the request parameters.
-/
import SplVerif.Model.Table

namespace Spl.Feat

abbrev PosRange := Pos × Pos

/-- `&tokens[a..b]` as (array, a, b) view; `none` = slice panic. -/
structure Slice where
  toks : Array Token
  lo : Nat
  hi : Nat

def Slice.full (t : Array Token) : Slice := ⟨t, 0, t.size⟩

def Slice.sub (s : Slice) (r : Range) : Option Slice :=
  if r.lo ≤ r.hi ∧ s.lo + r.hi ≤ s.hi then some ⟨s.toks, s.lo + r.lo, s.lo + r.hi⟩ else none

/-- `&tokens[a..]` -/
def Slice.from (s : Slice) (a : Nat) : Option Slice :=
  if s.lo + a ≤ s.hi then some ⟨s.toks, s.lo + a, s.hi⟩ else none

def Slice.get? (s : Slice) (i : Nat) : Option Token :=
  if s.lo + i < s.hi then s.toks[s.lo + i]? else none

def Slice.len (s : Slice) : Nat := s.hi - s.lo

def Slice.toList (s : Slice) : List Token := (s.toks.extract s.lo s.hi).toList

/-- `AstInfo::to_text_range(tokens)`. -/
def toTextRange (s : Slice) (r : Range) : Except Panic Range :=
  if r.hi ≤ r.lo then
    match s.get? r.hi with
    | some t => .ok ⟨t.range.hi, t.range.hi⟩
    | none => .error ⟨"slice"⟩
  else
    match s.sub r with
    | none => .error ⟨"slice"⟩
    | some sub =>
      match sub.get? 0, sub.get? (sub.len - 1) with
      | some a, some b => .ok ⟨a.range.lo, b.range.hi⟩
      | _, _ => .error ⟨"expect:Token slice is empty"⟩

def asPosRange (r : Range) (text : List Char) : PosRange := (asPosition r.lo text, asPosition r.hi text)

/-- `Ident` of `features.rs`: an identifier token with its text range. -/
structure Ident where
  value : List Char
  range : Range
  deriving DecidableEq, Repr

structure Cursor where
  doc : AnalyzedSource
  index : Nat
  context : Option GlobalEntry

def declName : GlobalDecl → Option Identifier
  | .proc pd => pd.name
  | .type td => td.name
  | .error _ => none

/-- First global declaration whose text range contains `index`. -/
def findDecl (d : AnalyzedSource) (index : Nat) : List (Ref GlobalDecl) → Except Panic (Option (Ref GlobalDecl))
  | [] => .ok none
  | gd :: rest =>
    match (Slice.full d.tokens.toArray).from gd.offset with
    | none => .error ⟨"slice"⟩
    | some s =>
      match toTextRange s gd.val.info.range with
      | .error e => .error e
      | .ok r => if r.contains index then .ok (some gd) else findDecl d index rest

/-- `doc_cursor`. -/
def docCursor (d : AnalyzedSource) (p : Pos) : Except Panic Cursor :=
  let index := insertionIndex p d.text
  match findDecl d index d.ast.decls with
  | .error e => .error e
  | .ok gd =>
    let ctx := (gd.bind (fun g => declName g.val)).bind (fun n => tblLookup d.table n.value)
    .ok ⟨d, index, ctx⟩

/-- `DocumentCursor::ident`. -/
def Cursor.ident (c : Cursor) : Option Ident :=
  match c.doc.tokens.find? (fun t => t.range.contains c.index) with
  | some t =>
    match t.ty with
    | .Ident name => some ⟨name, t.range⟩
    | _ => none
  | none => none

def _root_.Spl.GlobalEntry.range : GlobalEntry → Range
  | .type t => t.range
  | .procedure p => p.range

def _root_.Spl.GlobalEntry.name : GlobalEntry → Identifier
  | .type t => t.name
  | .procedure p => p.name

def _root_.Spl.Entry.name : Entry → Identifier
  | .type t => t.name
  | .procedure p => p.name
  | .variable v | .parameter v => v.name

def _root_.Spl.Entry.ofGlobal : GlobalEntry → Entry
  | .type t => .type t
  | .procedure p => .procedure p

def allTokens (d : AnalyzedSource) : Slice := Slice.full d.tokens.toArray

/-- `table.rs::name_text_range` / `references.rs::ident_text_range`: the identifier token is the
    last token of the node's range. -/
def nameTextRange (s : Slice) (r : Range) : Except Panic Range :=
  if r.hi ≤ r.lo then toTextRange s r
  else
    match s.get? (r.hi - 1) with
    | some t => .ok t.range
    | none => .error ⟨"slice"⟩

def locate (d : AnalyzedSource) (s : Option Slice) (name : Identifier) : Except Panic (Option PosRange) :=
  match s with
  | none => .error ⟨"slice"⟩
  | some s =>
    match nameTextRange s name.info.range with
    | .error e => .error e
    | .ok r => .ok (some (asPosRange r d.text))

/-- `features::lookup_ident`: the name token in the procedure's own header is the procedure; a name
    in a type position is global. -/
def lookupIdent (d : AnalyzedSource) (pe : ProcedureEntry) (ident : Ident) : Except Panic (Option Entry) :=
  let own : Except Panic Bool := match (allTokens d).sub pe.range with
    | none => .ok false
    | some s =>
      if pe.name.info.range.hi == 0 then .ok false else
      match s.get? (pe.name.info.range.hi - 1) with
      | some t => .ok (t.range == ident.range)
      | none => .ok false
  -- a name directly after `:` or `of` is in a type position: only global names are visible there
  let prev := ((d.tokens.takeWhile (fun t => t.range.hi ≤ ident.range.lo)).filter
    (fun t => t.kind != .Comment)).getLast?
  let typePos : Bool := match prev with
    | some t => t.kind == .Colon || t.kind == .Of
    | none => false
  match own with
  | .error e => .error e
  | .ok true => .ok ((tblLookup d.table ident.value).map Entry.ofGlobal)
  | .ok false =>
    if typePos then .ok ((tblLookup d.table ident.value).map Entry.ofGlobal)
    else .ok (lookupBoth (some pe.localTable) d.table ident.value)

/-! ### goto.rs -/

def gotoDeclaration (d : AnalyzedSource) (p : Pos) : Except Panic (Option PosRange) :=
  match docCursor d p with
  | .error e => .error e
  | .ok c =>
    match c.ident, c.context with
    | some ident, some (.type _) =>
      if ident.value == "int".toList then .ok none else
      match tblLookup d.table ident.value with
      | some entry =>
        if (Entry.ofGlobal entry).isDefault then .ok none
        else locate d ((allTokens d).sub (GlobalEntry.range entry)) (GlobalEntry.name entry)
      | none => .ok none
    | some ident, some (.procedure pe) =>
      match lookupIdent d pe ident with
      | .error e => .error e
      | .ok (some entry) =>
        if entry.isDefault then .ok none else
        let s : Option Slice := match entry with
          | .procedure q => (allTokens d).sub q.range
          | .type t => (allTokens d).sub t.range
          | .variable v | .parameter v => ((allTokens d).sub pe.range).bind (fun s => s.sub v.range)
        locate d s entry.name
      | .ok none => .ok none
    | _, _ => .ok none

def gotoTypeDefinition (d : AnalyzedSource) (p : Pos) : Except Panic (Option PosRange) :=
  match docCursor d p with
  | .error e => .error e
  | .ok c =>
    match c.ident, c.context with
    | some ident, some (.type _) =>
      if ident.value == "int".toList then .ok none else
      match tblLookup d.table ident.value with
      | some (.type t) => locate d ((allTokens d).sub t.range) t.name
      | _ => .ok none
    | some ident, some (.procedure pe) =>
      match lookupIdent d pe ident with
      | .error e => .error e
      | .ok (some (.type t)) =>
        if ident.value == "int".toList then .ok none else locate d ((allTokens d).sub t.range) t.name
      | .ok (some (.procedure _)) => .ok none
      | .ok (some (.variable v)) | .ok (some (.parameter v)) =>
        match v.dataType with
        | some (.array _ _ creator) =>
          match tblLookup d.table creator with
          | some (.type t) =>
            if t.dataType == v.dataType then locate d ((allTokens d).sub t.range) t.name else .ok none
          | _ => .ok none
        | _ => .ok none
      | .ok none => .ok none
    | _, _ => .ok none

def gotoImplementation (d : AnalyzedSource) (p : Pos) : Except Panic (Option PosRange) :=
  match docCursor d p with
  | .error e => .error e
  | .ok c =>
    match c.ident, c.context with
    | some ident, some (.procedure pe) =>
      match lookupIdent d pe ident with
      | .error e => .error e
      | .ok (some (.procedure target)) =>
        if (Entry.procedure target).isDefault then .ok none
        else locate d ((allTokens d).sub target.range) target.name
      | .ok _ => .ok none
    | _, _ => .ok none

/-! ### Display of table entries (table.rs) and hover.rs -/

def dataTypeStr : DataType → List Char
  | .int => "int".toList
  | .bool => "boolean".toList
  | .unknown => ['_']
  | .array sz base _ =>
    "array [".toList ++ (match sz with | some n => (toString n).toList | none => ['_']) ++ "] of ".toList ++ dataTypeStr base

def optTypeStr (t : Option DataType) : List Char :=
  match t with
  | some d => dataTypeStr d
  | none => ['_']

def varEntryStr (v : VariableEntry) : List Char :=
  (if v.isRef then "ref ".toList else []) ++ v.name.value ++ ": ".toList ++ optTypeStr v.dataType

def joinWith (sep : List Char) : List (List Char) → List Char
  | [] => []
  | [x] => x
  | x :: xs => x ++ sep ++ joinWith sep xs

def procEntryStr (p : ProcedureEntry) : List Char :=
  "proc ".toList ++ p.name.value ++ ['('] ++ joinWith ", ".toList (p.parameters.map varEntryStr) ++ [')']

def entryStr : Entry → List Char
  | .procedure p => procEntryStr p
  | .type t => optTypeStr t.dataType
  | .variable v | .parameter v => varEntryStr v

def _root_.Spl.Entry.doc : Entry → Option (List Char)
  | .procedure p => p.doc
  | .type t => t.doc
  | .variable v | .parameter v => v.doc

def trimStart (s : List Char) : List Char := s.dropWhile Parse.isRustWhitespace

def createHover (e : Entry) : List Char :=
  "```spl\n".toList ++ entryStr e ++ "\n```".toList ++
    (match e.doc with
     | some doc => "\n---\n".toList ++ trimStart doc ++ ['\n']
     | none => [])

def hover (d : AnalyzedSource) (p : Pos) : Except Panic (Option (PosRange × List Char)) :=
  match docCursor d p with
  | .error e => .error e
  | .ok c =>
    match c.ident, c.context with
    | some ident, some (.type _) =>
      match tblLookup d.table ident.value with
      | some entry => .ok (some (asPosRange ident.range d.text, createHover (Entry.ofGlobal entry)))
      | none => .ok none
    | some ident, some (.procedure pe) =>
      match lookupIdent d pe ident with
      | .error e => .error e
      | .ok (some entry) => .ok (some (asPosRange ident.range d.text, createHover entry))
      | .ok none => .ok none
    | _, _ => .ok none

/-! ### fold.rs -/

def skipLeadingComments : List Token → List Token
  | t :: rest => if t.kind == .Comment then skipLeadingComments rest else t :: rest
  | [] => []

/-- The folding range of one procedure declaration (start line, end line). -/
def foldOne (d : AnalyzedSource) (pd : ProcDecl) (offset : Nat) : Except Panic (Nat × Nat) :=
  match (allTokens d).sub (pd.info.range.shift offset) with
  | none => .error ⟨"slice"⟩
  | some s =>
    let toks := skipLeadingComments s.toList
    let tr : Range := match toks.head?, toks.getLast? with
      | some f, some l => ⟨f.range.lo, l.range.hi⟩
      | _, _ => ⟨0, 0⟩
    let r := asPosRange tr d.text
    .ok (r.1.line, r.2.line)

def foldDecls (d : AnalyzedSource) : List (Ref GlobalDecl) → Except Panic (List (Nat × Nat))
  | [] => .ok []
  | gd :: rest =>
    match gd.val with
    | .proc pd =>
      match foldOne d pd gd.offset with
      | .error e => .error e
      | .ok r =>
        match foldDecls d rest with
        | .error e => .error e
        | .ok rs => .ok (r :: rs)
    | _ => foldDecls d rest

def fold (d : AnalyzedSource) : Except Panic (List (Nat × Nat)) := foldDecls d d.ast.decls

/-! ### signature_help.rs -/

mutual
  def findCallInStmt (toks : Slice) (index : Nat) : Stmt → Nat → Except Panic (Option (CallStmt × Nat))
    | .block ss _, offset => findCallInList toks index ss offset
    | .ifS _ t e _, offset =>
      match findCallInOpt toks index t offset with
      | .error p => .error p
      | .ok (some r) => .ok (some r)
      | .ok none => findCallInOpt toks index e offset
    | .whileS _ b _, offset => findCallInOpt toks index b offset
    | .call c, offset =>
      match toks.from offset with
      | none => .error ⟨"slice"⟩
      | some s =>
        match toTextRange s c.info.range with
        | .error p => .error p
        | .ok r => if r.contains index then .ok (some (c, offset)) else .ok none
    | _, _ => .ok none
  def findCallInOpt (toks : Slice) (index : Nat) : OptStmt → Nat → Except Panic (Option (CallStmt × Nat))
    | .none, _ => .ok none
    | .some s o, offset => findCallInStmt toks index s (offset + o)
  def findCallInList (toks : Slice) (index : Nat) : StmtList → Nat → Except Panic (Option (CallStmt × Nat))
    | .nil, _ => .ok none
    | .cons s o r, offset =>
      match findCallInStmt toks index s (offset + o) with
      | .error p => .error p
      | .ok (some x) => .ok (some x)
      | .ok none => findCallInList toks index r offset
end

def findCallInRefs (toks : Slice) (index : Nat) : List (Ref Stmt) → Nat → Except Panic (Option (CallStmt × Nat))
  | [], _ => .ok none
  | r :: rs, offset =>
    match findCallInStmt toks index r.val (offset + r.offset) with
    | .error p => .error p
    | .ok (some x) => .ok (some x)
    | .ok none => findCallInRefs toks index rs offset

/-- First procedure declaration whose text range contains the index. -/
def findProcDecl (d : AnalyzedSource) (index : Nat) : List (Ref GlobalDecl) → Except Panic (Option (ProcDecl × Nat))
  | [] => .ok none
  | gd :: rest =>
    match gd.val with
    | .proc pd =>
      match (allTokens d).from gd.offset with
      | none => .error ⟨"slice"⟩
      | some s =>
        match toTextRange s pd.info.range with
        | .error e => .error e
        | .ok r => if r.contains index then .ok (some (pd, gd.offset)) else findProcDecl d index rest
    | _ => findProcDecl d index rest

structure SigHelp where
  label : List Char
  params : List (List Char)
  active : Option Nat
  doc : Option (List Char)

def activeParam (nParams : Nat) (toks : List Token) (index : Nat) : Option Nat :=
  if nParams == 0 then none else
  let rec go : List Token → Nat → Nat
    | [], n => n
    | t :: rest, n =>
      if t.range.lo ≥ index then n
      else go rest (if t.kind == .Comma then n + 1 else n)
  some (go toks 0)

def signatureHelp (d : AnalyzedSource) (p : Pos) : Except Panic (Option SigHelp) :=
  match docCursor d p with
  | .error e => .error e
  | .ok c =>
    match findProcDecl d c.index d.ast.decls with
    | .error e => .error e
    | .ok none => .ok none
    | .ok (some (pd, pdOffset)) =>
      match findCallInRefs (allTokens d) c.index pd.stmts pdOffset with
      | .error e => .error e
      | .ok none => .ok none
      | .ok (some (call, offset)) =>
        match tblLookup d.table call.name.value with
        | some (.procedure pe) =>
          match (allTokens d).sub (call.info.range.shift offset) with
          | none => .error ⟨"slice"⟩
          | some s =>
            .ok (some { label := procEntryStr pe
                        params := pe.parameters.map varEntryStr
                        active := activeParam pe.parameters.length s.toList c.index
                        doc := pe.doc.map (fun doc => "---\n".toList ++ trimStart doc ++ ['\n']) })
        | _ => .ok none

/-! ### references.rs -/

def _root_.Spl.Identifier.shift (i : Identifier) (d : Nat) : Identifier := { i with info := { i.info with range := i.info.range.shift d } }
def shiftIds (l : List Identifier) (d : Nat) : List Identifier := l.map (Identifier.shift · d)

mutual
  def procsInStmt (name : List Char) : Stmt → List Identifier
    | .block ss _ => procsInList name ss
    | .call c => if c.name.value == name then [c.name] else []
    | .ifS _ t e _ => procsInOpt name t ++ procsInOpt name e
    | .whileS _ b _ => procsInOpt name b
    | _ => []
  def procsInOpt (name : List Char) : OptStmt → List Identifier
    | .none => []
    | .some s o => shiftIds (procsInStmt name s) o
  def procsInList (name : List Char) : StmtList → List Identifier
    | .nil => []
    | .cons s o r => shiftIds (procsInStmt name s) o ++ procsInList name r
end

def findProcs (name : List Char) (p : Program) : List Identifier :=
  p.decls.flatMap (fun gd => match gd.val with
    | .proc pd =>
      let own := match pd.name with
        | some n => if n.value == name then [n] else []
        | none => []
      shiftIds (own ++ pd.stmts.flatMap (fun s => shiftIds (procsInStmt name s.val) s.offset)) gd.offset
    | _ => [])

mutual
  def identInType : TypeExpr → Option Identifier
    | .named id => some id
    | .array _ b _ => identInOptType b
  def identInOptType : OptType → Option Identifier
    | .none => none
    | .some t o => (identInType t).map (Identifier.shift · o)
end

def identInRefType (r : Ref TypeExpr) : Option Identifier := (identInType r.val).map (Identifier.shift · r.offset)

def findTypes (name : List Char) (p : Program) : List Identifier :=
  p.decls.flatMap (fun gd =>
    let ids : List Identifier := match gd.val with
      | .type td =>
        (match td.name with
         | some n => if n.value == name then [n] else []
         | none => []) ++
        (match td.typeExpr.bind identInRefType with
         | some i => if i.value == name then [i] else []
         | none => [])
      | .proc pd =>
        (pd.params.filterMap (fun prm => match prm.val with
          | .valid _ _ _ (some te) _ => (identInRefType te).map (Identifier.shift · prm.offset)
          | _ => none)).filter (fun i => i.value == name) ++
        (pd.vars.filterMap (fun v => match v.val with
          | .valid _ _ (some te) _ => (identInRefType te).map (Identifier.shift · v.offset)
          | _ => none)).filter (fun i => i.value == name)
      | .error _ => []
    shiftIds ids gd.offset)

mutual
  def varsInVar (name : List Char) : Var → List Identifier
    | .named id => if id.value == name then [id] else []
    | .access a idx _ => varsInVar name a ++ varsInOptExpr name idx
  def varsInExpr (name : List Char) : Expr → List Identifier
    | .var v => varsInVar name v
    | .binary _ l r _ => varsInExpr name l ++ varsInExpr name r
    | .bracketed e _ => varsInExpr name e
    | .unary _ e _ => varsInExpr name e
    | _ => []
  def varsInOptExpr (name : List Char) : OptExpr → List Identifier
    | .none => []
    | .some e o => shiftIds (varsInExpr name e) o
end

def varsInRefExpr (name : List Char) (r : Ref Expr) : List Identifier := shiftIds (varsInExpr name r.val) r.offset

def varsInOptRefExpr (name : List Char) (r : Option (Ref Expr)) : List Identifier :=
  match r with
  | some r => varsInRefExpr name r
  | none => []

mutual
  def varsInStmt (name : List Char) : Stmt → List Identifier
    | .assign a => varsInVar name a.target ++ varsInOptRefExpr name a.expr
    | .block ss _ => varsInList name ss
    | .call c => c.args.flatMap (varsInRefExpr name)
    | .ifS c t e _ => varsInOptRefExpr name c ++ varsInOpt name t ++ varsInOpt name e
    | .whileS c b _ => varsInOptRefExpr name c ++ varsInOpt name b
    | _ => []
  def varsInOpt (name : List Char) : OptStmt → List Identifier
    | .none => []
    | .some s o => shiftIds (varsInStmt name s) o
  def varsInList (name : List Char) : StmtList → List Identifier
    | .nil => []
    | .cons s o r => shiftIds (varsInStmt name s) o ++ varsInList name r
end

def findVars (name procName : List Char) (p : Program) : List Identifier :=
  match p.decls.find? (fun gd => match gd.val with
      | .proc pd => (match pd.name with | some n => n.value == procName | none => false)
      | _ => false) with
  | some gd =>
    match gd.val with
    | .proc pd =>
      let ps := pd.params.filterMap (fun prm => match prm.val with
        | .valid _ _ (some n) _ _ => if n.value == name then some (Identifier.shift n prm.offset) else none
        | _ => none)
      let vs := pd.vars.filterMap (fun v => match v.val with
        | .valid _ (some n) _ _ => if n.value == name then some (Identifier.shift n v.offset) else none
        | _ => none)
      let ss := pd.stmts.flatMap (fun s => shiftIds (varsInStmt name s.val) s.offset)
      shiftIds (ps ++ vs ++ ss) gd.offset
    | _ => []
  | none => []

def findReferenced (ident : Ident) (ctx : GlobalEntry) (d : AnalyzedSource) : Except Panic (List Identifier) :=
  match ctx with
  | .procedure pe =>
    match lookupIdent d pe ident with
    | .error e => .error e
    | .ok (some (.type _)) => .ok (findTypes ident.value d.ast)
    | .ok (some (.procedure _)) => .ok (findProcs ident.value d.ast)
    | .ok (some (.variable _)) | .ok (some (.parameter _)) => .ok (findVars ident.value pe.name.value d.ast)
    | .ok none => .ok []
  | .type _ => .ok (findTypes ident.value d.ast)

def identTextRanges (d : AnalyzedSource) (ids : List Identifier) : Except Panic (List Ident) :=
  ids.mapM (fun i => (nameTextRange (allTokens d) i.info.range).map (fun r => (⟨i.value, r⟩ : Ident)))

def references (d : AnalyzedSource) (p : Pos) : Except Panic (Option (List PosRange)) :=
  match docCursor d p with
  | .error e => .error e
  | .ok c =>
    match c.ident, c.context with
    | some ident, some ctx =>
      match (findReferenced ident ctx d).bind (identTextRanges d) with
      | .error e => .error e
      | .ok ids => .ok (some ((ids.filter (fun i => i != ident)).map (fun i => asPosRange i.range d.text)))
    | _, _ => .ok none

def rename (d : AnalyzedSource) (p : Pos) : Except Panic (Option (List PosRange)) :=
  match docCursor d p with
  | .error e => .error e
  | .ok c =>
    match c.ident, c.context with
    | some ident, some ctx =>
      if ident.value == "int".toList then .ok none else
      match (findReferenced ident ctx d).bind (identTextRanges d) with
      | .error e => .error e
      | .ok ids => .ok (some (ids.map (fun i => asPosRange i.range d.text)))
    | _, _ => .ok none

def prepareRename (d : AnalyzedSource) (p : Pos) : Except Panic (Option PosRange) :=
  match docCursor d p with
  | .error e => .error e
  | .ok c =>
    match c.ident with
    | some ident => if ident.value == "int".toList then .ok none else .ok (some (asPosRange ident.range d.text))
    | none => .ok none

end Spl.Feat

namespace Spl.Feat

/-! ### semantic_tokens.rs -/

structure SemTok where
  deltaLine : Nat
  deltaStart : Nat
  length : Nat
  tokenType : Nat
  modifiers : Nat
  deriving DecidableEq, Repr

def tyComment := 0
def tyKeyword := 1
def tyNumber := 2
def tyType := 3
def tyFunction := 4
def tyParameter := 5
def tyVariable := 6

/-- text of a byte range (always on char boundaries for token ranges) -/
def sliceText (text : List Char) (r : Range) : Option (List Char) :=
  match splitAtByte text r.lo with
  | some (_, rest) =>
    match splitAtByte rest (r.hi - r.lo) with
    | some (mid, _) => some mid
    | none => none
  | none => none

def utf16Units (s : List Char) : Nat := (s.map utf16Len).sum

def trimEndNl (s : List Char) : List Char := (s.reverse.dropWhile (fun c => c == '\n' || c == '\r')).reverse

/-- `create_semantic_token`. -/
def createSemTok (t : Token) (prev : Pos) (text : List Char) (ty modif : Nat) : Except Panic SemTok :=
  let p := asPosition t.range.lo text
  match sliceText text t.range with
  | none => .error ⟨"slice"⟩
  | some s =>
    if p.line < prev.line then .error ⟨"underflow"⟩ else
    if p.line == prev.line && p.col < prev.col then .error ⟨"underflow"⟩ else
    .ok { deltaLine := p.line - prev.line
          deltaStart := if p.line == prev.line then p.col - prev.col else p.col
          length := utf16Units (trimEndNl s)
          tokenType := ty
          modifiers := modif }

def isKeywordKind : Kind → Bool
  | .If | .Else | .While | .Array | .Of | .Proc | .Ref | .Type | .Var => true
  | _ => false

/-- `map_token`: lexical classes. -/
def mapTokenClass (t : Token) : Option Nat :=
  match t.kind with
  | .Comment => some tyComment
  | .Hex | .Char | .Int => some tyNumber
  | k => if isKeywordKind k then some tyKeyword else none

/-- Fold over the tokens of one declaration, threading the previous token position. -/
def collectToks (text : List Char) (classify : Nat → Token → Option (Nat × Nat)) :
    List Token → Nat → Pos → Except Panic (List SemTok × Pos)
  | [], _, prev => .ok ([], prev)
  | t :: rest, i, prev =>
    match classify i t with
    | none => collectToks text classify rest (i + 1) prev
    | some (ty, m) =>
      match createSemTok t prev text ty m with
      | .error e => .error e
      | .ok st =>
        match collectToks text classify rest (i + 1) (asPosition t.range.lo text) with
        | .error e => .error e
        | .ok (sts, p) => .ok (st :: sts, p)

def getLocalTable (pd : ProcDecl) (g : GlobalTable) : Option LocalTable :=
  match pd.name with
  | some n =>
    match tblLookup g n.value with
    | some (.procedure p) => some p.localTable
    | _ => none
  | none => none

/-- The class and modifier of the `i`-th token of a global declaration (`collect_type_dec`,
    `collect_proc_dec`, `map_token`); `sl` = the declaration's tokens. -/
def semClassify (d : AnalyzedSource) (gd : GlobalDecl) (sl : List Token) : Nat → Token → Option (Nat × Nat) :=
  match gd with
  | .type td => fun i t =>
    let pos := td.info.range.lo + i
    if (match td.name with | some n => n.info.range.hi == pos + 1 | none => false) then some (tyType, 1)
    else if t.kind == .Ident then some (tyType, 0)
    else (mapTokenClass t).map (fun c => (c, 0))
  | .proc pd => fun i t =>
    let pos := pd.info.range.lo + i
    let lt := getLocalTable pd d.table
    if (match pd.name with | some n => n.info.range.hi == pos + 1 | none => false) then some (tyFunction, 1)
    else match t.ty with
      | .Ident name =>
        -- directly after `:` or `of`: a type position, only global names are visible
        let prevTok := ((sl.take i).filter (fun t => t.kind != .Comment)).getLast?
        let typePos : Bool := match prevTok with
          | some t => t.kind == .Colon || t.kind == .Of
          | none => false
        match (if typePos then (tblLookup d.table name).map Entry.ofGlobal else lookupBoth lt d.table name) with
        | some (.type _) => some (tyType, 0)
        | some (.procedure _) => some (tyFunction, 0)
        | some (.variable v) => some (tyVariable, if v.range.lo + v.name.info.range.hi == pos + 1 then 1 else 0)
        | some (.parameter v) => some (tyParameter, if v.range.lo + v.name.info.range.hi == pos + 1 then 1 else 0)
        | none => none
      | _ => (mapTokenClass t).map (fun c => (c, 0))
  | .error _ => fun _ t => (mapTokenClass t).map (fun c => (c, 0))

/-- the tokens of a global declaration: `doc.tokens[offset..][info.range]` -/
def declTokens (d : AnalyzedSource) (gd : Ref GlobalDecl) : Option (List Token) :=
  match (allTokens d).from gd.offset with
  | none => none
  | some toks => (toks.sub gd.val.info.range).map (·.toList)

/-- end (absolute token index) of the last global declaration; 0 without declarations -/
def restStart (d : AnalyzedSource) : Nat :=
  match d.ast.decls.getLast? with
  | some gd => gd.offset + gd.val.info.range.hi
  | none => 0

/-- `semantic_tokens`: declaration by declaration, then the comments behind the last declaration. -/
def semanticTokensFrom (d : AnalyzedSource) : List (Ref GlobalDecl) → Pos → Except Panic (List SemTok × Pos)
  | [], prev => .ok ([], prev)
  | gd :: rest, prev =>
    match declTokens d gd with
    | none => .error ⟨"slice"⟩
    | some sl =>
      match collectToks d.text (semClassify d gd.val sl) sl 0 prev with
      | .error e => .error e
      | .ok (sts, prev') =>
        match semanticTokensFrom d rest prev' with
        | .error e => .error e
        | .ok (more, p) => .ok (sts ++ more, p)

def semanticTokens (d : AnalyzedSource) : Except Panic (List SemTok) :=
  match semanticTokensFrom d d.ast.decls ⟨0, 0⟩ with
  | .error e => .error e
  | .ok (sts, prev) =>
    match collectToks d.text (fun _ t => (mapTokenClass t).map (fun c => (c, 0))) (d.tokens.drop (restStart d)) 0 prev with
    | .error e => .error e
    | .ok (rest, _) => .ok (sts ++ rest)

/-! ### completion.rs -/

structure Item where
  label : List Char
  kind : String
  detail : Option (List Char) := none
  insertText : Option (List Char) := none
  doc : Option (List Char) := none
  deriving DecidableEq, Repr

def kwItem (s : String) : Item := { label := s.toList, kind := "Keyword" }
def snippet (label text : String) : Item := { label := label.toList, kind := "Snippet", insertText := some text.toList }

def itemInt : Item := { label := "int".toList, kind := "Struct" }
def snMain := snippet "main" "proc main() {\n    $0\n}"
def snArray := snippet "array" "array [$1] of $0"
def snProc := snippet "proc" "proc $1($2) {\n    $0\n}"
def snVar := snippet "var" "var $1: $0;"
def snType := snippet "type" "type $1 = $0;"
/-- `snippet!(r#if, "while", …)`: the label/text pairing of the source, kept as it is. -/
def snIf := snippet "while" "while ($1) {\n    $0\n}"
def snWhile := snippet "if" "if ($1) {\n    $0\n}"
def snElse := snippet "else" "else {\n    $0\n}"

def entryItem (k : List Char) (kind : String) (e : Entry) : Item :=
  { label := k, kind := kind, detail := some (entryStr e), doc := e.doc.map trimStart }

def searchTypes (g : GlobalTable) : List Item :=
  g.filterMap (fun (k, e) => match e with
    | .type t => some (entryItem k "Struct" (.type t))
    | _ => none)

def searchProcedures (g : GlobalTable) : List Item :=
  g.filterMap (fun (k, e) => match e with
    | .procedure p => some (entryItem k "Function" (.procedure p))
    | _ => none)

def searchVariables (l : LocalTable) : List Item :=
  l.map (fun (k, e) => match e with
    | .variable v => entryItem k "Variable" (.variable v)
    | .parameter v => entryItem k "Variable" (.parameter v))

def newStmt (lt : Option LocalTable) (g : GlobalTable) : List Item :=
  [snIf, snWhile, kwItem "if", kwItem "while"] ++ (match lt with | some l => searchVariables l | none => []) ++ searchProcedures g

def newGlobalDeclaration (g : GlobalTable) : List Item :=
  [snProc, snType, kwItem "proc", kwItem "type"] ++
    (match tblLookup g "main".toList with
     | some (.procedure _) => []
     | _ => [snMain])

/-- `TokenList::token_before`. -/
def tokenBefore (toks : List Token) (index : Nat) : Option Token :=
  match toks with
  | [] => none
  | first :: _ =>
    if first.range.lo > index then none else
    let rec go : List Token → Token → Token
      | [], cur => cur
      | t :: rest, cur => if t.range.lo ≥ index then cur else go rest t
    some (go toks first)

/-- `token_before_skipping_comments`: the last token that is not a comment, up to and including the token
    `token_before` finds. -/
def tokenBeforeSkippingComments (toks : List Token) (index : Nat) : Option Token :=
  match tokenBefore toks index with
  | none => none
  | some before =>
    ((toks.takeWhile (fun t => t.range.lo ≤ before.range.lo)).filter (fun t => t.kind != .Comment)).getLast?

def completeType (position : Nat) (toks : List Token) (g : GlobalTable) : Option (List Item) :=
  match tokenBeforeSkippingComments toks position with
  | none => none
  | some last =>
    match last.kind with
    | .Eq => some [snArray, kwItem "array", itemInt]
    | .RBracket => some [kwItem "of"]
    | .Of => some ([snArray, kwItem "array"] ++ searchTypes g)
    | _ => none

def completeVars (toks : List Token) (position : Nat) (lt : Option LocalTable) (start : Kind) : Option (List Item) :=
  match toks.find? (fun t => t.kind == start) with
  | some t => if position ≥ t.range.hi then lt.map searchVariables else none
  | none => none

def stmtIsIf : Stmt → Bool
  | .ifS .. => true
  | _ => false

/-- tokens of a statement: `stmt.info().slice(&tokens[stmt.offset..])`, and its text range measured
    on that slice without the comments in front of it (`range_without_leading_comments(stmt, tokens)`:
    from the first non-comment token to the end of `stmt.to_text_range(tokens)`). -/
def stmtSlice (toks : Slice) (s : Stmt) (offset : Nat) : Except Panic (Slice × Range) :=
  match toks.from offset with
  | none => .error ⟨"slice"⟩
  | some s1 =>
    match s1.sub s.info.range with
    | none => .error ⟨"slice"⟩
    | some s2 =>
      match toTextRange s2 s.info.range with
      | .error e => .error e
      | .ok r =>
        let lo := match s2.toList.find? (fun t => t.kind != .Comment) with
          | some t => t.range.lo
          | none => r.lo
        .ok (s2, ⟨lo, r.hi⟩)

mutual
  /-- `complete_statements`: `lastIf` = the statement before the current one is an `if`. -/
  def completeStmts (position : Nat) (last : Token) (lt : Option LocalTable) (g : GlobalTable) (toks : Slice) :
      StmtList → Bool → Except Panic (Option (List Item))
    | .nil, _ => .ok (some (newStmt lt g))
    | .cons s o rest, lastIf =>
      match stmtSlice toks s o with
      | .error e => .error e
      | .ok (sl, r) =>
        if r.contains position then completeStmt position last lt g sl s lastIf
        else completeStmts position last lt g toks rest (stmtIsIf s)

  def completeStmt (position : Nat) (last : Token) (lt : Option LocalTable) (g : GlobalTable) (toks : Slice) :
      Stmt → Bool → Except Panic (Option (List Item))
    | s, lastIf =>
      if lastIf && last.kind == .RCurly then .ok (some ([snElse, kwItem "else"] ++ newStmt lt g)) else
      match s with
      | .block ss _ => completeStmts position last lt g toks ss false
      | .assign _ => .ok (completeVars toks.toList position lt .Assign)
      | .call _ => .ok (completeVars toks.toList position lt .LParen)
      | .ifS _ t e _ =>
        match completeBranch position last lt g toks t with
        | .error p => .error p
        | .ok (some r) => .ok r
        | .ok none =>
          match completeBranch position last lt g toks e with
          | .error p => .error p
          | .ok (some r) => .ok r
          | .ok none => .ok (completeVars toks.toList position lt .LParen)
      | .whileS _ b _ =>
        match completeBranch position last lt g toks b with
        | .error p => .error p
        | .ok (some r) => .ok r
        | .ok none => .ok (completeVars toks.toList position lt .LParen)
      | .error _ | .empty _ => .ok (some (newStmt lt g))

  /-- `complete_branch!`: `some r` = the macro returned `r`. -/
  def completeBranch (position : Nat) (last : Token) (lt : Option LocalTable) (g : GlobalTable) (toks : Slice) :
      OptStmt → Except Panic (Option (Option (List Item)))
    | .none => .ok none
    | .some s o =>
      match stmtSlice toks s o with
      | .error e => .error e
      | .ok (sl, r) =>
        if r.contains position then (completeStmt position last lt g sl s false).map some else .ok none
end

def isRealStmt : Stmt → Bool
  | .error _ | .empty _ => false
  | _ => true

def completeProcedure (pd : ProcDecl) (position : Nat) (toks : Slice) (g : GlobalTable) :
    Except Panic (Option (List Item)) :=
  match tokenBeforeSkippingComments toks.toList position with
  | none => .ok none
  | some last =>
    let inSignature : Bool := match toks.toList.find? (fun t => t.kind == .RParen || t.kind == .LCurly) with
      | some t => decide (position < t.range.lo)
      | none => true
    match inSignature with
    | true =>
      match last.kind with
      | .LParen | .Comma => .ok (some [kwItem "ref"])
      | .Colon => .ok (some (searchTypes g))
      | _ => .ok none
    | false =>
      let lt := getLocalTable pd g
      let inStmts : Except Panic Bool := match pd.stmts.find? (fun s => isRealStmt s.val) with
        | none => .ok false
        | some first =>
          match toks.from first.offset with
          | none => .error ⟨"slice"⟩
          | some s1 =>
            match toTextRange s1 first.val.info.range with
            | .error e => .error e
            | .ok r => .ok (position ≥ r.lo)
      match inStmts with
      | .error e => .error e
      | .ok true => completeStmts position last lt g toks (StmtList.ofList pd.stmts) false
      | .ok false =>
        match last.kind with
        | .Colon => .ok (some (searchTypes g))
        | .Semic | .LCurly => .ok (some ([snVar, kwItem "var"] ++ newStmt lt g))
        | _ => .ok none

/-- `completion::propose`. -/
def completion (d : AnalyzedSource) (p : Pos) : Except Panic (Option (List Item)) :=
  match docCursor d p with
  | .error e => .error e
  | .ok c =>
    let position := if c.index > 0 then c.index - 1 else 0
    match findDecl d position d.ast.decls with
    | .error e => .error e
    | .ok (some gd) =>
      match (allTokens d).from gd.offset with
      | none => .error ⟨"slice"⟩
      | some toks =>
        match gd.val with
        | .type td =>
          match toks.sub td.info.range with
          | none => .error ⟨"slice"⟩
          | some s => .ok (completeType position s.toList d.table)
        | .proc pd =>
          match toks.sub pd.info.range with
          | none => .error ⟨"slice"⟩
          | some s => completeProcedure pd position s d.table
        | .error _ => .ok (some (newGlobalDeclaration d.table))
    | .ok none =>
      match d.ast.decls.getLast? with
      | some ⟨.type td, offset⟩ =>
        match (allTokens d).from offset with
        | none => .error ⟨"slice"⟩
        | some toks =>
          match toks.sub td.info.range with
          | none => .error ⟨"slice"⟩
          | some s =>
            match s.toList.getLast? with
            | some lastTok =>
              if lastTok.kind != .Semic then .ok (completeType position toks.toList d.table)
              else .ok (some (newGlobalDeclaration d.table))
            | none => .ok (some (newGlobalDeclaration d.table))
      | _ => .ok (some (newGlobalDeclaration d.table))

end Spl.Feat
