/-
  Model of `lsp4spl/src/io.rs` (`LSCodec::decode`, `LSCodec::encode`) and of the decode loop of
  tokio-util's `FramedRead` (`decode` after every read, `decode_eof` at end of input).
  The header parser (`httparse::parse_headers`) and the JSON parser (`serde_json`) are
  parameters of the model (`Env`); `parseHeadersModel` is a concrete model of the httparse
  subset that is differentially tested against the real crate.
-/
import SplVerif.Gen.RpcTables

namespace Spl.Codec

abbrev Bytes := List UInt8

inductive HRes where
  | complete (start : Nat) (headers : List (Bytes × Bytes))
  | incomplete
  | error
  deriving DecidableEq, Repr

structure Env (Msg : Type) where
  parseHeaders : Bytes → HRes
  parseBody : Bytes → Option Msg

inductive Dec (Msg : Type) where
  | needMore
  | frame (m : Msg) (consumed : Nat)
  | errHeaders
  | errContent
  deriving Repr

def isDigitB (b : UInt8) : Bool := 48 ≤ b.toNat && b.toNat ≤ 57

/-- `str::parse::<usize>()`: optional `+`, at least one ASCII digit, value < 2^64. -/
def parseUsize (v : Bytes) : Option Nat :=
  let ds := match v with
    | 43 :: r => r
    | _ => v
  if ds.isEmpty || !ds.all isDigitB then none
  else
    let n := ds.foldl (fun acc b => acc * 10 + (b.toNat - 48)) 0
    if n < 18446744073709551616 then some n else none

def headerNameBytes : Bytes := Gen.headerName.toUTF8.toList

/-- `LSCodec::decode` on the current buffer. -/
def decode {Msg} (env : Env Msg) (buf : Bytes) : Dec Msg :=
  if buf.length < Gen.codecMinLen then .needMore else
  match env.parseHeaders buf with
  | .error => .errHeaders
  | .incomplete => .needMore
  | .complete start hs =>
    match hs.find? (fun h => h.1 == headerNameBytes) with
    | none => .errHeaders
    | some h =>
      match parseUsize h.2 with
      | none => .errHeaders
      | some n =>
        if buf.length < start + n then .needMore
        else
          match env.parseBody ((buf.drop start).take n) with
          | none => .errContent
          | some m => .frame m (start + n)

inductive Terminal where
  | eof | errHeaders | errContent | bytesRemaining | stuck
  deriving DecidableEq, Repr

/-- Decode repeatedly until the buffer needs more bytes or an error occurs:
    (messages, remaining buffer, terminal error if any). -/
def drain {Msg} (env : Env Msg) (buf : Bytes) : List Msg × Bytes × Option Terminal :=
  match decode env buf with
  | .needMore => ([], buf, none)
  | .errHeaders => ([], buf, some .errHeaders)
  | .errContent => ([], buf, some .errContent)
  | .frame m k =>
    if _h : 0 < k ∧ k ≤ buf.length then
      let r := drain env (buf.drop k)
      (m :: r.1, r.2.1, r.2.2)
    else ([], buf, some .stuck)   -- a frame that consumes nothing: the real loop would spin
termination_by buf.length
decreasing_by simp [List.length_drop]; omega

/-- End of input: `decode_eof` until `None`; leftover bytes are an error. -/
def finish {Msg} (r : List Msg × Bytes × Option Terminal) : List Msg × Terminal :=
  match r.2.2 with
  | some t => (r.1, t)
  | none => (r.1, if r.2.1.isEmpty then .eof else .bytesRemaining)

/-- `FramedRead` fed with the chunks of successive reads, then end of input. -/
def feed {Msg} (env : Env Msg) : List Bytes → Bytes → List Msg × Terminal
  | [], buf => finish (drain env buf)
  | c :: cs, buf =>
    let r := drain env (buf ++ c)
    match r.2.2 with
    | some t => (r.1, t)
    | none =>
      let rest := feed env cs r.2.1
      (r.1 ++ rest.1, rest.2)

/-- `LSCodec::encode`: `Content-Length: <byte length>\r\n\r\n<body>`. -/
def encode (body : Bytes) : Bytes :=
  "Content-Length: ".toUTF8.toList ++ (toString body.length).toUTF8.toList ++ [13, 10, 13, 10] ++ body

/-! ### concrete model of `httparse::parse_headers` (default config) -/

def isNameTok (b : UInt8) : Bool :=
  let n := b.toNat
  (65 ≤ n && n ≤ 90) || (97 ≤ n && n ≤ 122) || (48 ≤ n && n ≤ 57) ||
  n == 33 || n == 35 || n == 36 || n == 37 || n == 38 || n == 39 || n == 42 || n == 43 ||
  n == 45 || n == 46 || n == 94 || n == 95 || n == 96 || n == 124 || n == 126

def isValueTok (b : UInt8) : Bool :=
  let n := b.toNat
  n == 9 || (32 ≤ n && n ≤ 126) || 128 ≤ n

def isSpTab (b : UInt8) : Bool := b == 32 || b == 9

def trimEnd (v : Bytes) : Bytes := (v.reverse.dropWhile isSpTab).reverse

inductive LineRes where
  | done (rest : Bytes)
  | header (name value : Bytes) (rest : Bytes)
  | incomplete
  | error

/-- Expect the `\n` of a `\r\n`. -/
def afterCr (r : Bytes) (k : Bytes → LineRes) : LineRes :=
  match r with
  | [] => .incomplete
  | b :: r' => if b == 10 then k r' else .error

def parseLine (bs : Bytes) : LineRes :=
  match bs with
  | [] => .incomplete
  | b :: r =>
    if b == 13 then afterCr r .done
    else if b == 10 then .done r
    else if !isNameTok b then .error
    else
      let name := bs.takeWhile isNameTok
      match bs.dropWhile isNameTok with
      | [] => .incomplete
      | c :: r2 =>
        if c != 58 then .error else
        match r2.dropWhile isSpTab with
        | [] => .incomplete
        | v :: r4 =>
          if isValueTok v then
            let r3 := v :: r4
            let value := r3.takeWhile isValueTok
            match r3.dropWhile isValueTok with
            | [] => .incomplete
            | e :: r6 =>
              if e == 13 then afterCr r6 (fun r7 => .header name (trimEnd value) r7)
              else if e == 10 then .header name (trimEnd value) r6
              else .error
          else if v == 13 then afterCr r4 (fun r5 => .header name [] r5)
          else if v == 10 then .header name [] r4
          else .error

def parseHeadersGo : Nat → Bytes → Nat → List (Bytes × Bytes) → HRes
  | 0, _, _, _ => .incomplete
  | fuel + 1, bs, total, hs =>
    match parseLine bs with
    | .done rest => .complete (total - rest.length) hs.reverse
    | .incomplete => .incomplete
    | .error => .error
    | .header n v rest =>
      if hs.length ≥ Gen.headerSlots then .error   -- TooManyHeaders
      else parseHeadersGo fuel rest total ((n, v) :: hs)

def parseHeadersModel (buf : Bytes) : HRes := parseHeadersGo (buf.length + 1) buf buf.length []

end Spl.Codec
