/-
  Model of `lsp4spl/src/features/formatting.rs` (`mod fmt`): every `Format` impl.
  Token slices are passed as `Slice`s like in the Rust code (`&tokens[x.offset..]`).
-/
import SplVerif.Model.Features

namespace Spl.Fmt
open Spl.Feat Spl.Parse

structure Options where
  indentSymbol : Char
  indentDepth : Nat

def Options.indentation (o : Options) : List Char := List.replicate o.indentDepth o.indentSymbol

/-- `str::lines()`: split at `\n`, strip one trailing `\r` per line, no empty last line. -/
def lines (s : List Char) : List (List Char) :=
  let rec go : List Char → List Char → List (List Char)
    | [], cur => if cur.isEmpty then [] else [cur.reverse]
    | c :: rest, cur => if c == '\n' then cur.reverse :: go rest [] else go rest (c :: cur)
  (go s []).map (fun l => match l.getLast? with
    | some '\r' => l.dropLast
    | _ => l)

/-- `indent(text, f)`. -/
def indent (s : List Char) (o : Options) : List Char :=
  (lines s).flatMap (fun l => o.indentation ++ l ++ ['\n'])

def commentStr (t : Token) : Option (List Char) :=
  if t.kind == .Comment then some (displayToken t.ty) else none

/-- `add_leading_comments`: the comment tokens at the start of the slice. -/
def addLeadingComments (text : List Char) (toks : List Token) : List Char :=
  ((toks.takeWhile (fun t => t.kind == .Comment)).flatMap (fun t => displayToken t.ty)) ++ text

/-- `add_all_comments`: every comment token of the slice. -/
def addAllComments (text : List Char) (toks : List Token) : List Char :=
  (toks.filterMap commentStr).flatten ++ text

def chars (s : String) : List Char := s.toList

abbrev R := Except Panic (List Char)

def sub (s : Slice) (r : Range) : Except Panic Slice :=
  match s.sub r with
  | some x => .ok x
  | none => .error ⟨"slice"⟩

def from' (s : Slice) (a : Nat) : Except Panic Slice :=
  match s.from a with
  | some x => .ok x
  | none => .error ⟨"slice"⟩

/-- `impl Format for AstInfo`: the tokens of the range, separated by blanks (none after a newline). -/
def fmtInfo (i : AstInfo) (toks : Slice) : R :=
  match sub toks i.range with
  | .error e => .error e
  | .ok s =>
    match s.toList.map (fun t => displayToken t.ty) with
    | [] => .ok []
    | first :: rest =>
      .ok (rest.foldl (fun acc t => if acc.getLast? == some '\n' then acc ++ t else acc ++ [' '] ++ t) first)

def fmtIntLit (l : IntLiteral) (toks : Slice) : R :=
  match sub toks l.info.range with
  | .error e => .error e
  | .ok s =>
    match s.toList.find? (fun t => t.kind == .Int || t.kind == .Hex || t.kind == .Char) with
    | some t => .ok (displayToken t.ty)
    | none => .error ⟨"expect:IntLiteral must contain a `Int`, `Hex` or `Char` token"⟩

mutual
  def fmtVar (toks : Slice) : Var → R
    | .named id => .ok id.value
    | .access a idx _ =>
      match fmtOptExpr toks idx with
      | .error e => .error e
      | .ok i =>
        match fmtVar toks a with
        | .error e => .error e
        | .ok av => .ok (av ++ ['['] ++ i ++ [']'])
  def fmtExpr (toks : Slice) : Expr → R
    | .binary op l r _ =>
      match fmtExpr toks l with
      | .error e => .error e
      | .ok ls =>
        match fmtExpr toks r with
        | .error e => .error e
        | .ok rs => .ok (ls ++ [' '] ++ op.symbol ++ [' '] ++ rs)
    | .bracketed e _ => (fmtExpr toks e).map (fun s => ['('] ++ s ++ [')'])
    | .intLit l => fmtIntLit l toks
    | .unary op e _ => (fmtExpr toks e).map (fun s => op.symbol ++ s)
    | .var v => fmtVar toks v
    | .error i => fmtInfo i toks
  /-- index of an array access: `inner.fmt(&tokens[inner.offset..])`, empty if absent -/
  def fmtOptExpr (toks : Slice) : OptExpr → R
    | .none => .ok []
    | .some e o =>
      match from' toks o with
      | .error p => .error p
      | .ok s => fmtExpr s e
end

def fmtRefExpr (toks : Slice) (r : Ref Expr) : R :=
  match from' toks r.offset with
  | .error p => .error p
  | .ok s => fmtExpr s r.val

def fmtOptRefExpr (toks : Slice) (r : Option (Ref Expr)) : R :=
  match r with
  | some r => fmtRefExpr toks r
  | none => .ok []

mutual
  def fmtType (toks : Slice) : TypeExpr → R
    | .named id => .ok id.value
    | .array size base _ =>
      let sz : R := match size with
        | some l => fmtIntLit l toks
        | none => .ok []
      match sz with
      | .error e => .error e
      | .ok s =>
        match base with
        | .none => .ok (chars "array [" ++ s ++ chars "] of")
        | .some t o =>
          match from' toks o with
          | .error p => .error p
          | .ok sl => (fmtType sl t).map (fun b => chars "array [" ++ s ++ chars "] of " ++ b)
end

def fmtOptRefType (toks : Slice) (r : Option (Ref TypeExpr)) : R :=
  match r with
  | some r =>
    match from' toks r.offset with
    | .error p => .error p
    | .ok s => fmtType s r.val
  | none => .ok []

def optIdent (n : Option Identifier) : List Char :=
  match n with
  | some i => i.value
  | none => []

def fmtTypeDecl (td : TypeDecl) (toks : Slice) : R :=
  match fmtOptRefType toks td.typeExpr with
  | .error e => .error e
  | .ok te =>
    let body := match td.name with
      | none => chars "type = " ++ te ++ chars ";\n"
      | some n => chars "type " ++ n.value ++ chars " = " ++ te ++ chars ";\n"
    (sub toks td.info.range).map (fun s => addLeadingComments body s.toList)

def fmtVarDecl (v : VarDecl) (toks : Slice) : R :=
  match v with
  | .valid _ n t _ => (fmtOptRefType toks t).map (fun te => chars "var " ++ optIdent n ++ chars ": " ++ te ++ chars ";\n")
  | .error i => fmtInfo i toks

def fmtParamDecl (p : ParamDecl) (toks : Slice) : R :=
  match p with
  | .valid _ isRef n t _ =>
    (fmtOptRefType toks t).map (fun te => (if isRef then chars "ref " else []) ++ optIdent n ++ chars ": " ++ te)
  | .error i => fmtInfo i toks

def fmtAssignment (a : Assignment) (toks : Slice) : R :=
  match fmtOptRefExpr toks a.expr with
  | .error e => .error e
  | .ok ex => (fmtVar toks a.target).map (fun v => v ++ chars " := " ++ ex ++ chars ";\n")

def joinSep (sep : List Char) : List (List Char) → List Char
  | [] => []
  | [x] => x
  | x :: xs => x ++ sep ++ joinSep sep xs

def fmtCall (c : CallStmt) (toks : Slice) : R :=
  match c.args.mapM (fmtRefExpr toks) with
  | .error e => .error e
  | .ok as => .ok (c.name.value ++ ['('] ++ joinSep (chars ", ") as ++ chars ");\n")

/-- `impl Format for IfStatement`, the assembly: `cond` first, then the branches (the then-branch ends the line
    when there is no `else`, otherwise it ends with a blank), then the leading comments of the statement's tokens. -/
def ifAssemble (cond : R) (bNl bSp : R) (el : Option (Bool × R)) (sl : Except Panic Slice) : R :=
  match cond with
  | .error p => .error p
  | .ok cond =>
    let body : R := match el with
      | none => bNl.map (fun b => chars "if (" ++ cond ++ [')'] ++ b)
      | some (true, ei) =>
        match bSp with
        | .error p => .error p
        | .ok b => ei.map (fun ei => chars "if (" ++ cond ++ [')'] ++ b ++ chars "else " ++ ei)
      | some (false, eb) =>
        match bSp with
        | .error p => .error p
        | .ok b => eb.map (fun eb => chars "if (" ++ cond ++ [')'] ++ b ++ chars "else" ++ eb)
    match body, sl with
    | .ok s, .ok sl => .ok (addLeadingComments s sl.toList)
    | .error p, _ => .error p
    | _, .error p => .error p

mutual
  def fmtStmt (o : Options) (toks : Slice) : Stmt → R
    | .assign a =>
      match fmtAssignment a toks, sub toks a.info.range with
      | .ok s, .ok sl => .ok (addAllComments s sl.toList)
      | .error e, _ => .error e
      | _, .error e => .error e
    | .block ss i =>
      match sub toks i.range with
      | .error e => .error e
      | .ok sl =>
        match ss with
        | .nil => .ok (addLeadingComments (chars "{}\n") sl.toList)
        | _ =>
          match fmtStmtList o toks ss with
          | .error e => .error e
          | .ok body => .ok (addLeadingComments (chars "{\n" ++ indent body o ++ chars "}\n") sl.toList)
    | .call c =>
      match fmtCall c toks, sub toks c.info.range with
      | .ok s, .ok sl => .ok (addAllComments s sl.toList)
      | .error e, _ => .error e
      | _, .error e => .error e
    | .ifS c t e i =>
      -- all recursive calls first (pure values), the assembly is `ifAssemble` (same precedence of failures)
      let bNl := fmtBranch o toks t '\n'
      let bSp := fmtBranch o toks t ' '
      let el : Option (Bool × R) := match e with
        | .none => none
        | .some (.ifS c2 t2 e2 i2) off =>
          some (true, match from' toks off with
            | .error p => .error p
            | .ok sl => fmtStmt o sl (.ifS c2 t2 e2 i2))
        | .some s off => some (false, fmtBranch o toks (.some s off) '\n')
      ifAssemble (fmtOptRefExpr toks c) bNl bSp el (sub toks i.range)
    | .whileS c b i =>
      match fmtOptRefExpr toks c with
      | .error p => .error p
      | .ok cond =>
        match fmtBranch o toks b '\n', sub toks i.range with
        | .ok br, .ok sl => .ok (addLeadingComments (chars "while (" ++ cond ++ [')'] ++ br) sl.toList)
        | .error p, _ => .error p
        | _, .error p => .error p
    | .empty i => (sub toks i.range).map (fun sl => addAllComments (chars ";\n") sl.toList)
    | .error i => (fmtInfo i toks).map (fun s => s ++ ['\n'])

  /-- concatenation of `stmt.fmt(&tokens[stmt.offset..])` -/
  def fmtStmtList (o : Options) (toks : Slice) : StmtList → R
    | .nil => .ok []
    | .cons s off rest =>
      match from' toks off with
      | .error p => .error p
      | .ok sl =>
        match fmtStmt o sl s with
        | .error p => .error p
        | .ok a => (fmtStmtList o toks rest).map (fun b => a ++ b)

  /-- `fmt_branch(branch, tokens, f, ending)` -/
  def fmtBranch (o : Options) (toks : Slice) : OptStmt → Char → R
    | .none, ending => .ok [ending]
    | .some s off, ending =>
      match from' toks off with
      | .error p => .error p
      | .ok sl =>
        match s with
        | .block .nil _ => .ok (chars " {}\n")
        | .block ss _ => (fmtStmtList o sl ss).map (fun body => chars " {\n" ++ indent body o ++ ['}', ending])
        | other => (fmtStmt o sl other).map (fun st => ['\n'] ++ indent st o)
end

def sliceOfInfo (toks : Slice) (i : AstInfo) : Except Panic (List Token) := (sub toks i.range).map Slice.toList

def containsSlashes (s : List Char) : Bool :=
  let rec go : List Char → Bool
    | '/' :: '/' :: _ => true
    | _ :: r => go r
    | [] => false
  go s

def fmtProcDecl (o : Options) (pd : ProcDecl) (toks : Slice) : R :=
  let name := optIdent pd.name
  let paramVec : Except Panic (List (List Char)) := pd.params.mapM (fun (prm : Ref ParamDecl) =>
    match from' toks prm.offset with
    | .error p => .error p
    | .ok sl =>
      match fmtParamDecl prm.val sl, sliceOfInfo sl prm.val.info with
      | .ok s, .ok ts => .ok (addAllComments s ts)
      | .error p, _ => .error p
      | _, .error p => .error p)
  match paramVec with
  | .error p => .error p
  | .ok pv =>
    let params : List Char :=
      if pv.isEmpty then []
      else if pv.length > 3 || pv.any containsSlashes then ['\n'] ++ indent (joinSep (chars ",\n") pv) o
      else joinSep (chars ", ") pv
    let varDecs : R := (pd.vars.mapM (fun (v : Ref VarDecl) =>
      match from' toks v.offset with
      | .error p => (Except.error p : R)
      | .ok sl =>
        match fmtVarDecl v.val sl, sliceOfInfo sl v.val.info with
        | .ok s, .ok ts => Except.ok (addAllComments s ts)
        | .error p, _ => Except.error p
        | _, .error p => Except.error p)).map List.flatten
    match varDecs with
    | .error p => .error p
    | .ok vds =>
      let vds := indent vds o
      match fmtStmtList o toks (StmtList.ofList pd.stmts) with
      | .error p => .error p
      | .ok ss =>
        let ss := indent ss o
        let head := chars "proc " ++ name ++ ['('] ++ params ++ chars ") {"
        let body : List Char := match vds.isEmpty, ss.isEmpty with
          | true, true => head ++ chars "}\n"
          | true, false => head ++ ['\n'] ++ ss ++ chars "}\n"
          | false, true => head ++ ['\n'] ++ vds ++ chars "}\n"
          | false, false => head ++ ['\n'] ++ vds ++ ['\n'] ++ ss ++ chars "}\n"
        (sliceOfInfo toks pd.info).map (fun ts => addLeadingComments body ts)

def fmtGlobalDecl (o : Options) (g : GlobalDecl) (toks : Slice) : R :=
  match g with
  | .type td => fmtTypeDecl td toks
  | .proc pd => fmtProcDecl o pd toks
  | .error i => fmtInfo i toks

/-- `impl Format for Program`: declarations separated by one empty line. -/
def fmtProgram (o : Options) (p : Program) (toks : Array Token) : R :=
  match p.decls.mapM (fun (gd : Ref GlobalDecl) =>
      match from' (Slice.full toks) gd.offset with
      | .error e => (Except.error e : R)
      | .ok sl => fmtGlobalDecl o gd.val sl) with
  | .error e => .error e
  | .ok ds => .ok (joinSep ['\n'] ds)

/-- `features::format`: `none` = `null` (nothing would change); otherwise the single edit
    (whole-document range, new text). -/
def format (d : AnalyzedSource) (insertSpaces : Bool) (tabSize : Nat) : Except Panic (Option (PosRange × List Char)) :=
  let o : Options := if insertSpaces then ⟨' ', tabSize⟩ else ⟨'\t', 1⟩
  match fmtProgram o d.ast d.tokens.toArray with
  | .error e => .error e
  | .ok newText =>
    if newText == d.text then .ok none
    else .ok (some (asPosRange ⟨0, utf8Len d.text⟩ d.text, newText))

end Spl.Fmt
