/- Types shared by the generated RPC tables and the lifecycle model. -/
namespace Spl

inductive ErrCode where
  | ServerNotInitialized | InvalidRequest | MethodNotFound
  deriving DecidableEq, Repr

/-- What a request arm of the main phase does. -/
inductive ReqAction where
  | error (c : ErrCode)
  | shutdown
  | feature (handler : String)
  deriving DecidableEq, Repr

/-- What a notification arm of the main phase does. -/
inductive NoteAction where
  | doc (handler : String)
  | exit
  | drop
  deriving DecidableEq, Repr

end Spl
