/- Types of the generated parser tables. -/
import SplVerif.Model.Basic
namespace Spl

/-- Names of the `look_ahead_parser!` sets of `parser.rs`. -/
inductive LAName where
  | global_dec | stmt | var_dec | param_dec | arg
  deriving DecidableEq, Repr

/-- One alternative of a look-ahead set. -/
inductive LAItem where
  | tok (k : Kind)                 -- a `tag_parser!` instance
  | identThen (ks : List Kind)     -- `pair(Identifier::parse, alt((…)))`
  | sub (n : LAName)               -- another look-ahead set
  deriving DecidableEq, Repr

end Spl
