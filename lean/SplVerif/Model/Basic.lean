/-
  Basic data of the model: text, ranges, diagnostics messages, tokens.
  Text is `List Char` everywhere; offsets are UTF-8 byte offsets (as in the Rust code),
  computed as sums of `Char.utf8Size`.
  Constructor names of `TokenType` and `Msg` are exactly the Rust variant names, so the
  generated tables (`SplVerif/Gen/*.lean`) can refer to them literally.
-/
namespace Spl

/-- Byte length of a text in UTF-8. -/
def utf8Len : List Char → Nat
  | [] => 0
  | c :: cs => c.utf8Size + utf8Len cs

@[simp] theorem utf8Len_nil : utf8Len [] = 0 := rfl
@[simp] theorem utf8Len_cons (c : Char) (cs : List Char) :
    utf8Len (c :: cs) = c.utf8Size + utf8Len cs := rfl

theorem utf8Len_append (a b : List Char) : utf8Len (a ++ b) = utf8Len a + utf8Len b := by
  induction a with
  | nil => simp
  | cons c cs ih => simp [ih, Nat.add_assoc]

theorem utf8Size_pos (c : Char) : 0 < c.utf8Size := by
  have := Char.utf8Size_pos c; omega

/-- Half-open range `lo..hi` (Rust `Range<usize>`). -/
structure Range where
  lo : Nat
  hi : Nat
  deriving DecidableEq, Repr, Inhabited

def Range.shift (r : Range) (d : Nat) : Range := ⟨r.lo + d, r.hi + d⟩
def Range.len (r : Range) : Nat := r.hi - r.lo
def Range.isEmpty (r : Range) : Bool := r.hi ≤ r.lo
def Range.contains (r : Range) (i : Nat) : Bool := r.lo ≤ i && i < r.hi

/-- All diagnostic messages of `spl_frontend/src/error.rs` (four Rust enums merged). -/
inductive Msg where
  -- LexErrorMessage
  | MissingClosingTick
  | ExpectedHexNumber
  | InvalidIntLit (s : List Char)
  -- ParseErrorMessage
  | MissingOpening (c : Char)
  | MissingClosing (c : Char)
  | MissingTrailingSemic
  | UnexpectedCharacters (s : List Char)
  | ExpectedToken (s : List Char)
  | ConfusedToken (expected got : List Char)
  -- BuildErrorMessage
  | UndefinedType (s : List Char)
  | NotAType (s : List Char)
  | RedeclarationAsType (s : List Char)
  | MustBeAReferenceParameter (s : List Char)
  | RedeclarationAsProcedure (s : List Char)
  | RedeclarationAsParameter (s : List Char)
  | RedeclarationAsVariable (s : List Char)
  | MainIsMissing
  | MainIsNotAProcedure
  | MainMustNotHaveParameters
  -- SemanticErrorMessage
  | AssignmentHasDifferentTypes
  | AssignmentRequiresIntegers
  | IfConditionMustBeBoolean
  | WhileConditionMustBeBoolean
  | UndefinedProcedure (s : List Char)
  | CallOfNoneProcedure (s : List Char)
  | ArgumentsTypeMismatch (s : List Char) (i : Nat)
  | ArgumentMustBeAVariable (s : List Char) (i : Nat)
  | TooFewArguments (s : List Char)
  | TooManyArguments (s : List Char)
  | OperatorDifferentTypes
  | ComparisonNonInteger
  | ArithmeticOperatorNonInteger
  | UndefinedVariable (s : List Char)
  | NotAVariable (s : List Char)
  | IndexingNonArray
  | IndexingWithNonInteger
  deriving DecidableEq, Repr, Inhabited

inductive MsgClass where
  | lex | parse | build | semantic
  deriving DecidableEq, Repr

def Msg.cls : Msg → MsgClass
  | .MissingClosingTick | .ExpectedHexNumber | .InvalidIntLit _ => .lex
  | .MissingOpening _ | .MissingClosing _ | .MissingTrailingSemic | .UnexpectedCharacters _
  | .ExpectedToken _ | .ConfusedToken _ _ => .parse
  | .UndefinedType _ | .NotAType _ | .RedeclarationAsType _ | .MustBeAReferenceParameter _
  | .RedeclarationAsProcedure _ | .RedeclarationAsParameter _ | .RedeclarationAsVariable _
  | .MainIsMissing | .MainIsNotAProcedure | .MainMustNotHaveParameters => .build
  | _ => .semantic

/-- `SplError(range, message)`. -/
structure SplError where
  range : Range
  msg : Msg
  deriving DecidableEq, Repr, Inhabited

def SplError.shift (e : SplError) (d : Nat) : SplError := { e with range := e.range.shift d }

inductive IntResult where
  | Int (n : Nat)
  | Err (s : List Char)
  deriving DecidableEq, Repr, Inhabited

inductive TokenType where
  | LParen | RParen | LBracket | RBracket | LCurly | RCurly
  | Eq | Neq | Lt | Le | Gt | Ge | Assign | Colon | Comma | Semic
  | Plus | Minus | Times | Divide
  | If | Else | While | Array | Of | Proc | Ref | Type | Var
  | Ident (s : List Char)
  | Char (c : Char)
  | Int (r : IntResult)
  | Hex (r : IntResult)
  | Comment (s : List Char)
  | Unknown (s : List Char)
  | Eof
  deriving DecidableEq, Repr, Inhabited

/-- The payload-free tag of a token type (used by tables). -/
inductive Kind where
  | LParen | RParen | LBracket | RBracket | LCurly | RCurly
  | Eq | Neq | Lt | Le | Gt | Ge | Assign | Colon | Comma | Semic
  | Plus | Minus | Times | Divide
  | If | Else | While | Array | Of | Proc | Ref | Type | Var
  | Ident | Char | Int | Hex | Comment | Unknown | Eof
  deriving DecidableEq, Repr, Inhabited

def TokenType.kind : TokenType → Kind
  | .LParen => .LParen | .RParen => .RParen | .LBracket => .LBracket | .RBracket => .RBracket
  | .LCurly => .LCurly | .RCurly => .RCurly | .Eq => .Eq | .Neq => .Neq | .Lt => .Lt
  | .Le => .Le | .Gt => .Gt | .Ge => .Ge | .Assign => .Assign | .Colon => .Colon
  | .Comma => .Comma | .Semic => .Semic | .Plus => .Plus | .Minus => .Minus
  | .Times => .Times | .Divide => .Divide | .If => .If | .Else => .Else | .While => .While
  | .Array => .Array | .Of => .Of | .Proc => .Proc | .Ref => .Ref | .Type => .Type
  | .Var => .Var | .Ident _ => .Ident | .Char _ => .Char | .Int _ => .Int | .Hex _ => .Hex
  | .Comment _ => .Comment | .Unknown _ => .Unknown | .Eof => .Eof

/-- Payload-free token types from their tag (`none` for the payload-carrying ones). -/
def Kind.plain : Kind → Option TokenType
  | .LParen => some .LParen | .RParen => some .RParen | .LBracket => some .LBracket
  | .RBracket => some .RBracket | .LCurly => some .LCurly | .RCurly => some .RCurly
  | .Eq => some .Eq | .Neq => some .Neq | .Lt => some .Lt | .Le => some .Le | .Gt => some .Gt
  | .Ge => some .Ge | .Assign => some .Assign | .Colon => some .Colon | .Comma => some .Comma
  | .Semic => some .Semic | .Plus => some .Plus | .Minus => some .Minus | .Times => some .Times
  | .Divide => some .Divide | .If => some .If | .Else => some .Else | .While => some .While
  | .Array => some .Array | .Of => some .Of | .Proc => some .Proc | .Ref => some .Ref
  | .Type => some .Type | .Var => some .Var | .Eof => some .Eof
  | _ => none

structure Token where
  ty : TokenType
  range : Range
  errors : List SplError := []
  deriving DecidableEq, Repr, Inhabited

def Token.kind (t : Token) : Kind := t.ty.kind

def Token.isComment (t : Token) : Bool := t.kind == .Comment

/-- A Rust panic, canonicalised to a short site description. -/
structure Panic where
  site : String
  deriving Repr, DecidableEq, Inhabited

end Spl

namespace Spl

/-- One alternative of the lexer's top-level `alt` (`impl Lexer for Token`), in source order.
    The list itself is generated (`Gen.altOrder`). -/
inductive AltItem where
  | comment | symbol (k : Kind) | keyword (k : Kind) | char | hex | int | ident | unknown
  deriving DecidableEq, Repr

end Spl
