import SplVerif.Driver.OpsLex
import SplVerif.Driver.OpsDoc
import SplVerif.Driver.OpsRpc
import SplVerif.Driver.OpsCodec
import SplVerif.Driver.OpsNet
import SplVerif.Driver.OpsParse
import SplVerif.Driver.OpsFeat
import SplVerif.Driver.OpsSpec
import SplVerif.Driver.OpsFmtSpec
open Spl Spl.Wire Spl.Ops

/-- One input line = `<op> <args...>` optionally followed by a TAB and the implementation's
    answer (used by JUDGE ops). One output line per input line; never a default. -/
def answer (line : String) : String :=
  let line := (line.dropEndWhile (fun c => c == '\n' || c == '\r')).toString
  let (caseLine, impl) := match line.splitOn "\t" with
    | [c, i] => (c, i)
    | [c] => (c, "")
    | _ => ("", "")
  match caseLine.splitOn " " with
  | op :: args =>
    match (lexOps op args impl <|> docOps op args impl <|> rpcOps op args impl <|> codecOps op args impl <|> netOps op args impl <|> parseOps op args impl <|> featOps op args impl <|> specOps op args impl <|> fmtSpecOps op args impl) with
    | some r => r
    | none => "bad-op"
  | [] => "bad-op"

partial def loop (h : IO.FS.Stream) (out : IO.FS.Stream) : IO Unit := do
  let line ← h.getLine
  if line.isEmpty then return ()
  out.putStrLn (answer line)
  loop h out

def main : IO Unit := do
  let out ← IO.getStdout
  loop (← IO.getStdin) out
