import SplVerif.Model.Basic
import SplVerif.Model.Lexer
