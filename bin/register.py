import json,sys
def register(pid, text, note, technique, findings=()):
    m=json.load(open('/verif/MANIFEST.json'))
    m['checks']=[c for c in m['checks'] if c['property_id']!=pid]
    m['checks'].append({"property_id":pid,"quick_cmd":f"bin/check {pid} --tier quick","thorough_cmd":f"bin/check {pid} --tier thorough",
     "evidence_file":f"/verif/evidence/{pid}.json","replay_cmd_template":f"bin/check {pid} --replay {{path}}","engine":"lean-model+correspondence",
     "level_claimed":{"category":"proof","text":text,"design_ref":f"DESIGN.md §5 {pid}"},
     "level_note":note,"technique":technique})
    m['checks'].sort(key=lambda c:c['property_id'])
    m['not_applicable']=[x for x in m['not_applicable'] if x['property_id']!=pid]
    if pid not in m['engines'][0]['serves_properties']: m['engines'][0]['serves_properties'].append(pid)
    json.dump(m,open('/verif/MANIFEST.json','w'),indent=1)
    if findings:
        kf=json.load(open('/verif/known_findings.json'))
        ids={f['id'] for f in kf['findings']}
        for f in findings:
            if f['id'] not in ids: kf['findings'].append(f)
        json.dump(kf,open('/verif/known_findings.json','w'),indent=1,ensure_ascii=False)
