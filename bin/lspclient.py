"""Minimal LSP stdio client for driving the built lsp4spl binary under controlled write
segmentation.  Used by the binary-level parts of C02, C08, C18, C19, C20."""
import json
import os
import subprocess
import threading
import time

from common import BINARY as _BIN

BINARY = os.environ.get("LSP4SPL_BIN", _BIN)


def frame(obj_or_bytes, style=0):
    """style 0: the usual header; 1: Content-Type before Content-Length; 2: Content-Type after it;
    4: no blank after the colon (all legal, all accepted by the unchanged server)"""
    body = obj_or_bytes if isinstance(obj_or_bytes, bytes) else json.dumps(obj_or_bytes, ensure_ascii=False, separators=(",", ":")).encode("utf-8")
    n = str(len(body)).encode()
    if style == 1:
        head = b"Content-Type: application/vscode-jsonrpc; charset=utf-8\r\nContent-Length: " + n
    elif style == 2:
        head = b"Content-Length: " + n + b"\r\nContent-Type: application/vscode-jsonrpc; charset=utf-8"
    elif style == 4:
        head = b"Content-Length:" + n
    else:
        head = b"Content-Length: " + n
    return head + b"\r\n\r\n" + body


def request(id_, method, params=None):
    m = {"jsonrpc": "2.0", "id": id_, "method": method}
    if params is not None:
        m["params"] = params
    return m


def notification(method, params=None):
    m = {"jsonrpc": "2.0", "method": method}
    if params is not None:
        m["params"] = params
    return m


def parse_frames(data):
    """Parse the server's stdout; returns (messages, problems). Checks Content-Length == byte length."""
    msgs, problems = [], []
    i = 0
    while i < len(data):
        j = data.find(b"\r\n\r\n", i)
        if j < 0:
            problems.append(f"trailing bytes without header end at {i}")
            break
        header = data[i:j].decode("ascii", "replace")
        n = None
        for line in header.split("\r\n"):
            if line.lower().startswith("content-length:"):
                try:
                    n = int(line.split(":", 1)[1].strip())
                except ValueError:
                    problems.append(f"bad length {line!r}")
        if n is None:
            problems.append(f"no Content-Length in {header!r}")
            break
        body = data[j + 4:j + 4 + n]
        if len(body) < n:
            problems.append(f"body truncated: want {n} have {len(body)}")
            break
        try:
            msgs.append(json.loads(body.decode("utf-8")))
        except Exception as e:  # Content-Length not matching the JSON body shows up here
            problems.append(f"body is not JSON of the announced length: {e}")
            break
        i = j + 4 + n
    return msgs, problems


def run_session(chunks, close_stdin=True, timeout=10.0, delay=0.0, binary=None, workers="4", read_after=None):
    """Write `chunks` (list of bytes) to the server, one write+flush per chunk (optional delay
    between writes), then close stdin. Returns dict(stdout, messages, problems, rc, wall, timed_out).
    `read_after` = a slow client: the server's stdout is not read until everything has been written
    or `read_after` seconds have passed, whichever comes first (back-pressure reaches the server)."""
    env = dict(os.environ)
    # error reports of the server symbolise a backtrace of the debug binary (~1 s CPU); not needed
    env["RUST_BACKTRACE"] = "0"
    env["RUST_LIB_BACKTRACE"] = "0"
    if workers:
        env.setdefault("TOKIO_WORKER_THREADS", workers)  # still the multi-threaded runtime
    p = subprocess.Popen([binary or BINARY], stdin=subprocess.PIPE, stdout=subprocess.PIPE, stderr=subprocess.PIPE, env=env)
    out = bytearray()
    err = bytearray()

    go = threading.Event()
    if read_after is None:
        go.set()

    def rd(stream, buf):
        if stream is p.stdout:
            go.wait(read_after)
        while True:
            b = stream.read(65536)
            if not b:
                break
            buf.extend(b)

    t1 = threading.Thread(target=rd, args=(p.stdout, out), daemon=True)
    t2 = threading.Thread(target=rd, args=(p.stderr, err), daemon=True)
    t1.start(); t2.start()
    t0 = time.time()
    try:
        for c in chunks:
            if not c:
                continue
            p.stdin.write(c)
            p.stdin.flush()
            if delay:
                time.sleep(delay)
    except (BrokenPipeError, OSError):
        pass
    t_written = time.time()
    go.set()
    if close_stdin:
        try:
            p.stdin.close()
        except OSError:
            pass
    timed_out = False
    try:
        rc = p.wait(timeout=timeout)
    except subprocess.TimeoutExpired:
        timed_out = True
        p.kill()
        rc = p.wait()
    t1.join(2); t2.join(2)
    msgs, problems = parse_frames(bytes(out))
    return {"stdout": bytes(out), "stderr": bytes(err)[-2000:].decode("utf-8", "replace"), "messages": msgs,
            "problems": problems, "rc": rc, "wall": time.time() - t0, "exit_latency": time.time() - t_written,
            "timed_out": timed_out}


def run_session_wait(main_chunk, end_chunk, want_ids, wait=10.0, read_after=None, timeout=30.0, binary=None, workers="4"):
    """Write `main_chunk`, optionally keep the server's stdout unread for `read_after` seconds, then read and wait
    (at most `wait` seconds, nothing more is sent meanwhile) until a response for every id of `want_ids` has arrived;
    only then write `end_chunk` (shutdown / exit) and close stdin.  `missing_before_end` lists the ids that were
    not answered before the end chunk was sent: a server that answers them only after further input has held them back."""
    env = dict(os.environ)
    env["RUST_BACKTRACE"] = "0"
    env["RUST_LIB_BACKTRACE"] = "0"
    if workers:
        env.setdefault("TOKIO_WORKER_THREADS", workers)
    p = subprocess.Popen([binary or BINARY], stdin=subprocess.PIPE, stdout=subprocess.PIPE, stderr=subprocess.PIPE, env=env)
    out = bytearray()
    err = bytearray()
    lock = threading.Lock()
    go = threading.Event()
    if read_after is None:
        go.set()

    def rd(stream, buf):
        if stream is p.stdout:
            go.wait()
        while True:
            b = stream.read1(65536) if hasattr(stream, "read1") else stream.read(65536)
            if not b:
                break
            with lock:
                buf.extend(b)

    t1 = threading.Thread(target=rd, args=(p.stdout, out), daemon=True)
    t2 = threading.Thread(target=rd, args=(p.stderr, err), daemon=True)
    t1.start(); t2.start()
    t0 = time.time()

    def wr():
        try:
            p.stdin.write(main_chunk)
            p.stdin.flush()
        except (BrokenPipeError, OSError):
            pass

    tw = threading.Thread(target=wr, daemon=True)
    tw.start()
    if read_after is not None:
        time.sleep(read_after)
        go.set()
    tw.join(timeout)
    want = set(want_ids)
    deadline = time.time() + wait
    seen = set()
    while time.time() < deadline:
        with lock:
            snap = bytes(out)
        msgs, _ = parse_frames(snap)
        seen = {m.get("id") for m in msgs if "id" in m and "method" not in m}
        if want <= seen:
            break
        time.sleep(0.05)
    missing = sorted(want - seen, key=str)
    try:
        p.stdin.write(end_chunk)
        p.stdin.flush()
        p.stdin.close()
    except (BrokenPipeError, OSError):
        pass
    timed_out = False
    try:
        rc = p.wait(timeout=timeout)
    except subprocess.TimeoutExpired:
        timed_out = True
        p.kill()
        rc = p.wait()
    t1.join(2); t2.join(2)
    msgs, problems = parse_frames(bytes(out))
    return {"stdout": bytes(out), "stderr": bytes(err)[-2000:].decode("utf-8", "replace"), "messages": msgs,
            "problems": problems, "rc": rc, "wall": time.time() - t0, "timed_out": timed_out, "missing_before_end": missing}
