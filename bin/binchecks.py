"""Binary-level case producers: drive the built lsp4spl binary (lspclient) and return
(case_line, implementation_answer) pairs for the Lean driver, plus direct violations."""
import itertools
import json
import random
from concurrent.futures import ThreadPoolExecutor

import lspclient as lc

URI = "file:///verif/x.spl"
DOC = "proc main() {\n    printi(1);\n}\n"

INIT_PARAMS = {"capabilities": {}}
INIT_PARAMS_DIAG = {"capabilities": {"textDocument": {"publishDiagnostics": {}}}}

SUPPORTED = [
    ("textDocument/foldingRange", {"textDocument": {"uri": URI}}),
    ("textDocument/hover", {"textDocument": {"uri": URI}, "position": {"line": 1, "character": 5}}),
    ("textDocument/declaration", {"textDocument": {"uri": URI}, "position": {"line": 1, "character": 5}}),
    ("textDocument/semanticTokens/full", {"textDocument": {"uri": URI}}),
    ("textDocument/completion", {"textDocument": {"uri": URI}, "position": {"line": 1, "character": 0}}),
    ("textDocument/formatting", {"textDocument": {"uri": URI}, "options": {"tabSize": 4, "insertSpaces": True}}),
    ("textDocument/references", {"textDocument": {"uri": URI}, "position": {"line": 0, "character": 6},
                                 "context": {"includeDeclaration": True}}),
    ("textDocument/prepareRename", {"textDocument": {"uri": URI}, "position": {"line": 0, "character": 6}}),
]
UNKNOWN_REQ = ["workspace/symbol", "foo/bar", "textDocument/documentHighlight"]
UNKNOWN_NOTE = ["$/setTrace", "foo/note", "workspace/didChangeConfiguration"]


def letter_message(letter, next_id, rng):
    """-> (json message, case token)"""
    if letter == "I":
        return lc.request(next_id, "initialize", INIT_PARAMS), f"R{next_id}:initialize"
    if letter == "J":
        return lc.notification("initialized", {}), "N:initialized"
    if letter == "Q":
        m, p = SUPPORTED[rng.randrange(len(SUPPORTED))]
        return lc.request(next_id, m, p), f"R{next_id}:{m}"
    if letter == "U":
        m = UNKNOWN_REQ[rng.randrange(len(UNKNOWN_REQ))]
        return lc.request(next_id, m, {}), f"R{next_id}:{m}"
    if letter == "D":
        return lc.notification("textDocument/didOpen", {"textDocument": {"uri": URI, "languageId": "spl", "version": 1, "text": DOC}}), "N:textDocument/didOpen"
    if letter == "N":
        m = UNKNOWN_NOTE[rng.randrange(len(UNKNOWN_NOTE))]
        return lc.notification(m, {}), f"N:{m}"
    if letter == "S":
        return lc.request(next_id, "shutdown"), f"R{next_id}:shutdown"
    if letter == "X":
        return lc.notification("exit"), "N:exit"
    raise ValueError(letter)


def build_session(letters, rng):
    msgs, toks = [], []
    nid = 1
    for l in letters:
        m, t = letter_message(l, nid, rng)
        if "id" in m:
            nid += rng.choice([1, 1, 2, 7])
        msgs.append(m)
        toks.append(t)
    return msgs, toks


def canon_responses(result):
    outs = []
    for m in result["messages"]:
        if "id" in m and "method" not in m:
            if "error" in m:
                outs.append(f"R{m['id']}:{m['error'].get('code')}")
            else:
                outs.append(f"R{m['id']}:ok" if "result" in m else f"R{m['id']}:malformed")
    return " ".join(outs) + f" ; exit={result['rc']}"


def c18_cases(run):
    """All sequences over the 8-letter alphabet up to a bound (exhaustive), plus random longer
    ones; each followed by end of input.  Also: every byte prefix of a few sessions + EOF must
    terminate within the time bound."""
    rng = random.Random(run.seed)
    thorough = run.tier == "thorough"
    letters = "IJQUDNSX"
    max_len = 5 if thorough else 4
    seqs = [""]
    for n in range(1, max_len + 1):
        seqs += ["".join(p) for p in itertools.product(letters, repeat=n)]
    for _ in range(3000 if thorough else 400):
        n = rng.randrange(max_len + 1, 13)
        # bias towards well-formed prefixes so that the main and shutdown phases are reached
        pre = rng.choice(["", "IJ", "IJ", "IJD", "I", "IJS"])
        seqs.append(pre + "".join(rng.choice(letters) for _ in range(n - len(pre))))
    sessions = [build_session(s, rng) for s in seqs]
    violations = []

    def one(sess):
        msgs, toks = sess
        data = b"".join(lc.frame(m) for m in msgs)
        r = lc.run_session([data], timeout=10.0)
        return r

    pairs = []
    with ThreadPoolExecutor(max_workers=16) as ex:
        results = list(ex.map(one, sessions))
    for (msgs, toks), r, s in zip(sessions, results, seqs):
        line = "RPC " + " ".join(toks) if toks else "RPC"
        if r["timed_out"]:
            violations.append(("hang", line, "server did not terminate within 10 s after end of input", "", "hang"))
            continue
        if r["problems"]:
            violations.append(("frames", line, "; ".join(r["problems"]), "", "malformed output frames"))
            continue
        ans = canon_responses(r)
        pairs.append((line, ans))
        pairs.append(("SPEC" + line, ans))
    run.stats_extra["c18_sessions"] = len(sessions)
    run.stats_extra["c18_exhaustive_max_len"] = max_len
    # prefixes + EOF: termination (promptness bound 5 s; typical 10-30 ms)
    pref_sessions = ["IJDQUSX", "IJQQD", "IQJDQNSQX"] if not thorough else ["IJDQUSX", "IJQQD", "IQJDQNSQX", "IJDDDQQQ", "UIJSX", "IJDQ"]
    jobs = []
    for s in pref_sessions:
        msgs, toks = build_session(s, rng)
        data = b"".join(lc.frame(m) for m in msgs)
        stride = 1 if thorough else 5
        for k in range(0, len(data) + 1, stride):
            jobs.append((s, k, data[:k]))

    def pref(job):
        s, k, d = job
        return lc.run_session([d], timeout=5.0)

    with ThreadPoolExecutor(max_workers=16) as ex:
        pres = list(ex.map(pref, jobs))
    worst = 0.0
    for (s, k, d), r in zip(jobs, pres):
        worst = max(worst, r["exit_latency"])
        if r["timed_out"]:
            violations.append(("hang", f"PREFIX {s} {k} {d.hex()}", "server hangs after end of input at this byte prefix", "", "hang"))
    run.stats_extra["c18_prefix_runs"] = len(jobs)
    run.stats_extra["c18_worst_exit_latency_s"] = round(worst, 3)
    return pairs, violations
