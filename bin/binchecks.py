"""Binary-level case producers: drive the built lsp4spl binary (lspclient) and return
(case_line, implementation_answer) pairs for the Lean driver, plus direct violations."""
import itertools
import zlib
import json
import random
from concurrent.futures import ThreadPoolExecutor

import lspclient as lc

URI = "file:///verif/x.spl"
DOC = "proc main() {\n    var cnt: int;\n    cnt := 1;\n    printi(cnt);\n}\n"

# a document whose analysis takes seconds (debug build): requests pipelined behind it wait for the broker
CORNER_TEXTS = ["proc main() {}\n// €", "//ä", "", "\r", "é", "proc main() {}\r", "\ufeffproc main() {}", "proc main() {\n  x := '€';\n}\n// 😀",
                "type t = array [2] of int;\r\nproc p(ref a: t) { a[0] := 1; }\r\n// ende é"]
BIG_DOC = "".join("proc p%d(a: int) {\n  var x: int;\n  x := a + %d;\n  printi(x);\n}\n" % (i, i) for i in range(8000)) + "proc main() { }\n"

INIT_PARAMS = {"capabilities": {}}
INIT_PARAMS_DIAG = {"capabilities": {"textDocument": {"publishDiagnostics": {}}}}
# clients that did NOT announce publishDiagnostics, in several shapes (a `textDocument` object alone is no
# announcement), and clients that did
INIT_NODIAG_VARIANTS = [
    {"capabilities": {}},
    {"capabilities": {"textDocument": {}}},
    {"capabilities": {"textDocument": {"hover": {"contentFormat": ["markdown", "plaintext"]}, "synchronization": {"didSave": True}}}},
    {"capabilities": {"workspace": {"applyEdit": True}, "general": {"positionEncodings": ["utf-16"]}}},
    {"processId": None, "rootUri": None, "capabilities": {"textDocument": {"completion": {"completionItem": {"snippetSupport": True}}}}},
]
INIT_DIAG_VARIANTS = [
    {"capabilities": {"textDocument": {"publishDiagnostics": {}}}},
    {"capabilities": {"textDocument": {"publishDiagnostics": {"relatedInformation": True, "versionSupport": False}, "hover": {}}}},
]

SUPPORTED = [
    ("textDocument/foldingRange", {"textDocument": {"uri": URI}}),
    ("textDocument/hover", {"textDocument": {"uri": URI}, "position": {"line": 1, "character": 5}}),
    ("textDocument/declaration", {"textDocument": {"uri": URI}, "position": {"line": 1, "character": 5}}),
    ("textDocument/semanticTokens/full", {"textDocument": {"uri": URI}}),
    ("textDocument/completion", {"textDocument": {"uri": URI}, "position": {"line": 1, "character": 0}}),
    ("textDocument/formatting", {"textDocument": {"uri": URI}, "options": {"tabSize": 4, "insertSpaces": True}}),
    ("textDocument/references", {"textDocument": {"uri": URI}, "position": {"line": 0, "character": 6},
                                 "context": {"includeDeclaration": True}}),
    ("textDocument/prepareRename", {"textDocument": {"uri": URI}, "position": {"line": 0, "character": 6}}),
    ("textDocument/prepareRename", {"textDocument": {"uri": URI}, "position": {"line": 2, "character": 5}}),
    ("textDocument/definition", {"textDocument": {"uri": URI}, "position": {"line": 3, "character": 12}}),
    ("textDocument/typeDefinition", {"textDocument": {"uri": URI}, "position": {"line": 2, "character": 4}}),
    ("textDocument/implementation", {"textDocument": {"uri": URI}, "position": {"line": 3, "character": 5}}),
    ("textDocument/signatureHelp", {"textDocument": {"uri": URI}, "position": {"line": 3, "character": 11}}),
    ("textDocument/references", {"textDocument": {"uri": URI}, "position": {"line": 2, "character": 5},
                                 "context": {"includeDeclaration": False}}),
    ("textDocument/formatting", {"textDocument": {"uri": URI}, "options": {"tabSize": 0, "insertSpaces": True}}),
    ("textDocument/formatting", {"textDocument": {"uri": URI}, "options": {"tabSize": 8, "insertSpaces": False, "trimTrailingWhitespace": True}}),
    ("textDocument/hover", {"textDocument": {"uri": URI}, "position": {"line": 99, "character": 99}}),
    ("textDocument/formatting", {"textDocument": {"uri": URI}, "options": {"tabSize": 255, "insertSpaces": True}}),
    ("textDocument/formatting", {"textDocument": {"uri": URI}, "options": {"tabSize": 256, "insertSpaces": True}}),
    ("textDocument/formatting", {"textDocument": {"uri": URI}, "options": {"tabSize": 1000, "insertSpaces": True, "insertFinalNewline": None}}),
    ("textDocument/formatting", {"textDocument": {"uri": URI}, "options": {"tabSize": 4294967295, "insertSpaces": False}}),
    ("textDocument/hover", {"textDocument": {"uri": URI}, "position": {"line": 4294967295, "character": 4294967295}}),
    ("textDocument/completion", {"textDocument": {"uri": URI}, "position": {"line": 1, "character": 0}, "context": None}),
    ("textDocument/completion", {"textDocument": {"uri": "file:///verif/never-opened.spl"}, "position": {"line": 0, "character": 0}}),
] + [
    # every request kind on a document the server does not know (never opened, or closed): answered, not fatal
    (m, dict({"textDocument": {"uri": "file:///verif/never-opened.spl"}}, **extra))
    for m, extra in [("textDocument/foldingRange", {}), ("textDocument/semanticTokens/full", {}),
                     ("textDocument/formatting", {"options": {"tabSize": 2, "insertSpaces": True}}),
                     ("textDocument/hover", {"position": {"line": 0, "character": 0}}),
                     ("textDocument/declaration", {"position": {"line": 0, "character": 0}}),
                     ("textDocument/references", {"position": {"line": 0, "character": 0}, "context": {"includeDeclaration": True}}),
                     ("textDocument/prepareRename", {"position": {"line": 0, "character": 0}}),
                     ("textDocument/rename", {"position": {"line": 0, "character": 0}, "newName": "x"}),
                     ("textDocument/signatureHelp", {"position": {"line": 0, "character": 0}})]
] + [
    # rename: whatever the new name looks like, the request is answered (a result or an error response)
    ("textDocument/rename", {"textDocument": {"uri": URI}, "position": {"line": 2, "character": 5}, "newName": nn})
    for nn in ["total", "my counter", "loop-counter", "zähler", "", "1abc", "while", "printi", "a" * 300, "😀"]
]
UNKNOWN_REQ = ["workspace/symbol", "foo/bar", "textDocument/documentHighlight", "$/progressReport", "$/cancelRequest",
               "$/verif/other", "window/workDoneProgress/create", "Shutdown", "textDocument/Hover", "initialized", "exit",
               "textDocument/didOpen", "shutdown2", "x", "prüfung/größe", "текст/метод", "😀"]
UNKNOWN_NOTE = ["$/setTrace", "foo/note", "workspace/didChangeConfiguration", "$/cancelRequest", "$/progress", "Exit",
                "initialize", "shutdown", "textDocument/hover", "exit2", "größe/geändert"]


def letter_message(letter, next_id, rng):
    """-> (json message, case token)"""
    if letter == "I":
        return lc.request(next_id, "initialize", INIT_PARAMS), f"R{next_id}:initialize"
    if letter == "J":
        return lc.notification("initialized", {}), "N:initialized"
    if letter == "Q":
        m, p = SUPPORTED[rng.randrange(len(SUPPORTED))]
        return lc.request(next_id, m, p), f"R{next_id}:{m}"
    if letter == "q":
        # requests whose cost does not grow with the square of the document (used behind the large document)
        cheap = [(m, p) for m, p in SUPPORTED if m in ("textDocument/hover", "textDocument/completion", "textDocument/prepareRename",
                                                      "textDocument/definition", "textDocument/declaration", "textDocument/signatureHelp")]
        m, p = cheap[rng.randrange(len(cheap))]
        return lc.request(next_id, m, p), f"R{next_id}:{m}"
    if letter == "U":
        m = UNKNOWN_REQ[rng.randrange(len(UNKNOWN_REQ))]
        return lc.request(next_id, m, {}), f"R{next_id}:{m}"
    if letter == "D":
        return lc.notification("textDocument/didOpen", {"textDocument": {"uri": URI, "languageId": "spl", "version": 1, "text": DOC}}), "N:textDocument/didOpen"
    if letter == "C":
        return lc.notification("textDocument/didClose", {"textDocument": {"uri": URI}}), "N:textDocument/didClose"
    if letter == "B":
        return lc.notification("textDocument/didOpen", {"textDocument": {"uri": URI, "languageId": "spl", "version": 1, "text": BIG_DOC}}), "N:textDocument/didOpen"
    if letter == "E":
        # corner documents: non-ASCII last character without a final terminator, lone CR, empty, BOM
        text = CORNER_TEXTS[rng.randrange(len(CORNER_TEXTS))]
        return lc.notification("textDocument/didOpen", {"textDocument": {"uri": URI, "languageId": "spl", "version": 1, "text": text}}), "N:textDocument/didOpen"
    if letter == "G":
        # edits at and past the end of the document, at its start, of everything, and several in one notification
        def pos(l, c):
            return {"line": l, "character": c}
        pool = [
            [{"range": {"start": pos(99999, 0), "end": pos(99999, 0)}, "text": " x"}],
            [{"range": {"start": pos(0, 99999), "end": pos(0, 99999)}, "text": "é"}],
            [{"range": {"start": pos(1, 99999), "end": pos(99999, 99999)}, "text": "\n// €"}],
            [{"range": {"start": pos(0, 0), "end": pos(0, 0)}, "text": "// 😀\r"}],
            [{"range": {"start": pos(0, 0), "end": pos(99999, 0)}, "text": ""}],
            # a shrinking ranged edit followed by a full-text replacement in ONE notification (each change is relative
            # to the text its predecessor left)
            [{"range": {"start": pos(0, 0), "end": pos(1, 0)}, "text": ""}, {"text": "proc main() {\n    // neu é\n}\n"}],
            [{"range": {"start": pos(0, 0), "end": pos(0, 0)}, "text": "// länger\n// noch länger\n"}, {"text": "proc p() {}\n"},
             {"range": {"start": pos(0, 5), "end": pos(0, 6)}, "text": "q"}],
            [{"text": CORNER_TEXTS[rng.randrange(len(CORNER_TEXTS))]}],
            [{"range": {"start": pos(99999, 0), "end": pos(99999, 0)}, "text": "ä"}, {"range": {"start": pos(99999, 0), "end": pos(99999, 0)}, "text": "€"},
             {"range": {"start": pos(0, 1), "end": pos(0, 2)}, "text": ""}],
        ]
        # (a range whose end lies before its start is not a client edit: C08's `batch_sync` leaves it undefined)
        return lc.notification("textDocument/didChange", {"textDocument": {"uri": URI, "version": next_id + 1},
                                                         "contentChanges": pool[rng.randrange(len(pool))]}), "N:textDocument/didChange"
    if letter == "N":
        m = UNKNOWN_NOTE[rng.randrange(len(UNKNOWN_NOTE))]
        return lc.notification(m, {}), f"N:{m}"
    if letter == "S":
        return lc.request(next_id, "shutdown"), f"R{next_id}:shutdown"
    if letter == "X":
        return lc.notification("exit"), "N:exit"
    raise ValueError(letter)


def build_session(letters, rng):
    msgs, toks = [], []
    nid = 1
    for l in letters:
        m, t = letter_message(l, nid, rng)
        if "id" in m:
            nid += rng.choice([1, 1, 2, 7])
        msgs.append(m)
        toks.append(t)
    return msgs, toks


def canon_responses(result):
    outs = []
    for m in result["messages"]:
        if "id" in m and "method" not in m:
            if "error" in m:
                outs.append(f"R{m['id']}:{m['error'].get('code')}")
            else:
                outs.append(f"R{m['id']}:ok" if "result" in m else f"R{m['id']}:malformed")
    return " ".join(outs) + f" ; exit={result['rc']}"


def c18_cases(run):
    """All sequences over the 8-letter alphabet up to a bound (exhaustive), plus random longer
    ones; each followed by end of input.  Also: every byte prefix of a few sessions + EOF must
    terminate within the time bound."""
    rng = random.Random(run.seed)
    thorough = run.tier == "thorough"
    letters = "IJQUDNSX"
    max_len = 5 if thorough else 4
    seqs = [""]
    for n in range(1, max_len + 1):
        seqs += ["".join(p) for p in itertools.product(letters, repeat=n)]
    for _ in range(3000 if thorough else 400):
        n = rng.randrange(max_len + 1, 13)
        # bias towards well-formed prefixes so that the main and shutdown phases are reached
        pre = rng.choice(["", "IJ", "IJ", "IJD", "I", "IJS"])
        seqs.append(pre + "".join(rng.choice(letters) for _ in range(n - len(pre))))
    # many requests behind `shutdown`, written at once: every one of them is still owed a response
    for k in range(6 if thorough else 3):
        seqs.append(rng.choice(["IJ", "IJD"]) + "S" + "".join(rng.choice("QQU") for _ in range(60 + 70 * k)) + "X")
    # and many requests in the main phase
    seqs.append("IJD" + "Q" * 150 + "SX")
    # requests pipelined behind a document whose analysis takes seconds, then more traffic and a clean shutdown
    seqs += ["IJBqqqSX", "IJBqDqUqSX"]
    # requests on a closed document (and on documents never opened: part of the request pool)
    seqs += ["IJDQC" + "Q" * 25 + "SX", "IJDCDQC" + "Q" * 25 + "SX", "IJC" + "Q" * 25 + "SX"]
    # corner documents and edits at / past their end, at their start, of everything; requests in between
    for _ in range(60 if thorough else 16):
        seqs.append("IJ" + "".join(rng.choice("EGGQq") for _ in range(rng.randrange(3, 9))) + "QSX")
    sessions = [build_session(s, rng) for s in seqs]
    violations = []

    def one(job):
        k, (msgs, toks) = job
        # every sixth session in another legal header style (Content-Type first / last, no blank after the colon)
        style = [1, 2, 4][(k // 5) % 3] if k % 5 == 0 else 0
        data = b"".join(lc.frame(m, style) for m in msgs)
        r = lc.run_session([data], timeout=120.0 if len(data) > 100000 else 10.0 if len(msgs) < 40 else 30.0)
        return r

    pairs = []
    with ThreadPoolExecutor(max_workers=16) as ex:
        results = list(ex.map(one, list(enumerate(sessions))))
    for (msgs, toks), r, s in zip(sessions, results, seqs):
        line = "RPC " + " ".join(toks) if toks else "RPC"
        if r["timed_out"]:
            violations.append(("hang", line, "server did not terminate within 10 s after end of input", "", "hang"))
            continue
        if r["problems"]:
            violations.append(("frames", line, "; ".join(r["problems"]), "", "malformed output frames"))
            continue
        ans = canon_responses(r)
        pairs.append((line, ans))
        pairs.append(("SPEC" + line, ans))
    run.stats_extra["c18_sessions"] = len(sessions)
    run.stats_extra["c18_exhaustive_max_len"] = max_len
    # prefixes + EOF: termination (promptness bound 5 s; typical 10-30 ms)
    pref_sessions = ["IJDQUSX", "IJQQD", "IQJDQNSQX"] if not thorough else ["IJDQUSX", "IJQQD", "IQJDQNSQX", "IJDDDQQQ", "UIJSX", "IJDQ"]
    jobs = []
    for s in pref_sessions:
        msgs, toks = build_session(s, rng)
        data = b"".join(lc.frame(m) for m in msgs)
        stride = 1 if thorough else 5
        for k in range(0, len(data) + 1, stride):
            jobs.append((s, k, data[:k]))

    def pref(job):
        s, k, d = job
        return lc.run_session([d], timeout=5.0)

    with ThreadPoolExecutor(max_workers=16) as ex:
        pres = list(ex.map(pref, jobs))
    worst = 0.0
    for (s, k, d), r in zip(jobs, pres):
        worst = max(worst, r["exit_latency"])
        if r["timed_out"]:
            violations.append(("hang", f"PREFIX {s} {k} {d.hex()}", "server hangs after end of input at this byte prefix", "", "hang"))
    run.stats_extra["c18_prefix_runs"] = len(jobs)
    run.stats_extra["c18_worst_exit_latency_s"] = round(worst, 3)
    return pairs, violations


# ---------------------------------------------------------------------------------------
# C08: the position encoding the server announces is the one it computes (binary level)
# ---------------------------------------------------------------------------------------

def c08_cases(run):
    """initialize with several `general.positionEncodings` offers; whatever the server announces must be what its
    answers are counted in.  The server counts UTF-16 units: the announcement is absent or `utf-16`, and a
    prepareRename behind non-ASCII characters answers the UTF-16 range."""
    doc = "proc main() {\n    var \u00e4\u00f6: int; var x\U0001F600y: int; /*\u20ac*/ zz := 1;\n}\n".replace("/*", "").replace("*/", "")
    # line 1: `    var äö: int; var x😀y: int; € zz := 1;`  -> `zz` starts at UTF-16 column 36, UTF-8 column 42
    line = doc.split("\n")[1]
    col16 = len(line[:line.index("zz")].encode("utf-16-le")) // 2
    violations = []
    offers = [None, ["utf-16"], ["utf-8", "utf-16"], ["utf-32", "utf-8", "utf-16"], ["utf-8"]]
    for offer in offers:
        caps = {"textDocument": {"publishDiagnostics": {}}}
        if offer is not None:
            caps["general"] = {"positionEncodings": offer}
        msgs = [lc.request(1, "initialize", {"capabilities": caps}), lc.notification("initialized", {}),
                lc.notification("textDocument/didOpen", {"textDocument": {"uri": URI, "languageId": "spl", "version": 1, "text": doc}}),
                lc.request(2, "textDocument/prepareRename", {"textDocument": {"uri": URI}, "position": {"line": 1, "character": col16}}),
                lc.request(3, "shutdown"), lc.notification("exit")]
        r = lc.run_session([b"".join(lc.frame(m) for m in msgs)], timeout=20)
        case = f"SESSION position-encoding offer={offer}"
        if r["timed_out"] or r["problems"] or r["rc"] != 0:
            violations.append(("binary", case, f"rc={r['rc']} problems={r['problems']} timed_out={r['timed_out']}", "", "session failed"))
            continue
        byid = {m.get("id"): m for m in r["messages"] if "id" in m and "method" not in m}
        enc = ((byid.get(1) or {}).get("result") or {}).get("capabilities", {}).get("positionEncoding")
        if enc not in (None, "utf-16"):
            violations.append(("binary", case, f"announces positionEncoding={enc}", "absent or utf-16", "the server counts UTF-16 units but announces another position encoding"))
            continue
        res = (byid.get(2) or {}).get("result")
        want = {"start": {"line": 1, "character": col16}, "end": {"line": 1, "character": col16 + 2}}
        got = res.get("range", res) if isinstance(res, dict) else res
        if got != want:
            violations.append(("binary", case, json.dumps(res), json.dumps(want), "prepareRename behind non-ASCII characters does not answer the UTF-16 range of the identifier"))
    # identifiers with characters beyond ASCII INSIDE them (the lexer accepts a character whose low byte is an ASCII
    # letter or digit): every reported range of such a name is its UTF-16 range, whichever handler reports it
    doc2 = "proc main() {\n    var n\u0131: int; var v_\U0001F431: int;\n    n\u0131 := v_\U0001F431 + 1;\n}\n"
    names = ["n\u0131", "v_\U0001F431"]
    reqs, wants = [], {}
    rid = 10
    for ln, line in enumerate(doc2.split("\n")):
        for nm in names:
            k = line.find(nm)
            if k < 0:
                continue
            c0 = len(line[:k].encode("utf-16-le")) // 2
            c1 = c0 + len(nm.encode("utf-16-le")) // 2
            for method in ("textDocument/hover", "textDocument/prepareRename"):
                reqs.append(lc.request(rid, method, {"textDocument": {"uri": URI}, "position": {"line": ln, "character": c0}}))
                wants[rid] = (method, nm, {"start": {"line": ln, "character": c0}, "end": {"line": ln, "character": c1}})
                rid += 1
    msgs = [lc.request(1, "initialize", {"capabilities": {}}), lc.notification("initialized", {}),
            lc.notification("textDocument/didOpen", {"textDocument": {"uri": URI, "languageId": "spl", "version": 1, "text": doc2}})] + reqs + \
           [lc.request(3, "shutdown"), lc.notification("exit")]
    r = lc.run_session([b"".join(lc.frame(m) for m in msgs)], timeout=20)
    if r["timed_out"] or r["problems"] or r["rc"] != 0:
        violations.append(("binary", "SESSION names with non-ASCII characters", f"rc={r['rc']} problems={r['problems']} timed_out={r['timed_out']}", "", "session failed"))
    else:
        byid = {m.get("id"): m for m in r["messages"] if "id" in m and "method" not in m}
        for k, (method, nm, want) in wants.items():
            res = (byid.get(k) or {}).get("result")
            got = res.get("range", res) if isinstance(res, dict) else res
            if got != want:
                violations.append(("binary", f"SESSION names with non-ASCII characters {method} {nm.encode().hex()}", json.dumps(res)[:300], json.dumps(want),
                                   "the reported range of an identifier with characters beyond ASCII is not its UTF-16 range"))
    run.stats_extra["c08_encoding_sessions"] = len(offers) + 1
    return [], violations


# ---------------------------------------------------------------------------------------
# C19: framing independent of chunking (binary level)
# ---------------------------------------------------------------------------------------

NONASCII_DOC = "// Kommentar: é € 😀\nproc main() {\n    var ä: int;\n    printi('€');\n    x := 1;\n}\n"


def c19_flood_session():
    """a long tail of requests behind `shutdown` (each owed an InvalidRequest response) and a burst before it"""
    msgs = [lc.request(1, "initialize", INIT_PARAMS_DIAG), lc.notification("initialized", {}),
            lc.notification("textDocument/didOpen", {"textDocument": {"uri": URI, "languageId": "spl", "version": 1, "text": DOC}})]
    for k in range(60):
        msgs.append(lc.request(10 + k, "textDocument/hover", {"textDocument": {"uri": URI}, "position": {"line": 2, "character": 5}}))
    msgs.append(lc.request(5000, "shutdown"))
    for k in range(160):
        msgs.append(lc.request(6000 + k, "textDocument/hover" if k % 3 else "foo/bar", {"textDocument": {"uri": URI}, "position": {"line": 2, "character": 5}}))
    msgs.append(lc.notification("exit"))
    return b"".join(lc.frame(m) for m in msgs)


def c19_huge_session():
    """frames of more than 2 MiB in both directions: a document with a 2.2 MiB identifier, its diagnostics and its
    formatted text"""
    big = "proc main() {\n    " + "a" * (2 * 1024 * 1024 + 200 * 1024) + " := 1;\n}\n"
    msgs = [lc.request(1, "initialize", INIT_PARAMS_DIAG), lc.notification("initialized", {}),
            lc.notification("textDocument/didOpen", {"textDocument": {"uri": URI, "languageId": "spl", "version": 1, "text": big}}),
            lc.request(2, "textDocument/formatting", {"textDocument": {"uri": URI}, "options": {"tabSize": 2, "insertSpaces": True}}),
            lc.request(3, "textDocument/hover", {"textDocument": {"uri": URI}, "position": {"line": 0, "character": 6}}),
            lc.request(4, "shutdown"), lc.notification("exit")]
    return b"".join(lc.frame(m) for m in msgs)


def c19_session(variant):
    uri = "file:///verif/ä.spl" if variant % 2 else URI
    msgs = [
        lc.request(1, "initialize", INIT_PARAMS_DIAG),
        lc.notification("initialized", {}),
        lc.notification("textDocument/didOpen", {"textDocument": {"uri": uri, "languageId": "spl", "version": 1, "text": NONASCII_DOC}}),
        lc.request(2, "textDocument/hover", {"textDocument": {"uri": uri}, "position": {"line": 1, "character": 6}}),
        lc.request(3, "textDocument/foldingRange", {"textDocument": {"uri": uri}}),
        lc.notification("textDocument/didChange", {"textDocument": {"uri": uri, "version": 2},
                                                   "contentChanges": [{"range": {"start": {"line": 4, "character": 4}, "end": {"line": 4, "character": 5}}, "text": "ä" * (1 + variant)}]}),
        lc.request(4, "textDocument/semanticTokens/full", {"textDocument": {"uri": uri}}),
        lc.request(5, "foo/bar", {"pad": "x" * (90 * variant)}),
        lc.request(6, "shutdown"),
        lc.notification("exit"),
    ]
    return b"".join(lc.frame(m) for m in msgs)


def _procs_doc(n):
    return "".join("proc p%d(a: int) {\n  var x: int;\n  x := a + %d;\n  printi(x);\n}\n" % (i, i) for i in range(n)) + "proc main() { }\n"


_SLOW = {}


def slow_doc(target_s):
    """a valid document whose analysis takes about `target_s` seconds on this machine, now (measured with a
    2000-procedure document first; the analysis time grows at least linearly with the number of procedures)"""
    if target_s not in _SLOW:
        import time
        probe = _procs_doc(2000)
        msgs = [lc.request(1, "initialize", INIT_PARAMS), lc.notification("initialized", {}),
                lc.notification("textDocument/didOpen", {"textDocument": {"uri": URI, "languageId": "spl", "version": 1, "text": probe}}),
                lc.request(2, "textDocument/hover", {"textDocument": {"uri": URI}, "position": {"line": 0, "character": 6}}),
                lc.request(3, "shutdown"), lc.notification("exit")]
        t0 = time.time()
        lc.run_session([b"".join(lc.frame(m) for m in msgs)], timeout=120)
        dt = max(time.time() - t0, 0.05)
        n = int(2000 * target_s / dt)
        _SLOW[target_s] = max(2000, min(n, 60000))
    return _procs_doc(_SLOW[target_s])


def c19_slowdoc_session():
    """a document whose analysis takes seconds, with two requests for it in the same write: they are answered from the
    analysed document however the bytes arrive (never as if the document were unknown)"""
    msgs = [lc.request(1, "initialize", INIT_PARAMS_DIAG), lc.notification("initialized", {}),
            lc.notification("textDocument/didOpen", {"textDocument": {"uri": URI, "languageId": "spl", "version": 1, "text": slow_doc(7)}}),
            lc.request(2, "textDocument/hover", {"textDocument": {"uri": URI}, "position": {"line": 0, "character": 6}}),
            lc.request(3, "textDocument/definition", {"textDocument": {"uri": URI}, "position": {"line": 2, "character": 2}}),
            lc.request(4, "shutdown"), lc.notification("exit")]
    return b"".join(lc.frame(m) for m in msgs)


def projections(r):
    resp = [m for m in r["messages"] if "id" in m and "method" not in m]
    notes = [m for m in r["messages"] if "method" in m]
    return json.dumps(resp, sort_keys=True), json.dumps(notes, sort_keys=True), r["rc"]


def c19_cases(run):
    rng = random.Random(run.seed)
    thorough = run.tier == "thorough"
    violations = []
    n_runs = 0
    for variant in list(range(3 if thorough else 2)) + ["flood", "huge", "slowdoc"]:
        flood = variant in ("flood", "huge", "slowdoc")
        data = (c19_huge_session() if variant == "huge" else c19_slowdoc_session() if variant == "slowdoc"
                else c19_flood_session() if flood else c19_session(variant))
        base = lc.run_session([data], timeout=240 if variant == "slowdoc" else 20)
        if base["timed_out"] or base["problems"] or base["rc"] != 0:
            violations.append(("binary", f"SESSION {variant} unsplit", f"rc={base['rc']} problems={base['problems']} timed_out={base['timed_out']}", "", "baseline session failed"))
            continue
        want = projections(base)
        if variant == "huge":
            # the document is analysed whatever its size: its one diagnostic (the undefined 2.2 MiB name) is published
            diags = [m for m in base["messages"] if m.get("method") == "textDocument/publishDiagnostics"]
            if not any(d.get("params", {}).get("diagnostics") for d in diags):
                violations.append(("binary", "SESSION huge unsplit", f"publishDiagnostics notifications: {len(diags)}, none with a diagnostic",
                                   "the diagnostic for the undefined name", "a large document is not analysed"))
                continue
        if variant == "slowdoc":
            # what the requests are owed does not depend on how long the analysis in front of them takes: a hover on the
            # name of the first procedure of the open document, one folding range per procedure
            by_id = {m.get("id"): m for m in base["messages"] if "id" in m and "method" not in m}
            hov, dfn = by_id.get(2, {}).get("result"), by_id.get(3, {}).get("result")
            if not hov or not dfn:
                violations.append(("binary", "SESSION slowdoc unsplit", f"hover={json.dumps(hov)[:200]} definition={json.dumps(dfn)[:200]}",
                                   "a hover for p0 and the declaration of x", "requests written together with a slowly analysed document are answered as if it were not open"))
                continue
        jobs = []
        stride = 1 if thorough else 7
        if flood:
            # the unsplit run is the fastest writer; slow writers (many chunks, delays) give the server time
            stride = 499 if thorough else 2999
        if variant == "slowdoc":
            # a few cuts: inside the large body, inside the headers of the requests behind it, between the messages
            cut_points = [100, len(data) // 2] + [len(data) - k for k in (1, 60, 150, 260, 330)]
        else:
            cut_points = range(1 + ((0 if flood else variant) % stride), len(data), stride)
        for i in cut_points:
            jobs.append(("split2", [data[:i], data[i:]], f"{i}"))
        if flood:
            # one message per write, waiting a little in between
            frames = []
            rest = data
            while rest:
                head, _, tail = rest.partition(b"\r\n\r\n")
                n = int(head.split(b":")[1])
                frames.append(head + b"\r\n\r\n" + tail[:n])
                rest = tail[n:]
            jobs.append(("per-message", frames, "frames"))
        for _ in range((400 if thorough else 40) if not flood else (2 if variant == "slowdoc" else 8)):
            cuts = sorted(rng.sample(range(1, len(data)), rng.randrange(2, 12)))
            chunks = [data[a:b] for a, b in zip([0] + cuts, cuts + [len(data)])]
            jobs.append(("splitk", chunks, ",".join(map(str, cuts))))
        if variant != "slowdoc":
            jobs.append(("bytewise", [bytes([b]) for b in data], "1"))
        jobs.append(("delayed3", [data[:37], data[37:401], data[401:]], "37,401"))

        def one(job):
            kind, chunks, desc = job
            delay = 0.002 if kind in ("delayed3", "per-message") else 0.0
            return lc.run_session(chunks, timeout=300 if variant == "slowdoc" else 30, delay=delay)

        with ThreadPoolExecutor(max_workers=16) as ex:
            results = list(ex.map(one, jobs))
        for (kind, chunks, desc), r in zip(jobs, results):
            n_runs += 1
            got = projections(r) if not (r["timed_out"] or r["problems"]) else None
            if got != want:
                violations.append(("binary", f"SESSION {variant} {kind} {desc} " + " ".join(c.hex() for c in chunks[:3])[:4000],
                                   f"rc={r['rc']} timed_out={r['timed_out']} problems={r['problems']} messages={len(r['messages'])}",
                                   f"unsplit: rc={base['rc']} messages={len(base['messages'])}", "responses differ under this segmentation"))
    run.stats_extra["c19_binary_runs"] = n_runs
    return [], violations


# ---------------------------------------------------------------------------------------
# C20: ordering, read-your-writes, isolation under load (binary level)
# ---------------------------------------------------------------------------------------

C20_URIS = ["file:///a.spl", "untitled:/a.spl", "file:///b.spl", "file:///dir/a.spl", "file:///%C3%A4.spl", "file:///A.spl", "file:///dir/a.spl?ref=HEAD"]
C20_TEXTS = [
    "proc main() {\n}\n",
    "type t = int;\nproc main() {\n    var i: t;\n    i := 1;\n}\n",
    "// é😀\nproc f(ref a: int) {\n    a := a + 1;\n}\nproc main() {\n    var x: int;\n    f(x);\n}\n",
    "",
    "proc {\n",
    "abc",
    "\ufeffproc main() {\n    var i: int;\n    i := 1;\n}\n",
]


def _hex(s):
    b = s.encode("utf-8")
    return b.hex() if b else "-"


def c20_history(rng, n):
    toks = []
    open_docs = {}
    for _ in range(n):
        u = rng.randrange(len(C20_URIS))
        k = rng.randrange(10)
        if k < 2 or (u not in open_docs and k < 5):
            t = rng.choice(C20_TEXTS)
            open_docs[u] = t
            toks.append(f"O{u}={_hex(t)}")
        elif k < 5 and u in open_docs:
            # full-text replacements and small ranged edits near the start of a line
            def one_change():
                if rng.random() < 0.5:
                    t = rng.choice(C20_TEXTS) + ("// v%d\n" % rng.randrange(100))
                    return f"F:{_hex(t)}"
                line = rng.randrange(4)
                ins = rng.choice(["// c\n", " ", "x", "\n"])
                return f"R:{line}:0:{line}:0:{_hex(ins)}"
            # one change per notification, or several (each relative to the text its predecessor left)
            n_ch = 1 if rng.random() < 0.7 else rng.randrange(2, 4)
            toks.append(f"C{u}=" + ",".join(one_change() for _ in range(n_ch)))
        elif k < 6:
            open_docs.pop(u, None)
            toks.append(f"X{u}")
        elif k < 9:
            toks.append(f"P{u}")
        else:
            toks.append(rng.choice([f"F{u}", "U", f"M{u}", f"H{u}", f"M{u}"]))
    return toks


def c20_messages(toks, diag):
    variants = INIT_DIAG_VARIANTS if diag else INIT_NODIAG_VARIANTS
    msgs = [lc.request(100000, "initialize", variants[zlib.crc32(" ".join(toks).encode()) % len(variants)]), lc.notification("initialized", {})]
    # document versions as a client numbers them: 1 at every didOpen (also a re-open), +1 with every didChange
    version = {}
    for k, t in enumerate(toks):
        kind = t[0]
        rest = t[1:]
        u, _, arg = rest.partition("=")
        if kind == "U":
            msgs.append(lc.request(k, "foo/unknown", {}))
            continue
        uri = C20_URIS[int(u)]
        if kind == "O":
            text = bytes.fromhex(arg).decode() if arg != "-" else ""
            version[uri] = 1
            msgs.append(lc.notification("textDocument/didOpen", {"textDocument": {"uri": uri, "languageId": "spl", "version": 1, "text": text}}))
        elif kind == "C":
            changes = []
            for c in arg.split(","):
                p = c.split(":")
                if p[0] == "F":
                    changes.append({"text": bytes.fromhex(p[1]).decode() if p[1] != "-" else ""})
                else:
                    changes.append({"range": {"start": {"line": int(p[1]), "character": int(p[2])}, "end": {"line": int(p[3]), "character": int(p[4])}},
                                    "text": bytes.fromhex(p[5]).decode() if p[5] != "-" else ""})
            version[uri] = version.get(uri, 0) + 1
            msgs.append(lc.notification("textDocument/didChange", {"textDocument": {"uri": uri, "version": version[uri]}, "contentChanges": changes}))
        elif kind == "X":
            msgs.append(lc.notification("textDocument/didClose", {"textDocument": {"uri": uri}}))
        elif kind == "P":
            msgs.append(lc.request(k, "$/verif/text", {"uri": uri}))
        elif kind == "F":
            msgs.append(lc.request(k, "textDocument/foldingRange", {"textDocument": {"uri": uri}}))
        elif kind == "M":
            msgs.append(lc.request(k, "textDocument/formatting", {"textDocument": {"uri": uri}, "options": {"tabSize": 4, "insertSpaces": True}}))
        elif kind == "H":
            msgs.append(lc.request(k, "textDocument/hover", {"textDocument": {"uri": uri}, "position": {"line": 0, "character": 6}}))
    msgs.append(lc.request(100001, "shutdown"))
    msgs.append(lc.notification("exit"))
    return msgs


def c20_cases(run):
    import subprocess
    from common import HARNESS, ENV
    rng = random.Random(run.seed + 20)
    thorough = run.tier == "thorough"
    n_hist = 24 if thorough else 12
    size = 1500 if thorough else 300
    violations, pairs = [], []
    hists = [(c20_history(rng, size if i % 4 else 60), i % 2 == 0) for i in range(n_hist)]
    # a flood on one document: many whole-document versions with many diagnostics each, then a clean version
    # (only open / full-text changes / probes: the last published diagnostics must describe the last version)
    for k in range(2 if not thorough else 4):
        nerr = 30 + 10 * k
        bad = lambda v: "proc main() {\n" + "".join(f"  undefined{v}_{j} := 1;\n" for j in range(nerr)) + "}\n"
        flood = [f"O0={_hex(bad(0))}"] + [f"C0=F:{_hex(bad(v))}" for v in range(1, 200 + 100 * k)] + [f"C0=F:{_hex('proc main() {}' + chr(10))}", "P0"]
        hists.append((flood, True))
    # batches whose LATER changes put back what stood at their range BEFORE the batch (but not after the earlier changes
    # of the same batch): every change of a batch refers to the text its predecessor left
    base_doc = "proc main() {\n  var a: int;\n  a := 1;\n}\n"
    base_lines = base_doc.split("\n")
    for _ in range(6 if not thorough else 20):
        ln = rng.randrange(1, 3)
        col = rng.randrange(0, len(base_lines[ln]))
        same = base_lines[ln][col]
        # the first change puts other characters at that place
        first = rng.choice([f"R:{ln}:0:{ln}:0:" + _hex("zzzzzzzzzzzzzzzzzzzz\n"), f"R:{ln}:0:{ln}:0:" + _hex("zzzzzzzzzzzzzzzzzzzz")])
        second = f"R:{ln}:{col}:{ln}:{col + 1}:" + _hex(same)
        hists.append(([f"O0={_hex(base_doc)}", f"C0={first},{second}", "P0", "C0=R:0:0:0:0:" + _hex(" "), "P0"], True))
    # a document whose analysis takes seconds, with requests pipelined behind its open and behind an edit of it:
    # they are answered from the document as it is after the notifications that precede them, however long that takes
    n_small = len(hists)
    hists.append(([f"O0={_hex(BIG_DOC)}", "H0", "U", "H0", "C0=R:0:0:0:0:" + _hex("// c\n"), "H0", "O1=" + _hex(C20_TEXTS[0]), "H1", "P1", "H0"], True))
    # ... and one whose analysis takes clearly longer than any plausible "give up" time in front of a request
    hists.append(([f"O0={_hex(slow_doc(7))}", "H0", "P0", "H0"], True))
    # back-pressure on the broker's inbox: while the large document is analysed, more notifications than the inbox holds
    # pile up for ANOTHER (small) document, then that document is closed and probed: every one of them takes effect,
    # in order (a closed document is forgotten, the edits before the close are not lost)
    small = "proc helper(i: int) {}\n"
    hists.append(([f"O1={_hex(small)}", f"O0={_hex(BIG_DOC)}"] + ["C1=R:0:0:0:0:" + _hex(" ")] * 150 + ["X1", "P1", "H1", "O1=" + _hex(C20_TEXTS[1]), "P1"], True))
    # exactly as many cheap notifications as the inbox holds (and a few more or less) directly in front of the close:
    # the close itself is the one that does not fit
    for npile in (31, 32, 33, 36):
        hists.append(([f"O1={_hex(small)}", f"O0={_hex(BIG_DOC)}"] + ["C1=R:0:0:0:0:" + _hex(" ")] * npile + ["X1", "P1", "H1"], True))
    # a slow client: a response larger than the stdout pipe blocks the responder while exactly as many messages as its
    # inbox holds (31 / 32 / 33 / 64) pile up behind it; when the client reads again, all of them must come out
    oneline = "".join("proc p%d(){}" % i for i in range(5000))
    n_flush0 = len(hists)
    for npile in (31, 32, 33, 64):
        hists.append(([f"O0={_hex(oneline)}", "M0", f"O1={_hex(small)}"] + ["C1=R:0:0:0:0:" + _hex(" ")] * (npile - 2) + ["H1"], True))
    n_flush1 = len(hists)
    # several lives of one URI: the versions start again at 1 after the re-open (and after a second didOpen without a close)
    hists.append(([f"O1={_hex(small)}"] + ["C1=R:0:0:0:0:" + _hex("// a\n")] * 5 + ["P1", "X1", f"O1={_hex(C20_TEXTS[1])}", "C1=R:0:0:0:0:" + _hex("// b\n"), "P1", "H1",
                   f"O1={_hex(C20_TEXTS[2])}", "C1=R:0:0:0:0:" + _hex("// c\n"), "C1=R:0:0:0:0:" + _hex("// d\n"), "P1", "F1"], True))
    # ... and a document OPENED behind the pile is there for the request that follows it
    # (piles of several sizes: whether the inbox is still full when the `didOpen` arrives depends on how fast the
    # large document is analysed on this machine)
    for npile in (40, 150, 400):
        hists.append(([f"O1={_hex(small)}", f"O0={_hex(BIG_DOC)}"] + ["C1=R:0:0:0:0:" + _hex(" ")] * npile + ["O2=" + _hex(C20_TEXTS[2]), "P2", "H2", "C2=R:0:0:0:0:" + _hex("// x\n"), "P2"], True))
    # the histories that fill the broker's inbox once more on ONE runtime thread: whether a task spawned by the reader
    # or the reader itself gets the next free slot then no longer depends on which core picks the task up
    single0 = len(hists)
    for toks, d in list(hists):
        if len(toks) > 30 and toks[0].startswith("O1=") and toks[1].startswith("O0="):
            hists.append((toks, d))
    slow = [i % 3 == 1 or n_hist <= i < n_small or n_flush0 <= i < n_flush1 for i in range(len(hists))]
    # sequential in-process reference
    seq_in = "\n".join(f"SEQ {1 if d else 0} " + " ".join(t) for t, d in hists) + "\n"
    p = subprocess.run([HARNESS, "run"], input=seq_in, stdout=subprocess.PIPE, stderr=subprocess.DEVNULL, text=True, env=ENV, timeout=3000)
    seq_out = p.stdout.split("\n")[:len(hists)]
    skipped = 0

    def one(job):
        ((toks, d), sl), hk = job
        msgs = c20_messages(toks, d)
        # everything but `shutdown` / `exit` in one write; they follow only when every request has been answered (or
        # after five minutes): an answer that needs further input to come out has been held back
        main = b"".join(lc.frame(m) for m in msgs[:-2])
        end = b"".join(lc.frame(m) for m in msgs[-2:])
        want = [100000] + [k for k, t in enumerate(toks) if t[0] in "PFUMH"]
        # default multi-threaded runtime (all cores); slow = the client does not read for the first 1.5 s: the stdout
        # pipe, the responder channel and the broker fill up
        return lc.run_session_wait(main, end, want, wait=300.0, timeout=300, workers="1" if hk >= single0 else None,
                                   read_after=1.5 if sl else None)

    with ThreadPoolExecutor(max_workers=4) as ex:
        results = list(ex.map(one, list(zip(zip(hists, slow), range(len(hists))))))
    n_msgs = 0
    for hk, ((toks, d), ref, r) in enumerate(zip(hists, seq_out, results)):
        line = f"{1 if d else 0} " + " ".join(toks)
        n_msgs += len(toks)
        if ref.startswith("PANIC") or not ref.startswith("["):
            skipped += 1   # the sequential reference itself dies in AnalyzedSource::update: C01/C02 finding, not C20
            continue
        events = json.loads(ref)
        if r["timed_out"] or r["problems"] or r["rc"] != 0:
            violations.append(("binary", "SPECNETTEXT " + line, f"rc={r['rc']} timed_out={r['timed_out']} problems={r['problems']} stderr={r['stderr'][-300:]}", "", "session under load failed (deadlock/crash)"))
            continue
        if r.get("missing_before_end"):
            violations.append(("binary", "SPECNETTEXT " + line, f"not answered before `shutdown` was sent: ids {r['missing_before_end'][:20]}", "every request answered without further input",
                               "responses held back until the next message arrives"))
            continue
        got = []
        ids = []
        for m in r["messages"]:
            if "method" in m:
                if m["method"] == "textDocument/publishDiagnostics":
                    got.append({"d": [m["params"]["uri"], m["params"]["diagnostics"]]})
            elif m.get("id") not in (100000, 100001):
                unknown = "error" in m
                got.append({"r": m.get("result"), "id": m["id"], "unknown": unknown})
                ids.append(m["id"])
        want_ids = [k for k, t in enumerate(toks) if t[0] in "PFUMH"]
        if ids != want_ids:
            violations.append(("binary", "SPECNETTEXT " + line, f"response ids {ids[:40]}", f"{want_ids[:40]}", "responses missing, duplicated or out of request order"))
            continue
        # doc-related projection (everything but the unknown-method responses) must equal the sequential run
        got_doc = [{k: v for k, v in e.items() if k in ("r", "d")} for e in got if not e.get("unknown")]
        if got_doc != events:
            idx = next((i for i, (a, b) in enumerate(zip(got_doc, events)) if a != b), min(len(got_doc), len(events)))
            violations.append(("binary", "SPECNETTEXT " + line, json.dumps(got_doc[idx:idx + 2])[:600], json.dumps(events[idx:idx + 2])[:600],
                               f"pipelined run differs from the sequential execution at doc-related event {idx}"))
            continue
        if not d and any("d" in e for e in got):
            violations.append(("binary", "SPECNETTEXT " + line, "diagnostics published", "", "diagnostics published to a client that did not announce support"))
            continue
        if hk >= n_small:
            continue   # compared with the sequential execution above; too large for the Lean network model's line
        probes = " ".join(f"R{e['id']}=" + ("null" if e["r"] is None else _hex(e["r"])) for e in got if "id" in e and toks[e["id"]][0] == "P")
        pairs.append(("SPECNETTEXT " + line, probes))
        pairs.append((f"JUDGENETSCHED {1 if d else 0} {6 if not thorough else 12} " + " ".join(toks[:80]), "ok"))
    run.stats_extra["c20_histories"] = len(hists)
    run.stats_extra["c20_slow_client_histories"] = sum(slow)
    run.stats_extra["c20_messages"] = n_msgs
    run.stats_extra["c20_skipped_reference_panics"] = skipped
    return pairs, violations
