"""Per-property configuration of bin/check: op classes, known findings, minimisation."""
import json
import os
import binchecks
import re
import subprocess

from common import VERIF, HARNESS, DRIVER, ENV


def op_class(op):
    """corr: implementation answer must equal the model's answer (correspondence);
    spec: implementation answer must equal the independent Lean spec's answer unless `n/a`;
    judge: the Lean spec predicate judges the implementation's answer (`ok`);
    prop: the property is evaluated by each side on itself (`ok` on both)."""
    if op.startswith("SPEC"):
        return "spec"
    if op.startswith("JUDGE"):
        return "judge"
    if op.startswith("PROP"):
        return "prop"
    return "corr"


def load_known_findings(pid):
    path = os.path.join(VERIF, "known_findings.json")
    if not os.path.exists(path):
        return []
    data = json.load(open(path))
    return [f for f in data.get("findings", []) if f.get("property") == pid]


def _run_pair(run, lines):
    p = subprocess.run([HARNESS, "run"], input="\n".join(lines) + "\n", stdout=subprocess.PIPE,
                       stderr=subprocess.DEVNULL, text=True, env=ENV, timeout=600)
    impl = p.stdout.split("\n")[:len(lines)]
    impl += ["<died>"] * (len(lines) - len(impl))
    inp = "\n".join(f"{c}\t{i}" for c, i in zip(lines, impl)) + "\n"
    q = subprocess.run([DRIVER], input=inp, stdout=subprocess.PIPE, stderr=subprocess.DEVNULL, text=True, timeout=600)
    model = q.stdout.split("\n")[:len(lines)]
    model += ["<no answer>"] * (len(lines) - len(model))
    return impl, model


def fails(op, a, m):
    cls = op_class(op)
    if cls == "spec":
        return m != "n/a" and a != m
    if cls == "judge":
        return m not in ("ok", "n/a")
    if cls == "prop":
        return a != "ok"
    return a != m


def unhex(h):
    return b"" if h == "-" else bytes.fromhex(h)


def hexs(b):
    return b.hex() if b else "-"


def minimise(run, case, budget=12):
    """Greedy delta-debugging of the first text field of a failing case (character-wise,
    UTF-8 aware). Edit-shaped cases (`text lo hi ins`) keep their offsets consistent."""
    try:
        parts = case.split(" ")
        op = parts[0]
        if len(parts) < 2 or not re.fullmatch(r"(-|([0-9a-f]{2})+)", parts[1]):
            return case
        edit = len(parts) == 5 and parts[2].isdigit() and parts[3].isdigit()
        cur = parts
        for _ in range(budget):
            text = unhex(cur[1]).decode("utf-8")
            cands = []
            n = len(text)
            if n == 0:
                break
            if edit:
                lo, hi = int(cur[2]), int(cur[3])
                bs = unhex(cur[1])
                pre, mid, post = bs[:lo].decode(), bs[lo:hi].decode(), bs[hi:].decode()
                for k in range(len(pre)):
                    p2 = pre[:k] + pre[k + 1:]
                    d = len(pre[k].encode())
                    cands.append([op, hexs((p2 + mid + post).encode()), str(lo - d), str(hi - d), cur[4]])
                for k in range(len(post)):
                    p2 = post[:k] + post[k + 1:]
                    cands.append([op, hexs((pre + mid + p2).encode()), str(lo), str(hi), cur[4]])
                ins = unhex(cur[4]).decode()
                for k in range(len(ins)):
                    cands.append([op, cur[1], str(lo), str(hi), hexs((ins[:k] + ins[k + 1:]).encode())])
            else:
                chunk = max(1, n // 2)
                while chunk >= 1:
                    for k in range(0, n, chunk):
                        t2 = text[:k] + text[k + chunk:]
                        cands.append([op, hexs(t2.encode())] + cur[2:])
                    chunk //= 2
            if not cands:
                break
            lines = [" ".join(c) for c in cands[:400]]
            impl, model = _run_pair(run, lines)
            nxt = None
            for c, a, m in zip(cands, impl, model):
                if fails(op, a, m):
                    nxt = c
                    break
            if nxt is None:
                break
            cur = nxt
        return " ".join(cur)
    except Exception:
        return case


def attribute(pid, findings, case, impl, model):
    """Return the id of the listed open finding this oracle failure belongs to, or None.
    A failure is attributed only if the finding's decidable predicate holds on the input."""
    for f in findings:
        if f.get("status") != "open":
            continue
        pred = FINDING_PREDICATES.get(f.get("identify", {}).get("class"))
        if pred and pred(f, case, impl, model):
            return f["id"]
    return None


def confirm_finding(run, f):
    """Re-run the stored witness of an open finding against the implementation."""
    w = f.get("witness")
    if not w:
        return False, "no witness"
    impl, model = _run_pair(run, [w])
    op = w.split(" ", 1)[0]
    pred = FINDING_PREDICATES.get(f.get("identify", {}).get("class"))
    if pred and pred(f, w, impl[0], model[0]):
        return True, impl[0]
    if fails(op, impl[0], model[0]):
        return True, impl[0]
    return False, f"witness passes now: impl={impl[0][:200]} model={model[0][:200]}"


def _model_predicted(f, case, impl, model):
    """The bug-for-bug Lean model of the listed call site yields exactly the implementation's
    (wrong) answer, and the failure kind is one the finding lists."""
    kinds = f.get("identify", {}).get("params", {}).get("kinds", [])
    ops = f.get("identify", {}).get("params", {}).get("ops", [])
    op = case.split(" ", 1)[0]
    return impl == model and op in ops and any(impl.startswith(k) for k in kinds)


def _case_prefix(f, case, impl, model):
    """The failing case belongs to the listed class of inputs (class label carried by the case line)."""
    return any(case.startswith(p) for p in f.get("identify", {}).get("params", {}).get("prefixes", []))


def _comment_gap(f, case, impl, model):
    """C10: every lost comment was written in a gap kind the finding lists; nothing is duplicated."""
    kinds = set(f.get("identify", {}).get("params", {}).get("gap_kinds", []))
    if not model.startswith("bad:C10:lost="):
        return False
    parts = case.split(" ")
    gaps = {}
    for p in parts:
        if p.startswith("gaps:"):
            for g in p[5:].split(","):
                if "=" in g:
                    k, v = g.split("=", 1)
                    gaps[k] = v
    lost = model.split("=", 1)[1].split(",")
    return bool(lost) and all(gaps.get(h) in kinds for h in lost)


FINDING_PREDICATES = {"model-predicted": _model_predicted, "case-prefix": _case_prefix, "comment-in-gap": _comment_gap}

TEXT_RULE = ("cases are generated from one xoshiro256** state seeded by VERIF_SEED; a case is counted "
             "non-trivial when its oracle is applicable (spec not n/a) and distinct by its full case line")

FEAT_RULE = ("G_prog programs (valid well-typed incl. shadowing of procedure names by parameters, a share with one mutated token; "
             "comments in leading positions; random layouts); cursor positions: every column of identifier occurrences (3/4), other tokens, "
             "gaps and positions outside the text (1/4). ")

PROPS = {
    "C09": {
        "rule": "syntactically valid programs (3/4 well-typed, 1/4 with identifiers replaced by undefined names), random layouts with leading "
                "comments, options insertSpaces true/false x tabSize 0..8: FMT (implementation edit vs formatter model), JUDGEFMT09 (edit "
                "range = whole document by LspPos; LexSpec re-lexing of original and result: identical non-comment token kinds and literal "
                "values; identical diagnostic kinds). " + TEXT_RULE,
        "unproved_parts": ["format_preserves_tokens_partial IS a theorem for every syntactically valid text WITHOUT comments (any size, any "
                           "layout, both indentation styles): the formatter model succeeds and its output tokenises (lexer specification "
                           "and, by C06.lex_conforms, lexer model) into exactly the original token types incl. spellings and values; "
                           "texts WITH comments and the preservation of diagnostics are judged on every run (JUDGEFMT09), not theorems"],
    },
    "C10": {
        "rule": "valid programs with comment lines (a) only in leading positions (declaration/statement/variable/parameter starts; 25% of the "
                "gaps) — every comment must survive; (b) in ANY gap between two tokens (8%), each comment labelled with its gap kind: "
                "JUDGEFMT10 (LexSpec comment texts of original vs formatted text: multiset and order), FMT (vs model). Losses in the gap kinds "
                "of known finding KF-C10-gaps are attributed to it, any other loss or any duplication is a violation. " + TEXT_RULE,
        "unproved_parts": ["comments_preserved for leading positions is judged on every run (and C10.leading_comment_kept is a kernel-evaluated "
                           "instance), the general theorem is not proved; the property is FALSE for the gap kinds of KF-C10-gaps (Lean witnesses)"],
    },
    "C11": {
        "rule": "as C09 plus: JUDGEFMT11 (every line of the result is indented by a whole number of units; `null` only when nothing changes, an "
                "edit only when something changes), PROPFMTIDEM (format twice: second answer null; implementation and model), PROPFMTCANON "
                "(two random layouts of one token sequence format to the same text; implementation and model). " + TEXT_RULE,
        "unproved_parts": ["layout_independent IS a theorem for all lexically valid texts (the derivation and the printed text are functions "
                           "of the token types alone: any two layouts of the same tokens format identically); format_idempotent_partial / "
                           "second_format_is_null ARE theorems for every valid text without comments (the printed text lexes, parses to "
                           "the same program and is printed again unchanged, so the second request answers null); texts with comments "
                           "are evaluated on every run (PROPFMTIDEM, PROPFMTCANON), not theorems; CRLF inside comment bodies changes "
                           "the comment token and is outside layout_independent"],
    },
    "C12": {
        "rule": FEAT_RULE + "GOTO decl/typedef/impl (implementation vs handler model) and SPECGOTO (implementation vs the independent "
                "Scope/Grammar/Typing specification: binding of the occurrence, declaring name token, creator of the array type; predefined, "
                "int, anonymous arrays and non-identifiers -> none). " + TEXT_RULE,
        "unproved_parts": ["goto_decl_is_binding (handler = Scope specification on every valid program) is compared on every run, not yet a theorem"],
    },
    "C13": {
        "rule": FEAT_RULE + "REFS/REN/PREP (implementation vs model) and SPECREFS/SPECREN/SPECPREP (vs the Scope specification: exactly the "
                "other occurrences of the binding; one edit per occurrence incl. the declaration; prepare = identifier range unless int). " + TEXT_RULE,
        "unproved_parts": ["refs_exact / rename_roundtrip are compared with the Scope specification on every run, not yet theorems; "
                           "re-analysis after applying a rename is not re-run"],
    },
    "C14": {
        "rule": FEAT_RULE + "HOV/SIG (implementation vs model) and SPECHOV/SPECSIG (vs the specification: signature of the bound declaration "
                "rendered independently — kind, name, ref marker, fully resolved type, doc comments; hover range = identifier; active "
                "parameter = commas before the cursor). " + TEXT_RULE,
        "unproved_parts": ["hover_signature / sig_active_param vs the specification are compared on every run, not yet theorems"],
    },
    "C15": {
        "rule": FEAT_RULE.replace("a share", "40%") + "SEM (implementation vs model), JUDGESEM (ANY document: decoded tokens strictly increasing, "
                "non-overlapping, each equal to one lexical token (UTF-16 length, comment without its line terminator), type/modifier inside "
                "the legend), SPECSEM (valid programs: the exact expected stream from lexical class and Scope binding kind, declaration "
                "modifier exactly on declaring occurrences). " + TEXT_RULE,
        "unproved_parts": ["semantic_tokens_decode / semantic_tokens_count ARE theorems for every document (the delta stream decodes to the start positions of the classified tokens, nothing shifted, dropped or duplicated); for every valid program in any layout (tokens lexed from the text, tree derived by the grammar specification) semantic_tokens_total (the handler answers: no slice out of range, no negative delta), classified_in_order (the encoded tokens are a sub-sequence of the lexical tokens: each coincides with one lexical token, none twice, in document order) and semantic_tokens_increasing (decoded positions strictly increasing in document order) ARE theorems; NOT theorems: strict increase for BROKEN documents and the UTF-16 length of each token (judged on every run, JUDGESEM), the classification of identifiers (compared with the Scope specification, SPECSEM)"],
    },
    "C16": {
        "rule": "valid programs, uncompressed layout; positions classified by construction: statement starts in bodies/blocks and before a "
                "closing brace (stmt), starts of unbraced branches (stmtbranch), after ':' of parameters/variables (type), before the next "
                "declaration / after the last one (top), every other token start with 1/12 (scope): JUDGECOMP (variables = exactly the "
                "locals of the enclosing procedure by the Scope specification, functions = all declared + predefined procedures, types = "
                "declared types + int, top level = declaration starters only; scope: nothing local to another procedure), COMP (vs model). " + TEXT_RULE,
        "unproved_parts": ["C16.statement_scope_exact IS a theorem (well-typed program: statement proposals for the table entry of a procedure = starters + exactly its parameters and locals + exactly the predefined and declared procedures; type proposals = int + declared types); which entry / which branch of the position analysis the handler takes at a given cursor is judged on every run (JUDGECOMP vs the Scope specification)",
                           "positions directly after '(' / ':=' are only covered by the scope class"],
    },
    "C17": {
        "rule": FEAT_RULE.replace("a share", "40%") + "FOLD (implementation vs model) and SPECFOLD (valid programs: one range per procedure in source "
                "order from the line of `proc` after the doc comments to the line of the last token, by Grammar + LspPos). " + TEXT_RULE,
        "unproved_parts": ["none for the model: fold_exact (valid programs in any layout, comments anywhere: one range per procedure in source order, from the line of its `proc` keyword - the first token behind its documentation comments - to the line on which its closing brace ends), fold_ordered (each range ends no later than the next one starts), fold_one_per_procedure and fold_wellformed (every document: start line <= end line) ARE theorems; `inside the document` follows from C03.published_range_inside's lemma on as_position; the tie of the model to fold.rs is the FOLD correspondence, SPECFOLD compares implementation and specification directly"],
    },
    "C03": {
        "rule": "G_prog well-typed programs (any order of declarations, nested array types, reference parameters, nested control flow, "
                "layouts with comments): SPECDIAG (implementation publishes no diagnostic; the independent Lean static-semantics "
                "specification Spec/Typing.lean over the independent grammar derivation confirms well-typedness), NEW (tree with every "
                "diagnostic, table, published byte ranges: implementation vs model); per program 3 single-fault variants out of 34 fault "
                "classes (all 27 build/semantic message kinds except MainIsMissing, unary minus on a non-integer, missing ';' and ')'), "
                "each a template statement/declaration inserted without removing anything: JUDGEFAULT (exactly the expected rule is "
                "reported, on a range overlapping the culprit tokens, and no other rule). " + TEXT_RULE,
        "unproved_parts": ["PROVED for the model: valid_text_no_diagnostics (a text that lexes, whose tokens the grammar specification derives a program "
                           "from and whose program the typing specification accepts, gets no diagnostic at all), welltyped_analysis_identity, "
                           "welltyped_diagnostics; NOT theorems: the per-rule fault statements (JUDGEFAULT on the implementation, model tied by NEW)",
                           "MainIsMissing has no construct to lie on and is not injected"],
    },
    "C01": {
        "rule": "initial documents: G_prog programs (plain and with comments), syntactically broken programs, lexeme sequences, Unicode "
                "soup; histories of 1-4 edits (2/3 token-aligned: insert/delete/replace whole tokens, statements, comment lines; 1/3 "
                "arbitrary char-boundary ranges with soup): INC (AnalyzedSource::update: tokens, tree with every diagnostic, table, "
                "published diagnostics vs the bug-for-bug Lean model of lexer::update + parser::update + build + analyze), PROPINC "
                "(update = new(final text), first differing layer reported; evaluated on implementation and model). " + TEXT_RULE,
        "unproved_parts": ["the tree layer is FALSE on the current tree (known finding KF-C01-parser, Lean witness C01.kf_c01_parser_witness); "
                           "failures are attributed to it only when the Lean model of parser::update predicts exactly the same outcome",
                           "token layer: the general theorem update = lex is C07's (table obligation proved, equality evaluated exhaustively)"],
    },
    "C02": {
        "panic_is_violation": True,
        "rule": "documents: Unicode soup, mutated programs, token soup, nesting depth 1-64 (parentheses / if-blocks), CRLF lexeme "
                "sequences, valid programs; NEW (AnalyzedSource::new + errors(): implementation vs model, a PANIC answer is a violation) "
                "and INC histories of 1-5 edits through AnalyzedSource::update (PANIC answers are violations unless the Lean model of "
                "the incremental parser predicts exactly that panic: known finding KF-C02-update-panic). " + TEXT_RULE,
        "unproved_parts": ["lex_parse_total / parse_total ARE theorems (for every text: tokens and a program - no panic, no 'Parser cannot fail'; fuel budgets suffice, no slice / subtraction out of range, loops make progress, recoveries stop in front of the final Eof); new_total IS a theorem too (symbol-table and semantic passes never panic on any parsed program); NOT theorems: the incremental update path (known finding), errors() range conversion of every diagnostic, the handlers: evaluated on implementation and model",
                           "invariant of the parser model) is evaluated on implementation and model, not yet a theorem",
                           "the 13 request handlers at every position are exercised by C12-C17's checks; stack exhaustion on deep nesting "
                           "is a runtime effect the model cannot exhibit (nesting bound 64 quick / 512 thorough)"],
    },
    "C04": {
        "rule": "G_prog: programs well-typed by construction (0-3 type declarations incl. nested arrays, 1-4 procedures, reference "
                "parameters, nested if/else/while/blocks, calls, indexed variables, unary minus, parenthesised expressions; depth 3, "
                "every 5th depth 5), each under two layouts (random whitespace/CRLF/tabs; comment lines in ANY token gap with "
                "probability 20%): PARSE (implementation tree incl. every range, offset and diagnostic vs the Lean parser model), "
                "SPECPARSE (implementation tree vs the independently written grammar derivation Spec/Grammar.lean with ranges placed "
                "by the rule 'own tokens plus leading comments'). " + TEXT_RULE,
        "unproved_parts": ["none for the model: parse_conforms (Parse.parse toks = Grammar.parse toks whenever the specification derives a program, any token "
                           "sequence ending in a non-comment token) is a theorem; the tie of the model to parser.rs is the PARSE correspondence, "
                           "SPECPARSE compares implementation and specification directly"],
    },
    "C05": {
        "rule": "G_prog programs with >= 2 global declarations; one declaration k, one non-keyword token of it is deleted / replaced / "
                "has a token inserted before it (34-token alphabet incl. unbalanced brackets and an unknown character); comment lines "
                "are part of the shared token list; PROPCONTAIN (on implementation and on model): declarations before k keep their "
                "sub-tree verbatim, declarations after k keep it up to the Reference offset, every lexical/syntax diagnostic lies in "
                "the damaged segment; NEW (full analysis of the damaged program: implementation vs model). " + TEXT_RULE,
        "unproved_parts": ["keywords_start_declarations (every proc/type keyword of ANY token sequence starts its own declaration node: damage never swallows a declaration keyword), prefix_verbatim (declarations in front of anything are parsed verbatim), global_resync, loop_resumes and following_declarations_as_before (wherever the declaration loop stands directly behind a token in front of the same tokens as in the undamaged sequence, it returns the undamaged program's sub-trees, each at its Reference offset moved by the position difference; Lemmas/Shift: index-shift invariance of all 16 functions of the grammar specification) and declarations_behind_damage_as_before (END TO END: every parse of ANY token sequence that goes on like the undamaged one from the start of a declaration d0 contains exactly the undamaged program's declarations from d0 on - identical sub-trees, offsets moved; Lemmas/FreshEnd: loop iterations start directly behind a token) ARE theorems; the "
                           "confinement of diagnostics to the damaged segment and the symbol-table entries of the other declarations are evaluated (PROPCONTAIN, NEW) on implementation "
                           "and model, not theorems",
                           "hover/goto inside undamaged declarations are covered by C12-C14's own checks, not re-run here"],
    },
    "C20": {
        "binary": True,
        "no_harness_gen": True,
        "binary_cases": binchecks.c20_cases,
        "rule": "histories of open/change/close notifications, $/verif/text probes, foldingRange and unknown requests over five URIs "
                "(two differing only in scheme, one non-ASCII) are sent to the built binary in ONE pipelined burst (quick: 8 histories of "
                "60-200 messages, thorough: 24 of up to 1500; >> the channel capacities of 32) under the default multi-threaded runtime, "
                "with and without the publishDiagnostics capability; the response stream (ids in request order, exactly one each) and "
                "the document-related projection (responses + diagnostics in order) must equal the in-process SEQUENTIAL execution of the "
                "same handlers (harness op SEQ); SPECNETTEXT compares the probed server texts with the Lean SeqServer model (C08 text model), "
                "JUDGENETSCHED runs the Lean process-network model under 6-12 pseudo-random schedules with capacities 1-3 and the "
                "generated ones and judges the projections against the sequential run. " + TEXT_RULE,
        "unproved_parts": ["net_refines_seq / net_prefix / net_no_deadlock / net_step_decreases ARE theorems (every input, schedule, "
                           "capacity >= 1); JUDGENETSCHED additionally runs the executable network model under pseudo-random schedules. "
                           "The model of the three tasks (one statement per step, the order of sends inside each task) is hand-written from "
                           "server.rs/document.rs/io.rs and tied by the binary runs only",
                           "tokio mpsc FIFO/back-pressure and the multi-threaded runtime are assumptions exercised only by the binary runs"],
    },
    "C19": {
        "binary": True,
        "binary_cases": binchecks.c19_cases,
        "rule": "in-process: the real LSCodec behind tokio-util FramedRead over a chunked AsyncRead; sessions of 1-4 frames with 24 header "
                "variants (LF-only, extra/third header, lower-case name, padded/+/empty/garbage length, wrong lengths, non-JSON body, "
                "cut-off sessions), random k-way chunkings: DEC (message sequence + terminal status: impl vs Lean model incl. the httparse "
                "model), PROPSPLIT (all two-way splits and byte-wise delivery decode like the unsplit stream, on both sides), ENC "
                "(encode = Content-Length of the byte length). Binary level: a non-ASCII session, all two-way splits (quick: every 7th), "
                "random k-way splits, byte-wise and delayed delivery must yield the same responses, diagnostics and exit status; every "
                "emitted frame's Content-Length must equal the byte length of its JSON body. " + TEXT_RULE,
        "unproved_parts": ["none for the modelled codec: chunk_independent holds without hypothesis (EnvOK is proved for the concrete header-parser model, C19.env_ok); the model of httparse::parse_headers is tied to the crate by the DEC correspondence only", "OS pipe delivery and write delays cannot be exhibited by the model; covered by the binary runs only"],
    },
    "C18": {
        "binary": True,
        "no_harness_gen": True,
        "binary_cases": binchecks.c18_cases,
        "rule": "the built binary (cargo build -p lsp4spl --features verif) is driven over stdio: every sequence over the 8-letter "
                "alphabet {initialize, initialized, supported request, unknown request, didOpen, unknown notification, shutdown, exit} "
                "up to length 4 (quick) / 5 (thorough) exhaustively plus random sequences up to length 12, each followed by end of input; "
                "responses (id, ok/error code, order) and exit status are compared with the Lean model (RPC) and the specification "
                "(SPECRPC); every (quick: every 5th) byte prefix of three sessions followed by EOF must terminate within 5 s. " + TEXT_RULE,
        "unproved_parts": ["'promptly' (time to exit after end of input) and the flushing of buffered responses before process exit are "
                           "runtime behaviour: observed on the binary (bounded latency, every response present), not a theorem"],
    },
    "C08": {
        "binary": True,
        "binary_cases": binchecks.c08_cases,
        "rule": "BINARY: initialize with five `general.positionEncodings` offers: the announced positionEncoding is absent or utf-16 (the "
                "server counts UTF-16 units) and prepareRename behind 2-/3-/4-byte characters answers the UTF-16 range. texts over {ASCII, 2-/3-/4-byte chars, CR, LF, CRLF}; per text: 3x IDX/SPECIDX (get_insertion_index: impl vs model "
                "vs independent line-table spec LspPos) at valid and overshooting positions, POS (as_position), PROPRT (index -> "
                "position -> index on every char boundary), PROPTOK (every token range fed back addresses the token), CHG/SPECCHG "
                "(1-4 notifications of 1-3 ranged/full-text changes: server text vs model vs client semantics), SPECDOCTEXT (every "
                "4th case: a history of didOpen / didChange batches incl. range-less changes with EMPTY text / didClose / reopen on two "
                "documents through the REAL broker task, the server's copy probed after every step vs the Lean text model; histories on "
                "which the document model predicts a panic of the tree layer are KF-C02's and not judged). " + TEXT_RULE,
        "unproved_parts": ["none for the model: index_eq_spec, sync and position_roundtrip are theorems; PROPRT/PROPTOK evaluate the round trip on the implementation on every run"],
    },
    "C06": {
        "rule": "G_text (weighted Unicode soup with quotes, CR, 0x, //, keyword prefixes, 2/3/4-byte chars) and "
                "G_lexemes (concatenations of SPL lexemes with random separators); per text: LEX (impl vs model), "
                "JUDGETILING (Lean tiling predicate on the implementation's tokens), SPECLEX (impl vs independent "
                "maximal-munch LexSpec when the text is lexically valid). " + TEXT_RULE,
        "unproved_parts": [],
    },
    "C07": {
        "rule": "random single edits (char-boundary byte ranges, insertions from soup/lexemes) of soup and lexeme texts: "
                "UPD (impl update vs model update: window and tokens), PROPUPD (update = batch lex of the new text and "
                "window truthful, evaluated on the implementation and on the model), PROPHIST (chains of 2-12 edits). " + TEXT_RULE,
        "unproved_parts": ["none for the model: update_eq_lex, window_truthful, history_eq_lex, lex_local are theorems for all texts and changes; "
                           "the tie of the model to lexer.rs/tokens.rs is the correspondence run (LEX, UPD) and the generated tables"],
        "escalate": ["PROPUPDX 2 2 " + "a0x/<=:' \né;".encode().hex()],
    },
}
