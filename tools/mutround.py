#!/usr/bin/env python3
"""Set up one round of seeded-change experiments (not a registered check).

usage: tools/mutround.py <round-number> [extra-steering-text-file]

For every property Cnn it creates a scratch git worktree /tmp/mut<r>/Cnn of /repo's HEAD, and
/tmp/mut<r>/Cnn-out/{prompt.txt,property.json}.  A fresh sub-agent is then pointed at prompt.txt only
(it sees nothing of /verif).  verify.sh / store.sh in /tmp/mut<r> confirm and store a delivered change.
"""
import json, subprocess, os, glob, re, sys
r = sys.argv[1]
steer = open(sys.argv[2]).read() if len(sys.argv) > 2 else ""
root = f"/tmp/mut{r}"
os.makedirs(root, exist_ok=True)
tpl = '''You are helping test a verification framework. You get a semantic property of a Rust project (LSP4SPL: a language server for the teaching language SPL, with an incremental lexer/parser, symbol table, semantic checker, formatter and LSP features) and a scratch git worktree of the project. Your job: invent ONE realistic source change (a plausible bug a developer could introduce) that BREAKS the property while the project still compiles and ALL existing tests still pass, and demonstrate it.

STRICT RULES
- Work ONLY inside @ROOT@/@ID@ (the worktree; it is a full copy of the project at its current commit) and write your deliverables ONLY to @ROOT@/@ID@-out/. Never read or write anything under /verif or /repo or other @ROOT@/* directories.
- The sandbox is offline. Build/test with: cd @ROOT@/@ID@ && CARGO_NET_OFFLINE=true CARGO_TARGET_DIR=@ROOT@/@ID@/target cargo test --workspace --offline   (first build takes 1-2 minutes). The binary is built with `cargo build -p lsp4spl --offline` (same env vars) -> @ROOT@/@ID@/target/debug/lsp4spl (LSP over stdio).
- NEVER use `git stash` (the stash is shared with other worktrees). To run something without your change: `git diff > @ROOT@/@ID@-out/p.diff; git apply -R @ROOT@/@ID@-out/p.diff; ...; git apply @ROOT@/@ID@-out/p.diff`.
- The property (JSON: statement, quantifier, anchors = where in the code it is meant to hold) is in @ROOT@/@ID@-out/property.json. Read it first, then read the anchored code AND everything it depends on.
- DIVERSITY REQUIREMENT: earlier engineers already tried changes in these places — do NOT touch them: @AVOID@. Also off limits for everybody: `parse_list` element offsets, `len_utf16` column counting in document.rs, `TokenType::look_ahead`, the offset computation of `lexer::update`, `impl Display for TokenType`.
@STEER@
- The change must need something SPECIFIC to manifest — not something ordinary use or the existing tests expose at once. Keep it small (a few lines), realistic (a refactoring, an optimisation, a "simplification", a copy-paste slip, a wrong boundary, a forgotten case), and make sure `cargo test --workspace --offline` still passes with it (all tests).
- Known limitations you must NOT rely on: the incremental parser (parser::update) already sometimes disagrees with a fresh parse, the formatter already drops comments that are not in leading positions (before a statement/declaration), and completion at the start of an unbraced if/while branch already proposes only variables. Your change must break the property in a way clearly caused by your change.

DELIVERABLES in @ROOT@/@ID@-out/
1. patch.diff — output of `git -C @ROOT@/@ID@ diff` (source change only; do not include your demo in it).
2. demo — a demonstration that FAILS with the change and PASSES without it. If it is a python script name it demo.py and let it take the binary path as its first argument (default @ROOT@/@ID@/target/debug/lsp4spl); if it is a Rust integration test name it demo.rs (to be copied to spl_frontend/tests/demo_@ID@.rs or lsp4spl/tests/demo_@ID@.rs — say which in meta.json as "demo_kind": "rust:spl_frontend" | "rust:lsp4spl" | "py"). Actually run it both ways and record the outputs in demo_output.txt.
3. meta.json — {"property": "@ID@", "summary": "...what the change does...", "needs_to_manifest": "...the specific input/sequence needed...", "files_changed": [...], "tests_pass_with_change": true/false, "demo_kind": "...", "commands_run": [...]}.

Finish by replying with a 5-line summary (what you changed, the triggering input, confirmation that the existing test suite passes with the change and that your demo fails with it / passes without it). Leave the worktree with your source change applied (uncommitted).
'''
props = {json.loads(l)['id']: json.loads(l) for l in open('/verif/properties.jsonl')}
for i in range(1, 21):
    pid = f'C{i:02d}'
    funcs = []
    for d in sorted(glob.glob(f'/verif/seeded/{pid}-*/')):
        m = json.load(open(d + 'meta.json'))
        files = m.get('files_changed', [])
        hdr = set()
        for l in open(d + 'patch.diff'):
            mm = re.match(r'@@.*@@\s*(.*)', l)
            if mm and mm.group(1).strip():
                hdr.add(mm.group(1).strip()[:60])
        funcs.append(f"{', '.join(files)} ({'; '.join(sorted(hdr)[:2])})")
    os.makedirs(f'{root}/{pid}-out', exist_ok=True)
    open(f'{root}/{pid}-out/prompt.txt', 'w').write(
        tpl.replace('@STEER@', steer).replace('@ID@', pid).replace('@ROOT@', root).replace('@AVOID@', ' | '.join(funcs)))
    json.dump(props[pid], open(f'{root}/{pid}-out/property.json', 'w'), indent=1)
    rr = subprocess.run(['git', '-C', '/repo', 'worktree', 'add', '--detach', f'{root}/{pid}', 'HEAD'], capture_output=True, text=True)
    if rr.returncode:
        print(pid, rr.stderr[-200:])
open(f'{root}/verify.sh', 'w').write('''#!/bin/bash
id=$1; wt=@ROOT@/$id; out=@ROOT@/$id-out
export CARGO_NET_OFFLINE=true CARGO_TARGET_DIR=$wt/target
{
cd $wt
git diff > $out/my.diff
cmp -s $out/my.diff $out/patch.diff && echo "diff-same" || { echo "diff-DIFFERENT"; git status --short; }
echo "--- existing tests WITH change"
cargo test --workspace --offline 2>&1 | grep -E "^test result|FAILED|failed" | head -4
kind=$(python3 -c "import json;print(json.load(open('$out/meta.json')).get('demo_kind','?'))")
echo "demo_kind=$kind"
run() {
  case $kind in
    rust:*) crate=${kind#rust:}; mkdir -p $crate/tests; cp $out/demo.rs $crate/tests/demo_$id.rs; cargo test -p $crate --offline --test demo_$id 2>&1 | grep -E "^test result|^test .*(FAILED|ok)$|^error" | tail -8; rc=${PIPESTATUS[0]}; rm -f $crate/tests/demo_$id.rs; echo "rc=$rc";;
    py) cargo build -p lsp4spl --offline 2>&1 | tail -1; python3 $out/demo.py $wt/target/debug/lsp4spl 2>&1 | tail -6; echo "rc=${PIPESTATUS[0]}";;
    *) echo "unknown demo kind";;
  esac
}
echo "--- demo WITH change"; run
git apply -R $out/patch.diff
echo "--- demo WITHOUT change"; run
git apply $out/patch.diff
} > $out/confirm.log 2>&1
'''.replace('@ROOT@', root))
open(f'{root}/store.sh', 'w').write('''#!/bin/bash
id=$1; name=$id-r@R@-$2; out=@ROOT@/$id-out; d=/verif/seeded/$name
mkdir -p $d
cp $out/patch.diff $out/meta.json $out/demo_output.txt $d/ 2>/dev/null
cp $out/confirm.log $d/confirm.log
for f in demo.py demo.rs lsp.py lspc.py; do [ -f $out/$f ] && cp $out/$f $d/; done
git -C /repo worktree remove --force @ROOT@/$id
echo stored $name
'''.replace('@ROOT@', root).replace('@R@', r))
os.chmod(f'{root}/verify.sh', 0o755)
os.chmod(f'{root}/store.sh', 0o755)
print("worktrees:", subprocess.run(['git', '-C', '/repo', 'worktree', 'list'], capture_output=True, text=True).stdout.count('\n'))
