//! Text generators (G_text: weighted Unicode soup; G_lexemes: lexeme concatenations).
use crate::rng::Rng;

pub const SINGLE: &[&str] = &[
    "a", "b", "x", "i", "f", "n", "0", "1", "7", "9", "_", " ", " ", "\n", "\n", "\t", "\r", "\r\n", "'",
    "\\", "/", "(", ")", "[", "]", "{", "}", "=", "#", "<", ">", ":", ",", ";", "+", "-", "*", "é",
    "Ł", "€", "😀", "A", "F", "G", "g", "\"", "@", "$", ".", "X", "x", "\u{feff}", "ö", "O", "o",
    // characters that are white space for Unicode (`char::is_whitespace`, `str::trim`) but not for SPL
    "\u{a0}", "\u{c}", "\u{b}", "\u{85}", "\u{2028}", "\u{3000}",
];

pub const FRAGMENTS: &[&str] = &[
    "if", "else", "while", "array", "of", "proc", "ref", "type", "var", "0x", "//", "'\\n'", ":=",
    "<=", ">=", "'a'", "'é'", "0x1F", "4294967295", "4294967296", "0xFFFFFFFF", "0x100000000",
    "main", "int", "// c\n", "'😀'", "''", "'\\", "0xg", "007", "x1", "_y", "0X1F", "0Xa", "0X", "0o7", "grö", "whileé",
    "00000000001", "04294967295", "000000000000", "04294967296", "0x000000001", "0x0FFFFFFFF", "ref_x", "if_", "of_1",
    "// a\rb\n", "// c\r\r\n", "// proc p",
];

pub fn soup(rng: &mut Rng, max_items: usize) -> String {
    let n = rng.below(max_items + 1);
    let mut s = String::new();
    if rng.chance(1, 16) {
        s.push('\u{feff}'); // a byte order mark at the very start of the text
    }
    for _ in 0..n {
        if rng.chance(1, 4) {
            s.push_str(*rng.pick(FRAGMENTS));
        } else {
            s.push_str(*rng.pick(SINGLE));
        }
    }
    s
}

pub const KEYWORDS: &[&str] = &["if", "else", "while", "array", "of", "proc", "ref", "type", "var"];
pub const SYMBOLS: &[&str] = &[
    "(", ")", "[", "]", "{", "}", "=", "#", "<", "<=", ">", ">=", ":=", ":", ",", ";", "+", "-", "*", "/",
];

pub fn ident(rng: &mut Rng) -> String {
    let first = b"abcxyzifpvwetAZ_";
    let rest = b"abcxyz019_AZifn";
    let mut s = String::new();
    s.push(first[rng.below(first.len())] as char);
    for _ in 0..rng.below(6) {
        s.push(rest[rng.below(rest.len())] as char);
    }
    if rng.chance(1, 8) {
        // keyword prefix / keyword + suffix
        s = format!("{}{}", rng.pick(KEYWORDS), if rng.chance(1, 2) { "x" } else { "_" });
    }
    if KEYWORDS.contains(&s.as_str()) {
        s.push('1');
    }
    s
}

pub fn lexeme(rng: &mut Rng) -> String {
    match rng.below(12) {
        0 | 1 => rng.pick(KEYWORDS).to_string(),
        2 | 3 | 4 => rng.pick(SYMBOLS).to_string(),
        5 | 6 => ident(rng),
        7 => match rng.below(5) {
            0 => "0".to_string(),
            1 => "4294967295".to_string(),
            2 => format!("{:03}", rng.below(1000)),
            3 if rng.chance(1, 3) => format!("{:011}", rng.next() % 5_000_000_000u64),
            _ => format!("{}", rng.next() % 100000),
        },
        8 => match rng.below(4) {
            0 => "0x0".to_string(),
            1 => "0xFFFFFFFF".to_string(),
            2 => format!("0x{:x}", rng.next() % 0xFFFF),
            _ => format!("0x{:04X}", rng.next() % 0xFFFFFF),
        },
        9 => {
            let cs = ["'a'", "'\\n'", "' '", "'é'", "'€'", "'😀'", "'''", "'\\'", "'/'", "'0'"];
            rng.pick(&cs).to_string()
        }
        10 => {
            let bodies = ["", " c", " é€😀 ", "// x", " if else", "\t'a", " 0x", " a\rb", " c\r\r", " proc p(", "\u{a0}x"];
            format!("//{}\n", rng.pick(&bodies))
        }
        _ => ident(rng),
    }
}

pub fn separator(rng: &mut Rng) -> String {
    let seps = ["", "", " ", " ", "\n", "\t", "\r\n", "  ", " \n ", "\r", "", " ", "\n", "\u{a0}", "\u{c}", "\u{3000}"];
    rng.pick(&seps).to_string()
}

pub fn lexemes(rng: &mut Rng, max_items: usize) -> String {
    let n = rng.below(max_items + 1);
    let mut s = separator(rng);
    for i in 0..n {
        let mut l = lexeme(rng);
        if i + 1 == n && l.starts_with("//") && rng.chance(1, 2) {
            l.pop(); // comment running to the end of the text
        }
        s.push_str(&l);
        s.push_str(&separator(rng));
    }
    s
}

/// A random char-boundary byte range of `text`.
pub fn char_range(rng: &mut Rng, text: &str) -> (usize, usize) {
    let mut bounds: Vec<usize> = text.char_indices().map(|(i, _)| i).collect();
    bounds.push(text.len());
    let a = *rng.pick(&bounds);
    let b = if rng.chance(1, 3) {
        a
    } else {
        // short deletions are the interesting ones
        let later: Vec<usize> = bounds.iter().cloned().filter(|&x| x >= a).take(6).collect();
        *rng.pick(&later)
    };
    (a, b)
}
