//! C06 / C07 operations on the real lexer.
use crate::gen_text;
use crate::rng::Rng;
use crate::wire::*;
use spl_frontend::lexer;
use spl_frontend::tokens::{Token, TokenChange};
use spl_frontend::TextChange;

pub fn gen_c06(rng: &mut Rng, n: usize, out: &mut Vec<String>) {
    for i in 0..n {
        let text = if i % 2 == 0 { gen_text::soup(rng, 24) } else { gen_text::lexemes(rng, 16) };
        let h = hex_str(&text);
        out.push(format!("LEX {}", h));
        out.push(format!("JUDGETILING {}", h));
        out.push(format!("SPECLEX {}", h));
    }
}

/// Alphabet of the exhaustive edit space: covers every look-ahead class (word, digit, hex
/// prefix, each extendable symbol and its extension, quote, whitespace, newline, non-ASCII).
pub const X_ALPHABET: &str = "a0x/<=:' \né;";

pub fn gen_edit(rng: &mut Rng) -> (String, usize, usize, String) {
    let text = match rng.below(3) {
        0 => gen_text::soup(rng, 16),
        1 => gen_text::lexemes(rng, 10),
        _ => gen_text::soup(rng, 4),
    };
    let (lo, hi) = gen_text::char_range(rng, &text);
    let ins = match rng.below(5) {
        4 => {
            // nothing but "white space" (for SPL or only for Unicode): the kind of insertion an editor sends all the time
            const WS: &[&str] = &[" ", "\n", "\t", "\r\n", "\u{a0}", "\u{c}", "\u{b}", "\u{85}", "\u{2028}", "\u{3000}"];
            (0..rng.range(1, 3)).map(|_| *rng.pick(WS)).collect::<String>()
        }
        0 => String::new(),
        1 => gen_text::soup(rng, 3),
        2 => gen_text::lexeme(rng),
        _ => gen_text::SINGLE[rng.below(gen_text::SINGLE.len())].to_string(),
    };
    (text, lo, hi, ins)
}

pub fn gen_c07(rng: &mut Rng, n: usize, thorough: bool, out: &mut Vec<String>) {
    for _ in 0..n {
        let (text, lo, hi, ins) = gen_edit(rng);
        let args = format!("{} {} {} {}", hex_str(&text), lo, hi, hex_str(&ins));
        out.push(format!("UPD {}", args));
        out.push(format!("PROPUPD {}", args));
    }
    out.push(format!("PROPUPDX {} {}", if thorough { "3 2" } else { "2 1" }, hex_str(X_ALPHABET)));
    // chained histories
    for _ in 0..(n / 8).max(1) {
        let mut text = gen_text::lexemes(rng, 8);
        let mut line = format!("PROPHIST {}", hex_str(&text));
        for _ in 0..rng.range(2, 12) {
            let (lo, hi) = gen_text::char_range(rng, &text);
            let ins = if rng.chance(1, 2) { gen_text::lexeme(rng) } else { gen_text::soup(rng, 2) };
            line.push_str(&format!(" {} {} {}", lo, hi, hex_str(&ins)));
            text.replace_range(lo..hi, &ins);
        }
        out.push(line);
    }
}

pub fn change_str(c: &TokenChange) -> String {
    format!("{}..{}+{}", c.deletion_range.start, c.deletion_range.end, c.insertion_len)
}

fn do_update(old: &str, lo: usize, hi: usize, ins: &str) -> (String, Vec<Token>, Vec<Token>, TokenChange) {
    let old_tokens = lexer::lex(old);
    let mut new_text = old.to_string();
    new_text.replace_range(lo..hi, ins);
    let change = TextChange { range: lo..hi, text: ins.to_string() };
    let (toks, tc) = lexer::update(&new_text, old_tokens.clone(), &change);
    (new_text, old_tokens, toks, tc)
}

/// The property C07 evaluated on one edit: result = batch lex, window truthful.
fn judge_update(old_tokens: &[Token], new_text: &str, toks: &[Token], tc: &TokenChange, delta: isize) -> Result<(), String> {
    let fresh = lexer::lex(new_text);
    if toks != fresh.as_slice() {
        let i = toks.iter().zip(fresh.iter()).position(|(a, b)| a != b).unwrap_or(toks.len().min(fresh.len()));
        return Err(format!("tokens-differ-at-{}", i));
    }
    let a = tc.deletion_range.start;
    let b = tc.deletion_range.end;
    if a > b || b > old_tokens.len() {
        return Err("window-out-of-range".into());
    }
    if toks.len() + (b - a) != old_tokens.len() + tc.insertion_len {
        return Err("window-length".into());
    }
    if toks[..a] != old_tokens[..a] {
        return Err("head-not-old".into());
    }
    let tail_new = &toks[a + tc.insertion_len..];
    let tail_old = &old_tokens[b..];
    for (n, o) in tail_new.iter().zip(tail_old.iter()) {
        let sh = |x: usize| (x as isize + delta) as usize;
        let same = n.token_type == o.token_type
            && n.range.start == sh(o.range.start)
            && n.range.end == sh(o.range.end)
            && n.errors.len() == o.errors.len()
            && n.errors.iter().zip(o.errors.iter()).all(|(x, y)| x.1 == y.1 && x.0.start == sh(y.0.start) && x.0.end == sh(y.0.end));
        if !same {
            return Err("tail-not-shifted-old".into());
        }
    }
    Ok(())
}

fn all_strings(alpha: &[char], max_len: usize) -> Vec<String> {
    let mut out = vec![String::new()];
    let mut frontier = vec![String::new()];
    for _ in 0..max_len {
        let mut next = Vec::new();
        for s in &frontier {
            for c in alpha {
                let mut t = s.clone();
                t.push(*c);
                next.push(t);
            }
        }
        out.extend(next.iter().cloned());
        frontier = next;
    }
    out
}

pub fn run(op: &str, args: &[&str]) -> Option<String> {
    match (op, args) {
        ("LEX", [t]) | ("JUDGETILING", [t]) | ("SPECLEX", [t]) => {
            let text = unhex_str(t)?;
            Some(toks_str(&lexer::lex(&text)))
        }
        ("UPD", [t, lo, hi, ins]) => {
            let old = unhex_str(t)?;
            let ins = unhex_str(ins)?;
            let (_, _, toks, tc) = do_update(&old, lo.parse().ok()?, hi.parse().ok()?, &ins);
            Some(format!("{} ; {}", change_str(&tc), toks_str(&toks)))
        }
        ("PROPUPD", [t, lo, hi, ins]) => {
            let old = unhex_str(t)?;
            let ins = unhex_str(ins)?;
            let lo: usize = lo.parse().ok()?;
            let hi: usize = hi.parse().ok()?;
            let (new_text, old_tokens, toks, tc) = do_update(&old, lo, hi, &ins);
            let delta = ins.len() as isize - (hi - lo) as isize;
            Some(match judge_update(&old_tokens, &new_text, &toks, &tc, delta) {
                Ok(()) => "ok".into(),
                Err(e) => format!("bad:{}", e),
            })
        }
        ("PROPUPDX", [l, m, alpha]) => {
            // exhaustive: all texts of <= l chars over the alphabet, all char ranges, all inserts of <= m chars
            let l: usize = l.parse().ok()?;
            let m: usize = m.parse().ok()?;
            let alpha: Vec<char> = unhex_str(alpha)?.chars().collect();
            let texts = all_strings(&alpha, l);
            let inserts = all_strings(&alpha, m);
            let nthreads = 16usize;
            let found = std::sync::Mutex::new(None::<String>);
            let counter = std::sync::atomic::AtomicUsize::new(0);
            std::thread::scope(|sc| {
                for t in 0..nthreads {
                    let texts = &texts;
                    let inserts = &inserts;
                    let found = &found;
                    let counter = &counter;
                    sc.spawn(move || {
                        for (ti, text) in texts.iter().enumerate() {
                            if ti % nthreads != t {
                                continue;
                            }
                            if found.lock().unwrap().is_some() {
                                return;
                            }
                            let mut bounds: Vec<usize> = text.char_indices().map(|(i, _)| i).collect();
                            bounds.push(text.len());
                            for (bi, &lo) in bounds.iter().enumerate() {
                                for &hi in &bounds[bi..] {
                                    for ins in inserts.iter() {
                                        counter.fetch_add(1, std::sync::atomic::Ordering::Relaxed);
                                        let r = std::panic::catch_unwind(|| {
                                            let (new_text, old_tokens, toks, tc) = do_update(text, lo, hi, ins);
                                            let delta = ins.len() as isize - (hi - lo) as isize;
                                            judge_update(&old_tokens, &new_text, &toks, &tc, delta)
                                        });
                                        let bad = match r {
                                            Ok(Ok(())) => None,
                                            Ok(Err(e)) => Some(e),
                                            Err(_) => Some("panic".to_string()),
                                        };
                                        if let Some(e) = bad {
                                            let mut f = found.lock().unwrap();
                                            if f.is_none() {
                                                *f = Some(format!(
                                                    "bad:case=PROPUPD {} {} {} {};{}",
                                                    hex_str(text), lo, hi, hex_str(ins), e
                                                ));
                                            }
                                            return;
                                        }
                                    }
                                }
                            }
                        }
                    });
                }
            });
            let f = found.lock().unwrap().clone();
            Some(f.unwrap_or_else(|| "ok".to_string()))
        }
        ("PROPHIST", rest) if rest.len() % 3 == 1 => {
            let mut text = unhex_str(rest[0])?;
            let mut toks = lexer::lex(&text);
            for (step, ch) in rest[1..].chunks(3).enumerate() {
                let lo: usize = ch[0].parse().ok()?;
                let hi: usize = ch[1].parse().ok()?;
                let ins = unhex_str(ch[2])?;
                let old_tokens = toks.clone();
                text.replace_range(lo..hi, &ins);
                let change = TextChange { range: lo..hi, text: ins.clone() };
                let (t2, tc) = lexer::update(&text, toks, &change);
                let delta = ins.len() as isize - (hi - lo) as isize;
                if let Err(e) = judge_update(&old_tokens, &text, &t2, &tc, delta) {
                    return Some(format!("bad:step{}:{}", step, e));
                }
                toks = t2;
            }
            Some("ok".into())
        }
        _ => None,
    }
}
