//! C19 operations: the real `LSCodec` behind tokio-util's `FramedRead`, fed with chosen chunks.
use crate::error::CodecError;
use crate::io::{LSCodec, Message};
use crate::rng::Rng;
use crate::wire::*;
use bytes::BytesMut;
use futures::StreamExt;
use std::collections::VecDeque;
use std::pin::Pin;
use std::task::{Context, Poll};
use tokio::io::{AsyncRead, ReadBuf};
use tokio_util::codec::{Encoder, FramedRead};

struct Chunked {
    chunks: VecDeque<Vec<u8>>,
}

impl AsyncRead for Chunked {
    fn poll_read(mut self: Pin<&mut Self>, _cx: &mut Context<'_>, buf: &mut ReadBuf<'_>) -> Poll<std::io::Result<()>> {
        loop {
            match self.chunks.pop_front() {
                None => return Poll::Ready(Ok(())), // EOF
                Some(c) if c.is_empty() => continue,
                Some(mut c) => {
                    let n = c.len().min(buf.remaining());
                    buf.put_slice(&c[..n]);
                    if n < c.len() {
                        let rest = c.split_off(n);
                        self.chunks.push_front(rest);
                    }
                    return Poll::Ready(Ok(()));
                }
            }
        }
    }
}

fn feed(chunks: Vec<Vec<u8>>) -> String {
    let rt = tokio::runtime::Builder::new_current_thread().build().unwrap();
    rt.block_on(async move {
        let mut framed = FramedRead::new(Chunked { chunks: chunks.into() }, LSCodec);
        let mut out: Vec<String> = Vec::new();
        let mut terminal = "eof".to_string();
        while let Some(item) = framed.next().await {
            match item {
                Ok(msg) => out.push(format!("F:{}", hex_str(&serde_json::to_string(&msg).unwrap()))),
                Err(e) => {
                    terminal = match e {
                        CodecError::InvalidHeaders => "E:headers".to_string(),
                        CodecError::InvalidContent(_) => "E:content".to_string(),
                        CodecError::IOError(_) => "E:io".to_string(),
                    };
                    break;
                }
            }
        }
        out.push(format!("; {}", terminal));
        out.join(" ")
    })
}

fn canonical_body(raw: &str) -> String {
    let m: Message = serde_json::from_str(raw).expect("generator produces valid messages");
    serde_json::to_string(&m).unwrap()
}

const TEXTS: &[&str] = &["proc main() {}", "// é€😀\nproc main() {\n    printi('x');\n}\n", "type t = array [3] of int;\n", "x"];

fn gen_body(rng: &mut Rng) -> String {
    let id = rng.below(1000);
    let raw = match rng.below(6) {
        0 => format!(r#"{{"jsonrpc":"2.0","id":{},"method":"initialize","params":{{"capabilities":{{}}}}}}"#, id),
        1 => r#"{"jsonrpc":"2.0","method":"initialized","params":{}}"#.to_string(),
        2 => format!(
            r#"{{"jsonrpc":"2.0","method":"textDocument/didOpen","params":{{"textDocument":{{"uri":"file:///a.spl","languageId":"spl","version":1,"text":{}}}}}}}"#,
            serde_json::to_string(*rng.pick(TEXTS)).unwrap()
        ),
        3 => format!(r#"{{"jsonrpc":"2.0","id":{},"method":"textDocument/hover","params":{{"textDocument":{{"uri":"file:///a.spl"}},"position":{{"line":0,"character":{}}}}}}}"#, id, rng.below(9)),
        4 => format!(r#"{{"jsonrpc":"2.0","id":{},"method":"shutdown"}}"#, id),
        _ => r#"{"jsonrpc":"2.0","method":"exit"}"#.to_string(),
    };
    canonical_body(&raw)
}

fn gen_frame(rng: &mut Rng) -> Vec<u8> {
    let body: Vec<u8> = if rng.chance(1, 12) { b"!not json at all, but long enough".to_vec() } else { gen_body(rng).into_bytes() };
    let n = body.len();
    let header = match rng.below(24) {
        0 => format!("Content-Length: {}\n\n", n),
        1 => format!("Content-Type: application/vscode-jsonrpc; charset=utf-8\r\nContent-Length: {}\r\n\r\n", n),
        2 => format!("Content-Length: {}\r\nContent-Type: x\r\n\r\n", n),
        3 => format!("content-length: {}\r\n\r\n", n),
        4 => format!("Content-Length:{}\r\n\r\n", n),
        5 => format!("Content-Length:   {}  \r\n\r\n", n),
        6 => format!("Content-Length: +{}\r\n\r\n", n),
        7 => format!("A: 1\r\nB: 2\r\nContent-Length: {}\r\n\r\n", n),
        8 => format!("Content-Length {}\r\n\r\n", n),
        9 => format!("Content-Length: {}x\r\n\r\n", n),
        10 => format!("Content-Length: {}\r\n\r\n", n + rng.below(3)),
        11 => format!("Content-Length: {}\r\n\r\n", n.saturating_sub(1 + rng.below(2))),
        12 => format!("Content-Length: \r\n\r\n"),
        13 => format!("X-é: 1\r\nContent-Length: {}\r\n\r\n", n),
        14 => format!("Content-Length: {}\rX\n\r\n", n),
        _ => format!("Content-Length: {}\r\n\r\n", n),
    };
    let mut f = header.into_bytes();
    f.extend_from_slice(&body);
    f
}

fn split_random(rng: &mut Rng, data: &[u8]) -> Vec<Vec<u8>> {
    let mut chunks = Vec::new();
    let mut i = 0;
    while i < data.len() {
        let n = match rng.below(4) {
            0 => 1,
            1 => rng.range(1, 8),
            2 => rng.range(1, 64),
            _ => rng.range(1, 400),
        };
        let j = (i + n).min(data.len());
        chunks.push(data[i..j].to_vec());
        i = j;
    }
    chunks
}

pub fn gen_c19(rng: &mut Rng, n: usize, out: &mut Vec<String>) {
    for k in 0..n {
        let mut data = Vec::new();
        for _ in 0..rng.range(1, 4) {
            data.extend(gen_frame(rng));
        }
        if rng.chance(1, 6) {
            let cut = rng.below(data.len() + 1);
            data.truncate(cut); // session cut off in the middle
        }
        let chunks = split_random(rng, &data);
        out.push(format!("DEC {}", chunks.iter().map(|c| hex(c)).collect::<Vec<_>>().join(" ")));
        out.push(format!("DEC {}", hex(&data)));
        if k % 4 == 0 {
            out.push(format!("PROPSPLIT {}", hex(&data)));
        }
        let body = gen_body(rng);
        out.push(format!("ENC {}", hex_str(&body)));
    }
}

pub fn run(op: &str, args: &[&str]) -> Option<String> {
    match op {
        "DEC" => {
            let chunks: Option<Vec<Vec<u8>>> = args.iter().map(|a| unhex(a)).collect();
            Some(feed(chunks?))
        }
        "PROPSPLIT" => {
            // all two-way splits decode like the unsplit stream
            let data = unhex(args.first()?)?;
            let whole = feed(vec![data.clone()]);
            for i in 0..=data.len() {
                let r = feed(vec![data[..i].to_vec(), data[i..].to_vec()]);
                if r != whole {
                    return Some(format!("bad:case=DEC {} {};split-at-{}-differs", hex(&data[..i]), hex(&data[i..]), i));
                }
            }
            // byte-wise
            let r = feed(data.iter().map(|b| vec![*b]).collect());
            if r != whole {
                return Some("bad:bytewise-differs".to_string());
            }
            Some("ok".into())
        }
        "ENC" => {
            let body = unhex_str(args.first()?)?;
            let msg: Message = serde_json::from_str(&body).ok()?;
            let mut dst = BytesMut::new();
            LSCodec.encode(msg, &mut dst).ok()?;
            Some(hex(&dst))
        }
        _ => None,
    }
}
