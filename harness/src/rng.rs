//! Single PRNG (splitmix64 seeding a xoshiro256**) — every random choice derives from it.
#[derive(Clone)]
pub struct Rng {
    s: [u64; 4],
}

fn splitmix(x: &mut u64) -> u64 {
    *x = x.wrapping_add(0x9E3779B97F4A7C15);
    let mut z = *x;
    z = (z ^ (z >> 30)).wrapping_mul(0xBF58476D1CE4E5B9);
    z = (z ^ (z >> 27)).wrapping_mul(0x94D049BB133111EB);
    z ^ (z >> 31)
}

impl Rng {
    pub fn new(seed: u64) -> Self {
        let mut x = seed;
        Rng { s: [splitmix(&mut x), splitmix(&mut x), splitmix(&mut x), splitmix(&mut x)] }
    }
    pub fn next(&mut self) -> u64 {
        let r = self.s[1].wrapping_mul(5).rotate_left(7).wrapping_mul(9);
        let t = self.s[1] << 17;
        self.s[2] ^= self.s[0];
        self.s[3] ^= self.s[1];
        self.s[1] ^= self.s[2];
        self.s[0] ^= self.s[3];
        self.s[2] ^= t;
        self.s[3] = self.s[3].rotate_left(45);
        r
    }
    /// uniform in 0..n (n > 0)
    pub fn below(&mut self, n: usize) -> usize {
        (self.next() % (n as u64)) as usize
    }
    pub fn range(&mut self, lo: usize, hi_incl: usize) -> usize {
        lo + self.below(hi_incl - lo + 1)
    }
    pub fn chance(&mut self, num: usize, den: usize) -> bool {
        self.below(den) < num
    }
    pub fn pick<'a, T>(&mut self, xs: &'a [T]) -> &'a T {
        &xs[self.below(xs.len())]
    }
}
