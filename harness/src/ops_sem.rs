//! C03: diagnostics of well-typed programs (none) and of single-fault variants (one rule, on the culprit).
use crate::gen_prog::{self, Binding, Layout, Prog, Tok, Ty};
use crate::rng::Rng;
use crate::wire::*;
use spl_frontend::{AnalyzedSource, ErrorContainer};

fn tok(text: &str, decl: usize) -> Tok {
    Tok { text: text.to_string(), binding: Binding::None, is_decl: false, gap: "fault", decl, stmt_start: false }
}

pub const FAULT_CLASSES: &[&str] = &[
    "UndefinedVariable", "UndefinedProcedure", "NotAVariable", "CallOfNoneProcedure", "TooFewArguments", "TooManyArguments",
    "ArgumentsTypeMismatch", "ArgumentMustBeAVariable", "IfConditionMustBeBoolean", "WhileConditionMustBeBoolean",
    "AssignmentHasDifferentTypes", "AssignmentRequiresIntegers", "OperatorDifferentTypes", "ComparisonNonInteger",
    "ArithmeticOperatorNonInteger", "IndexingNonArray", "IndexingWithNonInteger", "UndefinedType", "NotAType",
    "RedeclarationAsType", "RedeclarationAsProcedure", "RedeclarationAsParameter", "RedeclarationAsVariable",
    "MustBeAReferenceParameter", "MainIsNotAProcedure", "MainMustNotHaveParameters", "MissingTrailingSemic", "MissingClosing",
    "UnaryMinusNonInteger", "AssignmentLevels", "UndefinedVariableNested", "NotAVariableNested", "UndefinedVariableInArgs",
    "AnonymousArrayIdentity", "CallOfShadowedProcedure", "RedeclarationOtherType", "FaultInIndex", "FaultInCondition",
];

/// Inject one violation of rule `class` into a well-typed program.  Returns the new token list and the
/// culprit token index range `[lo, hi)` in it, or None when the program offers no place for it.
pub fn inject(rng: &mut Rng, prog: &Prog, class: &str) -> Option<(Vec<Tok>, usize, usize, String)> {
    let mut toks = prog.toks.clone();
    let np = prog.procs.len();
    let pi = rng.below(np);
    let decl_k = prog.order.iter().position(|e| *e == (true, pi))?;
    // index of the closing `}` of procedure pi
    let close = (0..toks.len()).rev().find(|&i| toks[i].decl == decl_k)?;
    let vars = &prog.procs[pi].vars;
    let int_var = vars.iter().find(|v| v.ty == Ty::Int && v.anon_dims.is_empty()).map(|v| v.name.clone());
    let dims = |v: &gen_prog::VarDef| -> usize {
        let mut n = v.anon_dims.len();
        let mut t = v.ty.clone();
        while let Ty::Named(i) = t {
            n += prog.types[i].dims.len();
            t = prog.types[i].base.clone();
        }
        n
    };
    let arr_var1 = vars.iter().find(|v| dims(v) == 1).map(|v| v.name.clone());
    let arr_named = vars.iter().find(|v| dims(v) >= 1 && v.anon_dims.is_empty()).map(|v| v.name.clone());
    let shadowed = |n: &str| vars.iter().any(|v| v.name == n);
    // statement-level templates: (tokens, culprit lo, culprit hi) relative to the template
    let stmt: Option<(Vec<String>, usize, usize, &str)> = match class {
        "UndefinedVariable" => Some((vec!["undefv", ":=", "1", ";"].iter().map(|s| s.to_string()).collect(), 0, 1, class)),
        // the same fault below other operators: no follow-up diagnostic may be added by the enclosing nodes
        "UndefinedVariableNested" => {
            let wrap: Vec<Vec<&str>> = vec![
                vec!["printi", "(", "-", "undefv", ")", ";"],
                vec!["printi", "(", "1", "+", "undefv", ")", ";"],
                vec!["printi", "(", "(", "undefv", ")", "*", "2", ")", ";"],
                vec!["printi", "(", "-", "(", "undefv", "/", "3", ")", ")", ";"],
                vec!["if", "(", "undefv", "<", "1", ")", ";"],
                vec!["while", "(", "1", "=", "-", "undefv", ")", ";"],
                vec!["if", "(", "-", "undefv", ">=", "2", ")", ";", "else", ";"],
            ];
            let w = rng.pick(&wrap).clone();
            if w[0] == "printi" && shadowed("printi") {
                None
            } else {
                let at = w.iter().position(|t| *t == "undefv").unwrap();
                Some((w.iter().map(|s| s.to_string()).collect(), at, at + 1, "UndefinedVariable"))
            }
        }
        "NotAVariableNested" if !shadowed("printi") && !shadowed("exit") => {
            let wrap: Vec<Vec<&str>> = vec![
                vec!["printi", "(", "-", "exit", ")", ";"],
                vec!["printi", "(", "2", "*", "exit", ")", ";"],
                vec!["if", "(", "-", "exit", "<", "1", ")", ";"],
            ];
            let w = rng.pick(&wrap).clone();
            let at = w.iter().position(|t| *t == "exit").unwrap();
            Some((w.iter().map(|s| s.to_string()).collect(), at, at + 1, "NotAVariable"))
        }
        "UndefinedVariableInArgs" if !shadowed("setPixel") => {
            Some((vec!["setPixel", "(", "1", ",", "undefv", ",", "3", ")", ";"].iter().map(|s| s.to_string()).collect(), 4, 5, "UndefinedVariable"))
        }
        "UndefinedProcedure" => Some((vec!["undefp", "(", ")", ";"].iter().map(|s| s.to_string()).collect(), 0, 4, class)),
        "NotAVariable" if !shadowed("printi") => Some((vec!["printi", ":=", "1", ";"].iter().map(|s| s.to_string()).collect(), 0, 1, class)),
        "CallOfNoneProcedure" if !shadowed("int") => Some((vec!["int", "(", ")", ";"].iter().map(|s| s.to_string()).collect(), 0, 4, class)),
        "TooFewArguments" if !shadowed("printi") => Some((vec!["printi", "(", ")", ";"].iter().map(|s| s.to_string()).collect(), 0, 4, class)),
        "TooManyArguments" if !shadowed("printi") => Some((vec!["printi", "(", "1", ",", "2", ")", ";"].iter().map(|s| s.to_string()).collect(), 0, 7, class)),
        "ArgumentsTypeMismatch" if !shadowed("printi") => Some((vec!["printi", "(", "1", "<", "2", ")", ";"].iter().map(|s| s.to_string()).collect(), 2, 5, class)),
        "ArgumentMustBeAVariable" if !shadowed("readi") => Some((vec!["readi", "(", "1", ")", ";"].iter().map(|s| s.to_string()).collect(), 2, 3, class)),
        "IfConditionMustBeBoolean" => Some((vec!["if", "(", "1", ")", ";"].iter().map(|s| s.to_string()).collect(), 2, 3, class)),
        "WhileConditionMustBeBoolean" => Some((vec!["while", "(", "1", "+", "2", ")", ";"].iter().map(|s| s.to_string()).collect(), 2, 5, class)),
        "AssignmentHasDifferentTypes" => int_var.clone().map(|x| (vec![x, ":=".into(), "1".into(), "<".into(), "2".into(), ";".into()], 0, 6, class)),
        // an array variable indexed once against the whole array: two different types (also when both
        // levels come from the same declaration: name equivalence is per array constructor)
        "AssignmentLevels" => vars.iter().find(|v| dims(v) >= 1).map(|v| v.name.clone()).map(|a| (vec![a.clone(), "[".into(), "0".into(), "]".into(), ":=".into(), a, ";".into()], 0, 7, "AssignmentHasDifferentTypes")),
        "AssignmentRequiresIntegers" => arr_named.clone().map(|a| (vec![a.clone(), ":=".into(), a, ";".into()], 0, 4, class)),
        "OperatorDifferentTypes" => int_var.clone().map(|x| (vec![x, ":=".into(), "1".into(), "+".into(), "(".into(), "1".into(), "<".into(), "2".into(), ")".into(), ";".into()], 2, 9, class)),
        "ComparisonNonInteger" => Some((vec!["if", "(", "(", "1", "<", "2", ")", "=", "(", "2", "<", "3", ")", ")", ";"].iter().map(|s| s.to_string()).collect(), 2, 13, class)),
        "ArithmeticOperatorNonInteger" => int_var.clone().map(|x| {
            let mut v = vec![x, ":=".to_string()];
            v.extend(["(", "1", "<", "2", ")", "*", "(", "2", "<", "3", ")", ";"].iter().map(|s| s.to_string()));
            (v, 2, 13, class)
        }),
        "UnaryMinusNonInteger" if !shadowed("printi") => Some((vec!["printi", "(", "-", "(", "1", "<", "2", ")", ")", ";"].iter().map(|s| s.to_string()).collect(), 2, 8, "ArithmeticOperatorNonInteger")),
        "IndexingNonArray" => int_var.clone().map(|x| (vec![x, "[".into(), "0".into(), "]".into(), ":=".into(), "1".into(), ";".into()], 0, 4, class)),
        "IndexingWithNonInteger" => arr_var1.clone().map(|a| (vec![a, "[".into(), "1".into(), "<".into(), "2".into(), "]".into(), ":=".into(), "1".into(), ";".into()], 2, 5, class)),
        // the fault sits directly in an index position: the index has no type, and the indexing rule itself is not violated
        "FaultInIndex" => arr_var1.clone().and_then(|a| {
            let s = |v: &[&str]| v.iter().map(|t| t.to_string()).collect::<Vec<String>>();
            match rng.below(5) {
                0 => Some((s(&[&a, "[", "undefv", "]", ":=", "1", ";"]), 2, 3, "UndefinedVariable")),
                1 if !shadowed("exit") => Some((s(&[&a, "[", "exit", "]", ":=", "1", ";"]), 2, 3, "NotAVariable")),
                2 => int_var.clone().map(|x| (s(&[&a, "[", &x, "[", "0", "]", "]", ":=", "1", ";"]), 2, 6, "IndexingNonArray")),
                3 => int_var.clone().map(|x| (s(&[&x, ":=", &a, "[", "undefv", "]", ";"]), 4, 5, "UndefinedVariable")),
                _ => Some((s(&[&a, "[", &a, "[", "undefv", "]", "]", ":=", "1", ";"]), 4, 5, "UndefinedVariable")),
            }
        }),
        // the fault IS the whole test expression of an `if` / `while`: the condition has no type, and the rule about
        // boolean conditions itself is not violated (exactly one diagnostic)
        "FaultInCondition" => {
            let s = |v: &[&str]| v.iter().map(|t| t.to_string()).collect::<Vec<String>>();
            let kw = if rng.chance(1, 2) { "if" } else { "while" };
            match rng.below(3) {
                0 => Some((s(&[kw, "(", "undefv", ")", ";"]), 2, 3, "UndefinedVariable")),
                1 if !shadowed("exit") => Some((s(&[kw, "(", "exit", ")", ";"]), 2, 3, "NotAVariable")),
                _ => int_var.clone().map(|x| (s(&[kw, "(", &x, "[", "0", "]", ")", ";"]), 2, 6, "IndexingNonArray")),
            }
        }
        "MissingTrailingSemic" => Some((vec![";", "exit", "(", ")"].iter().map(|s| s.to_string()).collect(), 1, 4, class)),
        "MissingClosing" => Some((vec!["exit", "(", ";"].iter().map(|s| s.to_string()).collect(), 0, 3, class)),
        _ => None,
    };
    if let Some((tpl, lo, hi, kind)) = stmt {
        if (class == "MissingTrailingSemic" || class == "MissingClosing") && shadowed("exit") {
            return None;
        }
        let mut ins: Vec<Tok> = tpl.iter().map(|t| tok(t, decl_k)).collect();
        if class == "UndefinedVariableInArgs" {
            for t in ins.iter_mut().skip(2) {
                t.gap = "in-args";
            }
        }
        let at = close;
        toks.splice(at..at, ins);
        return Some((toks, at + lo, at + hi, kind.to_string()));
    }
    // declaration-level faults: a new declaration appended at the end (or main's signature changed)
    let nd = prog.order.len();
    let decl: Option<(Vec<&str>, usize, usize)> = match class {
        "UndefinedType" => Some((vec!["type", "tfault", "=", "undeft", ";"], 3, 4)),
        "NotAType" => Some((vec!["type", "tfault", "=", "printi", ";"], 3, 4)),
        "RedeclarationAsType" => Some((vec!["type", "int", "=", "int", ";"], 1, 2)),
        "RedeclarationAsProcedure" => Some((vec!["proc", "printi", "(", ")", "{", "}"], 1, 2)),
        "RedeclarationAsParameter" => Some((vec!["proc", "pfault", "(", "a", ":", "int", ",", "a", ":", "int", ")", "{", "}"], 7, 8)),
        "RedeclarationAsVariable" => Some((vec!["proc", "pfault", "(", "a", ":", "int", ")", "{", "var", "a", ":", "int", ";", "}"], 9, 10)),
        "MustBeAReferenceParameter" => Some((vec!["proc", "pfault", "(", "a", ":", "array", "[", "2", "]", "of", "int", ")", "{", "}"], 3, 4)),
        "MainIsNotAProcedure" => Some((vec!["type", "main", "=", "int", ";"], 1, 2)),
        _ => None,
    };
    // an array type written in a parameter or variable declaration is a new type: nothing but that very
    // parameter or variable has it, whatever the names and shapes of other declarations
    if class == "AnonymousArrayIdentity" {
        let tpl: Vec<&str> = match rng.below(4) {
            0 => vec!["type", "tfa", "=", "array", "[", "2", "]", "of", "int", ";",
                      "proc", "pfa", "(", "ref", "tfa", ":", "array", "[", "2", "]", "of", "int", ")", "{", "}",
                      "proc", "pfb", "(", ")", "{", "var", "x", ":", "tfa", ";", "pfa", "(", "x", ")", ";", "}"],
            1 => vec!["proc", "pfa", "(", "ref", "a", ":", "array", "[", "2", "]", "of", "int", ")", "{", "}",
                      "proc", "pfb", "(", ")", "{", "var", "a", ":", "array", "[", "2", "]", "of", "int", ";", "pfa", "(", "a", ")", ";", "}"],
            2 => vec!["proc", "pfa", "(", "ref", "a", ":", "array", "[", "3", "]", "of", "array", "[", "2", "]", "of", "int", ")", "{", "}",
                      "proc", "pfb", "(", "ref", "a", ":", "array", "[", "3", "]", "of", "array", "[", "2", "]", "of", "int", ")", "{", "pfa", "(", "a", ")", ";", "}"],
            _ => vec!["type", "tfa", "=", "array", "[", "2", "]", "of", "int", ";",
                      "proc", "pfa", "(", "ref", "a", ":", "tfa", ")", "{", "}",
                      "proc", "pfb", "(", ")", "{", "var", "tfa", ":", "array", "[", "2", "]", "of", "int", ";", "pfa", "(", "tfa", ")", ";", "}"],
        };
        // the culprit is the argument: the token after the last `(`
        let lo = tpl.iter().rposition(|t| *t == "(")? + 1;
        let at = toks.len();
        let ins: Vec<Tok> = tpl.iter().map(|t| tok(t, nd)).collect();
        toks.splice(at..at, ins);
        return Some((toks, at + lo, at + lo + 1, "ArgumentsTypeMismatch".to_string()));
    }
    // a local variable or parameter hides a procedure of the same name: calling it is a call of a non-procedure
    if class == "CallOfShadowedProcedure" {
        let tpl: Vec<&str> = match rng.below(4) {
            0 => vec!["proc", "pfa", "(", "i", ":", "int", ")", "{", "}",
                      "proc", "pfb", "(", ")", "{", "var", "pfa", ":", "int", ";", "pfa", "(", "1", ")", ";", "}"],
            1 => vec!["proc", "pfb", "(", ")", "{", "var", "printi", ":", "int", ";", "printi", "(", "printi", ")", ";", "}"],
            2 => vec!["proc", "pfb", "(", "pfc", ":", "int", ")", "{", "pfc", "(", "pfc", ")", ";", "}",
                      "proc", "pfc", "(", "i", ":", "int", ")", "{", "}"],
            _ => vec!["proc", "pfb", "(", ")", "{", "var", "pfb", ":", "int", ";", "pfb", "(", ")", ";", "}"],
        };
        // the culprit is the call statement: from the callee (the token before the last `(` that follows a `;`
        // or `{`) to its `;`
        let semi = tpl.iter().rposition(|t| *t == ";")?;
        let mut lo = semi;
        while lo > 0 && tpl[lo - 1] != ";" && tpl[lo - 1] != "{" {
            lo -= 1;
        }
        let at = toks.len();
        let ins: Vec<Tok> = tpl.iter().map(|t| tok(t, nd)).collect();
        toks.splice(at..at, ins);
        return Some((toks, at + lo, at + semi + 1, "CallOfNoneProcedure".to_string()));
    }
    // a name redeclared with ANOTHER type keeps its first declaration: the uses (written for the first type)
    // get no diagnostic of their own
    if class == "RedeclarationOtherType" {
        let (tpl, lo, kind): (Vec<&str>, usize, &str) = match rng.below(4) {
            0 => (vec!["proc", "pfa", "(", "a", ":", "int", ")", "{", "var", "a", ":", "array", "[", "2", "]", "of", "int", ";",
                       "a", ":=", "a", "+", "1", ";", "}"], 9, "RedeclarationAsVariable"),
            1 => (vec!["proc", "pfa", "(", ")", "{", "var", "i", ":", "int", ";", "var", "i", ":", "array", "[", "3", "]", "of", "int", ";",
                       "i", ":=", "0", ";", "while", "(", "i", "<", "3", ")", "i", ":=", "i", "+", "1", ";", "}"], 11, "RedeclarationAsVariable"),
            2 => (vec!["proc", "pfa", "(", "ref", "v", ":", "array", "[", "2", "]", "of", "int", ",", "v", ":", "int", ")", "{",
                       "v", "[", "0", "]", ":=", "v", "[", "1", "]", ";", "}"], 13, "RedeclarationAsParameter"),
            _ => (vec!["type", "tfr", "=", "int", ";", "type", "tfr", "=", "array", "[", "2", "]", "of", "int", ";",
                       "proc", "pfa", "(", "x", ":", "tfr", ")", "{", "x", ":=", "x", "*", "2", ";", "}"], 6, "RedeclarationAsType"),
        };
        let at = toks.len();
        let ins: Vec<Tok> = tpl.iter().map(|t| tok(t, nd)).collect();
        toks.splice(at..at, ins);
        return Some((toks, at + lo, at + lo + 1, kind.to_string()));
    }
    if let Some((tpl, lo, hi)) = decl {
        // `type main` in front of everything or behind everything (its declaration offset is then > 0)
        let at = if class == "MainIsNotAProcedure" && rng.chance(1, 2) { 0 } else { toks.len() };
        let ins: Vec<Tok> = tpl.iter().map(|t| tok(t, nd)).collect();
        toks.splice(at..at, ins);
        return Some((toks, at + lo, at + hi, class.to_string()));
    }
    if class == "MainMustNotHaveParameters" {
        let mi = prog.procs.iter().position(|p| p.name == "main")?;
        let k = prog.order.iter().position(|e| *e == (true, mi))?;
        let name_at = (0..toks.len()).find(|&i| toks[i].decl == k && toks[i].text == "main" && toks[i].is_decl)?;
        // main ( -> main ( mainp : int
        let ins: Vec<Tok> = ["mainp", ":", "int"].iter().map(|t| tok(t, k)).collect();
        toks.splice(name_at + 2..name_at + 2, ins);
        return Some((toks, name_at, name_at + 1, class.to_string()));
    }
    None
}

/// A valid program in which ONE quantity is just beyond a round number (17, 33, 65, 101, 129, 257): the number of
/// parenthesised sub-expressions, of statements in a body, of procedures, of local variables, of parameters, of
/// array dimensions, of aliases in a chain, of nested blocks.  A limit, cap or counter at such a number shows.
pub fn scale_doc(rng: &mut Rng, k: usize) -> String {
    // the quantity and the number cycle with `k` (every combination comes up in a run of a few hundred cases)
    let n = [17usize, 33, 65, 101, 129, 257][(k / 8 + k) % 6] + rng.below(3);
    let mut t = String::new();
    match k % 8 {
        0 => {
            t.push_str("proc work(ref x: int) {\n");
            for k in 0..n / 2 { t.push_str(&format!("  x := (x + {}) * 3;\n", k)); }
            t.push_str("}\nproc main() {\n  var y: int;\n  y := 0;\n");
            for k in 0..(n - n / 2) { t.push_str(&format!("  y := (y - {}) + 2;\n", k)); }
            t.push_str("  work(y);\n}\n");
        }
        1 => {
            t.push_str("proc main() {\n  var y: int;\n  y := 0;\n");
            for k in 0..n { t.push_str(&format!("  y := y + {};\n", k)); }
            t.push_str("}\n");
        }
        2 => {
            for k in 0..n { t.push_str(&format!("proc p{}(a: int) {{ printi(a + {}); }}\n", k, k)); }
            t.push_str("proc main() {\n");
            for k in 0..n { t.push_str(&format!("  p{}({});\n", k, k)); }
            t.push_str("}\n");
        }
        3 => {
            t.push_str("proc main() {\n");
            for k in 0..n { t.push_str(&format!("  var v{}: int;\n", k)); }
            for k in 0..n { t.push_str(&format!("  v{} := {};\n", k, k)); }
            t.push_str(&format!("  printi(v{});\n}}\n", n - 1));
        }
        4 => {
            let m = n.min(70);
            t.push_str("proc many(");
            t.push_str(&(0..m).map(|k| format!("a{}: int", k)).collect::<Vec<_>>().join(", "));
            t.push_str(&format!(") {{ printi(a{}); }}\nproc main() {{\n  many(", m - 1));
            t.push_str(&(0..m).map(|k| format!("{}", k)).collect::<Vec<_>>().join(", "));
            t.push_str(");\n}\n");
        }
        5 => {
            let m = n.min(40);
            t.push_str(&format!("type deep = {}int;\nproc main() {{\n  var d: deep;\n  d{} := 1;\n}}\n", "array [2] of ".repeat(m), "[1]".repeat(m)));
        }
        6 => {
            t.push_str("type t0 = int;\n");
            for k in 1..n { t.push_str(&format!("type t{} = t{};\n", k, k - 1)); }
            t.push_str(&format!("proc main() {{\n  var x: t{};\n  x := 1;\n}}\n", n - 1));
        }
        _ => {
            let m = n.min(60);
            t.push_str(&format!("proc main() {{\n  var x: int;\n  {}x := 1;{}\n}}\n", "{ ".repeat(m), " }".repeat(m)));
        }
    }
    t
}

pub fn gen_c03(rng: &mut Rng, n: usize, out: &mut Vec<String>) {
    for i in 0..n {
        if i % 20 == 5 {
            let t = scale_doc(rng, i / 20);
            out.push(format!("SPECDIAG {}", hex_str(&t)));
            out.push(format!("NEW {}", hex_str(&t)));
            out.push(format!("PUB {}", hex_str(&t)));
        }
        let prog = gen_prog::gen(rng, 3, 4, 3);
        let lo = Layout { comment_pct: if i % 3 == 0 { 10 } else { 0 }, comment_gaps: None, compact: rng.chance(1, 3) };
        let text = gen_prog::layout(rng, &prog.toks, &lo).0;
        out.push(format!("SPECDIAG {}", hex_str(&text)));
        out.push(format!("NEW {}", hex_str(&text)));
        // single-fault variants
        for _ in 0..3 {
            let class = *rng.pick(FAULT_CLASSES);
            if let Some((toks, clo, chi, kind)) = inject(rng, &prog, class) {
                let lo = if class == "UndefinedVariableInArgs" {
                    // comment lines between the arguments and the commas of every call
                    Layout { comment_pct: 35, comment_gaps: Some(&["in-args"]), compact: rng.chance(1, 2) }
                } else {
                    Layout { comment_pct: 0, comment_gaps: None, compact: rng.chance(1, 2) }
                };
                let (t, offs, _) = gen_prog::layout(rng, &toks, &lo);
                let blo = offs[clo];
                let bhi = offs[chi - 1] + toks[chi - 1].text.len();
                out.push(format!("JUDGEFAULT {} {} {} {}", hex_str(&t), kind, blo, bhi));
                out.push(format!("NEW {}", hex_str(&t)));
                // what the broker publishes for it: the same diagnostics as LSP ranges (inside the document)
                out.push(format!("PUB {}", hex_str(&t)));
                // the same errors at the same BYTES but at other POSITIONS: a previous life of the URI (closed and
                // re-opened, or replaced by a full-text change) in which one blank was a line break (or the reverse)
                let tb = t.as_bytes();
                let cand = (1..blo.min(tb.len().saturating_sub(1))).rev().find(|&i| {
                    if tb[i] != b' ' {
                        return false;
                    }
                    let ls = t[..i].rfind('\n').map_or(0, |x| x + 1);
                    !t[ls..i].contains("//") && !(tb[i - 1] == b'\'' && tb[i + 1] == b'\'')
                });
                let prev = if let Some(i) = cand {
                    format!("{}\n{}", &t[..i], &t[i + 1..])
                } else {
                    t.replacen('\n', " ", 1)
                };
                let mode = if rng.chance(1, 2) { "X" } else { "C" };
                out.push(format!("PUB {} {} {}", hex_str(&t), hex_str(&prev), mode));
                out.push(format!("JUDGEPUB {} {} {} {} {}", hex_str(&t), hex_str(&prev), mode, blo, bhi));
            }
        }
    }
}

pub fn diag_str(text: String) -> String {
    let doc = AnalyzedSource::new(text);
    doc.errors().iter().map(err_str).collect::<String>()
}

pub fn run(op: &str, args: &[&str]) -> Option<String> {
    match op {
        "SPECDIAG" | "JUDGEFAULT" => Some(diag_str(unhex_str(args.first()?)?)),
        _ => None,
    }
}
