//! G_prog: generator of SPL programs that are well-typed by construction, emitted as a token
//! list with binding metadata, then laid out with random whitespace / comments.
use crate::rng::Rng;

#[derive(Clone, Debug, PartialEq)]
pub enum Ty {
    Int,
    /// named type (index into `Prog::types`)
    Named(usize),
}

#[derive(Clone, Debug)]
pub struct TypeDef {
    pub name: String,
    /// `None` = alias of the base; `Some(n)` = `array [n] of base`
    pub dims: Vec<u32>,
    pub base: Ty,
    pub doc: Option<String>,
}

#[derive(Clone, Debug)]
pub struct VarDef {
    pub name: String,
    pub ty: Ty,
    pub is_ref: bool,
    pub is_param: bool,
    /// anonymous array dims written in place (`var a: array [3] of int`)
    pub anon_dims: Vec<u32>,
}

/// What an identifier token refers to (known by construction).
#[derive(Clone, Debug, PartialEq)]
pub enum Binding {
    TypeDecl(usize),
    ProcDecl(usize),
    /// (procedure index, variable index in that procedure)
    Var(usize, usize),
    BuiltinProc(String),
    BuiltinInt,
    None,
}

#[derive(Clone, Debug)]
pub struct Tok {
    pub text: String,
    /// for identifier tokens: the binding and whether this occurrence is the declaration
    pub binding: Binding,
    pub is_decl: bool,
    /// syntactic role of the *gap before* this token (for comment placement bookkeeping)
    pub gap: &'static str,
    /// index of the global declaration this token belongs to
    pub decl: usize,
    /// nesting depth (for statement starts)
    pub stmt_start: bool,
}

#[derive(Clone, Debug, Default)]
pub struct Prog {
    pub types: Vec<TypeDef>,
    pub procs: Vec<ProcDef>,
    /// order of global declarations: (is_proc, index)
    pub order: Vec<(bool, usize)>,
    pub toks: Vec<Tok>,
}

#[derive(Clone, Debug, Default)]
pub struct ProcDef {
    pub name: String,
    pub vars: Vec<VarDef>,
    pub n_params: usize,
    pub doc: Option<String>,
}

struct Gen<'a> {
    rng: &'a mut Rng,
    p: Prog,
    cur_decl: usize,
    max_depth: usize,
}

const BUILTINS: &[(&str, usize)] = &[("printi", 1), ("printc", 1), ("exit", 0), ("clearAll", 1), ("setPixel", 3)];
const BUILTIN_REF: &[&str] = &["readi", "readc", "time"];

impl<'a> Gen<'a> {
    fn t(&mut self, text: &str, gap: &'static str) {
        self.p.toks.push(Tok { text: text.to_string(), binding: Binding::None, is_decl: false, gap, decl: self.cur_decl, stmt_start: false });
    }
    fn id(&mut self, text: &str, b: Binding, is_decl: bool, gap: &'static str) {
        self.p.toks.push(Tok { text: text.to_string(), binding: b, is_decl, gap, decl: self.cur_decl, stmt_start: false });
    }

    /// resolved element structure of a type: (dims, base int)
    fn dims_of(&self, ty: &Ty) -> Vec<u32> {
        match ty {
            Ty::Int => vec![],
            Ty::Named(i) => {
                let td = &self.p.types[*i];
                let mut d = td.dims.clone();
                d.extend(self.dims_of(&td.base));
                d
            }
        }
    }

    fn emit_type_ref(&mut self, ty: &Ty, gap: &'static str) {
        match ty {
            Ty::Int => self.id("int", Binding::BuiltinInt, false, gap),
            Ty::Named(i) => {
                let n = self.p.types[*i].name.clone();
                self.id(&n, Binding::TypeDecl(*i), false, gap)
            }
        }
    }

    fn emit_dims(&mut self, dims: &[u32], first_gap: &'static str) {
        let mut g = first_gap;
        for d in dims {
            self.t("array", g);
            self.t("[", "in-type");
            let lit = match self.rng.below(4) {
                0 => format!("0x{:X}", d),
                _ => format!("{}", d),
            };
            self.t(&lit, "in-type");
            self.t("]", "in-type");
            self.t("of", "in-type");
            g = "in-type";
        }
    }

    fn gen_type_decl(&mut self, idx: usize) {
        let td = self.p.types[idx].clone();
        self.t("type", "decl-start");
        self.id(&td.name, Binding::TypeDecl(idx), true, "in-type");
        self.t("=", "in-type");
        self.emit_dims(&td.dims, "in-type");
        self.emit_type_ref(&td.base, "in-type");
        self.t(";", "before-semic");
    }

    /// an int-typed expression over the variables of proc `pi`
    fn gen_int_expr(&mut self, pi: usize, depth: usize, gap: &'static str) {
        let choice = if depth == 0 { self.rng.below(3) } else { self.rng.below(8) };
        match choice {
            0 => {
                let lit = match self.rng.below(5) {
                    0 => format!("0x{:x}", self.rng.below(4096)),
                    // mostly Latin-1 (the value of a character literal beyond U+00FF is outside the language
                    // specification: such programs only feed the correspondence ops)
                    1 if self.rng.chance(1, 16) => self.rng.pick(&["'\u{20ac}'", "'\u{1F600}'"]).to_string(),
                    1 => self.rng.pick(&["'a'", "'a'", "','", "'\\'", "'''", "' '", "'\t'", "'\"'", "'/'", "'0'", "'\u{e9}'"]).to_string(),
                    2 => "'\\n'".to_string(),
                    _ => format!("{}", self.rng.below(100)),
                };
                self.t(&lit, gap)
            }
            1 | 2 => {
                if !self.gen_int_var(pi, depth, gap) {
                    self.t("1", gap)
                }
            }
            3 => {
                self.t("(", gap);
                self.gen_int_expr(pi, depth - 1, "in-expr");
                self.t(")", "in-expr");
            }
            4 => {
                self.t("-", gap);
                // unary minus binds a factor
                if self.rng.chance(1, 2) {
                    self.t("(", "in-expr");
                    self.gen_int_expr(pi, depth - 1, "in-expr");
                    self.t(")", "in-expr");
                } else if !self.gen_int_var(pi, depth - 1, "in-expr") {
                    self.t("2", "in-expr")
                }
            }
            _ => {
                self.gen_int_expr(pi, depth - 1, gap);
                let op = *self.rng.pick(&["+", "-", "*", "/"]);
                self.t(op, "in-expr");
                self.gen_int_expr(pi, depth - 1, "in-expr");
            }
        }
    }

    /// an int-valued variable access (scalar variable or fully indexed array); false if none exists
    fn gen_int_var(&mut self, pi: usize, depth: usize, gap: &'static str) -> bool {
        let n = self.p.procs[pi].vars.len();
        if n == 0 {
            return false;
        }
        let vi = self.rng.below(n);
        let v = self.p.procs[pi].vars[vi].clone();
        let mut dims = v.anon_dims.clone();
        dims.extend(self.dims_of(&v.ty));
        self.id(&v.name, Binding::Var(pi, vi), false, gap);
        for d in dims {
            self.t("[", "in-expr");
            if depth > 0 && self.rng.chance(1, 2) {
                self.gen_int_expr(pi, depth - 1, "in-expr");
            } else {
                let k = self.rng.below(d.max(1) as usize);
                self.t(&format!("{}", k), "in-expr");
            }
            self.t("]", "in-expr");
        }
        true
    }

    fn gen_cond(&mut self, pi: usize) {
        self.gen_int_expr(pi, 1, "in-expr");
        let op = *self.rng.pick(&["=", "#", "<", "<=", ">", ">="]);
        self.t(op, "in-expr");
        self.gen_int_expr(pi, 1, "in-expr");
    }

    fn mark_stmt_start(&mut self, from: usize) {
        if let Some(t) = self.p.toks.get_mut(from) {
            t.stmt_start = true;
        }
    }

    fn gen_stmt(&mut self, pi: usize, depth: usize, gap: &'static str) {
        let start = self.p.toks.len();
        let choice = if depth == 0 { self.rng.below(4) } else { self.rng.below(9) };
        match choice {
            0 => self.t(";", gap),
            1 | 2 => {
                // assignment to an int location
                if self.gen_int_var(pi, 1, gap) {
                    self.t(":=", "in-stmt");
                    self.gen_int_expr(pi, 2, "in-expr");
                    self.t(";", "before-semic");
                } else {
                    self.t(";", gap)
                }
            }
            3 | 4 => self.gen_call(pi, gap),
            5 | 6 => {
                self.t("if", gap);
                self.t("(", "in-stmt");
                self.gen_cond(pi);
                self.t(")", "in-stmt");
                self.gen_body(pi, depth - 1);
                if self.rng.chance(1, 2) {
                    self.t("else", "before-else");
                    if self.rng.chance(1, 4) {
                        // else if
                        self.t("if", "after-else");
                        self.t("(", "in-stmt");
                        self.gen_cond(pi);
                        self.t(")", "in-stmt");
                        self.gen_body(pi, depth - 1);
                    } else {
                        self.gen_body(pi, depth - 1);
                    }
                }
            }
            7 => {
                self.t("while", gap);
                self.t("(", "in-stmt");
                self.gen_cond(pi);
                self.t(")", "in-stmt");
                self.gen_body(pi, depth - 1);
            }
            _ => {
                self.t("{", gap);
                for _ in 0..self.rng.below(3) {
                    self.gen_stmt(pi, depth - 1, "stmt-start");
                }
                self.t("}", "before-rcurly");
            }
        }
        self.mark_stmt_start(start);
    }

    fn gen_body(&mut self, pi: usize, depth: usize) {
        if self.rng.chance(3, 4) {
            self.t("{", "after-cond");
            for _ in 0..self.rng.below(3) {
                self.gen_stmt(pi, depth, "stmt-start");
            }
            self.t("}", "before-rcurly");
        } else {
            self.gen_stmt(pi, 0, "after-cond");
        }
    }

    fn gen_call(&mut self, pi: usize, gap: &'static str) {
        // callee: an earlier or later user procedure (not main), or a builtin
        let n_user = self.p.procs.len();
        let user: Vec<usize> = (0..n_user)
            .filter(|&q| self.p.procs[q].name != "main" && !self.p.procs[pi].vars.iter().any(|v| v.name == self.p.procs[q].name))
            .collect();
        if !user.is_empty() && self.rng.chance(1, 2) {
            let q = *self.rng.pick(&user);
            let callee = self.p.procs[q].clone();
            // every argument must be constructible: ref params need a variable of the same type
            let mut plan: Vec<Option<usize>> = vec![];
            for prm in callee.vars.iter().take(callee.n_params) {
                if prm.is_ref || prm.ty != Ty::Int {
                    let cands: Vec<usize> = self.p.procs[pi]
                        .vars
                        .iter()
                        .enumerate()
                        .filter(|(_, v)| v.ty == prm.ty && v.anon_dims.is_empty() && prm.anon_dims.is_empty())
                        .map(|(i, _)| i)
                        .collect();
                    if cands.is_empty() {
                        // cannot call this procedure from here; emit an empty statement instead
                        self.t(";", gap);
                        return;
                    }
                    plan.push(Some(*self.rng.pick(&cands)));
                } else {
                    plan.push(None);
                }
            }
            self.id(&callee.name, Binding::ProcDecl(q), false, gap);
            self.t("(", "in-stmt");
            for (k, a) in plan.iter().enumerate() {
                if k > 0 {
                    self.t(",", "in-args");
                }
                match a {
                    Some(vi) => {
                        let name = self.p.procs[pi].vars[*vi].name.clone();
                        self.id(&name, Binding::Var(pi, *vi), false, "in-args")
                    }
                    None => self.gen_int_expr(pi, 2, "in-args"),
                }
            }
            self.t(")", "in-args");
            self.t(";", "before-semic");
        } else if self.rng.chance(1, 4) {
            // builtin with a reference parameter: needs a plain int variable
            let cands: Vec<usize> = self.p.procs[pi]
                .vars
                .iter()
                .enumerate()
                .filter(|(_, v)| v.ty == Ty::Int && v.anon_dims.is_empty())
                .map(|(i, _)| i)
                .collect();
            if cands.is_empty() {
                self.t(";", gap);
                return;
            }
            let b = *self.rng.pick(BUILTIN_REF);
            if self.p.procs[pi].vars.iter().any(|v| v.name == b) {
                self.t(";", gap);
                return;
            }
            let vi = *self.rng.pick(&cands);
            self.id(b, Binding::BuiltinProc(b.to_string()), false, gap);
            self.t("(", "in-stmt");
            let name = self.p.procs[pi].vars[vi].name.clone();
            self.id(&name, Binding::Var(pi, vi), false, "in-args");
            self.t(")", "in-args");
            self.t(";", "before-semic");
        } else {
            let (b, n) = *self.rng.pick(BUILTINS);
            if self.p.procs[pi].vars.iter().any(|v| v.name == b) {
                self.t(";", gap);
                return;
            }
            self.id(b, Binding::BuiltinProc(b.to_string()), false, gap);
            self.t("(", "in-stmt");
            for k in 0..n {
                if k > 0 {
                    self.t(",", "in-args");
                }
                self.gen_int_expr(pi, 2, "in-args");
            }
            self.t(")", "in-args");
            self.t(";", "before-semic");
        }
    }

    fn gen_proc_decl(&mut self, pi: usize) {
        let pd = self.p.procs[pi].clone();
        self.t("proc", "decl-start");
        self.id(&pd.name, Binding::ProcDecl(pi), true, "in-sig");
        self.t("(", "in-sig");
        for k in 0..pd.n_params {
            if k > 0 {
                self.t(",", "in-sig");
            }
            let v = pd.vars[k].clone();
            if v.is_ref {
                self.t("ref", "param-start");
                self.id(&v.name, Binding::Var(pi, k), true, "in-sig");
            } else {
                self.id(&v.name, Binding::Var(pi, k), true, "param-start");
            }
            self.t(":", "in-sig");
            if v.anon_dims.is_empty() {
                self.emit_type_ref(&v.ty, "after-colon");
            } else {
                self.emit_dims(&v.anon_dims, "after-colon");
                self.emit_type_ref(&v.ty, "in-type");
            }
        }
        self.t(")", "in-sig");
        self.t("{", "in-sig");
        for k in pd.n_params..pd.vars.len() {
            let v = pd.vars[k].clone();
            self.t("var", "vardec-start");
            self.id(&v.name, Binding::Var(pi, k), true, "in-vardec");
            self.t(":", "in-vardec");
            if v.anon_dims.is_empty() {
                self.emit_type_ref(&v.ty, "after-colon");
            } else {
                self.emit_dims(&v.anon_dims, "after-colon");
                self.emit_type_ref(&v.ty, "in-type");
            }
            self.t(";", "before-semic");
        }
        let n = self.rng.below(5);
        for _ in 0..n {
            self.gen_stmt(pi, self.max_depth, "stmt-start");
        }
        self.t("}", "before-rcurly");
    }
}

fn fresh_name(rng: &mut Rng, used: &mut Vec<String>, prefix: &str) -> String {
    loop {
        let pool = ["a", "b", "i", "j", "n", "x", "y", "acc", "tmp", "vec", "mat", "cnt", "val", "res", "k_1", "_z"];
        let mut s = format!("{}{}", prefix, rng.pick(&pool));
        if rng.chance(1, 3) {
            s.push_str(&format!("{}", rng.below(10)));
        }
        let reserved = ["if", "else", "while", "array", "of", "proc", "ref", "type", "var", "int", "main", "printi", "printc", "readi", "readc", "exit", "time", "clearAll", "setPixel", "drawLine", "drawCircle"];
        if !used.contains(&s) && !reserved.contains(&s.as_str()) {
            used.push(s.clone());
            return s;
        }
    }
}

/// A local name: usually fresh; sometimes the name of a predefined procedure (a local may hide it)
/// or a case variant of another local (SPL is case sensitive).
fn local_name(rng: &mut Rng, used: &mut Vec<String>) -> String {
    match rng.below(12) {
        0 => {
            let n = rng.pick(&["time", "exit", "printi", "printc", "readi", "readc", "clearAll", "setPixel", "main"]).to_string();
            if !used.contains(&n) {
                used.push(n.clone());
                return n;
            }
        }
        3 => {
            // an identifier that starts with a keyword and goes on with `_` or a digit (one word, not two)
            let n = rng.pick(&["ref_x", "if_", "while_1", "type_a", "var_b", "proc_c", "of_d", "array_e", "else_f", "ref1", "if0", "of_", "proc1", "type2", "var3", "while4", "else5", "array6", "proc9x", "type0_", "n\u{161}", "a\u{141}1", "x\u{161}\u{161}y"]).to_string();
            if !used.contains(&n) {
                used.push(n.clone());
                return n;
            }
        }
        1 | 2 => {
            let cands: Vec<String> = used
                .iter()
                .map(|u| {
                    let mut c = u.chars();
                    match c.next() {
                        Some(f) if f.is_ascii_lowercase() => f.to_ascii_uppercase().to_string() + c.as_str(),
                        _ => u.to_ascii_uppercase(),
                    }
                })
                .filter(|v| !used.contains(v) && v.chars().any(|c| c.is_ascii_uppercase()))
                .collect();
            if !cands.is_empty() {
                let n = rng.pick(&cands).clone();
                used.push(n.clone());
                return n;
            }
        }
        _ => {}
    }
    fresh_name(rng, used, "")
}

/// Generate a well-typed program.
pub fn gen(rng: &mut Rng, max_types: usize, max_procs: usize, max_depth: usize) -> Prog {
    let mut g = Gen { rng, p: Prog::default(), cur_decl: 0, max_depth };
    let mut global_names: Vec<String> = vec![];
    let nt = g.rng.below(max_types + 1);
    for i in 0..nt {
        let name = fresh_name(g.rng, &mut global_names, "T");
        let base = if i > 0 && g.rng.chance(1, 2) { Ty::Named(g.rng.below(i)) } else { Ty::Int };
        let ndims = g.rng.below(3);
        let dims: Vec<u32> = (0..ndims).map(|_| 1 + g.rng.below(9) as u32).collect();
        g.p.types.push(TypeDef { name, dims, base, doc: None });
    }
    let np = 1 + g.rng.below(max_procs);
    let main_at = g.rng.below(np);
    for i in 0..np {
        let name = if i == main_at { "main".to_string() } else { fresh_name(g.rng, &mut global_names, "p") };
        let mut vars = vec![];
        let mut local_names: Vec<String> = vec![];
        let n_params = if i == main_at { 0 } else { g.rng.below(4) };
        let mut forced_type: Option<usize> = None;
        for _ in 0..n_params {
            let proc_names: Vec<String> = global_names.iter().filter(|n| n.starts_with('p')).cloned().collect();
            let vname = if g.rng.chance(1, 6) && !proc_names.is_empty() {
                // shadow a global procedure name
                let n = g.rng.pick(&proc_names).clone();
                if local_names.contains(&n) { fresh_name(g.rng, &mut local_names, "") } else { local_names.push(n.clone()); n }
            } else {
                local_name(g.rng, &mut local_names)
            };
            // sometimes a parameter is named like a global type (parameter types resolve globally, so later
            // parameters may still use that type — and often do here; later LOCAL declarations may not: see below)
            let mut named_like: Option<usize> = None;
            let vname = if nt > 0 && g.rng.chance(1, 6) {
                let ti = g.rng.below(nt);
                let tn = g.p.types[ti].name.clone();
                if local_names.contains(&tn) { vname } else { local_names.push(tn.clone()); named_like = Some(ti); tn }
            } else if g.rng.chance(1, 40) && !local_names.contains(&"int".to_string()) {
                local_names.push("int".to_string());
                "int".to_string()
            } else {
                vname
            };
            let ty = match forced_type.take() {
                Some(ti) if g.rng.chance(2, 3) => Ty::Named(ti),
                _ => if nt > 0 && g.rng.chance(1, 2) { Ty::Named(g.rng.below(nt)) } else { Ty::Int },
            };
            if named_like.is_some() {
                forced_type = named_like;
            }
            // an anonymous array type written in place: `ref a: array [2] of T`
            let mut anon_dims: Vec<u32> = if g.rng.chance(1, 6) { vec![1 + g.rng.below(4) as u32] } else { vec![] };
            let mut ty = ty;
            // a parameter named like an array type and written with exactly that type's shape in place:
            // still an anonymous type of its own, not the declared one
            if let Some(ti) = named_like {
                if !g.p.types[ti].dims.is_empty() && g.rng.chance(1, 2) {
                    anon_dims = g.p.types[ti].dims.clone();
                    ty = g.p.types[ti].base.clone();
                }
            }
            let is_array = !g.dims_of(&ty).is_empty() || !anon_dims.is_empty();
            let is_ref = is_array || g.rng.chance(1, 3);
            vars.push(VarDef { name: vname, ty, is_ref, is_param: true, anon_dims });
        }
        for _ in 0..g.rng.below(4) {
            let mut vname = local_name(g.rng, &mut local_names);
            // a local variable's type must not be hidden by an earlier parameter/local of the same name
            let usable: Vec<usize> = (0..nt).filter(|&ti| !local_names.contains(&g.p.types[ti].name)).collect();
            let mut ty = if !usable.is_empty() && g.rng.chance(1, 2) { Ty::Named(*g.rng.pick(&usable)) } else { Ty::Int };
            let mut anon_dims: Vec<u32> = if g.rng.chance(1, 5) { vec![1 + g.rng.below(5) as u32] } else { vec![] };
            // a local named like an array type, written with that type's shape in place (its base type must
            // still be visible): an anonymous type of its own
            if nt > 0 && g.rng.chance(1, 10) {
                let ti = g.rng.below(nt);
                let tn = g.p.types[ti].name.clone();
                let base_visible = match &g.p.types[ti].base {
                    Ty::Named(b) => !local_names.contains(&g.p.types[*b].name),
                    _ => true,
                };
                if !g.p.types[ti].dims.is_empty() && !local_names.contains(&tn) && base_visible {
                    local_names.retain(|n| *n != vname);
                    local_names.push(tn.clone());
                    vname = tn;
                    anon_dims = g.p.types[ti].dims.clone();
                    ty = g.p.types[ti].base.clone();
                }
            }
            vars.push(VarDef { name: vname, ty, is_ref: false, is_param: false, anon_dims });
        }
        g.p.procs.push(ProcDef { name, vars, n_params, doc: None });
    }
    // order: types must precede their users (type bases refer to earlier types only); interleave procs freely,
    // but a procedure may use any type, so all types first in random relative order with procs after the
    // types they use: keep it simple — types in index order, procs inserted at random positions after all types
    // they reference.
    let mut order: Vec<(bool, usize)> = (0..nt).map(|i| (false, i)).collect();
    for pi in 0..np {
        let min_pos = g.p.procs[pi]
            .vars
            .iter()
            .filter_map(|v| if let Ty::Named(t) = v.ty { Some(t) } else { None })
            .max()
            .map(|t| order.iter().position(|e| *e == (false, t)).unwrap() + 1)
            .unwrap_or(0);
        let pos = min_pos + g.rng.below(order.len() - min_pos + 1);
        order.insert(pos, (true, pi));
    }
    g.p.order = order.clone();
    for (k, (is_proc, idx)) in order.iter().enumerate() {
        g.cur_decl = k;
        if *is_proc {
            g.gen_proc_decl(*idx);
        } else {
            g.gen_type_decl(*idx);
        }
    }
    g.p
}

/// Layout options.
pub struct Layout {
    /// probability (per 100) of a comment line in a gap that allows one
    pub comment_pct: usize,
    /// only gaps of these roles get comments (`None` = every gap)
    pub comment_gaps: Option<&'static [&'static str]>,
    pub compact: bool,
}

pub const LEADING_GAPS: &[&str] = &["decl-start", "stmt-start", "vardec-start", "param-start"];

fn needs_space(a: &str, b: &str) -> bool {
    let word = |s: &str| s.chars().all(|c| c.is_ascii_alphanumeric() || c == '_' || c == '\'');
    let wa = a.chars().last().map_or(false, |c| c.is_ascii_alphanumeric() || c == '_');
    let wb = b.chars().next().map_or(false, |c| c.is_ascii_alphanumeric() || c == '_');
    if wa && wb {
        return true;
    }
    let _ = word;
    // symbol pairs that would fuse: < =, > =, : =, / /
    matches!((a, b), ("<", "=") | (">", "=") | (":", "=") | ("/", "/") | (":", ":=") | ("<", "<=") | (">", ">=") | ("/", "//"))
        || (a.ends_with('/') && b.starts_with('/'))
        || (a == ":" && b.starts_with('='))
        || ((a == "<" || a == ">") && b.starts_with('='))
}

/// Lay the token list out as text. Returns (text, byte offset of every token, comments inserted as (gap role, text)).
pub fn layout(rng: &mut Rng, toks: &[Tok], lo: &Layout) -> (String, Vec<usize>, Vec<(String, String)>) {
    let mut s = String::new();
    let mut offs = Vec::with_capacity(toks.len());
    let mut comments = vec![];
    let mut n_comment = 0;
    // one line terminator for the whole document (as an editor writes it), or a mixture
    let nl_style = if lo.compact { 0 } else { rng.below(10) };
    let uniform_nl: Option<&str> = match nl_style {
        6 => Some("\n"),
        7 => Some("\r\n"),
        // a lone CR does not end a `//` comment: only in comment-free layouts
        8 if lo.comment_pct == 0 => Some("\r"),
        _ => None,
    };
    for (i, t) in toks.iter().enumerate() {
        // gap before token i
        let allow = lo.comment_gaps.map_or(true, |g| g.contains(&t.gap));
        if allow && lo.comment_pct > 0 && rng.below(100) < lo.comment_pct {
            if !s.is_empty() && !s.ends_with('\n') {
                // a comment may also stand directly behind the token in front of it (`else// c`, `{// c`, `;// c`) —
                // except behind `/`, where the three characters would be a different token sequence
                if s.ends_with('/') || !rng.chance(1, 4) {
                    s.push_str(if rng.chance(1, 2) { "\n" } else { " " });
                }
            }
            for _ in 0..(1 + rng.below(2)) {
                let n_bodies = if rng.chance(1, 6) { 6 } else { 5 };
                let body = match rng.below(n_bodies) {
                    // a bare CR inside the comment text: a new LINE for positions, but not the end of the comment
                    5 => format!(" c{}\rx y", n_comment),
                    0 => format!(" c{}", n_comment),
                    4 => format!(" f(a, b), c{} \u{1F600}", n_comment),
                    1 => format!("c{} é€", n_comment),
                    2 => format!("  c{}  ", n_comment),
                    _ => format!(" if x := c{} ;", n_comment),
                };
                n_comment += 1;
                s.push_str("//");
                s.push_str(&body);
                s.push('\n');
                comments.push((t.gap.to_string(), body));
                if rng.chance(1, 3) {
                    s.push_str("  ");
                }
            }
        }
        if i > 0 {
            let prev = &toks[i - 1].text;
            let must = needs_space(prev, &t.text);
            let sep = if lo.compact {
                if must { " " } else { "" }
            } else {
                match rng.below(11) {
                    // blank lines, also with two different line terminators back to back
                    10 => *rng.pick(&["\n\n", "\r\n\n", "\n\r\n", "\r\n\r\n", "\r\n\n\n", "\n\n    "]),
                    0 | 1 => "\n",
                    2 => "\n    ",
                    3 => "  ",
                    4 => "\t",
                    5 => "\r\n",
                    // a lone CR is a line terminator for LSP positions but does not end a `//` comment:
                    // only in comment-free layouts
                    6 if lo.comment_pct == 0 && rng.chance(1, 2) => "\r",
                    6 | 7 => " ",
                    _ => if must { " " } else { "" },
                }
            };
            let sep: String = match uniform_nl {
                Some(nl) if sep.contains('\n') || sep.contains('\r') => sep.replace("\r\n", "\n").replace('\r', "\n").replace('\n', nl),
                _ => sep.to_string(),
            };
            if !s.ends_with(|c: char| c.is_whitespace()) || !sep.is_empty() {
                if !(s.ends_with('\n') && sep.is_empty()) {
                    s.push_str(&sep);
                }
            }
        }
        offs.push(s.len());
        s.push_str(&t.text);
    }
    if !lo.compact {
        // the end of the document: nothing, a final terminator of every kind, or trailing blanks
        s.push_str(match rng.below(12) {
            0..=4 => "\n",
            5 => "\r",
            6 => "\r\n",
            7 => "\n\r",
            8 => " ",
            _ => "",
        });
    }
    (s, offs, comments)
}

pub const TOKEN_ALPHABET: &[&str] = &[
    "(", ")", "[", "]", "{", "}", "=", "#", "<", "<=", ">", ">=", ":=", ":", ",", ";", "+", "-", "*", "/", "if", "else",
    "while", "array", "of", "ref", "var", "x", "main", "int", "0", "0x1F", "'a'", "@",
];

/// A syntactically broken variant: one token deleted / inserted / replaced (never `proc`/`type`).
pub fn mutate(rng: &mut Rng, toks: &[Tok]) -> Vec<Tok> {
    let mut v = toks.to_vec();
    if v.is_empty() {
        return v;
    }
    let i = rng.below(v.len());
    let mk = |text: &str, like: &Tok| Tok { text: text.to_string(), binding: Binding::None, is_decl: false, gap: "mutated", decl: like.decl, stmt_start: false };
    match rng.below(3) {
        0 => {
            if v[i].text != "proc" && v[i].text != "type" {
                v.remove(i);
            }
        }
        1 => {
            let t = mk(*rng.pick(TOKEN_ALPHABET), &v[i]);
            v.insert(i, t);
        }
        _ => {
            if v[i].text != "proc" && v[i].text != "type" {
                v[i] = mk(*rng.pick(TOKEN_ALPHABET), &v[i]);
            }
        }
    }
    v
}
