//! Feature handlers (C09-C17, C02): the real handlers in-process through the real broker.
use crate::document::{self, DocumentRequest};
use crate::features;
use crate::io::Message;
use crate::wire::*;
use lsp_types::*;
use tokio::sync::mpsc::{self, Sender};

pub fn doc_uri() -> Url {
    Url::parse("file:///verif/doc.spl").unwrap()
}

fn pos_str(p: &Position) -> String {
    format!("{}:{}", p.line, p.character)
}

pub fn range_str(r: &Range) -> String {
    format!("{}-{}", pos_str(&r.start), pos_str(&r.end))
}

fn tdpp(line: u32, col: u32) -> TextDocumentPositionParams {
    TextDocumentPositionParams { text_document: TextDocumentIdentifier { uri: doc_uri() }, position: Position { line, character: col } }
}

/// Run `f` against a broker that holds exactly one open document.
fn with_doc<F, Fut>(text: String, f: F) -> String
where
    F: FnOnce(Sender<DocumentRequest>) -> Fut + Send + 'static,
    Fut: std::future::Future<Output = String> + Send + 'static,
{
    let rt = tokio::runtime::Builder::new_current_thread().enable_all().build().unwrap();
    rt.block_on(async move {
        let (iotx, mut iorx) = mpsc::channel::<Message>(64);
        let (doctx, docrx) = mpsc::channel(32);
        let broker = tokio::spawn(document::broker(docrx, iotx, false));
        let opened = document::open(doctx.clone(), DidOpenTextDocumentParams {
            text_document: TextDocumentItem { uri: doc_uri(), language_id: "spl".into(), version: 0, text },
        }).await;
        if opened.is_err() {
            return "PANIC broker-died".to_string();
        }
        // handlers run in their own task so that a panic is observed as a JoinError
        let h = tokio::spawn(f(doctx.clone()));
        let out = match h.await {
            Ok(s) => s,
            Err(_) => {
                let msg = crate::LAST_PANIC.lock().unwrap().take().unwrap_or_default();
                panic_site(&msg)
            }
        };
        drop(doctx);
        let _ = broker.await;
        iorx.close();
        out
    })
}

fn loc_str(l: Option<Location>) -> String {
    l.map_or("none".to_string(), |l| range_str(&l.range))
}

pub fn goto(kind: &str, text: String, line: u32, col: u32) -> String {
    let kind = kind.to_string();
    with_doc(text, move |doctx| async move {
        let p = tdpp(line, col);
        let wd = WorkDoneProgressParams::default();
        let pr = PartialResultParams::default();
        let r = match kind.as_str() {
            "decl" => features::goto::declaration(doctx, request::GotoDeclarationParams { text_document_position_params: p, work_done_progress_params: wd, partial_result_params: pr }).await,
            "def" => features::goto::definition(doctx, GotoDefinitionParams { text_document_position_params: p, work_done_progress_params: wd, partial_result_params: pr }).await,
            "typedef" => features::goto::type_definition(doctx, request::GotoTypeDefinitionParams { text_document_position_params: p, work_done_progress_params: wd, partial_result_params: pr }).await,
            _ => features::goto::implementation(doctx, request::GotoImplementationParams { text_document_position_params: p, work_done_progress_params: wd, partial_result_params: pr }).await,
        };
        match r {
            Ok(l) => loc_str(l),
            Err(e) => format!("ERR {}", e),
        }
    })
}

pub fn refs(text: String, line: u32, col: u32) -> String {
    with_doc(text, move |doctx| async move {
        let r = features::references::find(doctx, ReferenceParams {
            text_document_position: tdpp(line, col),
            work_done_progress_params: Default::default(),
            partial_result_params: Default::default(),
            context: ReferenceContext { include_declaration: true },
        }).await;
        match r {
            Ok(None) => "none".into(),
            Ok(Some(v)) => {
                let mut xs: Vec<(u32, u32, String)> = v.iter().map(|l| (l.range.start.line, l.range.start.character, range_str(&l.range))).collect();
                xs.sort();
                format!("[{}]", xs.into_iter().map(|x| x.2).collect::<Vec<_>>().join(","))
            }
            Err(e) => format!("ERR {}", e),
        }
    })
}

pub fn rename(text: String, line: u32, col: u32, new_name: String) -> String {
    with_doc(text, move |doctx| async move {
        let r = features::references::rename(doctx, RenameParams {
            text_document_position: tdpp(line, col),
            new_name,
            work_done_progress_params: Default::default(),
        }).await;
        match r {
            Ok(None) => "none".into(),
            Ok(Some(we)) => {
                let mut xs: Vec<(u32, u32, String)> = vec![];
                for (_, edits) in we.changes.unwrap_or_default() {
                    for e in edits {
                        xs.push((e.range.start.line, e.range.start.character, format!("{}=>{}", range_str(&e.range), hex_str(&e.new_text))));
                    }
                }
                xs.sort();
                format!("[{}]", xs.into_iter().map(|x| x.2).collect::<Vec<_>>().join(","))
            }
            Err(e) => format!("ERR {}", e),
        }
    })
}

pub fn prepare(text: String, line: u32, col: u32) -> String {
    with_doc(text, move |doctx| async move {
        match features::references::prepare_rename(doctx, tdpp(line, col)).await {
            Ok(None) => "none".into(),
            Ok(Some(r)) => range_str(&r),
            Err(e) => format!("ERR {}", e),
        }
    })
}

pub fn hover(text: String, line: u32, col: u32) -> String {
    with_doc(text, move |doctx| async move {
        let r = features::hover(doctx, HoverParams { text_document_position_params: tdpp(line, col), work_done_progress_params: Default::default() }).await;
        match r {
            Ok(None) => "none".into(),
            Ok(Some(h)) => {
                let v = match h.contents {
                    HoverContents::Markup(m) => m.value,
                    _ => "?".into(),
                };
                format!("{}|{}", h.range.map_or("_".to_string(), |r| range_str(&r)), hex_str(&v))
            }
            Err(e) => format!("ERR {}", e),
        }
    })
}

pub fn signature(text: String, line: u32, col: u32) -> String {
    with_doc(text, move |doctx| async move {
        let r = features::signature_help(doctx, SignatureHelpParams {
            context: None,
            text_document_position_params: tdpp(line, col),
            work_done_progress_params: Default::default(),
        }).await;
        match r {
            Ok(None) => "none".into(),
            Ok(Some(h)) => {
                let s = &h.signatures[0];
                let params: Vec<String> = s.parameters.clone().unwrap_or_default().iter().map(|p| match &p.label {
                    ParameterLabel::Simple(l) => hex_str(l),
                    _ => "?".into(),
                }).collect();
                let doc = match &s.documentation {
                    Some(Documentation::MarkupContent(m)) => hex_str(&m.value),
                    Some(Documentation::String(x)) => hex_str(x),
                    None => "_".into(),
                };
                format!("{}|[{}]|active={}|doc={}|n={}", hex_str(&s.label), params.join(","),
                    h.active_parameter.map_or("_".to_string(), |a| a.to_string()), doc, h.signatures.len())
            }
            Err(e) => format!("ERR {}", e),
        }
    })
}

pub fn completion(text: String, line: u32, col: u32) -> String {
    with_doc(text, move |doctx| async move {
        let r = features::completion::propose(doctx, CompletionParams {
            text_document_position: tdpp(line, col),
            work_done_progress_params: Default::default(),
            partial_result_params: Default::default(),
            context: None,
        }).await;
        match r {
            Ok(None) => "none".into(),
            Ok(Some(items)) => {
                let mut xs: Vec<String> = items.iter().map(|i| {
                    let kind = i.kind.map_or("_".to_string(), |k| format!("{:?}", k));
                    let docu = match &i.documentation {
                        Some(Documentation::MarkupContent(m)) => hex_str(&m.value),
                        Some(Documentation::String(x)) => hex_str(x),
                        None => "_".into(),
                    };
                    format!("{}:{}:{}:{}:{}", hex_str(&i.label), kind, i.detail.as_ref().map_or("_".to_string(), |d| hex_str(d)),
                        i.insert_text.as_ref().map_or("_".to_string(), |d| hex_str(d)), docu)
                }).collect();
                xs.sort();
                format!("[{}]", xs.join(","))
            }
            Err(e) => format!("ERR {}", e),
        }
    })
}

pub fn fold(text: String) -> String {
    with_doc(text, move |doctx| async move {
        let r = features::fold(doctx, FoldingRangeParams {
            text_document: TextDocumentIdentifier { uri: doc_uri() },
            work_done_progress_params: Default::default(),
            partial_result_params: Default::default(),
        }).await;
        match r {
            Ok(v) => format!("[{}]", v.iter().map(|f| format!("{}-{}", f.start_line, f.end_line)).collect::<Vec<_>>().join(",")),
            Err(e) => format!("ERR {}", e),
        }
    })
}

pub fn semantic(text: String) -> String {
    with_doc(text, move |doctx| async move {
        let r = features::semantic_tokens(doctx, SemanticTokensParams {
            text_document: TextDocumentIdentifier { uri: doc_uri() },
            work_done_progress_params: Default::default(),
            partial_result_params: Default::default(),
        }).await;
        match r {
            Ok(None) => "none".into(),
            Ok(Some(t)) => t.data.iter().map(|s| format!("{},{},{},{},{}", s.delta_line, s.delta_start, s.length, s.token_type, s.token_modifiers_bitset)).collect::<Vec<_>>().join(" "),
            Err(e) => format!("ERR {}", e),
        }
    })
}

pub fn format(text: String, insert_spaces: bool, tab_size: u32) -> String {
    with_doc(text, move |doctx| async move {
        let r = features::format(doctx, DocumentFormattingParams {
            text_document: TextDocumentIdentifier { uri: doc_uri() },
            options: FormattingOptions { tab_size, insert_spaces, ..Default::default() },
            work_done_progress_params: Default::default(),
        }).await;
        match r {
            Ok(None) => "null".into(),
            Ok(Some(edits)) => edits.iter().map(|e| format!("{}=>{}", range_str(&e.range), hex_str(&e.new_text))).collect::<Vec<_>>().join(" "),
            Err(e) => format!("ERR {}", e),
        }
    })
}

pub fn run(op: &str, args: &[&str]) -> Option<String> {
    let num = |s: &str| s.parse::<u32>().ok();
    match (op, args) {
        ("SPECGOTO", [k, t, l, c]) => Some(goto(k, unhex_str(t)?, num(l)?, num(c)?)),
        ("SPECREFS", [t, l, c]) => Some(refs(unhex_str(t)?, num(l)?, num(c)?)),
        ("SPECREN", [t, l, c, n]) => Some(rename(unhex_str(t)?, num(l)?, num(c)?, unhex_str(n)?)),
        ("SPECPREP", [t, l, c]) => Some(prepare(unhex_str(t)?, num(l)?, num(c)?)),
        ("SPECHOV", [t, l, c]) => Some(hover(unhex_str(t)?, num(l)?, num(c)?)),
        ("SPECSIG", [t, l, c]) => Some(signature(unhex_str(t)?, num(l)?, num(c)?)),
        ("SPECFOLD", [t]) => Some(fold(unhex_str(t)?)),
        ("SPECSEM", [t]) | ("JUDGESEM", [t]) => Some(semantic(unhex_str(t)?)),
        ("GOTO", [k, t, l, c]) => Some(goto(k, unhex_str(t)?, num(l)?, num(c)?)),
        ("REFS", [t, l, c]) => Some(refs(unhex_str(t)?, num(l)?, num(c)?)),
        ("REN", [t, l, c, n]) => Some(rename(unhex_str(t)?, num(l)?, num(c)?, unhex_str(n)?)),
        ("PREP", [t, l, c]) => Some(prepare(unhex_str(t)?, num(l)?, num(c)?)),
        ("HOV", [t, l, c]) => Some(hover(unhex_str(t)?, num(l)?, num(c)?)),
        ("SIG", [t, l, c]) => Some(signature(unhex_str(t)?, num(l)?, num(c)?)),
        ("JUDGECOMP", [_, t, l, c]) => Some(completion(unhex_str(t)?, num(l)?, num(c)?)),
        ("COMP", [t, l, c]) => Some(completion(unhex_str(t)?, num(l)?, num(c)?)),
        ("FOLD", [t]) => Some(fold(unhex_str(t)?)),
        ("SEM", [t]) => Some(semantic(unhex_str(t)?)),
        ("FMT", [t, sp, ts]) => Some(format(unhex_str(t)?, *sp == "1", num(ts)?)),
        _ => None,
    }
}

// ---------------------------------------------------------------------------------------
// generators
// ---------------------------------------------------------------------------------------
use crate::gen_prog::{self, Layout};
use crate::rng::Rng;

/// (line, utf16 column) of byte offset `off` in `text`, by the LSP rules (independent helper of the generator).
pub fn lsp_pos(text: &str, off: usize) -> (u32, u32) {
    let mut line = 0u32;
    let mut col = 0u32;
    let mut it = text.char_indices().peekable();
    while let Some((i, c)) = it.next() {
        if i >= off {
            break;
        }
        if c == '\n' {
            line += 1;
            col = 0;
        } else if c == '\r' {
            if !matches!(it.peek(), Some((_, '\n'))) {
                line += 1;
                col = 0;
            }
        } else {
            col += c.len_utf16() as u32;
        }
    }
    (line, col)
}

/// Cursor positions: every identifier token (every column inside it), plus non-identifier tokens and gaps.
pub fn gen_positions(rng: &mut Rng, text: &str, prog: &gen_prog::Prog, offs: &[usize], max: usize) -> Vec<(u32, u32)> {
    let mut v = vec![];
    let idents: Vec<usize> = (0..prog.toks.len()).filter(|&i| prog.toks[i].binding != gen_prog::Binding::None).collect();
    // always probe variables whose declared type name is also the name of a parameter/variable of the same
    // procedure (the type position must still resolve globally), and the type names in such positions
    let mut special: Vec<usize> = vec![];
    for &i in &idents {
        if let gen_prog::Binding::Var(pi, vi) = prog.toks[i].binding {
            if let Some(var) = prog.procs.get(pi).and_then(|p| p.vars.get(vi)) {
                if let gen_prog::Ty::Named(t) = var.ty {
                    let tn = &prog.types[t].name;
                    if prog.procs[pi].vars.iter().any(|w| &w.name == tn) {
                        special.push(i);
                    }
                }
            }
        }
    }
    for k in 0..special.len().min(4) {
        let i = special[(k * 7 + rng.below(special.len())) % special.len()];
        let w = prog.toks[i].text.len();
        v.push(lsp_pos(text, offs[i] + rng.below(w)));
    }
    for _ in 0..max {
        if !idents.is_empty() && rng.chance(3, 4) {
            let i = *rng.pick(&idents);
            let w = prog.toks[i].text.len();
            v.push(lsp_pos(text, offs[i] + rng.below(w)));
        } else if !offs.is_empty() {
            let i = rng.below(offs.len());
            let o = offs[i] + rng.below(prog.toks[i].text.len() + 2);
            let o = o.min(text.len());
            // keep on a char boundary
            let mut o2 = o;
            while !text.is_char_boundary(o2) { o2 -= 1; }
            v.push(lsp_pos(text, o2));
        }
    }
    if rng.chance(1, 3) {
        v.push((rng.below(4) as u32 + 200, rng.below(5) as u32)); // outside the text
    }
    v
}

/// Documents in which a user declaration carries a PREDEFINED name (procedure or type redeclared, `main`
/// declared twice, a local named like the procedure around it): the table keeps the predefined / first
/// entry, whose ranges are not those of the declaration under the cursor.  Every handler, at every token.
pub fn gen_predefined_name_cases(rng: &mut Rng, out: &mut Vec<String>) {
    const BUILTINS: &[&str] = &["printi", "printc", "readi", "readc", "exit", "time", "clearAll", "setPixel", "drawLine", "drawCircle"];
    let b = *rng.pick(BUILTINS);
    let text = match rng.below(14) {
        // a predefined procedure's name where a type is expected, and declarations named like predefined entities
        // around a use of a predefined procedure
        10 => format!("type t = {b};\ntype u = array [3] of {b};\nproc main() {{ var v: {b}; }}\n"),
        11 => format!("type a = int;\nproc a() {{ {b}(1); }}\nproc main() {{ a(); }}\n"),
        12 => format!("proc int() {{ {b}(1); }}\nproc main() {{ int(); }}\n"),
        13 => format!("type {b} = int;\nproc p(x: {b}) {{ {b}(x); }}\nproc main() {{ p(1); }}\n"),
        // a USER procedure / type declared twice with different shapes: the table keeps the first entry, the
        // handlers walk the tokens of the second declaration
        6 => "proc p(a: int) { var x: int; x := a; }  proc p() { x := 1; }  proc main() {}".to_string(),
        7 => "proc p() { }\nproc p(ref k: int, m: int) {\n  var y: int;\n  var z: array [2] of int;\n  y := k + m; z[0] := y;\n}\nproc main() { p(); }\n".to_string(),
        8 => "type t = array [4] of array [2] of int;\ntype t = int;\nproc main() { var v: t; v[1][0] := 1; }\nproc main() { var w: t; w := 2; }\n".to_string(),
        9 => "proc q(a: int, b: int, c: int) { var a: int; var d: int; d := a + b + c; }\nproc q(d: int) { d := 1; q(d, d, d); }\nproc main() { q(1); }".to_string(),
        0 => format!("proc {b}(i: int) {{\n  i := 1;\n  {b}(i);\n}}\nproc main() {{\n  {b}(2);\n}}\n"),
        1 => format!("// doc\nproc {b}(ref a: int, k: int) {{ var {b}: int; a := k + {b}; }}\nproc main() {{ }}\n"),
        2 => format!("type {b} = array [2] of int;\nproc main() {{ var v: {b}; v[0] := 1; }}\n"),
        3 => "proc main() { }\nproc main() { var main: int; main := 1; main(); }\n".to_string(),
        4 => "type int = array [3] of int;\nproc main() { var i: int; i := 0; }\n".to_string(),
        _ => format!("proc main() {{ var {b}: int; {b} := 1; {b}({b}); }}\ntype t = int;\ntype t = {b};\n"),
    };
    let h = hex_str(&text);
    out.push(format!("NEW {}", h));
    for op in ["FOLD", "SEM"] {
        out.push(format!("{} {}", op, h));
    }
    out.push(format!("FMT {} 1 4", h));
    // every identifier-ish token start
    let bytes = text.as_bytes();
    let mut starts = vec![];
    for i in 0..bytes.len() {
        let is_id = |c: u8| c.is_ascii_alphanumeric() || c == b'_';
        if is_id(bytes[i]) && (i == 0 || !is_id(bytes[i - 1])) {
            starts.push(i);
        }
    }
    for &o in &starts {
        let (l, c) = lsp_pos(&text, o + rng.below(2));
        for k in ["decl", "typedef", "impl"] {
            out.push(format!("GOTO {} {} {} {}", k, h, l, c));
        }
        for op in ["HOV", "REFS", "PREP", "SIG", "COMP"] {
            out.push(format!("{} {} {} {}", op, h, l, c));
        }
        out.push(format!("REN {} {} {} {}", h, l, c, hex_str("renamed_1")));
    }
}

/// Hand-written VALID corner programs (comments between a keyword and the name it introduces, a parameter named
/// like its procedure, leading white space in front of the first token, `==`-free operators next to each other,
/// nested calls and indices), probed at every identifier start, at 0:0 / 0:1 and behind every `(` and `,`;
/// with the specification twins.
pub fn gen_corner_docs(rng: &mut Rng, which: usize, out: &mut Vec<String>) {
    let text = match which % 15 {
        // array sizes written as character literals, also beyond Latin-1 (the size is the character's low byte)
        13 => "type row = array ['\u{20ac}'] of int;\ntype tab = array ['A'] of array ['\u{e9}'] of int;\nproc fill(ref r: row, ref t: tab) {\n  r[0] := 1;\n  t[1][2] := r[0];\n}\nproc main() {\n  var r: row;\n  var t: tab;\n  fill(r, t);\n}\n".to_string(),
        // predefined procedures where a type is expected (not a valid program: every handler must still answer)
        14 => "type t = printi;\ntype u = array [2] of exit;\nproc p(a: readi) {\n  var v: time;\n}\nproc main() { }\n".to_string(),
        // identifiers with characters beyond ASCII inside them (the lexer accepts every character whose low byte is an
        // ASCII letter or digit): byte length, character count and UTF-16 length of the names all differ
        11 => "proc main() {\n  var n\u{131}: int;\n  var s\u{142}1: int;\n  var v_\u{1F431}: int;\n  n\u{131} := s\u{142}1 + v_\u{1F431};\n  printi(n\u{131});\n}\n".to_string(),
        // many parenthesised sub-expressions, none nested: more than any small bound on their NUMBER
        12 => {
            let n = 33 + 20 * rng.below(6);
            let mut t = String::from("proc work(ref x: int) {\n");
            for k in 0..n / 2 { t.push_str(&format!("  x := (x + {}) * 3;\n", k)); }
            t.push_str("}\nproc main() {\n  var y: int;\n  y := 0;\n");
            for k in 0..(n - n / 2) { t.push_str(&format!("  y := (y - {}) + (y * 2);\n", k)); }
            t.push_str("  work(y);\n}\n");
            t
        }
        // a type named like the internal name of an anonymous array type would be if it were built from the procedure's
        // and the variable's names (`p_x`, `p.x`-like spellings are not identifiers; `p_x` is)
        10 => "type p_x = array [2] of int;\ntype q_a = array [2] of int;\nproc q(ref a: array [2] of int) { a[0] := 1; }\nproc p() {\n  var x: array [2] of int;\n  var y: p_x;\n  x[0] := 1; y[1] := x[0];\n}\nproc main() { p(); }\n".to_string(),
        // documentation comments WITHOUT text (bare `//`), alone and next to one with text
        8 => "//\ntype t = int;\n//\n//\nproc p(\n//\na: int, ref b: t) {\n  //\n  var v: t;\n  v := a; b := v;\n}\n//\n// real doc\nproc q() { }\nproc main() { var x: t; p(1, x); q(); }\n".to_string(),
        9 => "//  \nproc r(//\n ref k: int) { k := 1; }\n//\t\nproc main() { var n: int; r(n); }\n".to_string(),
        0 => "// about foo\nproc // the helper\n  foo(foo: int, ref bar: int) {\n  bar := foo + 1;\n}\nproc main() {\n  var foo: int;\n  foo(1, foo);\n}\n".to_string(),
        1 => "\n\n   proc main() {\n  var x: int;\n  x := 1;\n}\n".to_string(),
        2 => "\r\n\r\n\tproc p(a: int) { }\r\nproc main() { p(1); }\r\n".to_string(),
        3 => "type // t is\n  // a vector\n  vec = array [3] of int;\nproc sum(ref // the vector\n v: vec, n: int) {\n  var // running\n  // total\n  s: int;\n  s := v[n] + n;\n}\nproc main() { var w: vec; sum(w, 2); }\n".to_string(),
        4 => "proc f(a: int, b: int) { }\nproc g(ref a: int) { a := 1; }\nproc main() {\n  var v: array [4] of int;\n  var i: int;\n  f(v[v[i]], -(i));\n  g(v[i + 1]);\n  f((1), 2 * (3 + i));\n}\n".to_string(),
        5 => "proc count(count: int) { count := count - 1; }\ntype t = int;\nproc main() { var t: int; var count: t; t := 1; count := t; count(count); }\n".replace("count(count); }", "}").to_string(),
        6 => " \t proc main ( ) { ; ; }\n\n\n".to_string(),
        _ => "proc a() { }\nproc b() { a(); }\nproc main() {\n  // one\n  // two\n  // three\n  a();\n  // x\n\n  // y\n  b();\n}\n// the end\n// of it\n".to_string(),
    };
    let h = hex_str(&text);
    out.push(format!("NEW {}", h));
    for op in ["FOLD", "SEM"] {
        out.push(format!("{} {}", op, h));
        out.push(format!("SPEC{} {}", op, h));
    }
    out.push(format!("JUDGESEM {}", h));
    out.push(format!("FMT {} 1 {}", h, rng.below(9)));
    let bytes = text.as_bytes();
    let mut pos: Vec<(u32, u32)> = vec![(0, 0), (0, 1), (1, 0)];
    for i in 0..bytes.len() {
        let is_id = |c: u8| c.is_ascii_alphanumeric() || c == b'_';
        if is_id(bytes[i]) && (i == 0 || !is_id(bytes[i - 1])) {
            pos.push(lsp_pos(&text, i + rng.below(2)));
        }
        if bytes[i] == b'(' || bytes[i] == b',' {
            pos.push(lsp_pos(&text, i + 1));
        }
    }
    if pos.len() > 60 {
        // a large document: the first and the last positions and a sample of the others
        let mut keep: Vec<(u32, u32)> = pos[..20].to_vec();
        keep.extend_from_slice(&pos[pos.len() - 20..]);
        for _ in 0..20 {
            keep.push(pos[20 + rng.below(pos.len() - 40)]);
        }
        pos = keep;
    }
    for (l, c) in pos {
        for k in ["decl", "typedef", "impl"] {
            out.push(format!("GOTO {} {} {} {}", k, h, l, c));
            out.push(format!("SPECGOTO {} {} {} {}", k, h, l, c));
        }
        for op in ["HOV", "REFS", "PREP", "SIG"] {
            out.push(format!("{} {} {} {}", op, h, l, c));
            out.push(format!("SPEC{} {} {} {}", op, h, l, c));
        }
        out.push(format!("COMP {} {} {}", h, l, c));
        out.push(format!("REN {} {} {} {}", h, l, c, hex_str("renamed_1")));
        out.push(format!("SPECREN {} {} {} {}", h, l, c, hex_str("renamed_1")));
    }
}

pub fn gen_feature_cases(rng: &mut Rng, n: usize, ops: &[&str], broken_pct: usize, out: &mut Vec<String>) {
    for i in 0..n {
        if i % 10 == 7 {
            // the corner documents in turn, from both ends (a run of a hundred cases sees every one of them)
            let mut tmp = vec![];
            let k = (i / 10) % 15;
            gen_corner_docs(rng, k, &mut tmp);
            if k != 14 - k {
                gen_corner_docs(rng, 14 - k, &mut tmp);
            }
            out.extend(tmp.into_iter().filter(|l| {
                let op = l.split(' ').next().unwrap_or("");
                let base = op.strip_prefix("SPEC").unwrap_or(op);
                op == "NEW" || ops.contains(&op) || (op.starts_with("SPEC") && ops.contains(&base)) || (op == "JUDGESEM" && ops.contains(&"SEM"))
            }));
        }
        if i % 25 == 13 {
            // redeclared predefined / user names: the handlers of this run on such a document
            let mut tmp = vec![];
            gen_predefined_name_cases(rng, &mut tmp);
            out.extend(tmp.into_iter().filter(|l| {
                let op = l.split(' ').next().unwrap_or("");
                op == "NEW" || ops.contains(&op)
            }));
        }
        let prog = gen_prog::gen(rng, 3, 4, 3);
        let mut toks = prog.toks.clone();
        let mut broken = rng.below(100) < broken_pct;
        // a third kind of document: syntactically fine, one violation of a static rule (all fault classes of
        // C03: redeclared predefined names, a local hiding a procedure, wrong calls ...); the handlers are
        // probed on the culprit tokens too
        let mut culprit: Option<(usize, usize)> = None;
        if broken {
            if rng.chance(1, 3) {
                let class = *rng.pick(crate::ops_sem::FAULT_CLASSES);
                if let Some((t2, clo, chi, _)) = crate::ops_sem::inject(rng, &prog, class) {
                    toks = t2;
                    culprit = Some((clo, chi));
                } else {
                    toks = gen_prog::mutate(rng, &toks);
                }
            } else {
                toks = gen_prog::mutate(rng, &toks);
            }
        } else if broken_pct > 0 && rng.chance(1, 12) {
            let class = *rng.pick(crate::ops_sem::FAULT_CLASSES);
            if let Some((t2, clo, chi, _)) = crate::ops_sem::inject(rng, &prog, class) {
                toks = t2;
                culprit = Some((clo, chi));
                broken = true;
            }
        }
        let lo = Layout { comment_pct: if i % 3 == 0 { 12 } else { 0 }, comment_gaps: if broken || i % 6 == 0 { None } else { Some(gen_prog::LEADING_GAPS) }, compact: rng.chance(1, 3) };
        let (text, offs, _) = gen_prog::layout(rng, &toks, &lo);
        let h = hex_str(&text);
        let mut p2 = prog.clone();
        p2.toks = toks;
        let mut positions = gen_positions(rng, &text, &p2, &offs, 6);
        if let Some((clo, chi)) = culprit {
            // every token of the faulty construct and of the declaration around it (bounded)
            let from = clo.saturating_sub(3);
            for i in (from..chi.min(p2.toks.len())).take(8) {
                positions.push(lsp_pos(&text, offs[i] + rng.below(p2.toks[i].text.len().max(1))));
            }
        }
        if !broken && i % 4 == 2 && ops.iter().any(|o| ["REFS", "PREP", "HOV", "GOTO"].contains(o)) {
            // a second text of the SAME LENGTH with the same tokens at the same byte offsets but a different line
            // structure (one line feed that ends no comment becomes a blank), asked alternately with the first:
            // nothing remembered from one text may leak into the answers for the other
            let bytes = text.as_bytes();
            let mut line_start = 0;
            let mut cut = None;
            for k in 0..bytes.len() {
                if bytes[k] == b'\n' {
                    if !text[line_start..k].contains("//") && (k == 0 || bytes[k - 1] != b'\r') && k + 1 < bytes.len() {
                        cut = Some(k);
                        break;
                    }
                    line_start = k + 1;
                }
            }
            let last_id = (0..p2.toks.len()).rev().find(|&t| p2.toks[t].binding != gen_prog::Binding::None && cut.map_or(false, |c| offs[t] > c));
            if let (Some(k), Some(t)) = (cut, last_id) {
                let mut tb = text.clone().into_bytes();
                tb[k] = b' ';
                let text_b = String::from_utf8(tb).unwrap();
                let hb = hex_str(&text_b);
                let (la, ca) = lsp_pos(&text, offs[t]);
                let (lb, cb) = lsp_pos(&text_b, offs[t]);
                for _ in 0..2 {
                    for (hh, l, c) in [(&h, la, ca), (&hb, lb, cb)] {
                        for op in ["PREP", "REFS", "HOV"] {
                            if ops.contains(&op) {
                                out.push(format!("{} {} {} {}", op, hh, l, c));
                                out.push(format!("SPEC{} {} {} {}", op, hh, l, c));
                            }
                        }
                        if ops.contains(&"GOTO") {
                            out.push(format!("GOTO decl {} {} {}", hh, l, c));
                            out.push(format!("SPECGOTO decl {} {} {}", hh, l, c));
                        }
                    }
                }
            }
        }
        for op in ops {
            let spec = !broken;
            match *op {
                "FOLD" | "SEM" => {
                    out.push(format!("{} {}", op, h));
                    if spec {
                        out.push(format!("SPEC{} {}", op, h));
                    }
                    if spec && rng.chance(1, 6) {
                        // the same program with a last line that is a comment without a line terminator (and
                        // talks about procedures): still one token, still no procedure
                        // one to three of them (the encoding of each is relative to its predecessor)
                        let tail = (0..rng.range(1, 3)).map(|_| *rng.pick(&["// end of proc main", "// proc p() { }", "//", "// type t = int; proc", "  // x"])).collect::<Vec<_>>().join(if rng.chance(1, 3) { "\n\n" } else { "\n" });
                        let t2 = format!("{}\n{}", text.trim_end(), tail);
                        out.push(format!("{} {}", op, hex_str(&t2)));
                        out.push(format!("SPEC{} {}", op, hex_str(&t2)));
                    }
                    if *op == "SEM" {
                        out.push(format!("JUDGESEM {}", h));
                    }
                }
                "GOTO" => {
                    for (l, c) in &positions {
                        for k in ["decl", "typedef", "impl"] {
                            out.push(format!("GOTO {} {} {} {}", k, h, l, c));
                            if spec {
                                out.push(format!("SPECGOTO {} {} {} {}", k, h, l, c));
                            }
                        }
                    }
                }
                "REN" => {
                    for (l, c) in &positions {
                        out.push(format!("REN {} {} {} {}", h, l, c, hex_str("renamed_1")));
                        if spec {
                            out.push(format!("SPECREN {} {} {} {}", h, l, c, hex_str("renamed_1")));
                        }
                    }
                }
                "FMT" => {
                    let sp = rng.chance(3, 4);
                    out.push(format!("FMT {} {} {}", h, if sp { 1 } else { 0 }, rng.below(9)));
                }
                _ => {
                    for (l, c) in &positions {
                        out.push(format!("{} {} {} {}", op, h, l, c));
                        if spec && *op != "COMP" {
                            out.push(format!("SPEC{} {} {} {}", op, h, l, c));
                        }
                    }
                }
            }
        }
    }
}

// ---------------------------------------------------------------------------------------
// formatter properties (C09, C10, C11)
// ---------------------------------------------------------------------------------------

/// formatted text (the document itself when the answer is null)
fn formatted(text: &str, sp: bool, ts: u32) -> Option<String> {
    let a = format(text.to_string(), sp, ts);
    if a == "null" {
        return Some(text.to_string());
    }
    if a.starts_with("PANIC") || a.starts_with("ERR") {
        return None;
    }
    let (_, h) = a.split_once("=>")?;
    unhex_str(h)
}

pub fn gen_fmt(rng: &mut Rng, n: usize, which: &str, out: &mut Vec<String>) {
    for i in 0..n {
        let prog = gen_prog::gen(rng, 3, 4, 3);
        // syntactically valid, not necessarily well-typed: rename some identifiers to undefined names
        let mut toks = prog.toks.clone();
        if i % 4 == 3 {
            for t in toks.iter_mut() {
                if t.binding != gen_prog::Binding::None && !t.is_decl && rng.chance(1, 8) {
                    t.text = "undefined_name".to_string();
                }
            }
        }
        if which == "C09" && i % 5 == 2 {
            // literals the lexer repairs with an error token (value out of range, `0x` without digits):
            // the formatter must print them back as they were written
            for t in toks.iter_mut() {
                if t.binding == gen_prog::Binding::None && t.text.chars().all(|c| c.is_ascii_digit()) && !t.text.is_empty() && t.gap != "in-type" && rng.chance(1, 4) {
                    t.text = rng.pick(&["0x1FFFFFFFF", "99999999999", "0xABCDEF012", "4294967296", "0x100000000"]).to_string();
                }
            }
        }
        if which == "C09" && i % 3 == 1 {
            // ill-typed but syntactically valid: one injected violation of a static rule
            let class = *rng.pick(crate::ops_sem::FAULT_CLASSES);
            if class != "MissingTrailingSemic" && class != "MissingClosing" {
                if let Some((t2, _, _, _)) = crate::ops_sem::inject(rng, &prog, class) {
                    toks = t2;
                }
            }
        }
        let sp = rng.chance(3, 4);
        let ts = rng.below(9);
        let opts = format!("{} {}", if sp { 1 } else { 0 }, ts);
        match which {
            "C10" => {
                // comment lines in ANY gap; the case records the gap kind of every comment
                let lo = Layout { comment_pct: 8, comment_gaps: None, compact: rng.chance(1, 2) };
                let (text, _, comments) = gen_prog::layout(rng, &toks, &lo);
                let gaps: Vec<String> = comments.iter().map(|(g, b)| format!("{}={}", hex_str(b.trim()), g)).collect();
                out.push(format!("JUDGEFMT10 {} {} gaps:{}", hex_str(&text), opts, gaps.join(",")));
                out.push(format!("FMT {} {}", hex_str(&text), opts));
                // leading positions only: must never lose a comment
                let lo = Layout { comment_pct: 25, comment_gaps: Some(gen_prog::LEADING_GAPS), compact: rng.chance(1, 2) };
                let (text, _, _) = gen_prog::layout(rng, &toks, &lo);
                out.push(format!("JUDGEFMT10 {} {}", hex_str(&text), opts));
            }
            _ => {
                let lo = Layout { comment_pct: if i % 2 == 0 { 0 } else { 20 }, comment_gaps: Some(gen_prog::LEADING_GAPS), compact: rng.chance(1, 3) };
                let (text, _, _) = gen_prog::layout(rng, &toks, &lo);
                let h = hex_str(&text);
                out.push(format!("FMT {} {}", h, opts));
                if which == "C09" {
                    out.push(format!("JUDGEFMT09 {} {}", h, opts));
                } else {
                    out.push(format!("JUDGEFMT11 {} {}", h, opts));
                    out.push(format!("PROPFMTIDEM {} {}", h, opts));
                    let lo2 = Layout { comment_pct: 0, comment_gaps: None, compact: rng.chance(1, 2) };
                    // canonicity: a second layout of the same token sequence (comments are tokens of the sequence:
                    // compare comment-free layouts)
                    let (a, _, _) = gen_prog::layout(rng, &toks, &lo2);
                    let (b, _, _) = gen_prog::layout(rng, &toks, &Layout { comment_pct: 0, comment_gaps: None, compact: false });
                    out.push(format!("PROPFMTCANON {} {} {}", hex_str(&a), hex_str(&b), opts));
                    // whitespace-only variants of the text and of its canonical form
                    if i % 7 == 3 {
                        // ... and of a text whose last token is a comment (with and without its line terminator)
                        let t2 = format!("{}\n// the end", text.trim_end());
                        out.push(format!("PROPFMTWS {} {}", hex_str(&t2), opts));
                        out.push(format!("PROPFMTCANON {} {} {}", hex_str(&t2), hex_str(&format!("{}\n", t2)), opts));
                    }
                    // the same tokens with every comment directly behind the token in front of it (`else// c`, `{// c`)
                    if let Some(g) = glue_comments(&text) {
                        out.push(format!("PROPFMTCANON {} {} {}", h, hex_str(&g), opts));
                        out.push(format!("PROPFMTIDEM {} {}", hex_str(&g), opts));
                    }
                    // ... also with comments in front of the body of a branch or loop (`else// c`, `)// c`)
                    if i % 4 == 1 {
                        const BODY_GAPS: &[&str] = &["decl-start", "stmt-start", "vardec-start", "param-start", "after-cond"];
                        let lo3 = Layout { comment_pct: 30, comment_gaps: Some(BODY_GAPS), compact: rng.chance(1, 3) };
                        let (t3, _, _) = gen_prog::layout(rng, &toks, &lo3);
                        if let Some(g) = glue_comments(&t3) {
                            out.push(format!("PROPFMTCANON {} {} {}", hex_str(&t3), hex_str(&g), opts));
                            out.push(format!("PROPFMTIDEM {} {}", hex_str(&g), opts));
                        }
                    }
                    if i % 2 == 0 {
                        out.push(format!("PROPFMTWS {} {}", h, opts));
                    } else if let Some(c) = formatted(&text, sp, ts as u32) {
                        out.push(format!("PROPFMTWS {} {}", hex_str(&c), opts));
                    }
                }
            }
        }
    }
}

/// Remove the white space in front of every `//` comment of a generated program (comments stand on lines of their
/// own or behind a token; no generated literal contains `//`), unless the character in front is a `/`.
fn glue_comments(text: &str) -> Option<String> {
    let mut out = String::with_capacity(text.len());
    let mut changed = false;
    let mut rest = text;
    while let Some(k) = rest.find("//") {
        let (head, tail) = rest.split_at(k);
        let trimmed = head.trim_end_matches(|c: char| c == ' ' || c == '\t' || c == '\n' || c == '\r');
        let keep_ws = trimmed.is_empty() && out.is_empty() || trimmed.ends_with('/') || (trimmed.is_empty() && out.ends_with('/'));
        if keep_ws || trimmed.len() == head.len() {
            out.push_str(head);
        } else {
            out.push_str(trimmed);
            changed = true;
        }
        // the comment itself, up to and including its line feed
        let end = tail.find('\n').map_or(tail.len(), |e| e + 1);
        out.push_str(&tail[..end]);
        rest = &tail[end..];
    }
    out.push_str(rest);
    if changed { Some(out) } else { None }
}

pub fn run_fmt_props(op: &str, args: &[&str]) -> Option<String> {
    let num = |s: &str| s.parse::<u32>().ok();
    match (op, args) {
        ("JUDGEFMT09", [t, sp, ts]) | ("JUDGEFMT11", [t, sp, ts]) => Some(format(unhex_str(t)?, *sp == "1", num(ts)?)),
        ("JUDGEFMT10", rest) if rest.len() >= 3 => Some(format(unhex_str(rest[0])?, rest[1] == "1", num(rest[2])?)),
        ("PROPFMTIDEM", [t, sp, ts]) => {
            let text = unhex_str(t)?;
            let sp = *sp == "1";
            let ts = num(ts)?;
            let t1 = match formatted(&text, sp, ts) {
                Some(x) => x,
                None => return Some("bad:PANIC".into()),
            };
            let again = format(t1, sp, ts);
            Some(if again == "null" { "ok".into() } else { "bad:second-format-returns-an-edit".into() })
        }
        ("PROPFMTCANON", [a, b, sp, ts]) => {
            let sp = *sp == "1";
            let ts = num(ts)?;
            let x = formatted(&unhex_str(a)?, sp, ts);
            let y = formatted(&unhex_str(b)?, sp, ts);
            Some(match (x, y) {
                (Some(x), Some(y)) => if x == y { "ok".into() } else { "bad:two-layouts-format-differently".into() },
                _ => "bad:PANIC".into(),
            })
        }
        ("PROPFMTWS", [t, sp, ts]) => {
            // whitespace-only variants (line terminators, final newline, trailing blanks) format to the same text
            let sp = *sp == "1";
            let ts = num(ts)?;
            let text = unhex_str(t)?;
            let base = match formatted(&text, sp, ts) {
                Some(x) => x,
                None => return Some("bad:PANIC".into()),
            };
            for (name, v) in ws_variants(&text) {
                match formatted(&v, sp, ts) {
                    Some(x) if x == base => {}
                    Some(_) => return Some(format!("bad:variant-{}-formats-differently", name)),
                    None => return Some("bad:PANIC".into()),
                }
            }
            Some("ok".into())
        }
        _ => None,
    }
}

pub fn ws_variants(text: &str) -> Vec<(&'static str, String)> {
    vec![
        ("crlf", text.replace('\n', "\r\n")),
        ("nofinalnl", text.trim_end_matches('\n').to_string()),
        ("extranl", format!("{}\n\n", text)),
        ("trailsp", text.replace('\n', " \n")),
    ]
}

// ---------------------------------------------------------------------------------------
// C16 completion positions (classified by construction)
// ---------------------------------------------------------------------------------------

pub fn gen_c16(rng: &mut Rng, n: usize, out: &mut Vec<String>) {
    for i in 0..n {
        let prog = gen_prog::gen(rng, 3, 4, 3);
        // every third program carries comment lines in front of statements, closing braces and variable declarations
        // (a position between a declaration's doc comment and its keyword is inside that declaration: no class)
        let lo = Layout { comment_pct: if i % 3 == 2 { 25 } else { 0 }, comment_gaps: Some(&["stmt-start", "before-rcurly", "vardec-start"]), compact: false };
        let (text, offs, _) = gen_prog::layout(rng, &prog.toks, &lo);
        let h = hex_str(&text);
        let bytes = text.as_bytes();
        let ws_before = |o: usize| o > 0 && (bytes[o - 1] == b' ' || bytes[o - 1] == b'\n' || bytes[o - 1] == b'\t');
        // the start of the line of token k when the line before it is a comment line (the position directly behind the
        // comment's line terminator)
        let after_comment_line = |o: usize| -> Option<usize> {
            let head = &text[..o];
            let ls = head.rfind('\n')? + 1;
            if !head[ls..].chars().all(|ch| ch == ' ' || ch == '\t') {
                return None;
            }
            let prev = &head[..ls - 1];
            let pls = prev.rfind('\n').map_or(0, |x| x + 1);
            if prev[pls..].trim_start().starts_with("//") { Some(ls) } else { None }
        };
        for (k, t) in prog.toks.iter().enumerate() {
            let o = offs[k];
            if !ws_before(o) {
                continue;
            }
            let cls = if t.stmt_start && t.gap == "stmt-start" {
                // a statement start in a procedure body or block
                Some("stmt")
            } else if t.stmt_start {
                // the start of an unbraced branch / loop body (`if (c) ▮stmt`, `else ▮stmt`)
                Some("stmtbranch")
            } else if t.gap == "before-rcurly" && t.text == "}" && k > 0 && (prog.toks[k - 1].text == ";" || prog.toks[k - 1].text == "}" || prog.toks[k - 1].text == "{") {
                // the closing brace of a body/block: a new statement could start here
                Some("stmt")
            } else if t.gap == "after-colon" {
                // behind `:` of a parameter / variable (positions behind `of` / `=` of a type are outside the
                // property's quantifier: the correspondence with the model covers them)
                Some("type")
            } else if t.gap == "decl-start" && k > 0 {
                Some("top")
            } else {
                None
            };
            let (l, c) = lsp_pos(&text, o);
            if let Some(cls) = cls {
                if let Some(ls) = after_comment_line(o) {
                    // column 0 of the line behind a comment line: still the same place for a new statement / declaration
                    if cls != "type" && rng.chance(1, 2) {
                        let (l0, c0) = lsp_pos(&text, ls);
                        out.push(format!("JUDGECOMP {} {} {} {}", cls, h, l0, c0));
                        out.push(format!("COMP {} {} {}", h, l0, c0));
                    }
                }
                if rng.chance(1, 3) {
                    out.push(format!("JUDGECOMP {} {} {} {}", cls, h, l, c));
                    out.push(format!("COMP {} {} {}", h, l, c));
                }
            } else if rng.chance(1, 12) {
                out.push(format!("JUDGECOMP scope {} {} {}", h, l, c));
                out.push(format!("COMP {} {} {}", h, l, c));
            }
        }
        if i % 2 == 0 {
            // after the last declaration
            let (l, c) = lsp_pos(&(text.clone() + "\n"), text.len() + 1);
            let t2 = text.clone() + "\n";
            out.push(format!("JUDGECOMP top {} {} {}", hex_str(&t2), l, c));
        }
    }
}
