//! Canonical wire format shared with the Lean driver (see DESIGN.md appendix A).
use spl_frontend::error::{
    BuildErrorMessage as B, ErrorMessage, LexErrorMessage as L, ParseErrorMessage as P,
    SemanticErrorMessage as S, SplError,
};
use spl_frontend::tokens::{IntResult, Token, TokenType};

pub fn hex(bytes: &[u8]) -> String {
    if bytes.is_empty() {
        return "-".to_string();
    }
    let mut s = String::with_capacity(bytes.len() * 2);
    for b in bytes {
        s.push_str(&format!("{:02x}", b));
    }
    s
}

pub fn hex_str(s: &str) -> String {
    hex(s.as_bytes())
}

pub fn unhex(s: &str) -> Option<Vec<u8>> {
    if s == "-" {
        return Some(Vec::new());
    }
    if s.len() % 2 != 0 {
        return None;
    }
    let b = s.as_bytes();
    let mut out = Vec::with_capacity(b.len() / 2);
    for i in (0..b.len()).step_by(2) {
        let h = (b[i] as char).to_digit(16)?;
        let l = (b[i + 1] as char).to_digit(16)?;
        out.push((h * 16 + l) as u8);
    }
    Some(out)
}

pub fn unhex_str(s: &str) -> Option<String> {
    String::from_utf8(unhex(s)?).ok()
}

pub fn msg_str(m: &ErrorMessage) -> String {
    match m {
        ErrorMessage::LexErrorMessage(l) => match l {
            L::MissingClosingTick => "MissingClosingTick".into(),
            L::ExpectedHexNumber => "ExpectedHexNumber".into(),
            L::InvalidIntLit(s) => format!("InvalidIntLit:{}", hex_str(s)),
        },
        ErrorMessage::ParseErrorMessage(p) => match p {
            P::MissingOpening(c) => format!("MissingOpening:{}", hex_str(&c.to_string())),
            P::MissingClosing(c) => format!("MissingClosing:{}", hex_str(&c.to_string())),
            P::MissingTrailingSemic => "MissingTrailingSemic".into(),
            P::UnexpectedCharacters(s) => format!("UnexpectedCharacters:{}", hex_str(s)),
            P::ExpectedToken(s) => format!("ExpectedToken:{}", hex_str(s)),
            P::ConfusedToken(a, b) => format!("ConfusedToken:{}:{}", hex_str(a), hex_str(b)),
        },
        ErrorMessage::BuildErrorMessage(b) => match b {
            B::UndefinedType(s) => format!("UndefinedType:{}", hex_str(s)),
            B::NotAType(s) => format!("NotAType:{}", hex_str(s)),
            B::RedeclarationAsType(s) => format!("RedeclarationAsType:{}", hex_str(s)),
            B::MustBeAReferenceParameter(s) => {
                format!("MustBeAReferenceParameter:{}", hex_str(s))
            }
            B::RedeclarationAsProcedure(s) => format!("RedeclarationAsProcedure:{}", hex_str(s)),
            B::RedeclarationAsParameter(s) => format!("RedeclarationAsParameter:{}", hex_str(s)),
            B::RedeclarationAsVariable(s) => format!("RedeclarationAsVariable:{}", hex_str(s)),
            B::MainIsMissing => "MainIsMissing".into(),
            B::MainIsNotAProcedure => "MainIsNotAProcedure".into(),
            B::MainMustNotHaveParameters => "MainMustNotHaveParameters".into(),
        },
        ErrorMessage::SemanticErrorMessage(s) => match s {
            S::AssignmentHasDifferentTypes => "AssignmentHasDifferentTypes".into(),
            S::AssignmentRequiresIntegers => "AssignmentRequiresIntegers".into(),
            S::IfConditionMustBeBoolean => "IfConditionMustBeBoolean".into(),
            S::WhileConditionMustBeBoolean => "WhileConditionMustBeBoolean".into(),
            S::UndefinedProcedure(n) => format!("UndefinedProcedure:{}", hex_str(n)),
            S::CallOfNoneProcedure(n) => format!("CallOfNoneProcedure:{}", hex_str(n)),
            S::ArgumentsTypeMismatch(n, i) => format!("ArgumentsTypeMismatch:{}:{}", hex_str(n), i),
            S::ArgumentMustBeAVariable(n, i) => {
                format!("ArgumentMustBeAVariable:{}:{}", hex_str(n), i)
            }
            S::TooFewArguments(n) => format!("TooFewArguments:{}", hex_str(n)),
            S::TooManyArguments(n) => format!("TooManyArguments:{}", hex_str(n)),
            S::OperatorDifferentTypes => "OperatorDifferentTypes".into(),
            S::ComparisonNonInteger => "ComparisonNonInteger".into(),
            S::ArithmeticOperatorNonInteger => "ArithmeticOperatorNonInteger".into(),
            S::UndefinedVariable(n) => format!("UndefinedVariable:{}", hex_str(n)),
            S::NotAVariable(n) => format!("NotAVariable:{}", hex_str(n)),
            S::IndexingNonArray => "IndexingNonArray".into(),
            S::IndexingWithNonInteger => "IndexingWithNonInteger".into(),
        },
    }
}

pub fn err_str(e: &SplError) -> String {
    format!("!{}@{}-{}", msg_str(&e.1), e.0.start, e.0.end)
}

fn int_res(r: &IntResult) -> String {
    match r {
        IntResult::Int(i) => format!("i{}", i),
        IntResult::Err(s) => format!("e{}", hex_str(s)),
    }
}

pub fn ty_str(t: &TokenType) -> String {
    use TokenType::*;
    match t {
        Ident(s) => format!("Ident:{}", hex_str(s)),
        Char(c) => format!("Char:{}", hex_str(&c.to_string())),
        Int(r) => format!("Int:{}", int_res(r)),
        Hex(r) => format!("Hex:{}", int_res(r)),
        Comment(s) => format!("Comment:{}", hex_str(s)),
        Unknown(s) => format!("Unknown:{}", hex_str(s)),
        other => format!("{:?}", other),
    }
}

pub fn tok_str(t: &Token) -> String {
    let mut s = format!("{}@{}-{}", ty_str(&t.token_type), t.range.start, t.range.end);
    for e in &t.errors {
        s.push_str(&err_str(e));
    }
    s
}

pub fn toks_str(ts: &[Token]) -> String {
    ts.iter().map(tok_str).collect::<Vec<_>>().join(" ")
}

/// Canonical panic site: message text up to the first ':' / digit run, no line numbers.
pub fn panic_site(msg: &str) -> String {
    let m = msg;
    let site = if m.contains("out of range") || m.contains("out of bounds") || m.contains("is not a char boundary") || m.contains("slice index starts at") || m.contains("begin <= end") {
        "slice".to_string()
    } else if m.contains("attempt to subtract with overflow") {
        "underflow".to_string()
    } else if m.contains("attempt to add with overflow") || m.contains("attempt to multiply with overflow") {
        "overflow".to_string()
    } else if m.starts_with("assertion") {
        "assert".to_string()
    } else {
        // `expect("msg")` => "msg: Err(..)"; unwrap on None => "called `Option::unwrap()`..."
        let head = m.split(':').next().unwrap_or(m).trim();
        format!("expect:{}", head)
    };
    format!("PANIC {}", site)
}
