//! C08 operations: position conversion and content-change application (document.rs).
use crate::document;
use crate::rng::Rng;
use crate::wire::*;
use lsp_types::{Position, Range, TextDocumentContentChangeEvent};

const ALPHA: &[&str] = &["a", "b", "x", " ", "é", "Ł", "€", "😀", "\n", "\n", "\r", "\r\n", "\r\n", "'", "/", "0", ";"];

pub fn gen_doc_text(rng: &mut Rng, max: usize) -> String {
    let n = rng.below(max + 1);
    let mut s = String::new();
    // characters a server might be tempted to normalise away: a byte order mark in front (or anywhere), Unicode
    // line/paragraph separators and NEL (no line terminators for LSP), tabs, NUL
    if rng.chance(1, 10) {
        s.push('\u{feff}');
    }
    for _ in 0..n {
        if rng.chance(1, 24) {
            s.push_str(*rng.pick(&["\u{feff}", "\u{2028}", "\u{2029}", "\u{85}", "\t", "\u{0}", "\u{b}", "\u{c}"]));
        } else {
            s.push_str(*rng.pick(ALPHA));
        }
    }
    s
}

fn gen_pos(rng: &mut Rng, text: &str) -> (u32, u32) {
    let lines = text.split('\n').count() as u32 + text.matches('\r').count() as u32;
    let line = if rng.chance(1, 10) { lines + rng.below(3) as u32 } else { rng.below(lines as usize + 1) as u32 };
    let col = if rng.chance(1, 6) { rng.below(40) as u32 } else { rng.below(8) as u32 };
    (line, col)
}

fn gen_change(rng: &mut Rng, text: &str) -> String {
    let ins = gen_doc_text(rng, 4);
    if rng.chance(1, 8) {
        return format!("F:{}", hex_str(&ins));
    }
    let a = gen_pos(rng, text);
    let b = if rng.chance(1, 3) { a } else { gen_pos(rng, text) };
    let (s, e) = if a <= b { (a, b) } else { (b, a) };
    if rng.chance(1, 4) {
        // the deprecated `rangeLength` member, as some clients still send it: a number of UTF-16 units (here: any
        // small number — the range decides, the member must not be believed)
        return format!("R:{}:{}:{}:{}:{}:{}", s.0, s.1, e.0, e.1, hex_str(&ins), rng.below(40));
    }
    format!("R:{}:{}:{}:{}:{}", s.0, s.1, e.0, e.1, hex_str(&ins))
}

pub fn gen_c08(rng: &mut Rng, n: usize, out: &mut Vec<String>) {
    for it in 0..n {
        if it % 12 == 9 {
            // the text AnalyzedSource::update ends with must be the changed text, also when the change covers
            // every token but not the whitespace in front of the first one
            let lead = *rng.pick(&["\n\n", "  ", "\r\n\r\n", "\t\n ", "\n"]);
            let body = gen_doc_text(rng, 12);
            let text = format!("{}x{}", lead, body);
            let lo = 1 + rng.below(lead.len());
            let lo = if text.is_char_boundary(lo) { lo } else { lead.len() };
            let ins = gen_doc_text(rng, 4);
            out.push(format!("PROPINCTEXT {} {} {} {}", hex_str(&text), lo, text.len(), hex_str(&ins)));
            out.push(format!("PROPINCTEXT {} {} {} {}", hex_str(&text), lead.len(), text.len(), hex_str(&ins)));
        }
        if it % 12 == 5 {
            // "a range the server reports, sent back as a request position, addresses that same token":
            // the START of every identifier token (compact layouts: directly after the previous token)
            let prog = crate::gen_prog::gen(rng, 2, 3, 2);
            let lo = crate::gen_prog::Layout { comment_pct: 0, comment_gaps: None, compact: rng.chance(2, 3) };
            let (text, offs, _) = crate::gen_prog::layout(rng, &prog.toks, &lo);
            let h = hex_str(&text);
            for (k, t) in prog.toks.iter().enumerate() {
                if t.binding != crate::gen_prog::Binding::None && rng.chance(1, 2) {
                    let (l, c) = crate::ops_feat::lsp_pos(&text, offs[k]);
                    out.push(format!("PREP {} {} {}", h, l, c));
                    out.push(format!("SPECPREP {} {} {}", h, l, c));
                }
            }
        }
        if it % 4 == 2 {
            // the whole path of a text through the REAL broker (didOpen / didChange batches / didClose / reopen,
            // two documents), probed after every step: the server's copy must be the client's, byte for byte
            // (CRLF and lone CR kept, a range-less change with EMPTY text clears the document, ...)
            let hx = |t: &str| if t.is_empty() { "-".to_string() } else { hex_str(t) };
            let mut toks: Vec<String> = vec![];
            let mut cur: [Option<String>; 2] = [None, None];
            for _ in 0..rng.range(2, 7) {
                let u = rng.below(2);
                match (cur[u].is_some(), rng.below(8)) {
                    (false, _) | (true, 0) => {
                        let t = if rng.chance(1, 6) { String::new() } else { gen_doc_text(rng, 16) };
                        toks.push(format!("O{}={}", u, hx(&t)));
                        cur[u] = Some(t);
                    }
                    (true, 1) => {
                        toks.push(format!("X{}", u));
                        cur[u] = None;
                    }
                    (true, _) => {
                        // the generator only tracks a rough client text to aim positions; the Lean model judges
                        let base = cur[u].clone().unwrap_or_default();
                        let mut cs = vec![];
                        for _ in 0..rng.range(1, 4) {
                            if rng.chance(1, 6) {
                                // range-less: replace everything (also by nothing)
                                let t = if rng.chance(1, 2) { String::new() } else { gen_doc_text(rng, 6) };
                                cs.push(format!("F:{}", hx(&t)));
                            } else {
                                let a = gen_pos(rng, &base);
                                let b = if rng.chance(1, 3) { a } else { gen_pos(rng, &base) };
                                let (s0, e0) = if a <= b { (a, b) } else { (b, a) };
                                let ins = gen_doc_text(rng, 4);
                                cs.push(format!("R:{}:{}:{}:{}:{}", s0.0, s0.1, e0.0, e0.1, hx(&ins)));
                            }
                        }
                        toks.push(format!("C{}={}", u, cs.join(",")));
                    }
                }
                toks.push(format!("P{}", u));
            }
            out.push(format!("SPECDOCTEXT 0 {}", toks.join(" ")));
        }
        let text = gen_doc_text(rng, 24);
        let h = hex_str(&text);
        for _ in 0..3 {
            let (l, c) = gen_pos(rng, &text);
            out.push(format!("IDX {} {} {}", h, l, c));
            out.push(format!("SPECIDX {} {} {}", h, l, c));
        }
        let idx = rng.below(text.len() + 2);
        out.push(format!("POS {} {}", h, idx));
        out.push(format!("PROPRT {}", h));
        out.push(format!("PROPTOK {}", h));
        // notifications
        let mut line = format!("CHG {}", h);
        let mut spec = format!("SPECCHG {}", h);
        // the generator tracks the client text with a simple independent line model only to
        // produce mostly-valid positions; correctness is judged by the Lean spec
        let nn = rng.range(1, 4);
        for k in 0..nn {
            if k > 0 {
                line.push_str(" |");
                spec.push_str(" |");
            }
            for _ in 0..rng.range(1, 3) {
                let ch = gen_change(rng, &text);
                line.push(' ');
                line.push_str(&ch);
                spec.push(' ');
                spec.push_str(&ch);
            }
        }
        out.push(line);
        out.push(spec);
    }
}

fn parse_change(s: &str) -> Option<TextDocumentContentChangeEvent> {
    let p: Vec<&str> = s.split(':').collect();
    match p.as_slice() {
        ["F", t] => Some(TextDocumentContentChangeEvent { range: None, range_length: None, text: unhex_str(t)? }),
        ["R", l1, c1, l2, c2, t] => Some(TextDocumentContentChangeEvent {
            range: Some(Range {
                start: Position { line: l1.parse().ok()?, character: c1.parse().ok()? },
                end: Position { line: l2.parse().ok()?, character: c2.parse().ok()? },
            }),
            range_length: None,
            text: unhex_str(t)?,
        }),
        // with the deprecated `rangeLength` member (UTF-16 units of the replaced text, or whatever a client sends)
        ["R", l1, c1, l2, c2, t, len] => Some(TextDocumentContentChangeEvent {
            range: Some(Range {
                start: Position { line: l1.parse().ok()?, character: c1.parse().ok()? },
                end: Position { line: l2.parse().ok()?, character: c2.parse().ok()? },
            }),
            range_length: Some(len.parse().ok()?),
            text: unhex_str(t)?,
        }),
        _ => None,
    }
}

fn apply_notifications(text: String, rest: &[&str]) -> Option<String> {
    let mut text = text;
    for notif in rest.split(|s| *s == "|") {
        let changes: Option<Vec<_>> = notif.iter().map(|s| parse_change(s)).collect();
        let tcs = document::verif_to_text_changes(changes?, text.clone());
        // what AnalyzedSource::update does to the text
        for tc in tcs {
            text.replace_range(tc.range.clone(), &tc.text);
        }
    }
    Some(text)
}

pub fn run(op: &str, args: &[&str]) -> Option<String> {
    match (op, args) {
        ("IDX", [t, l, c]) | ("SPECIDX", [t, l, c]) => {
            let text = unhex_str(t)?;
            let pos = Position { line: l.parse().ok()?, character: c.parse().ok()? };
            Some(format!("{}", document::get_insertion_index(&pos, &text)))
        }
        ("POS", [t, i]) => {
            let text = unhex_str(t)?;
            let p = document::as_position(i.parse().ok()?, &text);
            Some(format!("{}:{}", p.line, p.character))
        }
        ("PROPRT", [t]) => {
            // every char boundary (except between \r and \n) survives index -> position -> index
            let text = unhex_str(t)?;
            let mut bounds: Vec<usize> = text.char_indices().map(|(i, _)| i).collect();
            bounds.push(text.len());
            let b = text.as_bytes();
            for i in bounds {
                if i > 0 && i < b.len() && b[i - 1] == b'\r' && b[i] == b'\n' {
                    continue;
                }
                let p = document::as_position(i, &text);
                let j = document::get_insertion_index(&p, &text);
                if j != i {
                    return Some(format!("bad:index{}->{}:{}->{}", i, p.line, p.character, j));
                }
            }
            Some("ok".into())
        }
        ("PROPTOK", [t]) => {
            // every reported token range, sent back as positions, addresses the same token
            let text = unhex_str(t)?;
            for tok in spl_frontend::lexer::lex(&text) {
                let r = document::as_pos_range(&tok.range, &text);
                let s = document::get_insertion_index(&r.start, &text);
                let e = document::get_insertion_index(&r.end, &text);
                // an end that lies between the \r and \n of one terminator has no LSP position of its own
                let b = text.as_bytes();
                let end = tok.range.end;
                let mid = end > 0 && end < b.len() && b[end - 1] == b'\r' && b[end] == b'\n';
                if s != tok.range.start || (e != end && !(mid && e + 1 == end)) {
                    return Some(format!("bad:token{}-{}->{}-{}", tok.range.start, tok.range.end, s, e));
                }
            }
            Some("ok".into())
        }
        ("CHG", rest) | ("SPECCHG", rest) if !rest.is_empty() => {
            let text = unhex_str(rest[0])?;
            let out = apply_notifications(text, &rest[1..])?;
            Some(hex_str(&out))
        }
        _ => None,
    }
}
