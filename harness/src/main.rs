//! Correspondence / oracle harness: runs the real LSP4SPL code in-process on case lines.
//!   harness gen <prop> <tier> <seed>      -> case lines on stdout
//!   harness run                           -> reads case lines on stdin, one answer per line
#![allow(dead_code)]
mod document;
mod error;
mod features;
mod io;
mod server;

mod dump;
mod gen_prog;
mod gen_text;
mod ops_codec;
mod ops_doc;
mod ops_feat;
mod ops_inc;
mod ops_lex;
mod ops_net;
mod ops_parse;
mod ops_sem;
mod rng;
mod wire;

use std::io::{BufRead, Write};
use std::panic;
use std::sync::Mutex;

pub static LAST_PANIC: Mutex<Option<String>> = Mutex::new(None);

fn run_line(line: &str) -> String {
    let parts: Vec<&str> = line.split(' ').collect();
    if parts.is_empty() {
        return "bad-op".into();
    }
    let (op, args) = (parts[0], &parts[1..]);
    let res = panic::catch_unwind(|| {
        ops_lex::run(op, args).or_else(|| ops_doc::run(op, args)).or_else(|| ops_codec::run(op, args)).or_else(|| ops_net::run(op, args)).or_else(|| ops_parse::run(op, args)).or_else(|| ops_inc::run(op, args)).or_else(|| ops_sem::run(op, args)).or_else(|| ops_feat::run(op, args)).or_else(|| ops_feat::run_fmt_props(op, args))
    });
    match res {
        Ok(Some(s)) => s,
        Ok(None) => "bad-op".into(),
        Err(_) => {
            let msg = LAST_PANIC.lock().unwrap().take().unwrap_or_default();
            wire::panic_site(&msg)
        }
    }
}

fn main() {
    panic::set_hook(Box::new(|info| {
        let msg = if let Some(s) = info.payload().downcast_ref::<&str>() {
            s.to_string()
        } else if let Some(s) = info.payload().downcast_ref::<String>() {
            s.clone()
        } else {
            "unknown".to_string()
        };
        if std::env::var_os("VERIF_PANIC_TRACE").is_some() {
            eprintln!("panic: {} at {:?}", msg, info.location());
        }
        *LAST_PANIC.lock().unwrap() = Some(msg);
    }));
    let args: Vec<String> = std::env::args().collect();
    match args.get(1).map(|s| s.as_str()) {
        Some("gen") => {
            let prop = args.get(2).expect("prop");
            let tier = args.get(3).map(|s| s.as_str()).unwrap_or("quick");
            let seed: u64 = args.get(4).and_then(|s| s.parse().ok()).unwrap_or(1);
            let mut rng = rng::Rng::new(seed ^ 0x5151_0000);
            let thorough = tier == "thorough";
            let mut out = Vec::new();
            match prop.as_str() {
                "C06" => ops_lex::gen_c06(&mut rng, if thorough { 40000 } else { 3000 }, &mut out),
                "C07" => ops_lex::gen_c07(&mut rng, if thorough { 60000 } else { 4000 }, thorough, &mut out),
                "C01" => ops_inc::gen_c01(&mut rng, if thorough { 30000 } else { 2500 }, &mut out),
                "C02" => ops_inc::gen_c02(&mut rng, if thorough { 30000 } else { 2500 }, &mut out),
                "C03" => ops_sem::gen_c03(&mut rng, if thorough { 8000 } else { 600 }, &mut out),
                "C09" => ops_feat::gen_fmt(&mut rng, if thorough { 6000 } else { 500 }, "C09", &mut out),
                "C10" => ops_feat::gen_fmt(&mut rng, if thorough { 6000 } else { 500 }, "C10", &mut out),
                "C11" => ops_feat::gen_fmt(&mut rng, if thorough { 4000 } else { 350 }, "C11", &mut out),
                "C12" => ops_feat::gen_feature_cases(&mut rng, if thorough { 3000 } else { 250 }, &["GOTO"], 25, &mut out),
                "C13" => ops_feat::gen_feature_cases(&mut rng, if thorough { 3000 } else { 250 }, &["REFS", "REN", "PREP"], 25, &mut out),
                "C14" => ops_feat::gen_feature_cases(&mut rng, if thorough { 3000 } else { 250 }, &["HOV", "SIG"], 25, &mut out),
                "C15" => ops_feat::gen_feature_cases(&mut rng, if thorough { 6000 } else { 500 }, &["SEM"], 40, &mut out),
                "C17" => ops_feat::gen_feature_cases(&mut rng, if thorough { 8000 } else { 700 }, &["FOLD"], 40, &mut out),
                "C16" => ops_feat::gen_c16(&mut rng, if thorough { 3000 } else { 250 }, &mut out),
                "FEAT" => ops_feat::gen_feature_cases(&mut rng, if thorough { 3000 } else { 300 }, &["GOTO", "PREP", "REFS", "REN", "HOV", "SIG", "FOLD", "SEM", "COMP", "FMT"], 25, &mut out),
                "C04" => ops_parse::gen_c04(&mut rng, if thorough { 6000 } else { 500 }, &mut out),
                "C05" => ops_parse::gen_c05(&mut rng, if thorough { 20000 } else { 1500 }, &mut out),
                "NEW" => ops_parse::gen_new(&mut rng, if thorough { 20000 } else { 2000 }, &mut out),
                "PARSE" => ops_parse::gen_parse(&mut rng, if thorough { 20000 } else { 2000 }, &mut out),
                "C19" => ops_codec::gen_c19(&mut rng, if thorough { 6000 } else { 500 }, &mut out),
                "C08" => ops_doc::gen_c08(&mut rng, if thorough { 20000 } else { 1200 }, &mut out),
                _ => {
                    eprintln!("unknown property {}", prop);
                    std::process::exit(2);
                }
            }
            let stdout = std::io::stdout();
            let mut w = std::io::BufWriter::new(stdout.lock());
            for l in out {
                writeln!(w, "{}", l).unwrap();
            }
        }
        Some("run") => {
            let stdin = std::io::stdin();
            let stdout = std::io::stdout();
            let mut w = std::io::BufWriter::new(stdout.lock());
            for line in stdin.lock().lines() {
                let line = line.unwrap();
                if line.is_empty() {
                    continue;
                }
                writeln!(w, "{}", run_line(&line)).unwrap();
            }
        }
        _ => {
            eprintln!("usage: harness gen <prop> <tier> <seed> | harness run");
            std::process::exit(2);
        }
    }
}
