//! Canonical S-expression dump of the AST and the symbol table (same format as the Lean driver).
use crate::wire::*;
use spl_frontend::ast::*;
use spl_frontend::table::*;

fn info(i: &AstInfo) -> String {
    let mut s = format!("@{}-{}", i.range.start, i.range.end);
    for e in &i.errors {
        s.push_str(&err_str(e));
    }
    s
}

fn opt<T>(o: &Option<T>, f: impl Fn(&T) -> String) -> String {
    o.as_ref().map_or("_".to_string(), f)
}

fn rf<T>(r: &Reference<T>, f: impl Fn(&T) -> String) -> String {
    format!("+{}:{}", r.offset, f(&r.reference))
}

fn list<T>(xs: &[T], f: impl Fn(&T) -> String) -> String {
    format!("[{}]", xs.iter().map(f).collect::<Vec<_>>().join(" "))
}

fn doc(d: &[String]) -> String {
    format!("doc[{}]", d.iter().map(|s| hex_str(s)).collect::<Vec<_>>().join(","))
}

pub fn ident(i: &Identifier) -> String {
    format!("(Id:{} {})", hex_str(&i.value), info(&i.info))
}

fn int_lit(i: &IntLiteral) -> String {
    format!("(Int:{} {})", i.value.map_or("none".to_string(), |v| v.to_string()), info(&i.info))
}

fn variable(v: &Variable) -> String {
    match v {
        Variable::NamedVariable(i) => format!("(Named {})", ident(i)),
        Variable::ArrayAccess(a) => format!(
            "(Access {} {} {})",
            info(&a.info),
            variable(&a.array),
            opt(&a.index, |b| rf(b, expr))
        ),
    }
}

pub fn expr(e: &Expression) -> String {
    match e {
        Expression::Binary(b) => format!("(Bin:{} {} {} {})", b.operator, info(&b.info), expr(&b.lhs), expr(&b.rhs)),
        Expression::Bracketed(b) => format!("(Brk {} {})", info(&b.info), expr(&b.expr)),
        Expression::IntLiteral(i) => int_lit(i),
        Expression::Unary(u) => format!("(Un:{} {} {})", u.operator, info(&u.info), expr(&u.expr)),
        Expression::Variable(v) => format!("(Var {})", variable(v)),
        Expression::Error(i) => format!("(ExprErr {})", info(i)),
    }
}

fn type_expr(t: &TypeExpression) -> String {
    match t {
        TypeExpression::NamedType(i) => format!("(NamedT {})", ident(i)),
        TypeExpression::ArrayType { size, base_type, info: i } => format!(
            "(ArrayT {} {} {})",
            info(i),
            opt(size, int_lit),
            opt(base_type, |b| rf(b, type_expr))
        ),
    }
}

fn stmt(s: &Statement) -> String {
    match s {
        Statement::Empty(i) => format!("(Empty {})", info(i)),
        Statement::Error(i) => format!("(StmtErr {})", info(i)),
        Statement::Assignment(a) => format!("(Assign {} {} {})", info(&a.info), variable(&a.variable), opt(&a.expr, |r| rf(r, expr))),
        Statement::Call(c) => format!("(Call {} {} {})", info(&c.info), ident(&c.name), list(&c.arguments, |r| rf(r, expr))),
        Statement::If(i) => format!(
            "(If {} {} {} {})",
            info(&i.info),
            opt(&i.condition, |r| rf(r, expr)),
            opt(&i.if_branch, |b| rf(b, stmt)),
            opt(&i.else_branch, |b| rf(b, stmt))
        ),
        Statement::While(w) => format!(
            "(While {} {} {})",
            info(&w.info),
            opt(&w.condition, |r| rf(r, expr)),
            opt(&w.statement, |b| rf(b, stmt))
        ),
        Statement::Block(b) => format!("(Block {} {})", info(&b.info), list(&b.statements, |r| rf(r, stmt))),
    }
}

fn var_dec(v: &VariableDeclaration) -> String {
    match v {
        VariableDeclaration::Error(i) => format!("(VarErr {})", info(i)),
        VariableDeclaration::Valid { doc: d, name, type_expr: t, info: i } => {
            format!("(VarDec {} {} {} {})", info(i), doc(d), opt(name, ident), opt(t, |r| rf(r, type_expr)))
        }
    }
}

fn param_dec(v: &ParameterDeclaration) -> String {
    match v {
        ParameterDeclaration::Error(i) => format!("(ParErr {})", info(i)),
        ParameterDeclaration::Valid { doc: d, is_ref, name, type_expr: t, info: i } => format!(
            "(ParDec {} {} ref={} {} {})",
            info(i),
            doc(d),
            is_ref,
            opt(name, ident),
            opt(t, |r| rf(r, type_expr))
        ),
    }
}

fn global(g: &GlobalDeclaration) -> String {
    match g {
        GlobalDeclaration::Error(i) => format!("(GlobErr {})", info(i)),
        GlobalDeclaration::Type(t) => format!(
            "(TypeDec {} {} {} {})",
            info(&t.info),
            doc(&t.doc),
            opt(&t.name, ident),
            opt(&t.type_expr, |r| rf(r, type_expr))
        ),
        GlobalDeclaration::Procedure(p) => format!(
            "(ProcDec {} {} {} {} {} {})",
            info(&p.info),
            doc(&p.doc),
            opt(&p.name, ident),
            list(&p.parameters, |r| rf(r, param_dec)),
            list(&p.variable_declarations, |r| rf(r, var_dec)),
            list(&p.statements, |r| rf(r, stmt))
        ),
    }
}

pub fn program(p: &Program) -> String {
    format!("(Program {} {})", info(&p.info), list(&p.global_declarations, |r| rf(r, global)))
}

fn data_type(d: &DataType) -> String {
    match d {
        DataType::Int => "int".into(),
        DataType::Bool => "bool".into(),
        DataType::Array { size, base_type, creator } => format!(
            "(arr {} {} {})",
            size.map_or("_".to_string(), |s| s.to_string()),
            base_type.as_ref().map_or("_".to_string(), |b| data_type(b)),
            hex_str(creator)
        ),
    }
}

fn var_entry(v: &VariableEntry) -> String {
    format!(
        "(V {} ref={} {} @{}-{} doc={})",
        ident(&v.name),
        v.is_ref,
        opt(&v.data_type, data_type),
        v.range.start,
        v.range.end,
        opt(&v.doc, |d| hex_str(d))
    )
}

fn local_table(t: &LocalTable) -> String {
    let mut keys: Vec<&String> = t.entries.keys().collect();
    keys.sort();
    let items: Vec<String> = keys
        .iter()
        .map(|k| match &t.entries[*k] {
            LocalEntry::Variable(v) => format!("{}=var{}", hex_str(k), var_entry(v)),
            LocalEntry::Parameter(v) => format!("{}=par{}", hex_str(k), var_entry(v)),
        })
        .collect();
    format!("{{{}}}", items.join(" "))
}

/// Global table without the predefined entries (sorted by key).
pub fn table(t: &GlobalTable) -> String {
    let mut keys: Vec<&String> = t.entries.keys().collect();
    keys.sort();
    let mut items = Vec::new();
    for k in keys {
        match &t.entries[k] {
            GlobalEntry::Type(te) => {
                if Entry::Type(te).is_default() {
                    continue;
                }
                items.push(format!(
                    "{}=(T {} {} @{}-{} doc={})",
                    hex_str(k),
                    ident(&te.name),
                    opt(&te.data_type, data_type),
                    te.range.start,
                    te.range.end,
                    opt(&te.doc, |d| hex_str(d))
                ));
            }
            GlobalEntry::Procedure(p) => {
                if Entry::Procedure(p).is_default() {
                    continue;
                }
                items.push(format!(
                    "{}=(P {} {} {} @{}-{} doc={})",
                    hex_str(k),
                    ident(&p.name),
                    list(&p.parameters, var_entry),
                    local_table(&p.local_table),
                    p.range.start,
                    p.range.end,
                    opt(&p.doc, |d| hex_str(d))
                ));
            }
        }
    }
    format!("{{{}}}", items.join(" "))
}

pub fn global_ref(r: &Reference<GlobalDeclaration>) -> String {
    rf(r, global)
}

/// Remove build and semantic messages (`!Name...@a-b`) from a dump, keep lexical and syntax ones.
pub fn strip_sem(s: &str) -> String {
    const SYNTAX: &[&str] = &[
        "MissingClosingTick", "ExpectedHexNumber", "InvalidIntLit", "MissingOpening", "MissingClosing",
        "MissingTrailingSemic", "UnexpectedCharacters", "ExpectedToken", "ConfusedToken",
    ];
    let mut out = String::new();
    let mut rest = s;
    while let Some(i) = rest.find('!') {
        out.push_str(&rest[..i]);
        let tail = &rest[i + 1..];
        // message ends at the range `@a-b`
        let at = tail.find('@').unwrap_or(tail.len());
        let after = &tail[at..];
        let mut end = at + 1;
        let bytes = after.as_bytes();
        let mut j = 1;
        while j < bytes.len() && (bytes[j].is_ascii_digit() || bytes[j] == b'-') {
            j += 1;
        }
        end = end - 1 + j;
        let msg = &tail[..end];
        let name = msg.split(|c| c == ':' || c == '@').next().unwrap_or("");
        if SYNTAX.contains(&name) {
            out.push('!');
            out.push_str(msg);
        }
        rest = &tail[end..];
    }
    out.push_str(rest);
    out
}

pub trait RangeEnd {
    fn to_range_end(&self) -> usize;
}

impl RangeEnd for Reference<GlobalDeclaration> {
    fn to_range_end(&self) -> usize {
        use spl_frontend::ToRange;
        self.reference.to_range().end
    }
}
