//! Parser-level operations (C04, C05, C02, C01): real lexer + parser, canonical tree dump.
use crate::dump;
use crate::gen_prog::{self, Layout};
use crate::gen_text;
use crate::rng::Rng;
use crate::wire::*;
use spl_frontend::{lexer, parser};

pub fn gen_valid_text(rng: &mut Rng, comment_pct: usize, all_gaps: bool) -> String {
    let prog = gen_prog::gen(rng, 3, 4, 3);
    let lo = Layout { comment_pct, comment_gaps: if all_gaps { None } else { Some(gen_prog::LEADING_GAPS) }, compact: rng.chance(1, 5) };
    gen_prog::layout(rng, &prog.toks, &lo).0
}

pub fn gen_broken_text(rng: &mut Rng) -> String {
    let prog = gen_prog::gen(rng, 2, 3, 2);
    let mut toks = prog.toks.clone();
    for _ in 0..rng.range(1, 3) {
        toks = gen_prog::mutate(rng, &toks);
    }
    let lo = Layout { comment_pct: 5, comment_gaps: None, compact: rng.chance(1, 3) };
    gen_prog::layout(rng, &toks, &lo).0
}

pub fn gen_parse(rng: &mut Rng, n: usize, out: &mut Vec<String>) {
    for i in 0..n {
        let text = match i % 4 {
            0 => gen_valid_text(rng, 0, false),
            1 => gen_valid_text(rng, 15, true),
            2 => gen_broken_text(rng),
            _ => {
                // token soup
                let k = rng.below(20);
                (0..k).map(|_| *rng.pick(gen_prog::TOKEN_ALPHABET)).collect::<Vec<_>>().join(if rng.chance(1, 2) { " " } else { "\n" })
                    + if rng.chance(1, 3) { &gen_text::FRAGMENTS[0] } else { "" }
            }
        };
        out.push(format!("PARSE {}", hex_str(&text)));
    }
}

pub fn run(op: &str, args: &[&str]) -> Option<String> {
    match (op, args) {
        ("PARSE", [t]) => {
            let text = unhex_str(t)?;
            let toks = lexer::lex(&text);
            let prog = parser::parse(&toks);
            Some(dump::program(&prog))
        }
        ("NEW", [t]) => {
            use spl_frontend::{AnalyzedSource, ErrorContainer};
            let text = unhex_str(t)?;
            let doc = AnalyzedSource::new(text);
            let errs = doc.errors();
            Some(format!(
                "{} ;; {} ;; {}",
                dump::program(&doc.ast),
                dump::table(&doc.table),
                errs.iter().map(err_str).collect::<String>()
            ))
        }
        _ => None,
    }
}

pub fn gen_new(rng: &mut Rng, n: usize, out: &mut Vec<String>) {
    let mut tmp = Vec::new();
    gen_parse(rng, n, &mut tmp);
    for l in tmp {
        out.push(l.replacen("PARSE", "NEW", 1));
    }
}
