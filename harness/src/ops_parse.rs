//! Parser-level operations (C04, C05, C02, C01): real lexer + parser, canonical tree dump.
use crate::dump::{self, RangeEnd};
use crate::gen_prog::{self, Layout};
use crate::gen_text;
use crate::rng::Rng;
use crate::wire::*;
use spl_frontend::{lexer, parser};

pub fn gen_valid_text(rng: &mut Rng, comment_pct: usize, all_gaps: bool) -> String {
    let prog = gen_prog::gen(rng, 3, 4, 3);
    let lo = Layout { comment_pct, comment_gaps: if all_gaps { None } else { Some(gen_prog::LEADING_GAPS) }, compact: rng.chance(1, 5) };
    gen_prog::layout(rng, &prog.toks, &lo).0
}

pub fn gen_broken_text(rng: &mut Rng) -> String {
    let prog = gen_prog::gen(rng, 2, 3, 2);
    let mut toks = prog.toks.clone();
    for _ in 0..rng.range(1, 3) {
        toks = gen_prog::mutate(rng, &toks);
    }
    let lo = Layout { comment_pct: 5, comment_gaps: None, compact: rng.chance(1, 3) };
    gen_prog::layout(rng, &toks, &lo).0
}

pub fn gen_parse(rng: &mut Rng, n: usize, out: &mut Vec<String>) {
    for i in 0..n {
        let text = match i % 4 {
            0 => gen_valid_text(rng, 0, false),
            1 => gen_valid_text(rng, 15, true),
            2 => gen_broken_text(rng),
            _ => {
                // token soup
                let k = rng.below(20);
                (0..k).map(|_| *rng.pick(gen_prog::TOKEN_ALPHABET)).collect::<Vec<_>>().join(if rng.chance(1, 2) { " " } else { "\n" })
                    + if rng.chance(1, 3) { &gen_text::FRAGMENTS[0] } else { "" }
            }
        };
        out.push(format!("PARSE {}", hex_str(&text)));
    }
}

pub fn run(op: &str, args: &[&str]) -> Option<String> {
    match (op, args) {
        ("PARSE", [t]) => {
            let text = unhex_str(t)?;
            let toks = lexer::lex(&text);
            let prog = parser::parse(&toks);
            Some(dump::program(&prog))
        }
        ("PROPCONTAIN", [t0, t1, k, n]) => {
            Some(contain(&unhex_str(t0)?, &unhex_str(t1)?, k.parse().ok()?, n.parse().ok()?))
        }
        ("SPECPARSE", [t]) => {
            let text = unhex_str(t)?;
            let toks = lexer::lex(&text);
            let prog = parser::parse(&toks);
            Some(dump::program(&prog))
        }
        ("NEW", [t]) => {
            use spl_frontend::{AnalyzedSource, ErrorContainer};
            let text = unhex_str(t)?;
            let doc = AnalyzedSource::new(text);
            let errs = doc.errors();
            Some(format!(
                "{} ;; {} ;; {}",
                dump::program(&doc.ast),
                dump::table(&doc.table),
                errs.iter().map(err_str).collect::<String>()
            ))
        }
        _ => None,
    }
}

/// C04: valid programs under varied layouts: PARSE (impl vs model) + SPECPARSE (impl vs grammar spec).
pub fn gen_c04(rng: &mut Rng, n: usize, out: &mut Vec<String>) {
    for i in 0..n {
        if i % 20 == 5 {
            // one quantity just beyond a round number
            let h = hex_str(&crate::ops_sem::scale_doc(rng, i / 20));
            out.push(format!("PARSE {}", h));
            out.push(format!("SPECPARSE {}", h));
        }
        let prog = gen_prog::gen(rng, 3, 4, if i % 5 == 0 { 5 } else { 3 });
        // the same token sequence under two layouts, one of them with comments in any gap
        for k in 0..2 {
            let lo = Layout { comment_pct: if k == 0 { 0 } else { 20 }, comment_gaps: None, compact: rng.chance(1, 4) };
            let text = gen_prog::layout(rng, &prog.toks, &lo).0;
            let h = hex_str(&text);
            out.push(format!("PARSE {}", h));
            out.push(format!("SPECPARSE {}", h));
        }
    }
}

/// C05: a valid program with >= 2 declarations, one non-keyword token of one declaration damaged.
pub fn gen_c05(rng: &mut Rng, n: usize, out: &mut Vec<String>) {
    let mut made = 0;
    while made < n {
        let prog = gen_prog::gen(rng, 3, 4, 2);
        let ndecl = prog.order.len();
        if ndecl < 2 {
            continue;
        }
        let k = rng.below(ndecl);
        // comments are part of the shared token list (so both versions carry the same ones)
        let with_comments = rng.chance(1, 3);
        let mut base: Vec<gen_prog::Tok> = Vec::new();
        // often the declaration BEHIND the damaged one is documented: its comments must stay its own
        let doc_next = with_comments && rng.chance(1, 2);
        for (i, t) in prog.toks.iter().enumerate() {
            let first_of_next = doc_next && t.decl == k + 1 && (i == 0 || prog.toks[i - 1].decl == k);
            if with_comments && gen_prog::LEADING_GAPS.contains(&t.gap) && (rng.chance(1, 4) || first_of_next) {
                // one to three comment lines (every `//` line is a token of its own)
                for l in 0..(1 + rng.below(3)) {
                    let mut c = t.clone();
                    c.text = format!("// c{}.{}\n", i, l);
                    c.gap = "comment";
                    base.push(c);
                }
            }
            base.push(t.clone());
        }
        let idxs: Vec<usize> = (0..base.len()).filter(|&i| base[i].decl == k && base[i].gap != "comment").collect();
        // the tokens that delimit the declaration are damaged more often than their share: its last token
        // (closing brace / semicolon) and its header
        let j = match rng.below(8) {
            0 | 1 => *idxs.last().unwrap(),
            2 => idxs[rng.below(idxs.len().min(5))],
            _ => *rng.pick(&idxs),
        };
        let mut damaged = base.clone();
        let what = rng.below(3);
        let is_kw = |t: &str| t == "proc" || t == "type";
        // tokens that open a construct (and so invite the parser to read on) more often than their share
        const OPENERS: &[&str] = &["var", "if", "while", "else", "ref", "array", "of", "{", "(", "[", ":=", ":", ",", "x", "-", "\u{a7}", "\u{20ac}", "\u{1F600}", "\u{e9}"];
        let repl = if rng.chance(1, 3) { *rng.pick(OPENERS) } else { *rng.pick(gen_prog::TOKEN_ALPHABET) };
        match what {
            0 => {
                if is_kw(&damaged[j].text) { continue; }
                damaged.remove(j);
            }
            1 => {
                let mut t = damaged[j].clone();
                t.text = repl.to_string();
                damaged.insert(j, t);
            }
            _ => {
                if is_kw(&damaged[j].text) { continue; }
                damaged[j].text = repl.to_string();
            }
        }
        let lo = Layout { comment_pct: 0, comment_gaps: None, compact: true };
        let t0 = gen_prog::layout(rng, &base, &lo).0;
        let t1 = gen_prog::layout(rng, &damaged, &lo).0;
        out.push(format!("PROPCONTAIN {} {} {} {}", hex_str(&t0), hex_str(&t1), k, ndecl));
        out.push(format!("NEW {}", hex_str(&t1)));
        if made % 4 == 0 {
            out.push(format!("PUB {}", hex_str(&t1)));
        }
        made += 1;
    }
}

fn strip_offset(s: &str) -> &str {
    // "+12:(...)" -> "(...)"
    s.split_once(':').map(|x| x.1).unwrap_or(s)
}

/// The property C05 on the implementation: undamaged declarations keep their sub-trees and table
/// entries; every syntax diagnostic lies inside the damaged segment.
fn contain(t0: &str, t1: &str, k: usize, n: usize) -> String {
    use spl_frontend::error::ErrorMessage;
    use spl_frontend::{AnalyzedSource, ErrorContainer};
    let a = AnalyzedSource::new(t0.to_string());
    let b = AnalyzedSource::new(t1.to_string());
    let da: Vec<String> = a.ast.global_declarations.iter().map(|r| dump::global_ref(r)).collect();
    let db: Vec<String> = b.ast.global_declarations.iter().map(|r| dump::global_ref(r)).collect();
    if da.len() != n {
        return format!("bad:original-has-{}-declarations", da.len());
    }
    let suffix = n - k - 1;
    if db.len() < k + suffix {
        return format!("bad:damaged-program-has-only-{}-declarations", db.len());
    }
    // parse trees are compared without build/semantic messages (those may legitimately change)
    let strip = |s: &str| -> String { dump::strip_sem(s) };
    for i in 0..k {
        if strip(&da[i]) != strip(&db[i]) {
            return format!("bad:declaration-{}-before-the-damage-changed", i);
        }
    }
    for i in 0..suffix {
        let x = &da[n - 1 - i];
        let y = &db[db.len() - 1 - i];
        if strip(strip_offset(x)) != strip(strip_offset(y)) {
            return format!("bad:declaration-{}-after-the-damage-changed", n - 1 - i);
        }
    }
    // syntax diagnostics inside the damaged segment (byte positions in the damaged text)
    let seg_lo = if k == 0 { 0 } else {
        let g = &b.ast.global_declarations[k - 1];
        let end_tok = g.offset + g.to_range_end();
        b.tokens[end_tok - 1].range.end
    };
    let seg_hi = if suffix == 0 { t1.len() } else {
        let g = &b.ast.global_declarations[db.len() - suffix];
        // first non-comment token of the next declaration
        let mut i = g.offset;
        while matches!(b.tokens[i].token_type, spl_frontend::tokens::TokenType::Comment(_)) { i += 1; }
        b.tokens[i].range.start
    };
    let errs = b.errors();
    for e in &errs {
        if matches!(e.1, ErrorMessage::LexErrorMessage(_) | ErrorMessage::ParseErrorMessage(_)) {
            if e.0.start < seg_lo || e.0.end > seg_hi {
                return format!("bad:syntax-diagnostic-{}-{}-outside-damaged-declaration-{}-{}", e.0.start, e.0.end, seg_lo, seg_hi);
            }
        }
    }
    // ... and so do the ranges the broker PUBLISHES for them (positions by the independent LSP position function)
    match crate::ops_net::published_ranges(t1) {
        Err(e) => return format!("bad:publishing-failed-{}", e.replace(' ', "-")),
        Ok(pubs) => {
            if pubs.len() != errs.len() {
                return format!("bad:{}-diagnostics-published-for-{}-errors", pubs.len(), errs.len());
            }
            let lo = crate::ops_feat::lsp_pos(t1, seg_lo);
            let hi = crate::ops_feat::lsp_pos(t1, seg_hi);
            let (lo, hi) = ((lo.0 as u64, lo.1 as u64), (hi.0 as u64, hi.1 as u64));
            for (e, p) in errs.iter().zip(pubs.iter()) {
                if matches!(e.1, ErrorMessage::LexErrorMessage(_) | ErrorMessage::ParseErrorMessage(_)) {
                    if (p.0, p.1) < lo || (p.2, p.3) > hi {
                        return format!("bad:published-syntax-diagnostic-{}:{}-{}:{}-outside-damaged-declaration-{}:{}-{}:{}", p.0, p.1, p.2, p.3, lo.0, lo.1, hi.0, hi.1);
                    }
                }
            }
        }
    }
    "ok".into()
}

pub fn gen_new(rng: &mut Rng, n: usize, out: &mut Vec<String>) {
    let mut tmp = Vec::new();
    gen_parse(rng, n, &mut tmp);
    for l in tmp {
        out.push(l.replacen("PARSE", "NEW", 1));
    }
}
