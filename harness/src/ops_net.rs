//! C20: the in-process *sequential* execution of the same handlers (SeqServer reference):
//! one message at a time through the real broker, waiting for completion after each.
use crate::document::{self, DocumentRequest};
use crate::features;
use crate::io::Message;
use crate::wire::*;
use lsp_types::*;
use serde_json::{json, Value};
use tokio::sync::mpsc;

pub const URIS: &[&str] = &["file:///a.spl", "untitled:/a.spl", "file:///b.spl", "file:///dir/a.spl", "file:///%C3%A4.spl", "file:///A.spl", "file:///dir/a.spl?ref=HEAD"];

fn uri(k: usize) -> Url {
    Url::parse(URIS[k % URIS.len()]).unwrap()
}

fn parse_change(s: &str) -> Option<TextDocumentContentChangeEvent> {
    let p: Vec<&str> = s.split(':').collect();
    match p.as_slice() {
        ["F", t] => Some(TextDocumentContentChangeEvent { range: None, range_length: None, text: unhex_str(t)? }),
        ["R", l1, c1, l2, c2, t] => Some(TextDocumentContentChangeEvent {
            range: Some(Range {
                start: Position { line: l1.parse().ok()?, character: c1.parse().ok()? },
                end: Position { line: l2.parse().ok()?, character: c2.parse().ok()? },
            }),
            range_length: None,
            text: unhex_str(t)?,
        }),
        // with the deprecated `rangeLength` member (UTF-16 units of the replaced text, or whatever a client sends)
        ["R", l1, c1, l2, c2, t, len] => Some(TextDocumentContentChangeEvent {
            range: Some(Range {
                start: Position { line: l1.parse().ok()?, character: c1.parse().ok()? },
                end: Position { line: l2.parse().ok()?, character: c2.parse().ok()? },
            }),
            range_length: Some(len.parse().ok()?),
            text: unhex_str(t)?,
        }),
        _ => None,
    }
}

/// history tokens: `O<u>=<hextext>`  `C<u>=<chg>,<chg>`  `X<u>`  `P<u>` (text probe)  `F<u>` (folding ranges)  `M<u>` (formatting)  `H<u>` (hover at 0:6)
pub fn seq(diag: bool, tokens: &[&str]) -> Option<String> {
    seq_impl(diag, tokens, false)
}

/// the same run, reporting only the text probes: `R<k>=<hex text | null>` (the answer format of SPECNETTEXT)
pub fn seq_probes(diag: bool, tokens: &[&str]) -> Option<String> {
    seq_impl(diag, tokens, true)
}

fn seq_impl(diag: bool, tokens: &[&str], probes_only: bool) -> Option<String> {
    let rt = tokio::runtime::Builder::new_current_thread().enable_all().build().unwrap();
    rt.block_on(async move {
        let (iotx, mut iorx) = mpsc::channel::<Message>(100_000);
        let (doctx, docrx) = mpsc::channel(32);
        let broker = tokio::spawn(document::broker(docrx, iotx, diag));
        let mut events: Vec<Value> = Vec::new();
        let mut probes: Vec<String> = Vec::new();
        for (k, tok) in tokens.iter().enumerate() {
            let kind = tok.chars().next()?;
            if kind == 'U' {
                continue; // a request that never visits the broker: no document-related event
            }
            let rest = &tok[1..];
            let (u, arg) = match rest.split_once('=') {
                Some((u, a)) => (u.parse::<usize>().ok()?, a),
                None => (rest.parse::<usize>().ok()?, ""),
            };
            match kind {
                'O' => {
                    let text = unhex_str(arg)?;
                    document::open(doctx.clone(), DidOpenTextDocumentParams {
                        text_document: TextDocumentItem { uri: uri(u), language_id: "spl".into(), version: 0, text },
                    }).await.ok()?;
                }
                'C' => {
                    let changes: Option<Vec<_>> = arg.split(',').map(parse_change).collect();
                    document::change(doctx.clone(), DidChangeTextDocumentParams {
                        text_document: VersionedTextDocumentIdentifier { uri: uri(u), version: 1 },
                        content_changes: changes?,
                    }).await.ok()?;
                }
                'X' => {
                    document::close(doctx.clone(), DidCloseTextDocumentParams {
                        text_document: TextDocumentIdentifier { uri: uri(u) },
                    }).await.ok()?;
                }
                'P' => {
                    let r = features::verif_text(doctx.clone(), TextDocumentIdentifier { uri: uri(u) }).await;
                    match r {
                        Ok(v) => {
                            probes.push(format!("R{}={}", k, match &v {
                                Some(t) if t.is_empty() => "-".to_string(),
                                Some(t) => hex_str(t),
                                None => "null".to_string(),
                            }));
                            events.push(json!({"r": v}))
                        }
                        Err(_) => return Some("PANIC broker-died".to_string()),
                    }
                }
                'F' => {
                    let r = features::fold(doctx.clone(), FoldingRangeParams {
                        text_document: TextDocumentIdentifier { uri: uri(u) },
                        work_done_progress_params: Default::default(),
                        partial_result_params: Default::default(),
                    }).await;
                    match r {
                        Ok(v) => events.push(json!({"r": v})),
                        Err(_) => return Some("PANIC broker-died".to_string()),
                    }
                }
                'M' => {
                    let r = features::format(doctx.clone(), DocumentFormattingParams {
                        text_document: TextDocumentIdentifier { uri: uri(u) },
                        options: FormattingOptions { tab_size: 4, insert_spaces: true, ..Default::default() },
                        work_done_progress_params: Default::default(),
                    }).await;
                    match r {
                        Ok(v) => events.push(json!({"r": v})),
                        Err(_) => return Some("PANIC broker-died".to_string()),
                    }
                }
                'H' => {
                    let r = features::hover(doctx.clone(), HoverParams {
                        text_document_position_params: TextDocumentPositionParams {
                            text_document: TextDocumentIdentifier { uri: uri(u) },
                            position: Position { line: 0, character: 6 },
                        },
                        work_done_progress_params: Default::default(),
                    }).await;
                    match r {
                        Ok(v) => events.push(json!({"r": v})),
                        Err(_) => return Some("PANIC broker-died".to_string()),
                    }
                }
                _ => return None,
            }
            // wait until the broker has processed everything sent so far
            if features::verif_text(doctx.clone(), TextDocumentIdentifier { uri: uri(0) }).await.is_err() {
                return Some("PANIC broker-died".to_string());
            }
            while let Ok(m) = iorx.try_recv() {
                let v = serde_json::to_value(&m).unwrap();
                events.push(json!({"d": [v["params"]["uri"], v["params"]["diagnostics"]]}));
            }
        }
        drop(doctx);
        let _ = broker.await;
        if probes_only {
            return Some(probes.join(" "));
        }
        Some(serde_json::to_string(&json!(events)).unwrap())
    })
}

/// The ranges of the diagnostics the REAL broker publishes (document::notify -> create_diagnostic, messages formatted)
/// when `text` is opened by a client that announced diagnostics: `l:c-l:c;` per diagnostic, in order.
pub fn published_ranges(text: &str) -> Result<Vec<(u64, u64, u64, u64)>, String> {
    published_ranges_after(text, None)
}

/// ... after a previous life of the same URI: `prev` opened first, then either closed and re-opened with `text`
/// (`reopen`) or replaced by a full-text change. The LAST publication is returned.
pub fn published_ranges_after(text: &str, prev: Option<(&str, bool)>) -> Result<Vec<(u64, u64, u64, u64)>, String> {
    let hx = |t: &str| if t.is_empty() { "-".to_string() } else { hex_str(t) };
    let toks: Vec<String> = match prev {
        None => vec![format!("O0={}", hx(text))],
        Some((p, true)) => vec![format!("O0={}", hx(p)), "X0".to_string(), format!("O0={}", hx(text))],
        Some((p, false)) => vec![format!("O0={}", hx(p)), format!("C0=F:{}", hx(text))],
    };
    let refs: Vec<&str> = toks.iter().map(|s| s.as_str()).collect();
    let out = seq_impl(true, &refs, false).ok_or("bad-case".to_string())?;
    if out.starts_with("PANIC") {
        return Err(out);
    }
    let events: Value = serde_json::from_str(&out).map_err(|e| e.to_string())?;
    let mut last: Option<Value> = None;
    for e in events.as_array().cloned().unwrap_or_default() {
        if let Some(d) = e.get("d") {
            last = Some(d[1].clone());
        }
    }
    let mut v = vec![];
    for d in last.and_then(|l| l.as_array().cloned()).unwrap_or_default() {
        let r = &d["range"];
        v.push((r["start"]["line"].as_u64().unwrap_or(0), r["start"]["character"].as_u64().unwrap_or(0),
                r["end"]["line"].as_u64().unwrap_or(0), r["end"]["character"].as_u64().unwrap_or(0)));
    }
    Ok(v)
}

pub fn run(op: &str, args: &[&str]) -> Option<String> {
    match op {
        "PUB" | "JUDGEPUB" => {
            let text = if args.first()? == &"-" { String::new() } else { unhex_str(args.first()?)? };
            // optional history: PUB <text> <previous text> <X|C>
            let prev_text = match args.get(1) {
                Some(&"-") => Some(String::new()),
                Some(h) => Some(unhex_str(h)?),
                None => None,
            };
            let reopen = args.get(2).map_or(true, |m| *m == "X");
            Some(match published_ranges_after(&text, prev_text.as_deref().map(|p| (p, reopen))) {
                Ok(v) => v.iter().map(|(a, b, c, d)| format!("{}:{}-{}:{};", a, b, c, d)).collect::<String>(),
                Err(e) => e,
            })
        }
        "SEQ" => {
            let diag = *args.first()? == "1";
            seq(diag, &args[1..])
        }
        "SPECDOCTEXT" => {
            let diag = *args.first()? == "1";
            seq_probes(diag, &args[1..])
        }
        _ => None,
    }
}
