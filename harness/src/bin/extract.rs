//! Translator: re-reads /repo's sources (syn) and regenerates the declarative tables of the
//! Lean model (`SplVerif/Gen/*.lean`).  A shape that is not recognised is an error
//! (`translation-failed:<table>`), never a silent default.
use std::collections::BTreeMap;
use std::fmt::Write as _;
use std::fs;
use syn::{Expr, ImplItem, Item, Pat};

type R<T> = Result<T, String>;

fn parse_file(path: &str) -> R<syn::File> {
    let src = fs::read_to_string(path).map_err(|e| format!("{}: {}", path, e))?;
    syn::parse_file(&src).map_err(|e| format!("{}: {}", path, e))
}

fn lean_chars(s: &str) -> String {
    let items: Vec<String> = s
        .chars()
        .map(|c| match c {
            '\'' => "'\\''".to_string(),
            '\\' => "'\\\\'".to_string(),
            '\n' => "'\\n'".to_string(),
            c => format!("'{}'", c),
        })
        .collect();
    format!("[{}]", items.join(", "))
}

/// Names of the variants matched by a pattern (`A | B(_) | C { .. }`).
fn pat_variants(p: &Pat, out: &mut Vec<String>) -> R<()> {
    match p {
        Pat::Or(o) => {
            for c in &o.cases {
                pat_variants(c, out)?;
            }
            Ok(())
        }
        Pat::Ident(i) => {
            out.push(i.ident.to_string());
            Ok(())
        }
        Pat::Path(p) => {
            out.push(p.path.segments.last().unwrap().ident.to_string());
            Ok(())
        }
        Pat::TupleStruct(t) => {
            out.push(t.path.segments.last().unwrap().ident.to_string());
            Ok(())
        }
        Pat::Struct(t) => {
            out.push(t.path.segments.last().unwrap().ident.to_string());
            Ok(())
        }
        Pat::Paren(p) => pat_variants(&p.pat, out),
        _ => Err("unrecognised pattern".to_string()),
    }
}

fn find_fn_in_impl<'a>(file: &'a syn::File, self_ty: &str, trait_name: Option<&str>, fn_name: &str) -> Option<&'a syn::ImplItemFn> {
    for item in &file.items {
        if let Item::Impl(imp) = item {
            let ty_ok = match &*imp.self_ty {
                syn::Type::Path(p) => p.path.segments.last().map(|s| s.ident == self_ty).unwrap_or(false),
                _ => false,
            };
            let tr_ok = match (trait_name, &imp.trait_) {
                (None, None) => true,
                (Some(t), Some((_, path, _))) => path.segments.last().map(|s| s.ident == t).unwrap_or(false),
                (None, Some(_)) => false,
                (Some(_), None) => false,
            };
            if ty_ok && tr_ok {
                for it in &imp.items {
                    if let ImplItem::Fn(f) = it {
                        if f.sig.ident == fn_name {
                            return Some(f);
                        }
                    }
                }
            }
        }
    }
    None
}

fn first_match(block: &syn::Block) -> Option<&syn::ExprMatch> {
    for st in &block.stmts {
        match st {
            syn::Stmt::Expr(Expr::Match(m), _) => return Some(m),
            syn::Stmt::Local(l) => {
                if let Some(init) = &l.init {
                    if let Expr::Match(m) = &*init.expr {
                        return Some(m);
                    }
                }
            }
            _ => {}
        }
    }
    None
}

fn lit_int(e: &Expr) -> Option<u64> {
    match e {
        Expr::Lit(l) => match &l.lit {
            syn::Lit::Int(i) => i.base10_parse().ok(),
            _ => None,
        },
        Expr::Block(b) => {
            // `{ 1 // comment }`
            if b.block.stmts.len() == 1 {
                if let syn::Stmt::Expr(e, None) = &b.block.stmts[0] {
                    return lit_int(e);
                }
            }
            None
        }
        _ => None,
    }
}

const KINDS: &[&str] = &[
    "LParen", "RParen", "LBracket", "RBracket", "LCurly", "RCurly", "Eq", "Neq", "Lt", "Le", "Gt", "Ge",
    "Assign", "Colon", "Comma", "Semic", "Plus", "Minus", "Times", "Divide", "If", "Else", "While", "Array",
    "Of", "Proc", "Ref", "Type", "Var", "Ident", "Char", "Int", "Hex", "Comment", "Unknown", "Eof",
];

fn lex_tables(repo: &str) -> R<String> {
    let tokens = parse_file(&format!("{}/spl_frontend/src/tokens.rs", repo))?;
    let lexer = parse_file(&format!("{}/spl_frontend/src/lexer.rs", repo))?;
    // consts
    let mut consts: BTreeMap<String, String> = BTreeMap::new();
    for item in &tokens.items {
        if let Item::Const(c) = item {
            if let Expr::Lit(l) = &*c.expr {
                if let syn::Lit::Str(s) = &l.lit {
                    consts.insert(c.ident.to_string(), s.value());
                }
            }
        }
    }
    // as_static_str
    let f = find_fn_in_impl(&tokens, "TokenType", None, "as_static_str").ok_or("as_static_str not found")?;
    let m = first_match(&f.block).ok_or("as_static_str: no match")?;
    let mut spelling: Vec<(String, String)> = Vec::new();
    for arm in &m.arms {
        let mut vs = Vec::new();
        if let Pat::Wild(_) = arm.pat {
            continue;
        }
        pat_variants(&arm.pat, &mut vs)?;
        // Some(CONST) | Some("")
        let val = match &*arm.body {
            Expr::Call(c) => {
                let arg = c.args.first().ok_or("as_static_str: Some() without arg")?;
                match arg {
                    Expr::Path(p) => {
                        let name = p.path.segments.last().unwrap().ident.to_string();
                        consts.get(&name).cloned().ok_or(format!("unknown const {}", name))?
                    }
                    Expr::Lit(l) => match &l.lit {
                        syn::Lit::Str(s) => s.value(),
                        _ => return Err("as_static_str: literal".into()),
                    },
                    _ => return Err("as_static_str: arm body".into()),
                }
            }
            _ => return Err("as_static_str: arm body shape".into()),
        };
        for v in vs {
            spelling.push((v, val.clone()));
        }
    }
    // look_ahead
    let f = find_fn_in_impl(&tokens, "TokenType", None, "look_ahead").ok_or("look_ahead not found")?;
    let m = first_match(&f.block).ok_or("look_ahead: no match")?;
    let mut la: BTreeMap<String, u64> = BTreeMap::new();
    for arm in &m.arms {
        let mut vs = Vec::new();
        pat_variants(&arm.pat, &mut vs)?;
        let n = lit_int(&arm.body).ok_or("look_ahead: arm value is not an integer literal")?;
        for v in vs {
            la.insert(v, n);
        }
    }
    for k in KINDS {
        if !la.contains_key(*k) {
            return Err(format!("look_ahead: no arm for {}", k));
        }
    }
    // alt order
    let f = find_fn_in_impl(&lexer, "Token", Some("Lexer"), "lex").ok_or("Token::lex not found")?;
    let mut order: Vec<String> = Vec::new();
    fn walk(e: &Expr, order: &mut Vec<String>) -> R<()> {
        match e {
            Expr::Call(c) => {
                // alt((...))(input)  or alt((...))
                if let Expr::Call(inner) = &*c.func {
                    return walk(&Expr::Call(inner.clone()), order);
                }
                if let Expr::Path(p) = &*c.func {
                    if p.path.segments.last().unwrap().ident == "alt" {
                        if let Some(Expr::Tuple(t)) = c.args.first() {
                            for el in &t.elems {
                                walk(el, order)?;
                            }
                            return Ok(());
                        }
                    }
                }
                Err("Token::lex: unrecognised call".into())
            }
            Expr::Path(p) => {
                let segs: Vec<String> = p.path.segments.iter().map(|s| s.ident.to_string()).collect();
                if segs.len() == 2 && segs[1] == "lex" {
                    let item = match segs[0].as_str() {
                        "Comment" => ".comment",
                        "Char" => ".char",
                        "Hex" => ".hex",
                        "Int" => ".int",
                        "Ident" => ".ident",
                        "Unknown" => ".unknown",
                        other => return Err(format!("Token::lex: unknown lexer {}", other)),
                    };
                    order.push(item.to_string());
                    Ok(())
                } else {
                    Err("Token::lex: unrecognised path".into())
                }
            }
            Expr::Macro(m) => {
                let name = m.mac.path.segments.last().unwrap().ident.to_string();
                let arg: syn::Path = m.mac.parse_body().map_err(|e| e.to_string())?;
                let v = arg.segments.last().unwrap().ident.to_string();
                match name.as_str() {
                    "lex_symbol" => order.push(format!(".symbol .{}", v)),
                    "lex_keyword" => order.push(format!(".keyword .{}", v)),
                    other => return Err(format!("Token::lex: unknown macro {}", other)),
                }
                Ok(())
            }
            _ => Err("Token::lex: unrecognised expression".into()),
        }
    }
    let last = f.block.stmts.last().ok_or("Token::lex: empty")?;
    match last {
        syn::Stmt::Expr(e, _) => walk(e, &mut order)?,
        _ => return Err("Token::lex: body shape".into()),
    }

    let mut out = String::new();
    out.push_str("-- GENERATED by /verif/harness `extract` from /repo/spl_frontend/src/{tokens,lexer}.rs — do not edit.\n");
    out.push_str("import SplVerif.Model.Basic\nnamespace Spl.Gen\n\n");
    out.push_str("def spelling : Kind → Option (List Char)\n");
    for (v, s) in &spelling {
        writeln!(out, "  | .{} => some {}", v, lean_chars(s)).unwrap();
    }
    out.push_str("  | _ => none\n\n");
    out.push_str("def altOrder : List AltItem := [\n");
    out.push_str(&order.iter().map(|s| format!("  {}", s)).collect::<Vec<_>>().join(",\n"));
    out.push_str("]\n\n");
    out.push_str("def lookAhead : Kind → Nat\n");
    for k in KINDS {
        writeln!(out, "  | .{} => {}", k, la[*k]).unwrap();
    }
    out.push_str("\nend Spl.Gen\n");
    Ok(out)
}


// ---------------------------------------------------------------------------------------
// RPC / codec / channel tables (server.rs, error.rs, io.rs, lsp-types METHOD constants)
// ---------------------------------------------------------------------------------------

fn lsp_methods(repo: &str) -> R<BTreeMap<String, String>> {
    // version of lsp-types from the lock file, sources from the cargo registry
    let lock = fs::read_to_string(format!("{}/Cargo.lock", repo)).map_err(|e| e.to_string())?;
    let mut version = None;
    let mut lines = lock.lines();
    while let Some(l) = lines.next() {
        if l.trim() == "name = \"lsp-types\"" {
            if let Some(v) = lines.next() {
                version = v.trim().strip_prefix("version = \"").and_then(|x| x.strip_suffix('"')).map(|x| x.to_string());
            }
        }
    }
    let version = version.ok_or("lsp-types not in Cargo.lock")?;
    let home = std::env::var("CARGO_HOME").unwrap_or_else(|_| format!("{}/.cargo", std::env::var("HOME").unwrap_or_default()));
    let mut out = BTreeMap::new();
    let reg = format!("{}/registry/src", home);
    for idx in fs::read_dir(&reg).map_err(|e| format!("{}: {}", reg, e))? {
        let dir = idx.map_err(|e| e.to_string())?.path().join(format!("lsp-types-{}/src", version));
        for f in ["request.rs", "notification.rs"] {
            let path = dir.join(f);
            if !path.exists() {
                continue;
            }
            let file = parse_file(path.to_str().unwrap())?;
            for item in &file.items {
                if let Item::Impl(imp) = item {
                    let ty = match &*imp.self_ty {
                        syn::Type::Path(p) => p.path.segments.last().unwrap().ident.to_string(),
                        _ => continue,
                    };
                    for it in &imp.items {
                        if let ImplItem::Const(c) = it {
                            if c.ident == "METHOD" {
                                if let Expr::Lit(l) = &c.expr {
                                    if let syn::Lit::Str(s) = &l.lit {
                                        out.insert(ty.clone(), s.value());
                                    }
                                }
                            }
                        }
                    }
                }
            }
        }
    }
    if out.is_empty() {
        return Err("no METHOD constants found in lsp-types".into());
    }
    Ok(out)
}

struct Collect {
    error_codes: Vec<String>,
    method_matches: Vec<syn::ExprMatch>,
    channel_caps: Vec<u64>,
}

impl<'ast> syn::visit::Visit<'ast> for Collect {
    fn visit_expr_path(&mut self, p: &'ast syn::ExprPath) {
        let segs: Vec<String> = p.path.segments.iter().map(|s| s.ident.to_string()).collect();
        if segs.len() == 2 && segs[0] == "ErrorCode" {
            self.error_codes.push(segs[1].clone());
        }
        syn::visit::visit_expr_path(self, p);
    }
    fn visit_expr_match(&mut self, m: &'ast syn::ExprMatch) {
        let scrut = quote::ToTokens::to_token_stream(&*m.expr).to_string().replace(' ', "");
        if scrut.ends_with(".method.as_str()") {
            self.method_matches.push(m.clone());
        }
        syn::visit::visit_expr_match(self, m);
    }
    fn visit_expr_call(&mut self, c: &'ast syn::ExprCall) {
        let f = quote::ToTokens::to_token_stream(&*c.func).to_string().replace(' ', "");
        if f == "mpsc::channel" {
            if let Some(n) = c.args.first().and_then(lit_int) {
                self.channel_caps.push(n);
            }
        }
        syn::visit::visit_expr_call(self, c);
    }
}

fn collect_fn(f: &syn::ItemFn) -> Collect {
    let mut c = Collect { error_codes: vec![], method_matches: vec![], channel_caps: vec![] };
    syn::visit::Visit::visit_item_fn(&mut c, f);
    c
}

fn find_mod<'a>(file: &'a syn::File, name: &str) -> Option<&'a Vec<Item>> {
    for item in &file.items {
        if let Item::Mod(m) = item {
            if m.ident == name {
                return m.content.as_ref().map(|c| &c.1);
            }
        }
    }
    None
}

fn find_fn<'a>(items: &'a [Item], name: &str) -> Option<&'a syn::ItemFn> {
    items.iter().find_map(|i| match i {
        Item::Fn(f) if f.sig.ident == name => Some(f),
        _ => None,
    })
}

fn lean_str(s: &str) -> String {
    format!("{:?}", s)
}

/// Method string of a match-arm pattern: `X::METHOD` or a string literal; None for a binding.
fn arm_method(p: &Pat, methods: &BTreeMap<String, String>) -> R<Option<String>> {
    match p {
        Pat::Path(pp) => {
            let segs: Vec<String> = pp.path.segments.iter().map(|s| s.ident.to_string()).collect();
            if segs.len() == 2 && segs[1] == "METHOD" {
                methods.get(&segs[0]).cloned().map(Some).ok_or(format!("unknown lsp-types method type {}", segs[0]))
            } else {
                Err("method arm: unrecognised path".into())
            }
        }
        Pat::Lit(l) => match &l.lit {
            syn::Lit::Str(s) => Ok(Some(s.value())),
            _ => Err("method arm: literal".into()),
        },
        Pat::Ident(_) | Pat::Wild(_) => Ok(None),
        _ => Err("method arm: unrecognised pattern".into()),
    }
}

fn macros_in(e: &Expr) -> Vec<(String, Vec<String>)> {
    struct M(Vec<(String, Vec<String>)>);
    impl<'ast> syn::visit::Visit<'ast> for M {
        fn visit_macro(&mut self, m: &'ast syn::Macro) {
            let name = m.path.segments.last().unwrap().ident.to_string();
            let args: Vec<String> = m
                .parse_body_with(syn::punctuated::Punctuated::<Expr, syn::Token![,]>::parse_terminated)
                .map(|p| p.iter().map(|e| quote::ToTokens::to_token_stream(e).to_string().replace(' ', "")).collect())
                .unwrap_or_default();
            self.0.push((name, args));
        }
    }
    let mut m = M(vec![]);
    syn::visit::Visit::visit_expr(&mut m, e);
    m.0
}

fn rpc_tables(repo: &str) -> R<String> {
    let methods = lsp_methods(repo)?;
    let server = parse_file(&format!("{}/lsp4spl/src/server.rs", repo))?;
    let error = parse_file(&format!("{}/lsp4spl/src/error.rs", repo))?;
    let io = fs::read_to_string(format!("{}/lsp4spl/src/io.rs", repo)).map_err(|e| e.to_string())?;
    // error codes
    let mut codes: Vec<(String, i64)> = vec![];
    for item in &error.items {
        if let Item::Enum(e) = item {
            if e.ident == "ErrorCode" {
                for v in &e.variants {
                    let d = v.discriminant.as_ref().ok_or("ErrorCode variant without discriminant")?;
                    let txt = quote::ToTokens::to_token_stream(&d.1).to_string().replace(' ', "");
                    let n: i64 = txt.parse().map_err(|_| format!("ErrorCode discriminant {}", txt))?;
                    codes.push((v.ident.to_string(), n));
                }
            }
        }
    }
    if codes.is_empty() {
        return Err("ErrorCode enum not found".into());
    }
    let phases = find_mod(&server, "phases").ok_or("mod phases not found")?;
    let f_init = find_fn(phases, "initialization").ok_or("fn initialization")?;
    let f_main = find_fn(phases, "main").ok_or("fn main (phases)")?;
    let f_shut = find_fn(phases, "shutdown").ok_or("fn shutdown")?;
    let c_init = collect_fn(f_init);
    let c_main = collect_fn(f_main);
    let c_shut = collect_fn(f_shut);
    if c_init.error_codes.len() != 3 {
        return Err(format!("initialization: expected 3 ErrorCode uses, found {:?}", c_init.error_codes));
    }
    if c_shut.error_codes.len() != 1 {
        return Err(format!("shutdown: expected 1 ErrorCode use, found {:?}", c_shut.error_codes));
    }
    if c_main.method_matches.len() != 2 {
        return Err(format!("main: expected 2 method matches, found {}", c_main.method_matches.len()));
    }
    // main: request arms
    let mut req_arms: Vec<(String, String)> = vec![];
    let mut req_default: Option<String> = None;
    for arm in &c_main.method_matches[0].arms {
        let is_cfg_verif = arm.attrs.iter().any(|a| quote::ToTokens::to_token_stream(a).to_string().contains("verif"));
        let body_txt = quote::ToTokens::to_token_stream(&*arm.body).to_string();
        let macs = macros_in(&arm.body);
        let mut sub = Collect { error_codes: vec![], method_matches: vec![], channel_caps: vec![] };
        syn::visit::Visit::visit_expr(&mut sub, &arm.body);
        let action = if let Some(code) = sub.error_codes.first() {
            format!(".error .{}", code)
        } else if let Some((_, args)) = macs.iter().find(|(n, _)| n == "respond") {
            let path = args.get(1).ok_or("respond! without handler")?;
            format!(".feature {}", lean_str(path))
        } else if body_txt.contains("return Ok") {
            ".shutdown".to_string()
        } else {
            return Err("main request arm: unrecognised action".into());
        };
        match arm_method(&arm.pat, &methods)? {
            Some(m) => {
                if !is_cfg_verif {
                    req_arms.push((m, action))
                }
            }
            None => req_default = Some(action),
        }
    }
    let req_default = req_default.ok_or("main request match has no default arm")?;
    // main: notification arms
    let mut note_arms: Vec<(String, String)> = vec![];
    for arm in &c_main.method_matches[1].arms {
        let body_txt = quote::ToTokens::to_token_stream(&*arm.body).to_string();
        let macs = macros_in(&arm.body);
        let action = if let Some((_, args)) = macs.iter().find(|(n, _)| n == "note") {
            let path = args.get(1).ok_or("note! without handler")?;
            format!(".doc {}", lean_str(path))
        } else if body_txt.contains("Exit") || body_txt.contains("exit") {
            ".exit".to_string()
        } else if body_txt.replace(' ', "") == "{}" {
            ".drop".to_string()
        } else {
            return Err(format!("main notification arm: unrecognised action {}", body_txt));
        };
        match arm_method(&arm.pat, &methods)? {
            Some(m) => note_arms.push((m, action)),
            None => {
                if action != ".drop" {
                    return Err("main notification default arm is not a drop".into());
                }
            }
        }
    }
    // run(): channel capacities
    let mut caps = vec![];
    for item in &server.items {
        if let Item::Impl(imp) = item {
            for it in &imp.items {
                if let ImplItem::Fn(f) = it {
                    if f.sig.ident == "run" {
                        let mut c = Collect { error_codes: vec![], method_matches: vec![], channel_caps: vec![] };
                        syn::visit::Visit::visit_impl_item_fn(&mut c, f);
                        caps = c.channel_caps;
                    }
                }
            }
        }
    }
    if caps.len() != 2 {
        return Err(format!("run(): expected 2 mpsc::channel(N), found {:?}", caps));
    }
    // codec constants (textual, io.rs)
    let min_len = io
        .split("src.len() <")
        .nth(1)
        .and_then(|r| r.trim_start().split(|c: char| !c.is_ascii_digit()).next())
        .and_then(|d| d.parse::<u64>().ok())
        .ok_or("io.rs: minimum length guard not found")?;
    let header_name = io
        .split("header.name ==")
        .nth(1)
        .and_then(|r| r.split('"').nth(1))
        .ok_or("io.rs: header name comparison not found")?
        .to_string();
    let header_slots = io
        .split("httparse::EMPTY_HEADER;")
        .nth(1)
        .and_then(|r| r.trim_start().split(|c: char| !c.is_ascii_digit()).next())
        .and_then(|d| d.parse::<u64>().ok())
        .ok_or("io.rs: header array size not found")?;
    let enc_fmt = io
        .split("let encoded = format!(")
        .nth(1)
        .and_then(|r| r.split('"').nth(1))
        .ok_or("io.rs: encode format string not found")?
        .to_string();

    let mut out = String::new();
    out.push_str("-- GENERATED by /verif/harness `extract` from /repo/lsp4spl/src/{server,error,io}.rs — do not edit.\n");
    out.push_str("import SplVerif.Model.RpcTypes\nnamespace Spl.Gen\n\n");
    out.push_str("def errorCode : ErrCode → Int\n");
    for (n, v) in &codes {
        writeln!(out, "  | .{} => {}", n, if *v < 0 { format!("({})", v) } else { v.to_string() }).unwrap();
    }
    writeln!(out, "\n/-- first loop of `initialization`: request other than `initialize` -/\ndef preInitOther : ErrCode := .{}", c_init.error_codes[0]).unwrap();
    writeln!(out, "/-- second loop of `initialization`: repeated `initialize` / any other request -/\ndef handshakeInitialize : ErrCode := .{}", c_init.error_codes[1]).unwrap();
    writeln!(out, "def handshakeOther : ErrCode := .{}", c_init.error_codes[2]).unwrap();
    writeln!(out, "/-- `shutdown` phase: every request -/\ndef shutdownRequest : ErrCode := .{}\n", c_shut.error_codes[0]).unwrap();
    out.push_str("def mainRequests : List (String × ReqAction) := [\n");
    out.push_str(&req_arms.iter().map(|(m, a)| format!("  ({}, {})", lean_str(m), a)).collect::<Vec<_>>().join(",\n"));
    out.push_str("]\n\n");
    writeln!(out, "def mainRequestDefault : ReqAction := {}\n", req_default).unwrap();
    out.push_str("def mainNotifications : List (String × NoteAction) := [\n");
    out.push_str(&note_arms.iter().map(|(m, a)| format!("  ({}, {})", lean_str(m), a)).collect::<Vec<_>>().join(",\n"));
    out.push_str("]\n\n");
    writeln!(out, "def initializeMethod : String := {}", lean_str(methods.get("Initialize").ok_or("Initialize")?)).unwrap();
    writeln!(out, "def initializedMethod : String := {}", lean_str(methods.get("Initialized").ok_or("Initialized")?)).unwrap();
    writeln!(out, "def exitMethod : String := {}\n", lean_str(methods.get("Exit").ok_or("Exit")?)).unwrap();
    writeln!(out, "def ioChanCap : Nat := {}\ndef docChanCap : Nat := {}\n", caps[0], caps[1]).unwrap();
    writeln!(out, "def codecMinLen : Nat := {}\ndef headerName : String := {}\ndef headerSlots : Nat := {}\ndef encodeFormat : String := {}", min_len, lean_str(&header_name), header_slots, format!("\"{}\"", enc_fmt)).unwrap();
    out.push_str("\nend Spl.Gen\n");
    Ok(out)
}

// ---------------------------------------------------------------------------------------
// Parser tables (parser.rs): tag_parser! instances and look_ahead_parser! sets
// ---------------------------------------------------------------------------------------

fn rust_ident(s: &str) -> String {
    s.trim_start_matches("r#").to_string()
}

fn parser_tables(repo: &str) -> R<String> {
    let parser = parse_file(&format!("{}/spl_frontend/src/parser.rs", repo))?;
    // tag parsers: module -> [(fn name, TokenType variant)]
    let mut tags: BTreeMap<String, String> = BTreeMap::new(); // fn name -> variant
    let mut tag_list: Vec<(String, String, String)> = vec![];
    for m in ["literals", "keywords", "symbols", "markers"] {
        let items = find_mod(&parser, m).ok_or(format!("mod {} not found", m))?;
        for it in items {
            if let Item::Macro(mac) = it {
                if mac.mac.path.segments.last().unwrap().ident == "tag_parser" {
                    let toks = mac.mac.tokens.to_string();
                    // `name , TokenType :: Variant` or `name , TokenType :: Variant (_)`
                    let (name, pat) = toks.split_once(',').ok_or("tag_parser! shape")?;
                    let name = rust_ident(name.trim().replace(' ', "").as_str());
                    let variant = pat
                        .replace(' ', "")
                        .strip_prefix("TokenType::")
                        .ok_or("tag_parser! pattern is not a TokenType variant")?
                        .split('(')
                        .next()
                        .unwrap()
                        .to_string();
                    if !KINDS.contains(&variant.as_str()) {
                        return Err(format!("tag_parser!: unknown TokenType::{}", variant));
                    }
                    tags.insert(name.clone(), variant.clone());
                    tag_list.push((m.to_string(), name, variant));
                }
            }
        }
    }
    // look-ahead sets
    let la_items = find_mod(&parser, "look_ahead").ok_or("mod look_ahead not found")?;
    let mut sets: Vec<(String, Vec<String>)> = vec![];
    let set_names = ["global_dec", "stmt", "var_dec", "param_dec", "arg"];
    fn la_item(e: &Expr, tags: &BTreeMap<String, String>, set_names: &[&str]) -> R<String> {
        match e {
            Expr::Path(p) => {
                let last = rust_ident(&p.path.segments.last().unwrap().ident.to_string());
                if p.path.segments.len() == 1 && set_names.contains(&last.as_str()) {
                    Ok(format!(".sub .{}", last))
                } else if let Some(v) = tags.get(&last) {
                    Ok(format!(".tok .{}", v))
                } else {
                    Err(format!("look_ahead: unknown parser {}", last))
                }
            }
            Expr::Call(c) => {
                // pair(|input| Identifier::parse(None, input), alt((a, b, ...)))
                let f = quote::ToTokens::to_token_stream(&*c.func).to_string();
                if f != "pair" || c.args.len() != 2 {
                    return Err(format!("look_ahead: unrecognised call {}", f));
                }
                let first = quote::ToTokens::to_token_stream(&c.args[0]).to_string().replace(' ', "");
                if !first.contains("Identifier::parse(None,input)") {
                    return Err("look_ahead: pair() does not start with Identifier::parse".into());
                }
                let mut ks = vec![];
                if let Expr::Call(a) = &c.args[1] {
                    if let Some(Expr::Tuple(t)) = a.args.first() {
                        for el in &t.elems {
                            if let Expr::Path(p) = el {
                                let last = rust_ident(&p.path.segments.last().unwrap().ident.to_string());
                                ks.push(format!(".{}", tags.get(&last).ok_or(format!("look_ahead: unknown parser {}", last))?));
                            } else {
                                return Err("look_ahead: alt element".into());
                            }
                        }
                    }
                }
                if ks.is_empty() {
                    return Err("look_ahead: pair() second component".into());
                }
                Ok(format!(".identThen [{}]", ks.join(", ")))
            }
            _ => Err("look_ahead: unrecognised item".into()),
        }
    }
    for it in la_items {
        if let Item::Macro(mac) = it {
            if mac.mac.path.segments.last().unwrap().ident == "look_ahead_parser" {
                let args = mac
                    .mac
                    .parse_body_with(syn::punctuated::Punctuated::<Expr, syn::Token![,]>::parse_terminated)
                    .map_err(|e| format!("look_ahead_parser!: {}", e))?;
                let mut it = args.iter();
                let name = match it.next() {
                    Some(Expr::Path(p)) => p.path.segments.last().unwrap().ident.to_string(),
                    _ => return Err("look_ahead_parser!: name".into()),
                };
                if !set_names.contains(&name.as_str()) {
                    return Err(format!("look_ahead_parser!: unknown set {}", name));
                }
                let mut items = vec![];
                for e in it {
                    items.push(la_item(e, &tags, &set_names)?);
                }
                sets.push((name, items));
            }
        }
    }
    if sets.len() != set_names.len() {
        return Err(format!("expected {} look-ahead sets, found {}", set_names.len(), sets.len()));
    }
    let mut out = String::new();
    out.push_str("-- GENERATED by /verif/harness `extract` from /repo/spl_frontend/src/parser.rs — do not edit.\n");
    out.push_str("import SplVerif.Model.ParserTypes\nnamespace Spl.Gen\n\n");
    out.push_str("/-- every `tag_parser!(name, TokenType::X)` instance: (module, name, X) -/\n");
    out.push_str("def tagParsers : List (String × String × Kind) := [\n");
    out.push_str(&tag_list.iter().map(|(m, n, v)| format!("  ({}, {}, .{})", lean_str(m), lean_str(n), v)).collect::<Vec<_>>().join(",\n"));
    out.push_str("]\n\n");
    out.push_str("def lookAheadSet : LAName → List LAItem\n");
    for (n, items) in &sets {
        writeln!(out, "  | .{} => [{}]", n, items.join(", ")).unwrap();
    }
    out.push_str("\nend Spl.Gen\n");
    Ok(out)
}

// ---------------------------------------------------------------------------------------
// Builtin table (table/initialization.rs)
// ---------------------------------------------------------------------------------------

fn expr_str_const(e: &Expr, consts: &BTreeMap<String, String>) -> Option<String> {
    // `NAME.to_string()` | `"lit".to_string()` | `"lit"`
    match e {
        Expr::MethodCall(m) if m.method == "to_string" => expr_str_const(&m.receiver, consts),
        Expr::Path(p) => consts.get(&p.path.segments.last()?.ident.to_string()).cloned(),
        Expr::Lit(l) => match &l.lit {
            syn::Lit::Str(s) => Some(s.value()),
            _ => None,
        },
        _ => None,
    }
}

fn builtin_tables(repo: &str) -> R<String> {
    let file = parse_file(&format!("{}/spl_frontend/src/table/initialization.rs", repo))?;
    let mut consts: BTreeMap<String, String> = BTreeMap::new();
    let mut defaults: Vec<String> = vec![];
    for item in &file.items {
        if let Item::Const(c) = item {
            if let Expr::Lit(l) = &*c.expr {
                if let syn::Lit::Str(s) = &l.lit {
                    consts.insert(c.ident.to_string(), s.value());
                }
            }
        }
    }
    for item in &file.items {
        if let Item::Const(c) = item {
            if c.ident == "DEFAULT_ENTRIES" {
                if let Expr::Array(a) = &*c.expr {
                    for e in &a.elems {
                        defaults.push(expr_str_const(e, &consts).ok_or("DEFAULT_ENTRIES element")?);
                    }
                }
            }
        }
    }
    if defaults.is_empty() {
        return Err("DEFAULT_ENTRIES not found".into());
    }
    let f = find_fn_in_impl(&file, "GlobalTable", None, "initialized").ok_or("GlobalTable::initialized not found")?;
    // find `HashMap::from([ ... ])`
    struct FindArr(Option<syn::ExprArray>);
    impl<'ast> syn::visit::Visit<'ast> for FindArr {
        fn visit_expr_call(&mut self, c: &'ast syn::ExprCall) {
            let f = quote::ToTokens::to_token_stream(&*c.func).to_string().replace(' ', "");
            if f == "HashMap::from" {
                if let Some(Expr::Array(a)) = c.args.first() {
                    self.0 = Some(a.clone());
                    return;
                }
            }
            syn::visit::visit_expr_call(self, c);
        }
    }
    let mut fa = FindArr(None);
    syn::visit::Visit::visit_impl_item_fn(&mut fa, f);
    let arr = fa.0.ok_or("HashMap::from([...]) not found")?;
    let mut procs: Vec<(String, String, Vec<(String, bool)>)> = vec![];
    let mut has_int = false;
    for el in &arr.elems {
        let t = match el {
            Expr::Tuple(t) if t.elems.len() == 2 => t,
            _ => return Err("builtin entry is not a pair".into()),
        };
        let key = expr_str_const(&t.elems[0], &consts).ok_or("builtin key")?;
        match &t.elems[1] {
            Expr::Call(c) => {
                let fname = quote::ToTokens::to_token_stream(&*c.func).to_string().replace(' ', "");
                if fname == "procedure_entry" {
                    if c.args.len() != 3 {
                        return Err("procedure_entry arity".into());
                    }
                    // Identifier::new(NAME.to_string(), 0..0)
                    let name = match &c.args[0] {
                        Expr::Call(ic) => expr_str_const(ic.args.first().ok_or("Identifier::new")?, &consts).ok_or("builtin name")?,
                        _ => return Err("builtin name shape".into()),
                    };
                    if name != key {
                        return Err(format!("builtin {}: key and name differ", key));
                    }
                    let docs = expr_str_const(&c.args[1], &consts).ok_or("builtin doc")?;
                    let mut params = vec![];
                    match &c.args[2] {
                        Expr::Macro(m) => {
                            let elems = m
                                .mac
                                .parse_body_with(syn::punctuated::Punctuated::<Expr, syn::Token![,]>::parse_terminated)
                                .map_err(|e| format!("vec!: {}", e))?;
                            for pe in elems.iter() {
                                if let Expr::Struct(st) = pe {
                                    let mut pname = None;
                                    let mut is_ref = None;
                                    let mut is_int = false;
                                    for fld in &st.fields {
                                        let fname = quote::ToTokens::to_token_stream(&fld.member).to_string();
                                        match fname.as_str() {
                                            "name" => {
                                                if let Expr::Call(ic) = &fld.expr {
                                                    pname = expr_str_const(ic.args.first().ok_or("param name")?, &consts);
                                                }
                                            }
                                            "is_ref" => {
                                                if let Expr::Lit(l) = &fld.expr {
                                                    if let syn::Lit::Bool(b) = &l.lit {
                                                        is_ref = Some(b.value);
                                                    }
                                                }
                                            }
                                            "data_type" => {
                                                is_int = quote::ToTokens::to_token_stream(&fld.expr).to_string().replace(' ', "") == "Some(DataType::Int)";
                                            }
                                            _ => {}
                                        }
                                    }
                                    if !is_int {
                                        return Err(format!("builtin {}: parameter type is not int", key));
                                    }
                                    params.push((pname.ok_or("param name")?, is_ref.ok_or("param is_ref")?));
                                } else {
                                    return Err("builtin parameter shape".into());
                                }
                            }
                        }
                        _ => return Err("builtin parameters shape".into()),
                    }
                    procs.push((key, docs, params));
                } else if fname == "GlobalEntry::Type" {
                    if key != "int" {
                        return Err(format!("unexpected builtin type {}", key));
                    }
                    has_int = true;
                } else {
                    return Err(format!("builtin entry constructor {}", fname));
                }
            }
            _ => return Err("builtin entry value shape".into()),
        }
    }
    if !has_int {
        return Err("builtin type int not found".into());
    }
    let mut out = String::new();
    out.push_str("-- GENERATED by /verif/harness `extract` from /repo/spl_frontend/src/table/initialization.rs — do not edit.\n");
    out.push_str("namespace Spl.Gen\n\n");
    out.push_str("def defaultEntries : List String := [");
    out.push_str(&defaults.iter().map(|d| lean_str(d)).collect::<Vec<_>>().join(", "));
    out.push_str("]\n\n/-- predefined procedures: (name, documentation, parameters as (name, is_ref)); all parameters are `int` -/\n");
    out.push_str("def builtinProcs : List (String × String × List (String × Bool)) := [\n");
    out.push_str(
        &procs
            .iter()
            .map(|(n, d, ps)| {
                format!(
                    "  ({}, {}, [{}])",
                    lean_str(n),
                    lean_str(d),
                    ps.iter().map(|(pn, r)| format!("({}, {})", lean_str(pn), r)).collect::<Vec<_>>().join(", ")
                )
            })
            .collect::<Vec<_>>()
            .join(",\n"),
    );
    out.push_str("]\n\nend Spl.Gen\n");
    Ok(out)
}

fn write_if_changed(path: &str, content: &str) {
    if fs::read_to_string(path).map(|old| old == content).unwrap_or(false) {
        return;
    }
    fs::write(path, content).expect("write generated file");
}

fn main() {
    let args: Vec<String> = std::env::args().collect();
    let repo = args.get(1).map(|s| s.as_str()).unwrap_or("/repo");
    let out_dir = args.get(2).map(|s| s.as_str()).unwrap_or("/verif/lean/SplVerif/Gen");
    let mut failed = false;
    let tables: Vec<(&str, fn(&str) -> R<String>)> = vec![("LexTables", lex_tables), ("RpcTables", rpc_tables), ("ParserTables", parser_tables), ("Builtins", builtin_tables)];
    for (name, f) in tables {
        match f(repo) {
            Ok(content) => write_if_changed(&format!("{}/{}.lean", out_dir, name), &content),
            Err(e) => {
                println!("translation-failed:{}: {}", name, e);
                failed = true;
            }
        }
    }
    if failed {
        std::process::exit(3);
    }
}
