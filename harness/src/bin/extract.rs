//! Translator: re-reads /repo's sources (syn) and regenerates the declarative tables of the
//! Lean model (`SplVerif/Gen/*.lean`).  A shape that is not recognised is an error
//! (`translation-failed:<table>`), never a silent default.
use std::collections::BTreeMap;
use std::fmt::Write as _;
use std::fs;
use syn::{Expr, ImplItem, Item, Pat};

type R<T> = Result<T, String>;

fn parse_file(path: &str) -> R<syn::File> {
    let src = fs::read_to_string(path).map_err(|e| format!("{}: {}", path, e))?;
    syn::parse_file(&src).map_err(|e| format!("{}: {}", path, e))
}

fn lean_chars(s: &str) -> String {
    let items: Vec<String> = s
        .chars()
        .map(|c| match c {
            '\'' => "'\\''".to_string(),
            '\\' => "'\\\\'".to_string(),
            '\n' => "'\\n'".to_string(),
            c => format!("'{}'", c),
        })
        .collect();
    format!("[{}]", items.join(", "))
}

/// Names of the variants matched by a pattern (`A | B(_) | C { .. }`).
fn pat_variants(p: &Pat, out: &mut Vec<String>) -> R<()> {
    match p {
        Pat::Or(o) => {
            for c in &o.cases {
                pat_variants(c, out)?;
            }
            Ok(())
        }
        Pat::Ident(i) => {
            out.push(i.ident.to_string());
            Ok(())
        }
        Pat::Path(p) => {
            out.push(p.path.segments.last().unwrap().ident.to_string());
            Ok(())
        }
        Pat::TupleStruct(t) => {
            out.push(t.path.segments.last().unwrap().ident.to_string());
            Ok(())
        }
        Pat::Struct(t) => {
            out.push(t.path.segments.last().unwrap().ident.to_string());
            Ok(())
        }
        Pat::Paren(p) => pat_variants(&p.pat, out),
        _ => Err("unrecognised pattern".to_string()),
    }
}

fn find_fn_in_impl<'a>(file: &'a syn::File, self_ty: &str, trait_name: Option<&str>, fn_name: &str) -> Option<&'a syn::ImplItemFn> {
    for item in &file.items {
        if let Item::Impl(imp) = item {
            let ty_ok = match &*imp.self_ty {
                syn::Type::Path(p) => p.path.segments.last().map(|s| s.ident == self_ty).unwrap_or(false),
                _ => false,
            };
            let tr_ok = match (trait_name, &imp.trait_) {
                (None, None) => true,
                (Some(t), Some((_, path, _))) => path.segments.last().map(|s| s.ident == t).unwrap_or(false),
                (None, Some(_)) => false,
                (Some(_), None) => false,
            };
            if ty_ok && tr_ok {
                for it in &imp.items {
                    if let ImplItem::Fn(f) = it {
                        if f.sig.ident == fn_name {
                            return Some(f);
                        }
                    }
                }
            }
        }
    }
    None
}

fn first_match(block: &syn::Block) -> Option<&syn::ExprMatch> {
    for st in &block.stmts {
        match st {
            syn::Stmt::Expr(Expr::Match(m), _) => return Some(m),
            syn::Stmt::Local(l) => {
                if let Some(init) = &l.init {
                    if let Expr::Match(m) = &*init.expr {
                        return Some(m);
                    }
                }
            }
            _ => {}
        }
    }
    None
}

fn lit_int(e: &Expr) -> Option<u64> {
    match e {
        Expr::Lit(l) => match &l.lit {
            syn::Lit::Int(i) => i.base10_parse().ok(),
            _ => None,
        },
        Expr::Block(b) => {
            // `{ 1 // comment }`
            if b.block.stmts.len() == 1 {
                if let syn::Stmt::Expr(e, None) = &b.block.stmts[0] {
                    return lit_int(e);
                }
            }
            None
        }
        _ => None,
    }
}

const KINDS: &[&str] = &[
    "LParen", "RParen", "LBracket", "RBracket", "LCurly", "RCurly", "Eq", "Neq", "Lt", "Le", "Gt", "Ge",
    "Assign", "Colon", "Comma", "Semic", "Plus", "Minus", "Times", "Divide", "If", "Else", "While", "Array",
    "Of", "Proc", "Ref", "Type", "Var", "Ident", "Char", "Int", "Hex", "Comment", "Unknown", "Eof",
];

fn lex_tables(repo: &str) -> R<String> {
    let tokens = parse_file(&format!("{}/spl_frontend/src/tokens.rs", repo))?;
    let lexer = parse_file(&format!("{}/spl_frontend/src/lexer.rs", repo))?;
    // consts
    let mut consts: BTreeMap<String, String> = BTreeMap::new();
    for item in &tokens.items {
        if let Item::Const(c) = item {
            if let Expr::Lit(l) = &*c.expr {
                if let syn::Lit::Str(s) = &l.lit {
                    consts.insert(c.ident.to_string(), s.value());
                }
            }
        }
    }
    // as_static_str
    let f = find_fn_in_impl(&tokens, "TokenType", None, "as_static_str").ok_or("as_static_str not found")?;
    let m = first_match(&f.block).ok_or("as_static_str: no match")?;
    let mut spelling: Vec<(String, String)> = Vec::new();
    for arm in &m.arms {
        let mut vs = Vec::new();
        if let Pat::Wild(_) = arm.pat {
            continue;
        }
        pat_variants(&arm.pat, &mut vs)?;
        // Some(CONST) | Some("")
        let val = match &*arm.body {
            Expr::Call(c) => {
                let arg = c.args.first().ok_or("as_static_str: Some() without arg")?;
                match arg {
                    Expr::Path(p) => {
                        let name = p.path.segments.last().unwrap().ident.to_string();
                        consts.get(&name).cloned().ok_or(format!("unknown const {}", name))?
                    }
                    Expr::Lit(l) => match &l.lit {
                        syn::Lit::Str(s) => s.value(),
                        _ => return Err("as_static_str: literal".into()),
                    },
                    _ => return Err("as_static_str: arm body".into()),
                }
            }
            _ => return Err("as_static_str: arm body shape".into()),
        };
        for v in vs {
            spelling.push((v, val.clone()));
        }
    }
    // look_ahead
    let f = find_fn_in_impl(&tokens, "TokenType", None, "look_ahead").ok_or("look_ahead not found")?;
    let m = first_match(&f.block).ok_or("look_ahead: no match")?;
    let mut la: BTreeMap<String, u64> = BTreeMap::new();
    for arm in &m.arms {
        let mut vs = Vec::new();
        pat_variants(&arm.pat, &mut vs)?;
        let n = lit_int(&arm.body).ok_or("look_ahead: arm value is not an integer literal")?;
        for v in vs {
            la.insert(v, n);
        }
    }
    for k in KINDS {
        if !la.contains_key(*k) {
            return Err(format!("look_ahead: no arm for {}", k));
        }
    }
    // alt order
    let f = find_fn_in_impl(&lexer, "Token", Some("Lexer"), "lex").ok_or("Token::lex not found")?;
    let mut order: Vec<String> = Vec::new();
    fn walk(e: &Expr, order: &mut Vec<String>) -> R<()> {
        match e {
            Expr::Call(c) => {
                // alt((...))(input)  or alt((...))
                if let Expr::Call(inner) = &*c.func {
                    return walk(&Expr::Call(inner.clone()), order);
                }
                if let Expr::Path(p) = &*c.func {
                    if p.path.segments.last().unwrap().ident == "alt" {
                        if let Some(Expr::Tuple(t)) = c.args.first() {
                            for el in &t.elems {
                                walk(el, order)?;
                            }
                            return Ok(());
                        }
                    }
                }
                Err("Token::lex: unrecognised call".into())
            }
            Expr::Path(p) => {
                let segs: Vec<String> = p.path.segments.iter().map(|s| s.ident.to_string()).collect();
                if segs.len() == 2 && segs[1] == "lex" {
                    let item = match segs[0].as_str() {
                        "Comment" => ".comment",
                        "Char" => ".char",
                        "Hex" => ".hex",
                        "Int" => ".int",
                        "Ident" => ".ident",
                        "Unknown" => ".unknown",
                        other => return Err(format!("Token::lex: unknown lexer {}", other)),
                    };
                    order.push(item.to_string());
                    Ok(())
                } else {
                    Err("Token::lex: unrecognised path".into())
                }
            }
            Expr::Macro(m) => {
                let name = m.mac.path.segments.last().unwrap().ident.to_string();
                let arg: syn::Path = m.mac.parse_body().map_err(|e| e.to_string())?;
                let v = arg.segments.last().unwrap().ident.to_string();
                match name.as_str() {
                    "lex_symbol" => order.push(format!(".symbol .{}", v)),
                    "lex_keyword" => order.push(format!(".keyword .{}", v)),
                    other => return Err(format!("Token::lex: unknown macro {}", other)),
                }
                Ok(())
            }
            _ => Err("Token::lex: unrecognised expression".into()),
        }
    }
    let last = f.block.stmts.last().ok_or("Token::lex: empty")?;
    match last {
        syn::Stmt::Expr(e, _) => walk(e, &mut order)?,
        _ => return Err("Token::lex: body shape".into()),
    }

    let mut out = String::new();
    out.push_str("-- GENERATED by /verif/harness `extract` from /repo/spl_frontend/src/{tokens,lexer}.rs — do not edit.\n");
    out.push_str("import SplVerif.Model.Basic\nnamespace Spl.Gen\n\n");
    out.push_str("def spelling : Kind → Option (List Char)\n");
    for (v, s) in &spelling {
        writeln!(out, "  | .{} => some {}", v, lean_chars(s)).unwrap();
    }
    out.push_str("  | _ => none\n\n");
    out.push_str("def altOrder : List AltItem := [\n");
    out.push_str(&order.iter().map(|s| format!("  {}", s)).collect::<Vec<_>>().join(",\n"));
    out.push_str("]\n\n");
    out.push_str("def lookAhead : Kind → Nat\n");
    for k in KINDS {
        writeln!(out, "  | .{} => {}", k, la[*k]).unwrap();
    }
    out.push_str("\nend Spl.Gen\n");
    Ok(out)
}

fn write_if_changed(path: &str, content: &str) {
    if fs::read_to_string(path).map(|old| old == content).unwrap_or(false) {
        return;
    }
    fs::write(path, content).expect("write generated file");
}

fn main() {
    let args: Vec<String> = std::env::args().collect();
    let repo = args.get(1).map(|s| s.as_str()).unwrap_or("/repo");
    let out_dir = args.get(2).map(|s| s.as_str()).unwrap_or("/verif/lean/SplVerif/Gen");
    let mut failed = false;
    let tables: Vec<(&str, fn(&str) -> R<String>)> = vec![("LexTables", lex_tables)];
    for (name, f) in tables {
        match f(repo) {
            Ok(content) => write_if_changed(&format!("{}/{}.lean", out_dir, name), &content),
            Err(e) => {
                println!("translation-failed:{}: {}", name, e);
                failed = true;
            }
        }
    }
    if failed {
        std::process::exit(3);
    }
}
