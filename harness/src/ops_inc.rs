//! C01 / C02 (update path): AnalyzedSource::update vs AnalyzedSource::new.
use crate::dump;
use crate::gen_prog::{self, Layout};
use crate::gen_text;
use crate::ops_parse;
use crate::rng::Rng;
use crate::wire::*;
use spl_frontend::{AnalyzedSource, ErrorContainer, TextChange};

fn source_str(d: &AnalyzedSource) -> String {
    let errs = d.errors();
    format!("{} ;; {} ;; {}", dump::program(&d.ast), dump::table(&d.table), errs.iter().map(err_str).collect::<String>())
}

fn parse_changes(rest: &[&str]) -> Option<Vec<TextChange>> {
    if rest.len() % 3 != 0 {
        return None;
    }
    let mut v = vec![];
    for c in rest.chunks(3) {
        v.push(TextChange { range: c[0].parse().ok()?..c[1].parse().ok()?, text: unhex_str(c[2])? });
    }
    Some(v)
}

/// A token-aligned edit of `text`: replace / delete / insert whole tokens.
fn token_edit(rng: &mut Rng, text: &str) -> (usize, usize, String) {
    let toks = spl_frontend::lexer::lex(text);
    if toks.len() <= 1 {
        return (0, 0, "x".to_string());
    }
    let i = rng.below(toks.len() - 1);
    let j = (i + rng.below(3)).min(toks.len() - 2);
    let (lo, hi) = match rng.below(4) {
        0 => (toks[i].range.start, toks[i].range.start), // insertion before a token
        1 => (toks[i].range.end, toks[i].range.end),
        _ => (toks[i].range.start, toks[j].range.end),
    };
    let ins = match rng.below(6) {
        0 => String::new(),
        1 => format!(" {} ", rng.pick(gen_prog::TOKEN_ALPHABET)),
        2 => format!("{}", rng.pick(gen_prog::TOKEN_ALPHABET)),
        3 => " x := x + 1; ".to_string(),
        4 => "\n// c\n".to_string(),
        _ => format!(" {} {} ", rng.pick(gen_prog::TOKEN_ALPHABET), rng.pick(gen_prog::TOKEN_ALPHABET)),
    };
    (lo, hi, ins)
}

pub fn gen_edits(rng: &mut Rng, text: &str, n: usize) -> String {
    let mut cur = text.to_string();
    let mut s = String::new();
    for _ in 0..n {
        let (lo, hi, ins) = if rng.chance(1, 12) {
            // replace everything from the first token (or from inside the leading whitespace) to the end
            let first = cur.len() - cur.trim_start().len();
            let lo = if first > 0 && rng.chance(1, 2) { let mut k = 1 + rng.below(first); while !cur.is_char_boundary(k) { k -= 1; } k } else { first };
            (lo, cur.len(), rng.pick(&["x := 1;", "proc main() {}", "", "// c\n", "y"]).to_string())
        } else if rng.chance(1, 6) {
            // a keystroke at the very end of the document (the last token's look-ahead is the end of text)
            let key = *rng.pick(&["'", "'", "a", "/", "=", "<", ":", "0", "x", "\\", "n", " ", "\n", "_", "1", "\u{e9}"]);
            (cur.len(), cur.len(), key.to_string())
        } else if rng.chance(1, 10) {
            // "toggle line comment": `// ` in front of the first non-blank character of a line (the tokens of that
            // line become ONE comment; a line with a single token keeps the number of tokens), or its removal
            let starts: Vec<usize> = std::iter::once(0).chain(cur.match_indices('\n').map(|(k, _)| k + 1)).collect();
            let ls = *rng.pick(&starts);
            let rest = &cur[ls..];
            let ind = rest.len() - rest.trim_start_matches(|c: char| c == ' ' || c == '\t').len();
            let at = ls + ind;
            if cur[at..].starts_with("// ") {
                (at, at + 3, String::new())
            } else if cur[at..].starts_with("//") {
                (at, at + 2, String::new())
            } else {
                (at, at, "// ".to_string())
            }
        } else if rng.chance(1, 10) {
            // an insertion of nothing but "white space" (for SPL, or only for Unicode) between two tokens or lines
            const WS: &[&str] = &[" ", "\n", "\t", "\r\n", "\u{a0}", "\u{c}", "\u{b}", "\u{85}", "\u{2028}", "\u{3000}", "    "];
            let (lo, _) = gen_text::char_range(rng, &cur);
            (lo, lo, (0..rng.range(1, 3)).map(|_| *rng.pick(WS)).collect::<String>())
        } else if rng.chance(2, 3) {
            token_edit(rng, &cur)
        } else {
            let (lo, hi) = gen_text::char_range(rng, &cur);
            (lo, hi, gen_text::soup(rng, 2))
        };
        s.push_str(&format!(" {} {} {}", lo, hi, hex_str(&ins)));
        cur.replace_range(lo..hi, &ins);
    }
    s
}

pub fn gen_c01(rng: &mut Rng, n: usize, out: &mut Vec<String>) {
    for i in 0..n {
        let text = match i % 5 {
            0 | 1 => {
                let prog = gen_prog::gen(rng, 2, 3, 2);
                let lo = Layout { comment_pct: if i % 2 == 0 { 0 } else { 10 }, comment_gaps: Some(gen_prog::LEADING_GAPS), compact: rng.chance(1, 2) };
                gen_prog::layout(rng, &prog.toks, &lo).0
            }
            2 => ops_parse::gen_broken_text(rng),
            3 => gen_text::lexemes(rng, 12),
            _ => gen_text::soup(rng, 10),
        };
        let k = if i % 3 == 0 { rng.range(2, 4) } else { 1 };
        let edits = gen_edits(rng, &text, k);
        out.push(format!("INC {}{}", hex_str(&text), edits));
        out.push(format!("PROPINC {}{}", hex_str(&text), edits));
    }
}

/// C02: arbitrary / broken / mutated documents through new() and through edit histories.
pub fn gen_c02(rng: &mut Rng, n: usize, out: &mut Vec<String>) {
    for i in 0..n {
        let text = match i % 6 {
            0 => gen_text::soup(rng, 30),
            1 => ops_parse::gen_broken_text(rng),
            2 => {
                let k = rng.below(40);
                (0..k).map(|_| *rng.pick(gen_prog::TOKEN_ALPHABET)).collect::<Vec<_>>().join(" ")
            }
            3 => {
                // deep nesting: parentheses and if-blocks, or one recursive construct repeated without its closing parts
                // (every repetition is one more level of recursive descent for a single token)
                let d = rng.range(1, 64);
                match rng.below(6) {
                    0 => format!("type t = {}int;", "array ".repeat(d)),
                    1 => format!("proc main(){{ x := {}1; }}", "- ".repeat(d)),
                    2 => format!("proc main(){{ x := {}; }}", "a[".repeat(d)),
                    3 => format!("proc main(){{ {} }}", "if (1) while (1) ".repeat(d)),
                    4 => format!("proc main(){{ {} }} type u = {}", "{ ".repeat(d), "array [ 1 ] of ".repeat(d)),
                    _ => format!("proc main(){{ x := {}1{}; {}{} }}", "(".repeat(d), ")".repeat(rng.below(d + 1)), "if(1=1){".repeat(d), "}".repeat(rng.below(d + 1))),
                }
            }
            4 => gen_text::lexemes(rng, 20).replace('\n', "\r\n"),
            _ => ops_parse::gen_valid_text(rng, 10, true),
        };
        out.push(format!("NEW {}", hex_str(&text)));
        if i % 4 == 2 {
            // the diagnostics as the broker publishes them (ranges converted, messages formatted)
            out.push(format!("PUB {}", hex_str(&text)));
        }
        if i % 3 == 1 {
            // every request handler on THIS text (soup, broken programs, token lists, deep nesting, lexeme lists):
            // the position-free ones, and the others at positions on character boundaries and outside the text
            let h = hex_str(&text);
            out.push(format!("SEM {}", h));
            out.push(format!("FOLD {}", h));
            out.push(format!("FMT {} {} {}", h, rng.below(2), rng.below(9)));
            for _ in 0..2 {
                let (l, c) = if rng.chance(1, 6) || text.is_empty() {
                    (rng.below(8) as u32, rng.below(40) as u32)
                } else {
                    let mut off = rng.below(text.len() + 1);
                    while !text.is_char_boundary(off) {
                        off -= 1;
                    }
                    crate::ops_feat::lsp_pos(&text, off)
                };
                for op in ["HOV", "SIG", "COMP", "REFS", "PREP"] {
                    out.push(format!("{} {} {} {}", op, h, l, c));
                }
                out.push(format!("GOTO {} {} {} {}", rng.pick(&["decl", "typedef", "impl"]), h, l, c));
                out.push(format!("REN {} {} {} {}", h, l, c, hex_str("renamed_1")));
            }
        }
        if i % 10 == 9 {
            // prose in front of a program (a comment that lost its `//`): long runs of skipped text with multi-byte
            // characters at every offset
            const WORDS: &[&str] = &["Dieses", "Programm", "berechnet", "eine", "Größe", "des", "größten", "Feldes", "für", "naïve", "Übung",
                "über", "é", "€uro", "señor", "x", "ab", "proc", "zähle", "Straße", "日本", "😀", "ok"];
            let pad = "a".repeat(rng.below(5));
            // short lines, and long ones (messages that repeat the skipped text get long: 100, 200, 500 bytes and more)
            let nwords = if rng.chance(1, 2) { rng.range(5, 14) } else { rng.range(15, 120) };
            let line = (0..nwords).map(|_| *rng.pick(WORDS)).collect::<Vec<_>>().join(" ");
            let t = format!("{}{}\nproc main() {{\n  {}\n}}\n", pad, line, if rng.chance(1, 2) { "x := 1;" } else { "" });
            out.push(format!("NEW {}", hex_str(&t)));
            out.push(format!("PUB {}", hex_str(&t)));
        }
        if i % 40 == 21 {
            // documentation blocks whose length passes a power of two inside a multi-byte character (a cap, a buffer
            // or a truncation at such a size must not cut a character): declarations, parameters and variables
            // (the two large sizes rarely: a 64 KiB block costs seconds in the model)
            let cap = if rng.chance(1, 12) { 16384usize } else { *rng.pick(&[64usize, 128, 256, 512, 1024, 2048, 4096, 8192]) };
            let wide = *rng.pick(&["\u{e4}", "\u{20ac}", "\u{1F600}"]);
            let width = 40 + rng.below(60);
            let mut doc = String::new();
            let mut total = 0usize;
            // every line contributes its text and its line feed; aim the wide character at the boundary, with a
            // small random displacement to cover the ways the pieces may be joined
            let target = cap - 1 - rng.below(3) + rng.below(4);
            while total + width + 4 < target {
                doc.push_str("// ");
                doc.push_str(&"x".repeat(width));
                doc.push('\n');
                total += width + 2;
            }
            let fill = target.saturating_sub(total + 1 + 3 * wide.len());
            doc.push_str("// ");
            doc.push_str(&"y".repeat(fill));
            // a run of wide characters around the boundary (however the pieces are joined, the cut falls inside one)
            doc.push_str(&wide.repeat(8));
            doc.push_str(" end\n");
            let t = match rng.below(3) {
                0 => format!("{}proc main() {{\n  var x: int;\n  x := 1;\n}}\n", doc),
                1 => format!("{}type t = int;\nproc main() {{\n  var x: t;\n  x := 1;\n}}\n", doc),
                _ => format!("proc main() {{\n{}  var x: int;\n  x := 1;\n}}\n", doc),
            };
            let h = hex_str(&t);
            out.push(format!("NEW {}", h));
            out.push(format!("PUB {}", h));
            let line = t.matches('\n').count() as u32 - 2;
            for op in ["HOV", "COMP", "SIG"] {
                out.push(format!("{} {} {} {}", op, h, line, 2));
            }
        }
        if i % 16 == 3 {
            // every request handler on generated programs (valid, and mutated into broken ones), at identifier
            // and non-identifier positions: a panic in a handler kills the server
            crate::ops_feat::gen_feature_cases(rng, 1, &["FMT", "HOV", "GOTO", "SIG", "COMP", "FOLD", "SEM", "REFS", "REN", "PREP"], 40, out);
        }
        if i % 100 == 7 {
            crate::ops_feat::gen_predefined_name_cases(rng, out);
        }
        if i % 50 == 11 {
            // valid corner programs (leading white space, comments between keyword and name, nested calls), every
            // handler at every identifier, at 0:0 and behind every `(` and `,`
            let mut tmp = vec![];
            let w = (i / 50) * 4 + rng.below(4);
            crate::ops_feat::gen_corner_docs(rng, w, &mut tmp);
            out.extend(tmp.into_iter().filter(|l| !l.starts_with("SPEC") && !l.starts_with("JUDGE")));
        }
        if i % 8 == 5 {
            // a valid program with one violation of one SPL rule injected (the diagnostics of every rule, with their
            // ranges, are built, collected and published), opened and then edited
            let prog = gen_prog::gen(rng, 3, 3, 2);
            let class = *rng.pick(crate::ops_sem::FAULT_CLASSES);
            if let Some((toks, _, _, _)) = crate::ops_sem::inject(rng, &prog, class) {
                let lo = Layout { comment_pct: 5, comment_gaps: Some(gen_prog::LEADING_GAPS), compact: rng.chance(1, 2) };
                let t = gen_prog::layout(rng, &toks, &lo).0;
                out.push(format!("NEW {}", hex_str(&t)));
                let edits = gen_edits(rng, &t, 1);
                out.push(format!("INC {}{}", hex_str(&t), edits));
            }
        }
        if i % 4 == 1 {
            // the document layer: batched content changes (ranged and full-text, each relative to its
            // predecessor) through to_text_changes + replace_range; a panic here kills the broker task
            let mut tmp = vec![];
            crate::ops_doc::gen_c08(rng, 2, &mut tmp);
            out.extend(tmp.into_iter().filter(|l| l.starts_with("CHG ")));
        }
        if i % 2 == 0 {
            let k = rng.range(1, 5);
            let edits = gen_edits(rng, &text, k);
            out.push(format!("INC {}{}", hex_str(&text), edits));
        }
    }
}

pub fn run(op: &str, args: &[&str]) -> Option<String> {
    match op {
        "INC" => {
            let text = unhex_str(args.first()?)?;
            let cs = parse_changes(&args[1..])?;
            let d = AnalyzedSource::new(text).update(cs);
            Some(source_str(&d))
        }
        "PROPINCTEXT" => {
            // only the text layer of update (C08); a panic of the tree layer is C02's business
            let text = unhex_str(args.first()?)?;
            let cs = parse_changes(&args[1..])?;
            let mut expected = text.clone();
            for c in &cs {
                if c.range.start > c.range.end || c.range.end > expected.len() || !expected.is_char_boundary(c.range.start) || !expected.is_char_boundary(c.range.end) {
                    return Some("ok".into());
                }
                expected.replace_range(c.range.clone(), &c.text);
            }
            let d = AnalyzedSource::new(text);
            match std::panic::catch_unwind(move || d.update(cs)) {
                Ok(u) => Some(if u.text == expected { "ok".into() } else { "bad:text".into() }),
                Err(_) => {
                    let _ = crate::LAST_PANIC.lock().unwrap().take();
                    Some("ok".into())
                }
            }
        }
        "PROPINC" => {
            let text = unhex_str(args.first()?)?;
            let cs = parse_changes(&args[1..])?;
            // the text the client holds: the changes applied to the plain string
            let mut expected = text.clone();
            for c in &cs {
                if c.range.start > c.range.end || c.range.end > expected.len() || !expected.is_char_boundary(c.range.start) || !expected.is_char_boundary(c.range.end) {
                    break;
                }
                expected.replace_range(c.range.clone(), &c.text);
            }
            let d = AnalyzedSource::new(text);
            let u = match std::panic::catch_unwind(move || d.update(cs)) {
                Ok(u) => u,
                Err(_) => {
                    let msg = crate::LAST_PANIC.lock().unwrap().take().unwrap_or_default();
                    return Some(format!("bad:update:{}", panic_site(&msg)));
                }
            };
            let f = AnalyzedSource::new(u.text.clone());
            Some(if u.text != expected {
                "bad:text".into()
            } else if toks_str(&u.tokens) != toks_str(&f.tokens) {
                "bad:tokens".into()
            } else if dump::program(&u.ast) != dump::program(&f.ast) {
                "bad:tree".into()
            } else if dump::table(&u.table) != dump::table(&f.table) {
                "bad:table".into()
            } else if source_str(&u) != source_str(&f) {
                "bad:diagnostics".into()
            } else {
                "ok".into()
            })
        }
        _ => None,
    }
}
